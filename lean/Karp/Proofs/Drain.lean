/-
Helper lemmas for C10 (queue as association list, `earlier`, tiers of a drain pass).
-/
import Karp.Model.Drain
import Karp.Spec.Drain

namespace Karp.Drain
open Karp.Spec.Drain

/-! ### the queue as a finite map -/

theorem qget_nil (k : Nat) : qget [] k = none := rfl

theorem qget_cons (a : Nat × Option Int) (q : Items) (k : Nat) :
    qget (a :: q) k = if k = a.1 then some a.2 else qget q k := by
  unfold qget
  rw [List.lookup_cons]
  by_cases h : k = a.1
  · simp [h]
  · have : (k == a.1) = false := by simp [h]
    simp [this, h]

theorem qget_qerase_self (q : Items) (k : Nat) : qget (qerase q k) k = none := by
  induction q with
  | nil => rfl
  | cons a q ih =>
    unfold qerase at *
    by_cases h : a.1 = k
    · simp [h, ih]
    · have hk : ¬ k = a.1 := fun e => h e.symm
      simp [h, qget_cons, hk, ih]

theorem qget_qerase_ne (q : Items) (k k' : Nat) (hne : k' ≠ k) : qget (qerase q k) k' = qget q k' := by
  induction q with
  | nil => rfl
  | cons a q ih =>
    unfold qerase at *
    rw [qget_cons, List.filter_cons]
    by_cases h : a.1 = k
    · have hk : ¬ k' = a.1 := fun e => hne (e.trans h)
      have hb : (a.1 != k) = false := by simp [h]
      simp only [hb, Bool.false_eq_true, if_false, hk]
      exact ih
    · have hb : (a.1 != k) = true := by simp [h]
      simp only [hb, if_true]
      rw [qget_cons, ih]

theorem qget_qerase (q : Items) (k k' : Nat) :
    qget (qerase q k) k' = if k' = k then none else qget q k' := by
  by_cases h : k' = k
  · subst h; simp [qget_qerase_self]
  · simp [h, qget_qerase_ne q k k' h]

theorem qget_qput (q : Items) (k k' : Nat) (v : Option Int) :
    qget (qput q k v) k' = if k' = k then some v else qget q k' := by
  unfold qput
  rw [qget_cons]
  by_cases h : k' = k
  · simp [h]
  · simp [h, qget_qerase_ne q k k' h]

theorem qget_qadd1 (q : Items) (d : Option Int) (k k' : Nat) :
    qget (qadd1 q d k) k' = if k' = k then some (earlier ((qget q k).getD none) d) else qget q k' := by
  unfold qadd1; rw [qget_qput]

/-! ### `earlier` is the minimum with `none` = +∞ -/

theorem earlier_eq_dmin (a b : Option Int) : earlier a b = dmin a b := by
  cases a <;> cases b <;> simp [earlier, dmin, dle]
  rename_i x y
  by_cases h : x < y
  · have : x ≤ y := by omega
    simp [h, this]
  · by_cases h2 : x ≤ y
    · have : x = y := by omega
      simp [this]
    · simp [h, h2]

theorem dle_refl (a : Option Int) : dle a a = true := by
  cases a <;> simp [dle]

theorem dle_trans {a b c : Option Int} (h1 : dle a b = true) (h2 : dle b c = true) : dle a c = true := by
  cases a <;> cases b <;> cases c <;> simp [dle] at * <;> omega

theorem dle_dmin_left (a b : Option Int) : dle (dmin a b) a = true := by
  cases a <;> cases b <;> simp [dmin, dle]
  rename_i x y
  by_cases h : x ≤ y <;> simp [h] <;> omega

theorem dle_dmin_right (a b : Option Int) : dle (dmin a b) b = true := by
  cases a <;> cases b <;> simp [dmin, dle]
  rename_i x y
  by_cases h : x ≤ y <;> simp [h]

theorem dmin_eq_or (a b : Option Int) : dmin a b = a ∨ dmin a b = b := by
  unfold dmin; by_cases h : dle a b = true <;> simp [h]

theorem dmin_idem_right (a b : Option Int) : dmin (dmin a b) b = dmin a b := by
  cases a <;> cases b <;> simp [dmin, dle]
  rename_i x y
  by_cases h : x ≤ y <;> simp [h]

/-- greatest lower bound -/
theorem dle_dmin_of {c a b : Option Int} (h1 : dle c a = true) (h2 : dle c b = true) : dle c (dmin a b) = true := by
  rcases dmin_eq_or a b with h | h <;> rw [h] <;> assumption

theorem qget_qaddAll (d : Option Int) (ks : List Nat) : ∀ (q : Items) (k : Nat),
    qget (qaddAll q d ks) k = if k ∈ ks then some (dmin ((qget q k).getD none) d) else qget q k := by
  induction ks with
  | nil => intro q k; simp [qaddAll]
  | cons a ks ih =>
    intro q k
    simp only [qaddAll]
    rw [ih, qget_qadd1]
    by_cases hka : k = a
    · subst hka
      by_cases hin : k ∈ ks
      · simp [hin, earlier_eq_dmin, dmin_idem_right]
      · simp [hin, earlier_eq_dmin]
    · by_cases hin : k ∈ ks
      · simp [hin, hka]
      · simp [hin, hka]

theorem mem_keys_iff (q : Items) (k : Nat) : k ∈ keys q ↔ (qget q k).isSome = true := by
  induction q with
  | nil => simp [keys, qget_nil]
  | cons a q ih =>
    rw [qget_cons]
    unfold keys at *
    by_cases h : k = a.1
    · simp [h]
    · simp [h, ih]


theorem qaddAll_append (d : Option Int) (a b : List Nat) : ∀ q : Items,
    qaddAll (qaddAll q d a) d b = qaddAll q d (a ++ b) := by
  induction a with
  | nil => intro q; rfl
  | cons x a ih => intro q; simp only [qaddAll, List.cons_append]; exact ih _

/-! ### predicates: the model's against the specification's -/

theorem stuckBuffer_eq : stuckBuffer = 60 * sec := by decide

theorem dndActive_eq_protectedNow (p : Pod) (now : Int) : dndActive p now = protectedNow p now := by
  unfold dndActive protectedNow
  cases p.dnd with
  | absent => rfl
  | forever => rfl
  | invalid => rfl
  | dur d =>
    cases p.start with
    | none => rfl
    | some s =>
      show decide (now - s < d) = decide (now < s + d)
      by_cases h : now - s < d
      · have : now < s + d := by omega
        simp [h, this]
      · have : ¬ now < s + d := by omega
        simp [h, this]

/-- the model's `isEvictable` is the property's "may be evicted" -/
theorem isEvictable_eq_mayEvict (p : Pod) (now : Int) : isEvictable p now = mayEvict p now := by
  unfold isEvictable mayEvict isActive isTerminating untouchable
  rw [dndActive_eq_protectedNow]
  cases p.terminal <;> cases p.del <;> cases p.tolerates <;> cases p.static <;> simp

theorem isStuckTerminating_eq_lingering (p : Pod) (now : Int) : isStuckTerminating p now = lingering p now := by
  unfold isStuckTerminating lingering
  cases p.del with
  | none => rfl
  | some dt =>
    show decide (now - dt > stuckBuffer) = decide (dt + 60 * sec < now)
    rw [stuckBuffer_eq]
    by_cases h : now - dt > 60 * sec
    · have : dt + 60 * sec < now := by omega
      simp [h, this]
    · have : ¬ dt + 60 * sec < now := by omega
      simp [h, this]

theorem waiting_eq_mustWait (p : Pod) (now : Int) : (p.onNode && isWaitingEviction p now) = mustWait p now := by
  unfold isWaitingEviction isDrainable mustWait untouchable
  rw [isStuckTerminating_eq_lingering]
  cases p.onNode <;> cases p.terminal <;> cases p.tolerates <;> cases p.static <;> cases lingering p now <;> rfl

theorem needsForceDelete_eq_strictlyPastD (p : Pod) (D : Option Int) (now : Int) :
    needsForceDelete p D now = strictlyPastD p D now := by
  unfold needsForceDelete strictlyPastD strictlyPastThreshold ownGraceEnd
  cases D with
  | none => rfl
  | some d =>
    cases hd : p.del with
    | some dt =>
      show decide (dt > d) = decide (d < dt)
      rfl
    | none =>
      cases hg : p.grace with
      | none => rfl
      | some g =>
        show decide (now > d - g * sec) = decide (d < now + g * sec)
        by_cases h : now > d - g * sec
        · have : d < now + g * sec := by omega
          simp [h, this]
        · have : ¬ d < now + g * sec := by omega
          simp [h, this]

theorem pastD_of_strictlyPastD (p : Pod) (D : Option Int) (now : Int) (h : strictlyPastD p D now = true) :
    pastD p D now = true := by
  unfold strictlyPastD strictlyPastThreshold at h
  unfold pastD pastThreshold
  cases D with
  | none => simp at h
  | some d =>
    cases he : ownGraceEnd p now with
    | none => simp [he] at h
    | some e =>
      simp [he] at h ⊢
      omega

/-! ### a reconcile only ever drops the reconciled pod's entry -/

theorem onlyDrops_refl (q : Items) (u : Nat) : onlyDrops q q u = true := by
  unfold onlyDrops; simp

theorem onlyDrops_qerase (q : Items) (u : Nat) : onlyDrops q (qerase q u) u = true := by
  unfold onlyDrops
  simp only [Bool.and_eq_true, List.all_eq_true]
  constructor
  · intro k hk
    have hs := (mem_keys_iff _ _).mp hk
    have hne : k ≠ u := by
      intro e; subst e; rw [qget_qerase_self] at hs; simp at hs
    simp [qget_qerase_ne q u k hne]
  · intro k _
    by_cases h : k = u
    · simp [h]
    · simp [qget_qerase_ne q u k h]

theorem reconcile_items (q : Items) (p : Pod) (now : Int) (ea : EvictAns) (da : DeleteAns) :
    (reconcile q p now ea da).2.2 = q ∨ (reconcile q p now ea da).2.2 = qerase q p.uid := by
  unfold reconcile
  cases qget q p.uid with
  | none => simp
  | some D =>
    simp only
    by_cases hf : needsForceDelete p D now = true
    · simp only [hf, if_true]; cases da <;> simp
    · simp only [hf]
      by_cases ha : isActive p = true
      · by_cases he : isEvictable p now = true
        · cases ea <;> simp [ha, he]
        · simp [ha, he]
      · simp [ha]

/-! ### tiers of a drain pass -/

theorem mem_waitingPods (pods : List Pod) (now : Int) (p : Pod) :
    p ∈ waitingPods pods now ↔ p ∈ pods ∧ mustWait p now = true := by
  unfold waitingPods
  rw [List.mem_filter, waiting_eq_mustWait]

theorem mem_deleteEligible (pods : List Pod) (D : Option Int) (now : Int) (p : Pod) :
    p ∈ deleteEligible pods D now ↔ p ∈ pods ∧ mustWait p now = true ∧ strictlyPastD p D now = true := by
  unfold deleteEligible
  rw [List.mem_filter, mem_waitingPods, needsForceDelete_eq_strictlyPastD, and_assoc]

theorem mem_gracefulCandidates (pods : List Pod) (D : Option Int) (now : Int) (p : Pod) :
    p ∈ gracefulCandidates pods D now ↔ p ∈ pods ∧ mustWait p now = true ∧ strictlyPastD p D now = false := by
  unfold gracefulCandidates
  rw [List.mem_filter, mem_waitingPods, needsForceDelete_eq_strictlyPastD, and_assoc]
  simp

/-- position of a class in an order -/
def rankIn (ord : List (Bool × Bool)) (c : Bool × Bool) : Nat := ord.idxOf c

/-- generic tier gate: a member of the first non-empty bucket has the least rank among all pods whose class
    occurs in the order -/
theorem firstNonEmpty_least (l : List Pod) : ∀ (ord : List (Bool × Bool)) (p : Pod),
    p ∈ firstNonEmpty (ord.map (fun c => l.filter (fun p => cls p == c))) →
      p ∈ l ∧ cls p ∈ ord ∧ ∀ p' ∈ l, cls p' ∈ ord → rankIn ord (cls p) ≤ rankIn ord (cls p') := by
  intro ord
  induction ord with
  | nil => intro p h; simp [firstNonEmpty] at h
  | cons c cs ih =>
    intro p h
    simp only [List.map_cons, firstNonEmpty] at h
    by_cases hg : (l.filter (fun p => cls p == c)).isEmpty = true
    · simp only [hg, if_true] at h
      obtain ⟨hl, hc, hle⟩ := ih p h
      have hempty : ∀ x ∈ l, cls x ≠ c := by
        intro x hx hcx
        have : x ∈ l.filter (fun p => cls p == c) := by
          rw [List.mem_filter]; exact ⟨hx, by simp [hcx]⟩
        rw [List.isEmpty_iff] at hg
        rw [hg] at this; simp at this
      refine ⟨hl, List.mem_cons_of_mem _ hc, ?_⟩
      intro p' hp' hc'
      have hne' := hempty p' hp'
      have hne := hempty p hl
      have hc'' : cls p' ∈ cs := by
        rcases List.mem_cons.mp hc' with e | e
        · exact absurd e hne'
        · exact e
      have := hle p' hp' hc''
      unfold rankIn at *
      have e1 : (c == cls p) = false := by simp [Ne.symm hne]
      have e2 : (c == cls p') = false := by simp [Ne.symm hne']
      rw [List.idxOf_cons, List.idxOf_cons, e1, e2]
      simp only [cond_false]
      omega
    · have hg' : (l.filter (fun p => cls p == c)).isEmpty = false := by simpa using hg
      simp only [hg', Bool.false_eq_true, if_false] at h
      rw [List.mem_filter] at h
      have hc : cls p = c := by simpa using h.2
      refine ⟨h.1, by simp [hc], ?_⟩
      intro p' _ _
      unfold rankIn
      rw [hc, List.idxOf_cons_self]
      omega

/-- a pod of the first class of the order is always in the first non-empty bucket -/
theorem firstNonEmpty_head (l : List Pod) (c : Bool × Bool) (cs : List (Bool × Bool)) (p : Pod)
    (hp : p ∈ l) (hc : cls p = c) :
    p ∈ firstNonEmpty ((c :: cs).map (fun c => l.filter (fun p => cls p == c))) := by
  simp only [List.map_cons, firstNonEmpty]
  have hm : p ∈ l.filter (fun p => cls p == c) := by
    rw [List.mem_filter]; exact ⟨hp, by simp [hc]⟩
  have hne : (l.filter (fun p => cls p == c)).isEmpty = false := by
    cases hl : l.filter (fun p => cls p == c) with
    | nil => rw [hl] at hm; simp at hm
    | cons _ _ => rfl
  simp only [hne]
  exact hm

/-- if every pod's class occurs in the order, the first non-empty bucket is empty only if there is no pod -/
theorem firstNonEmpty_nil (l : List Pod) : ∀ (ord : List (Bool × Bool)),
    firstNonEmpty (ord.map (fun c => l.filter (fun p => cls p == c))) = [] →
      ∀ p ∈ l, cls p ∉ ord := by
  intro ord
  induction ord with
  | nil => intro _ p _; simp
  | cons c cs ih =>
    intro h p hp
    simp only [List.map_cons, firstNonEmpty] at h
    by_cases hg : (l.filter (fun p => cls p == c)).isEmpty = true
    · simp only [hg, if_true] at h
      have := ih h p hp
      intro hmem
      rcases List.mem_cons.mp hmem with e | e
      · have hm : p ∈ l.filter (fun p => cls p == c) := by
          rw [List.mem_filter]; exact ⟨hp, by simp [e]⟩
        rw [List.isEmpty_iff] at hg
        rw [hg] at hm; simp at hm
      · exact this e
    · have hg' : (l.filter (fun p => cls p == c)).isEmpty = false := by simpa using hg
      simp only [hg', Bool.false_eq_true, if_false] at h
      rw [h] at hg; simp at hg

theorem cls_mem_tierOrder (p : Pod) : cls p ∈ Karp.Gen.C10Drain.tierOrder := by
  unfold cls
  cases p.critical <;> cases p.daemon <;> decide


theorem tierOrder_eq : Karp.Gen.C10Drain.tierOrder = (false, false) :: [(false, true), (true, false), (true, true)] := by decide

theorem mem_firstGroup_graceful (pods : List Pod) (D : Option Int) (now : Int) (p : Pod)
    (h : p ∈ firstNonEmpty (groups (gracefulCandidates pods D now))) :
    p ∈ gracefulCandidates pods D now :=
  (firstNonEmpty_least _ _ p h).1

/-- a daemon or critical pod is in the first non-empty bucket only if every graceful candidate is daemon or critical -/
theorem firstGroup_late (pods : List Pod) (D : Option Int) (now : Int) (p : Pod)
    (h : p ∈ firstNonEmpty (groups (gracefulCandidates pods D now))) (hl : late p = true) :
    ∀ p' ∈ gracefulCandidates pods D now, late p' = true := by
  intro p' hp'
  have := (firstNonEmpty_least _ _ p h).2.2 p' hp' (cls_mem_tierOrder p')
  revert this hl
  unfold rankIn late cls
  cases p.critical <;> cases p.daemon <;> cases p'.critical <;> cases p'.daemon <;> decide

theorem firstGroup_of_early (pods : List Pod) (D : Option Int) (now : Int) (p : Pod)
    (hp : p ∈ gracefulCandidates pods D now) (hl : late p = false) :
    p ∈ firstNonEmpty (groups (gracefulCandidates pods D now)) := by
  unfold groups
  rw [tierOrder_eq]
  apply firstNonEmpty_head _ _ _ _ hp
  revert hl; unfold late cls
  cases p.critical <;> cases p.daemon <;> simp

theorem firstGroup_nil (pods : List Pod) (D : Option Int) (now : Int)
    (h : firstNonEmpty (groups (gracefulCandidates pods D now)) = []) :
    gracefulCandidates pods D now = [] := by
  cases hg : gracefulCandidates pods D now with
  | nil => rfl
  | cons p rest =>
    exfalso
    have := firstNonEmpty_nil _ _ h p (by rw [hg]; simp)
    exact this (cls_mem_tierOrder p)

theorem mem_enqueued (pods : List Pod) (D : Option Int) (now : Int) (p : Pod) :
    p ∈ enqueued pods D now ↔
      p ∈ deleteEligible pods D now ∨ p ∈ firstNonEmpty (groups (gracefulCandidates pods D now)) := by
  unfold enqueued; rw [List.mem_append]

theorem drain_items (q : Items) (pods : List Pod) (D : Option Int) (now : Int) :
    (drain q pods D now).1 = qaddAll q D ((enqueued pods D now).map (·.uid)) := by
  unfold drain enqueued
  simp only [List.map_append]
  rw [← qaddAll_append]
  by_cases hg : (firstNonEmpty (groups (gracefulCandidates pods D now))).isEmpty = true
  · simp only [hg, Bool.not_true, Bool.false_eq_true, if_false]
    rw [List.isEmpty_iff] at hg
    rw [hg]; rfl
  · have hg' : (firstNonEmpty (groups (gracefulCandidates pods D now))).isEmpty = false := by simpa using hg
    simp only [hg', Bool.not_false, if_true]

/-- the queue after a drain pass, pointwise -/
theorem qget_drain (q : Items) (pods : List Pod) (D : Option Int) (now : Int) (k : Nat) :
    qget (drain q pods D now).1 k =
      if k ∈ (enqueued pods D now).map (·.uid) then some (dmin ((qget q k).getD none) D) else qget q k := by
  rw [drain_items, qget_qaddAll]

theorem filter_split_nil {α : Type} (l : List α) (f : α → Bool)
    (h1 : l.filter f = []) (h2 : l.filter (fun x => !f x) = []) : l = [] := by
  cases l with
  | nil => rfl
  | cons a l =>
    exfalso
    by_cases ha : f a = true
    · simp [ha] at h1
    · simp [ha] at h2

/-- `Drain` returns a drain error exactly when some pod is still waited for -/
theorem drain_verdict (q : Items) (pods : List Pod) (D : Option Int) (now : Int) :
    (drain q pods D now).2 = !(waitingPods pods now).isEmpty := by
  unfold drain
  by_cases hg : (firstNonEmpty (groups (gracefulCandidates pods D now))).isEmpty = true
  · simp only [hg, Bool.not_true, Bool.false_eq_true, if_false]
    rw [List.isEmpty_iff] at hg
    have hgc := firstGroup_nil pods D now hg
    by_cases hde : (deleteEligible pods D now).isEmpty = true
    · rw [hde]
      rw [List.isEmpty_iff] at hde
      have : waitingPods pods now = [] := by
        apply filter_split_nil _ (fun p => needsForceDelete p D now)
        · exact hde
        · exact hgc
      rw [this]; rfl
    · have hde' : (deleteEligible pods D now).isEmpty = false := by simpa using hde
      rw [hde']
      cases hw : waitingPods pods now with
      | nil => unfold deleteEligible at hde'; rw [hw] at hde'; simp at hde'
      | cons _ _ => rfl
  · have hg' : (firstNonEmpty (groups (gracefulCandidates pods D now))).isEmpty = false := by simpa using hg
    simp only [hg', Bool.not_false, if_true]
    cases hf : firstNonEmpty (groups (gracefulCandidates pods D now)) with
    | nil => rw [hf] at hg'; simp at hg'
    | cons p rest =>
      have hp : p ∈ gracefulCandidates pods D now := mem_firstGroup_graceful pods D now p (by rw [hf]; simp)
      unfold gracefulCandidates at hp
      rw [List.mem_filter] at hp
      cases hw : waitingPods pods now with
      | nil => rw [hw] at hp; simp at hp
      | cons _ _ => rfl

/-- every pod a drain pass hands to the queue is one the specification admits -/
theorem enqueued_ok (pods : List Pod) (D : Option Int) (now : Int) (p : Pod) (h : p ∈ enqueued pods D now) :
    p ∈ pods ∧ enqueueOK pods p D now = true := by
  rw [mem_enqueued] at h
  rcases h with h | h
  · rw [mem_deleteEligible] at h
    refine ⟨h.1, ?_⟩
    unfold enqueueOK
    simp [h.2.1, pastD_of_strictlyPastD p D now h.2.2]
  · have hgc := mem_firstGroup_graceful pods D now p h
    have hgc' := (mem_gracefulCandidates pods D now p).mp hgc
    refine ⟨hgc'.1, ?_⟩
    unfold enqueueOK
    by_cases hl : late p = true
    · have hall := firstGroup_late pods D now p h hl
      have : pods.all (fun p' => !(mustWait p' now && !pastD p' D now) || late p') = true := by
        rw [List.all_eq_true]
        intro p' hp'
        by_cases hm : mustWait p' now = true
        · by_cases hpd : pastD p' D now = true
          · simp [hpd]
          · have hs : strictlyPastD p' D now = false := by
              cases hsp : strictlyPastD p' D now with
              | false => rfl
              | true => exact absurd (pastD_of_strictlyPastD p' D now hsp) hpd
            have := hall p' ((mem_gracefulCandidates pods D now p').mpr ⟨hp', hm, hs⟩)
            simp [this]
        · simp [hm]
      simp only [hgc'.2.1, this, Bool.true_and, Bool.or_true]
    · simp [hgc'.2.1, hl]

/-- every pod the specification requires to be queued is handed to the queue -/
theorem due_enqueued (pods : List Pod) (D : Option Int) (now : Int) (p : Pod) (hp : p ∈ pods)
    (h : enqueueDue p D now = true) : p ∈ enqueued pods D now := by
  unfold enqueueDue at h
  simp only [Bool.and_eq_true, Bool.or_eq_true, Bool.not_eq_true'] at h
  rw [mem_enqueued]
  by_cases hs : strictlyPastD p D now = true
  · left; exact (mem_deleteEligible pods D now p).mpr ⟨hp, h.1, hs⟩
  · right
    have hs' : strictlyPastD p D now = false := by simpa using hs
    have hl : late p = false := by
      rcases h.2 with hl | hl
      · exact hl
      · exact absurd hl hs
    exact firstGroup_of_early pods D now p ((mem_gracefulCandidates pods D now p).mpr ⟨hp, h.1, hs'⟩) hl

/-- a drain pass of the model meets the specification of a drain pass -/
theorem drain_meets_spec (q : Items) (pods : List Pod) (D : Option Int) (now : Int) :
    drainOK pods D now q (drain q pods D now).1 [] (!(drain q pods D now).2) = true := by
  unfold drainOK
  simp only [List.isEmpty_nil, Bool.true_and, Bool.and_eq_true]
  refine ⟨⟨⟨?_, ?_⟩, ?_⟩, ?_⟩
  · -- kept and monotone
    unfold keptAndMonotone
    rw [List.all_eq_true]
    intro u hu
    have hs := (mem_keys_iff _ _).mp hu
    cases hq : qget q u with
    | none => rw [hq] at hs; simp at hs
    | some e =>
      rw [qget_drain, hq]
      by_cases hin : u ∈ (enqueued pods D now).map (·.uid)
      · simp only [hin, if_true, Option.getD_some]; exact dle_dmin_left _ _
      · simp only [hin, if_false]; exact dle_refl _
  · -- admitted
    unfold admittedOK
    rw [List.all_eq_true]
    intro u _
    rw [qget_drain]
    by_cases hin : u ∈ (enqueued pods D now).map (·.uid)
    · simp only [hin, if_true]
      obtain ⟨p, hp, hpu⟩ := List.mem_map.mp hin
      have := enqueued_ok pods D now p hp
      have hany : pods.any (fun p => p.uid == u && enqueueOK pods p D now) = true := by
        rw [List.any_eq_true]
        exact ⟨p, this.1, by simp [hpu, this.2]⟩
      simp [hany]
    · simp [hin]
  · -- due pods queued
    unfold dueQueued
    rw [List.all_eq_true]
    intro p hp
    by_cases hd : enqueueDue p D now = true
    · have hin : p.uid ∈ (enqueued pods D now).map (·.uid) :=
        List.mem_map.mpr ⟨p, due_enqueued pods D now p hp hd, rfl⟩
      rw [qget_drain]
      simp only [hin, if_true, hd, Bool.not_true, Bool.false_or]
      exact dle_dmin_right _ _
    · simp [hd]
  · -- verdict
    unfold verdictOK
    rw [drain_verdict]
    by_cases hw : (waitingPods pods now).isEmpty = true
    · simp only [hw, Bool.not_true, Bool.not_false, Bool.false_or]
      rw [List.all_eq_true]
      intro p hp
      rw [List.isEmpty_iff] at hw
      by_cases hm : mustWait p now = true
      · have : p ∈ waitingPods pods now := (mem_waitingPods pods now p).mpr ⟨hp, hm⟩
        rw [hw] at this; simp at this
      · simp [hm]
    · simp [hw]

/-! ### one reconcile -/

/-- whenever a reconcile sends an eviction it is for the reconciled pod, the pod
    is queued, and the pod is active, not static, does not tolerate the disruption taint and has no active
    do-not-disrupt annotation; moreover the pod is not past its force-delete threshold. -/
theorem reconcile_evict_spec (q : Items) (p : Pod) (now : Int) (ea : EvictAns) (da : DeleteAns) (u : Nat)
    (h : (reconcile q p now ea da).1 = some (.evict u)) :
    u = p.uid ∧ (∃ D, qget q p.uid = some D ∧ needsForceDelete p D now = false) ∧ mayEvict p now = true := by
  unfold reconcile at h
  cases hq : qget q p.uid with
  | none => simp [hq] at h
  | some D =>
    simp only [hq] at h
    by_cases hf : needsForceDelete p D now = true
    · simp only [hf, if_true] at h
      cases da <;> simp at h
    · simp only [hf] at h
      by_cases ha : isActive p = true
      · by_cases he : isEvictable p now = true
        · have hu : u = p.uid := by
            cases ea <;> simp [ha, he] at h <;> exact h.symm
          refine ⟨hu, ⟨D, rfl, by simpa using hf⟩, ?_⟩
          rw [← isEvictable_eq_mayEvict]; exact he
        · simp [ha, he] at h
      · simp [ha] at h

/-- a pod queued without a node deadline (the NodeClaim has no termination grace
    period) is never deleted directly: the only removal request is an eviction. -/
theorem reconcile_no_deadline (q : Items) (p : Pod) (now : Int) (ea : EvictAns) (da : DeleteAns)
    (hq : qget q p.uid = some none ∨ qget q p.uid = none) (u : Nat) (g : Int) :
    (reconcile q p now ea da).1 ≠ some (.delete u g) := by
  intro h
  unfold reconcile at h
  rcases hq with hq | hq
  · simp only [hq, needsForceDelete] at h
    by_cases ha : isActive p = true
    · by_cases he : isEvictable p now = true
      · cases ea <;> simp [ha, he] at h
      · simp [ha, he] at h
    · simp [ha] at h
  · simp [hq] at h

theorem tdiv_nonpos_of_neg (a : Int) (h : a < 0) : a.tdiv 1000000000 ≤ 0 := by
  have h1 : a = -(-a) := by omega
  rw [h1, Int.neg_tdiv]
  have := Int.tdiv_nonneg (a := -a) (b := 1000000000) (by omega) (by omega)
  omega

theorem forceGrace_ge_one (d now : Int) : 1 ≤ forceGrace d now := by
  unfold forceGrace minGrace
  have : (Karp.Gen.C10Drain.forceDeleteMinGraceSeconds : Int) = 1 := by decide
  rw [this]; omega

theorem forceGrace_within (d now : Int) : now + forceGrace d now * sec ≤ d ∨ forceGrace d now = 1 := by
  unfold forceGrace minGrace sec
  have h1 : (Karp.Gen.C10Drain.forceDeleteMinGraceSeconds : Int) = 1 := by decide
  rw [h1]
  by_cases h : 1 ≤ (d - now).tdiv 1000000000
  · left
    have hm : max ((d - now).tdiv 1000000000) 1 = (d - now).tdiv 1000000000 := by omega
    rw [hm]
    have hpos : 0 ≤ d - now := by
      by_cases hp : 0 ≤ d - now
      · exact hp
      · exfalso
        have : (d - now).tdiv 1000000000 ≤ 0 := tdiv_nonpos_of_neg _ (by omega)
        omega
    have := Int.tdiv_eq_ediv_of_nonneg (a := d - now) (b := 1000000000) hpos
    rw [this]
    omega
  · right; omega

/-- whenever a reconcile deletes a pod directly: the pod is queued under a node deadline `d`
    (so the NodeClaim has a termination grace period); the grace period sent is at least one second; an
    already terminating pod is only re-deleted if its deletionTimestamp lies after `d`, a running pod only
    strictly after `d − terminationGracePeriodSeconds`; and the grace period granted ends by `d` (or is the
    one-second minimum). -/
theorem reconcile_delete_spec (q : Items) (p : Pod) (now : Int) (ea : EvictAns) (da : DeleteAns) (u : Nat) (g : Int)
    (h : (reconcile q p now ea da).1 = some (.delete u g)) :
    u = p.uid ∧ ∃ d, qget q p.uid = some (some d) ∧ 1 ≤ g ∧
      (match p.del with
       | some dt => d < dt
       | none => ∃ gr, p.grace = some gr ∧ d - gr * sec < now) ∧
      (now + g * sec ≤ d ∨ g = 1) := by
  unfold reconcile at h
  cases hq : qget q p.uid with
  | none => simp [hq] at h
  | some D =>
    simp only [hq] at h
    by_cases hf : needsForceDelete p D now = true
    · simp only [hf, if_true] at h
      have hcall : u = p.uid ∧ g = forceGrace (D.getD 0) now := by
        cases da <;> simp at h <;> exact ⟨h.1.symm, h.2.symm⟩
      cases D with
      | none => simp [needsForceDelete] at hf
      | some d =>
        refine ⟨hcall.1, d, rfl, ?_, ?_, ?_⟩
        · rw [hcall.2]; exact forceGrace_ge_one _ _
        · unfold needsForceDelete at hf
          cases hd : p.del with
          | some dt => simp [hd] at hf; simpa using hf
          | none =>
            simp only [hd] at hf
            cases hg : p.grace with
            | none => simp [hg] at hf
            | some gr => simp [hg] at hf; exact ⟨gr, rfl, hf⟩
        · rw [hcall.2]; exact forceGrace_within _ _
    · simp only [hf] at h
      by_cases ha : isActive p = true
      · by_cases he : isEvictable p now = true
        · cases ea <;> simp [ha, he] at h
        · simp [ha, he] at h
      · simp [ha] at h


/-- a reconcile of the model meets the specification of a reconcile -/
theorem reconcile_meets_spec (q : Items) (p : Pod) (now : Int) (ea : EvictAns) (da : DeleteAns) (strict : Bool)
    (hs : strict = true → (qget q p.uid).isSome = true → untouchable p = false) :
    reconcileOK p now q (reconcile q p now ea da).2.2 (reconcile q p now ea da).1.toList strict = true := by
  unfold reconcileOK
  simp only [Bool.and_eq_true]
  refine ⟨⟨?_, ?_⟩, ?_⟩
  · rcases reconcile_items q p now ea da with h | h <;> rw [h]
    · exact onlyDrops_refl _ _
    · exact onlyDrops_qerase _ _
  · cases (reconcile q p now ea da).1 <;> simp
  · cases hc : (reconcile q p now ea da).1 with
    | none => simp
    | some c =>
      simp only [Option.toList_some, List.all_cons, List.all_nil, Bool.and_true]
      cases c with
      | evict u =>
        obtain ⟨hu, ⟨D, hD, _⟩, hm⟩ := reconcile_evict_spec q p now ea da u hc
        unfold callOK
        simp [hu, hD, hm]
      | delete u g =>
        obtain ⟨hu, d, hD, hg, hthr, hwithin⟩ := reconcile_delete_spec q p now ea da u g hc
        unfold callOK
        have hmd : mayDelete p (some d) now g = true := by
          unfold mayDelete pastThreshold ownGraceEnd
          simp only [Bool.and_eq_true, decide_eq_true_eq, Bool.or_eq_true, beq_iff_eq]
          refine ⟨⟨hg, ?_⟩, hwithin⟩
          cases hd : p.del with
          | some dt => rw [hd] at hthr; simp only [decide_eq_true_eq]; omega
          | none =>
            rw [hd] at hthr
            obtain ⟨gr, hgr, hlt⟩ := hthr
            simp only [hgr, Option.map_some, decide_eq_true_eq]
            omega
        have hst : (!strict || !untouchable p) = true := by
          cases hstrict : strict with
          | false => rfl
          | true => simp [hs hstrict (by rw [hD]; rfl)]
        simp [hu, hD, hmd, hst]

/-! ### steps and histories -/

theorem keptAndMonotone_refl (q : Items) : keptAndMonotone q q = true := by
  unfold keptAndMonotone
  rw [List.all_eq_true]
  intro u hu
  have hs := (mem_keys_iff _ _).mp hu
  cases hq : qget q u with
  | none => rw [hq] at hs; simp at hs
  | some e => exact dle_refl _

theorem idleOK_refl (q : Items) : idleOK q q [] = true := by
  unfold idleOK
  simp [keptAndMonotone_refl]

theorem add_meets_spec (q : Items) (D : Option Int) (uids : List Nat) :
    addOK uids D q (qaddAll q D uids) [] = true := by
  unfold addOK
  simp only [List.isEmpty_nil, Bool.true_and, Bool.and_eq_true]
  constructor
  · unfold keptAndMonotone
    rw [List.all_eq_true]
    intro u hu
    have hs := (mem_keys_iff _ _).mp hu
    cases hq : qget q u with
    | none => rw [hq] at hs; simp at hs
    | some e =>
      rw [qget_qaddAll, hq]
      by_cases hin : u ∈ uids
      · simp only [hin, if_true, Option.getD_some]; exact dle_dmin_left _ _
      · simp only [hin, if_false]; exact dle_refl _
  · rw [List.all_eq_true]
    intro u _
    rw [qget_qaddAll]
    by_cases hin : u ∈ uids
    · simp [hin]
    · simp [hin]

theorem getElem?_modifyAt (f : WPod → WPod) : ∀ (l : List WPod) (i j : Nat),
    (modifyAt l i f)[j]? = if j = i then l[j]?.map f else l[j]? := by
  intro l
  induction l with
  | nil => intro i j; simp [modifyAt]
  | cons x xs ih =>
    intro i j
    cases i with
    | zero =>
      cases j with
      | zero => simp [modifyAt]
      | succ j => simp [modifyAt]
    | succ i =>
      cases j with
      | zero => simp [modifyAt]
      | succ j => simp [modifyAt, ih]

theorem length_modifyAt (f : WPod → WPod) : ∀ (l : List WPod) (i : Nat), (modifyAt l i f).length = l.length := by
  intro l
  induction l with
  | nil => intro i; simp [modifyAt]
  | cons x xs ih =>
    intro i
    cases i with
    | zero => simp [modifyAt]
    | succ i => simp [modifyAt, ih]

/-- every UID identifies its pod slot -/
def WF (s : State) : Prop := ∀ i w, s.pods[i]? = some w → w.pod.uid % s.pods.length = i

/-- queued keys belong to pod slots Karpenter may touch (neither static nor tolerating) -/
def Touchable (s : State) : Prop :=
  ∀ k, (qget s.q k).isSome = true → ∀ w, s.pods[k % s.pods.length]? = some w → untouchable w.pod = false

theorem terminate_uid (p : Pod) (now g : Int) : (terminate p now g).uid = p.uid := by
  unfold terminate; cases p.del <;> rfl
theorem terminate_untouchable (p : Pod) (now g : Int) : untouchable (terminate p now g) = untouchable p := by
  unfold terminate untouchable; cases p.del <;> rfl

theorem applyCall_uid (w : WPod) (now : Int) (c : Option Call) (ea : EvictAns) (da : DeleteAns) :
    (applyCall w now c ea da).pod.uid = w.pod.uid := by
  unfold applyCall
  cases c with
  | none => rfl
  | some c =>
    cases c with
    | evict u => cases ea <;> simp [terminate_uid]
    | delete u g => cases da <;> simp [terminate_uid]

theorem applyCall_untouchable (w : WPod) (now : Int) (c : Option Call) (ea : EvictAns) (da : DeleteAns) :
    untouchable (applyCall w now c ea da).pod = untouchable w.pod := by
  unfold applyCall
  cases c with
  | none => rfl
  | some c =>
    cases c with
    | evict u => cases ea <;> simp [terminate_untouchable]
    | delete u g => cases da <;> simp [terminate_untouchable]

theorem applyMut_uid (n : Nat) (w : WPod) (now : Int) (m : Mut) :
    (applyMut n w now m).pod.uid % n = w.pod.uid % n := by
  unfold applyMut
  cases m with
  | cleardnd => rfl
  | succeed => cases w.gone <;> simp
  | gone => rfl
  | replace => simp
  | kill => cases w.gone <;> simp [terminate_uid]

theorem applyMut_untouchable (n : Nat) (w : WPod) (now : Int) (m : Mut) :
    untouchable (applyMut n w now m).pod = untouchable w.pod := by
  unfold applyMut
  cases m with
  | cleardnd => rfl
  | succeed => cases w.gone <;> simp [untouchable]
  | gone => rfl
  | replace => simp [untouchable]
  | kill => cases w.gone <;> simp [terminate_untouchable]

theorem nextState_q (s : State) (st : Step) : (nextState s st).q = (stepModel s st).items := by
  unfold nextState advance
  cases st <;> rfl

theorem nextState_pods_length (s : State) (st : Step) : (nextState s st).pods.length = s.pods.length := by
  unfold nextState advance
  cases st <;> simp [length_modifyAt]

/-- the pod in slot `j` after a step: same slot identity (`uid % n`) and same touchability -/
theorem nextState_slot (s : State) (st : Step) (j : Nat) (w' : WPod) (h : (nextState s st).pods[j]? = some w') :
    ∃ w, s.pods[j]? = some w ∧ w'.pod.uid % s.pods.length = w.pod.uid % s.pods.length ∧
      untouchable w'.pod = untouchable w.pod := by
  unfold nextState advance at h
  cases st with
  | add d ps => exact ⟨w', h, rfl, rfl⟩
  | drain d => exact ⟨w', h, rfl, rfl⟩
  | node src => exact ⟨w', h, rfl, rfl⟩
  | tick ns => exact ⟨w', h, rfl, rfl⟩
  | recon i ea da =>
    simp only [getElem?_modifyAt] at h
    by_cases hj : j = i
    · simp only [hj, if_true] at h
      cases hw : s.pods[i]? with
      | none => simp [hw] at h
      | some w =>
        simp only [hw, Option.map_some, Option.some.injEq] at h
        refine ⟨w, by rw [hj]; exact hw, ?_, ?_⟩
        · rw [← h, applyCall_uid]
        · rw [← h, applyCall_untouchable]
    · simp only [hj, if_false] at h
      exact ⟨w', h, rfl, rfl⟩
  | change i m =>
    simp only [getElem?_modifyAt] at h
    by_cases hj : j = i
    · simp only [hj, if_true] at h
      cases hw : s.pods[i]? with
      | none => simp [hw] at h
      | some w =>
        simp only [hw, Option.map_some, Option.some.injEq] at h
        refine ⟨w, by rw [hj]; exact hw, ?_, ?_⟩
        · rw [← h, applyMut_uid]
        · rw [← h, applyMut_untouchable]
    · simp only [hj, if_false] at h
      exact ⟨w', h, rfl, rfl⟩

theorem wf_next (s : State) (st : Step) (h : WF s) : WF (nextState s st) := by
  intro j w' hw'
  obtain ⟨w, hw, hu, _⟩ := nextState_slot s st j w' hw'
  rw [nextState_pods_length, hu]
  exact h j w hw

theorem mem_livePods (s : State) (p : Pod) (h : p ∈ livePods s) :
    ∃ (i : Nat) (w : WPod), s.pods[i]? = some w ∧ w.gone = false ∧ w.pod = p := by
  unfold livePods at h
  obtain ⟨w, hw, hp⟩ := List.mem_map.mp h
  rw [List.mem_filter] at hw
  obtain ⟨i, hi, hget⟩ := List.getElem_of_mem hw.1
  refine ⟨i, w, ?_, by simpa using hw.2, hp⟩
  rw [List.getElem?_eq_getElem hi, hget]

/-- what a drain pass adds to the queue are pods Karpenter may touch -/
theorem touchable_drainStep (s : State) (d : Option Int) (hwf : WF s) (h : Touchable s) (k : Nat)
    (hk : (qget (drainStep s d).items k).isSome = true) (w : WPod)
    (hw : s.pods[k % s.pods.length]? = some w) : untouchable w.pod = false := by
  simp only [drainStep] at hk
  rw [qget_drain] at hk
  by_cases hin : k ∈ (enqueued (livePods s) d s.now).map (·.uid)
  · obtain ⟨p, hp, hpu⟩ := List.mem_map.mp hin
    have hok := enqueued_ok (livePods s) d s.now p hp
    obtain ⟨i, wi, hwi, _, hwp⟩ := mem_livePods s p hok.1
    have hslot := hwf i wi hwi
    rw [hwp, hpu] at hslot
    rw [hslot, hwi] at hw
    have : w = wi := by simpa using hw.symm
    rw [this, hwp]
    have := hok.2
    unfold enqueueOK mustWait at this
    simp only [Bool.and_eq_true, Bool.not_eq_true'] at this
    exact this.1.1.2
  · simp only [hin, if_false] at hk
    exact h k hk w hw

/-- keys of the queue after a step of a history without direct `Queue.Add`: old keys, or pods a drain pass
    admitted -/
theorem touchable_next (s : State) (st : Step) (hwf : WF s) (h : Touchable s)
    (hst : ∀ d ps, st ≠ .add d ps) : Touchable (nextState s st) := by
  intro k hk w' hw'
  rw [nextState_pods_length] at hw'
  obtain ⟨w, hw, _, hun⟩ := nextState_slot s st _ w' hw'
  rw [hun]
  rw [nextState_q] at hk
  -- either the key was already queued, or it was enqueued by a drain pass
  cases st with
  | add d ps => exact absurd rfl (hst d ps)
  | tick ns => exact h k hk w hw
  | change i m => exact h k hk w hw
  | recon i ea da =>
    have hold : (qget s.q k).isSome = true := by
      unfold stepModel at hk
      cases hp : s.pods[i]? with
      | none => simpa [hp] using hk
      | some wi =>
        simp only [hp] at hk
        by_cases hg : wi.gone = true
        · simpa [hg] using hk
        · simp only [hg] at hk
          rcases reconcile_items s.q wi.pod s.now ea da with e | e
          · simpa [e] using hk
          · simp only [Bool.false_eq_true, if_false, e] at hk
            rw [qget_qerase] at hk
            by_cases hku : k = wi.pod.uid
            · simp [hku] at hk
            · simpa [hku] using hk
    exact h k hold w hw
  | drain d =>
    simp only [stepModel] at hk
    exact touchable_drainStep s d hwf h k hk w hw
  | node src =>
    simp only [stepModel] at hk
    cases hT : nodeTerminationTime src with
    | none => simp only [hT, refusedStep] at hk; exact h k hk w hw
    | some d => simp only [hT] at hk; exact touchable_drainStep s d hwf h k hk w hw

/-- a drain pass of the model meets the specification of a drain pass -/
theorem drainStep_meets_spec (s : State) (d : Option Int) :
    ((drainStep s d).r != "error") = true ∧
    drainOK (livePods s) d s.now s.q (drainStep s d).items (drainStep s d).calls ((drainStep s d).r == "drained") = true := by
  simp only [drainStep]
  have hspec := drain_meets_spec s.q (livePods s) d s.now
  cases hv : (drain s.q (livePods s) d s.now).2 with
  | true =>
    rw [hv] at hspec
    have e1 : (("waiting" : String) != "error") = true := by decide
    have e2 : (("waiting" : String) == "drained") = false := by decide
    simp only [if_true, e1, e2, true_and]
    simpa using hspec
  | false =>
    rw [hv] at hspec
    have e1 : (("drained" : String) != "error") = true := by decide
    have e2 : (("drained" : String) == "drained") = true := by decide
    simp only [Bool.false_eq_true, if_false, e1, e2, true_and]
    simpa using hspec

/-- the model's `nodeTerminationTime` hands `Drain` exactly the deadline the specification knows, and refuses
    exactly when the deadline is unreadable -/
theorem nodeTerminationTime_spec (src : DeadlineSrc) :
    (unreadable src = true ∧ nodeTerminationTime src = none) ∨
    (unreadable src = false ∧ nodeTerminationTime src = some (knownDeadline src)) := by
  cases src with
  | noClaim => right; exact ⟨rfl, rfl⟩
  | noAnnotation => right; exact ⟨rfl, rfl⟩
  | annotation t =>
    cases t with
    | none => left; exact ⟨rfl, rfl⟩
    | some t => right; exact ⟨rfl, rfl⟩

/-- a controller-driven pass of the model meets the specification of such a pass -/
theorem nodeStep_meets_spec (s : State) (src : DeadlineSrc) :
    nodePassOK (livePods s) src s.now s.q (stepModel s (.node src)).items (stepModel s (.node src)).calls
      (stepModel s (.node src)).r = true := by
  unfold nodePassOK
  rcases nodeTerminationTime_spec src with ⟨hu, hT⟩ | ⟨hu, hT⟩
  · have e : (("error" : String) == "error") = true := by decide
    simp only [stepModel, hT, hu, if_true, refusedStep, e]
    exact idleOK_refl _
  · have h := drainStep_meets_spec s (knownDeadline src)
    simp only [stepModel, hT, hu, Bool.false_eq_true, if_false, Bool.and_eq_true]
    exact h

/-- one step of the model meets the specification of that step -/
theorem step_meets_spec (strict : Bool) (s : State) (st : Step) (hwf : WF s) (ht : strict = true → Touchable s) :
    stepOK strict s st (stepModel s st).items (stepModel s st).calls (stepModel s st).r = true := by
  cases st with
  | add d ps => exact add_meets_spec _ _ _
  | tick ns => exact idleOK_refl _
  | change i m => exact idleOK_refl _
  | drain d =>
    have h := drainStep_meets_spec s d
    simp only [stepOK, stepModel, Bool.and_eq_true]
    exact h
  | node src => exact nodeStep_meets_spec s src
  | recon i ea da =>
    simp only [stepOK, stepModel]
    cases hp : s.pods[i]? with
    | none => exact idleOK_refl _
    | some w =>
      simp only
      by_cases hg : w.gone = true
      · simp only [hg, if_true]; exact idleOK_refl _
      · simp only [hg, Bool.false_eq_true, if_false]
        apply reconcile_meets_spec
        intro hstrict hsome
        have hslot := hwf i w hp
        apply ht hstrict w.pod.uid hsome w
        rw [hslot]; exact hp

def noAdd : List Step → Bool
  | [] => true
  | .add _ _ :: _ => false
  | _ :: rest => noAdd rest

/-- every step of the model's run over a history meets the specification -/
def allOK (strict : Bool) : State → List Step → Bool
  | _, [] => true
  | s, st :: rest =>
    stepOK strict s st (stepModel s st).items (stepModel s st).calls (stepModel s st).r
      && allOK strict (nextState s st) rest

theorem history_meets_spec (strict : Bool) : ∀ (steps : List Step) (s : State), WF s →
    (strict = true → Touchable s ∧ noAdd steps = true) → allOK strict s steps = true := by
  intro steps
  induction steps with
  | nil => intro s _ _; rfl
  | cons st rest ih =>
    intro s hwf hs
    simp only [allOK, Bool.and_eq_true]
    refine ⟨step_meets_spec strict s st hwf (fun h => (hs h).1), ?_⟩
    apply ih _ (wf_next s st hwf)
    intro hstrict
    obtain ⟨ht, hna⟩ := hs hstrict
    have hne : ∀ d ps, st ≠ .add d ps := by
      intro d ps e; rw [e] at hna; simp [noAdd] at hna
    refine ⟨touchable_next s st hwf ht hne, ?_⟩
    cases st with
    | add d ps => exact absurd rfl (hne d ps)
    | drain d => simpa [noAdd] using hna
    | node src => simpa [noAdd] using hna
    | recon i ea da => simpa [noAdd] using hna
    | tick ns => simpa [noAdd] using hna
    | change i m => simpa [noAdd] using hna

theorem assignUids_get (ps : List Pod) : ∀ (start i : Nat) (w : WPod),
    (assignUids ps start)[i]? = some w → w.pod.uid = start + i ∧ i < ps.length := by
  induction ps with
  | nil => intro start i w h; simp [assignUids] at h
  | cons p ps ih =>
    intro start i w h
    cases i with
    | zero => simp [assignUids] at h; subst h; simp
    | succ i =>
      simp only [assignUids, List.getElem?_cons_succ] at h
      obtain ⟨h1, h2⟩ := ih (start + 1) i w h
      constructor
      · omega
      · simp; omega

theorem assignUids_length (ps : List Pod) : ∀ start, (assignUids ps start).length = ps.length := by
  induction ps with
  | nil => intro _; rfl
  | cons p ps ih => intro s; simp [assignUids, ih]

theorem wf_init (now : Int) (ps : List Pod) : WF (initState now ps) := by
  intro i w h
  unfold initState at h ⊢
  simp only at h ⊢
  obtain ⟨hu, hlt⟩ := assignUids_get ps 0 i w h
  rw [assignUids_length, hu]
  simp only [Nat.zero_add]
  exact Nat.mod_eq_of_lt hlt

theorem touchable_init (now : Int) (ps : List Pod) : Touchable (initState now ps) := by
  intro k hk
  simp [initState, qget_nil] at hk

/-! ### stored deadlines along a history -/

theorem drainStep_monotone (s : State) (d : Option Int) (k : Nat) (e e' : Option Int)
    (h : qget s.q k = some e) (h' : qget (drainStep s d).items k = some e') : dle e' e = true := by
  simp only [drainStep] at h'
  rw [qget_drain, h] at h'
  by_cases hin : k ∈ (enqueued (livePods s) d s.now).map (·.uid)
  · simp only [hin, if_true, Option.getD_some, Option.some.injEq] at h'
    rw [← h']; exact dle_dmin_left _ _
  · simp only [hin, if_false, Option.some.injEq] at h'
    rw [← h']; exact dle_refl _

/-- one step never loosens the deadline of a pod that stays queued -/
theorem step_monotone (s : State) (st : Step) (k : Nat) (e e' : Option Int)
    (h : qget s.q k = some e) (h' : qget (nextState s st).q k = some e') : dle e' e = true := by
  rw [nextState_q] at h'
  cases st with
  | add d ps =>
    simp only [stepModel] at h'
    rw [qget_qaddAll, h] at h'
    by_cases hin : k ∈ liveUids s ps
    · simp only [hin, if_true, Option.getD_some, Option.some.injEq] at h'
      rw [← h']; exact dle_dmin_left _ _
    · simp only [hin, if_false, Option.some.injEq] at h'
      rw [← h']; exact dle_refl _
  | drain d =>
    simp only [stepModel] at h'
    exact drainStep_monotone s d k e e' h h'
  | node src =>
    simp only [stepModel] at h'
    cases hT : nodeTerminationTime src with
    | none =>
      simp only [hT, refusedStep] at h'
      rw [h] at h'; simp only [Option.some.injEq] at h'; rw [← h']; exact dle_refl _
    | some d => simp only [hT] at h'; exact drainStep_monotone s d k e e' h h'
  | tick ns =>
    simp only [stepModel] at h'
    rw [h] at h'; simp only [Option.some.injEq] at h'; rw [← h']; exact dle_refl _
  | change i m =>
    simp only [stepModel] at h'
    rw [h] at h'; simp only [Option.some.injEq] at h'; rw [← h']; exact dle_refl _
  | recon i ea da =>
    have hsame : qget (stepModel s (.recon i ea da)).items k = some e ∨
        qget (stepModel s (.recon i ea da)).items k = none := by
      simp only [stepModel]
      cases hp : s.pods[i]? with
      | none => left; exact h
      | some w =>
        simp only
        by_cases hg : w.gone = true
        · simp only [hg, if_true]; left; exact h
        · simp only [hg, Bool.false_eq_true, if_false]
          rcases reconcile_items s.q w.pod s.now ea da with e1 | e1 <;> rw [e1]
          · left; exact h
          · rw [qget_qerase]
            by_cases hk : k = w.pod.uid
            · right; simp [hk]
            · left; simp [hk, h]
    rcases hsame with h1 | h1
    · rw [h1] at h'; simp only [Option.some.injEq] at h'; rw [← h']; exact dle_refl _
    · rw [h1] at h'; simp at h'

/-- `k` is queued in every state the run passes through -/
def queuedThroughout (k : Nat) : State → List Step → Bool
  | s, [] => qhas s.q k
  | s, st :: rest => qhas s.q k && queuedThroughout k (nextState s st) rest

theorem history_monotone (k : Nat) : ∀ (steps : List Step) (s : State), queuedThroughout k s steps = true →
    ∃ e e', qget s.q k = some e ∧ qget (runState s steps).q k = some e' ∧ dle e' e = true := by
  intro steps
  induction steps with
  | nil =>
    intro s h
    simp only [queuedThroughout, qhas] at h
    cases hq : qget s.q k with
    | none => rw [hq] at h; simp at h
    | some e => exact ⟨e, e, rfl, by simp [runState, hq], dle_refl _⟩
  | cons st rest ih =>
    intro s h
    simp only [queuedThroughout, Bool.and_eq_true, qhas] at h
    obtain ⟨e1, e2, h1, h2, h3⟩ := ih _ h.2
    cases hq : qget s.q k with
    | none => rw [hq] at h; simp at h
    | some e =>
      refine ⟨e, e2, rfl, by simpa [runState] using h2, ?_⟩
      exact dle_trans h3 (step_monotone s st k e e1 hq h1)

/-! ### every queued pod traces back to the drain pass that admitted it -/

theorem queuedThroughout_head (k : Nat) (steps : List Step) (s : State)
    (h : queuedThroughout k s steps = true) : qhas s.q k = true := by
  cases steps with
  | nil => simpa [queuedThroughout] using h
  | cons st rest => simp only [queuedThroughout, Bool.and_eq_true] at h; exact h.1

theorem new_key_drainStep (s : State) (d : Option Int) (k : Nat)
    (hold : (qget s.q k).isSome = false) (hnew : (qget (drainStep s d).items k).isSome = true) :
    k ∈ (enqueued (livePods s) d s.now).map (·.uid) := by
  simp only [drainStep] at hnew
  rw [qget_drain] at hnew
  by_cases hin : k ∈ (enqueued (livePods s) d s.now).map (·.uid)
  · exact hin
  · simp only [hin, if_false] at hnew; rw [hnew] at hold; simp at hold

/-- a key that appears in the queue during a step (other than a direct add) was enqueued by a drain pass
    (a direct one, or one of the termination controller that determined the deadline `d`) -/
theorem new_key_from_drain (s : State) (st : Step) (k : Nat) (hst : ∀ d ps, st ≠ .add d ps)
    (hold : qhas s.q k = false) (hnew : qhas (nextState s st).q k = true) :
    ∃ d, passDeadline st = some d ∧ k ∈ (enqueued (livePods s) d s.now).map (·.uid) := by
  unfold qhas at hold hnew
  rw [nextState_q] at hnew
  cases st with
  | add d ps => exact absurd rfl (hst d ps)
  | tick ns => simp only [stepModel] at hnew; rw [hnew] at hold; simp at hold
  | change i m => simp only [stepModel] at hnew; rw [hnew] at hold; simp at hold
  | drain d =>
    simp only [stepModel] at hnew
    exact ⟨d, rfl, new_key_drainStep s d k hold hnew⟩
  | node src =>
    simp only [stepModel] at hnew
    cases hT : nodeTerminationTime src with
    | none => simp only [hT, refusedStep] at hnew; rw [hnew] at hold; simp at hold
    | some d =>
      simp only [hT] at hnew
      exact ⟨d, by simp [passDeadline, hT], new_key_drainStep s d k hold hnew⟩
  | recon i ea da =>
    exfalso
    simp only [stepModel] at hnew
    cases hp : s.pods[i]? with
    | none => simp only [hp] at hnew; rw [hnew] at hold; simp at hold
    | some w =>
      simp only [hp] at hnew
      by_cases hg : w.gone = true
      · simp only [hg, if_true] at hnew; rw [hnew] at hold; simp at hold
      · simp only [hg, Bool.false_eq_true, if_false] at hnew
        rcases reconcile_items s.q w.pod s.now ea da with e | e
        · rw [e] at hnew; rw [hnew] at hold; simp at hold
        · rw [e, qget_qerase] at hnew
          by_cases hk : k = w.pod.uid
          · simp [hk] at hnew
          · simp only [hk, if_false] at hnew; rw [hnew] at hold; simp at hold

/-- in a history without direct adds: a pod queued at the end was queued all along, or was handed to the queue
    by a drain pass of the history and has stayed queued ever since -/
theorem queued_from (k : Nat) : ∀ (steps : List Step) (s : State), noAdd steps = true →
    qhas (runState s steps).q k = true →
    queuedThroughout k s steps = true ∨
    ∃ pre st d post, steps = pre ++ st :: post ∧ passDeadline st = some d ∧
      k ∈ (enqueued (livePods (runState s pre)) d (runState s pre).now).map (·.uid) ∧
      queuedThroughout k (nextState (runState s pre) st) post = true := by
  intro steps
  induction steps with
  | nil => intro s _ h; left; simpa [queuedThroughout, runState] using h
  | cons st rest ih =>
    intro s hna h
    have hne : ∀ d ps, st ≠ .add d ps := by
      intro d ps e; rw [e] at hna; simp [noAdd] at hna
    have hna' : noAdd rest = true := by
      cases st with
      | add d ps => exact absurd rfl (hne d ps)
      | drain d => simpa [noAdd] using hna
      | node src => simpa [noAdd] using hna
      | recon i ea da => simpa [noAdd] using hna
      | tick ns => simpa [noAdd] using hna
      | change i m => simpa [noAdd] using hna
    simp only [runState] at h
    rcases ih (nextState s st) hna' h with hthr | ⟨pre, st', d, post, hsteps, hpd, hin, hthr⟩
    · by_cases hold : qhas s.q k = true
      · left; simp [queuedThroughout, hold, hthr]
      · right
        have hold' : qhas s.q k = false := by simpa using hold
        obtain ⟨d, hd, hin⟩ := new_key_from_drain s st k hne hold' (queuedThroughout_head k rest _ hthr)
        exact ⟨[], st, d, rest, rfl, hd, by simpa [runState] using hin, by simpa [runState] using hthr⟩
    · right
      exact ⟨st :: pre, st', d, post, by rw [hsteps]; rfl, hpd, by simpa [runState] using hin,
        by simpa [runState] using hthr⟩

/-- … in particular, starting from an empty queue, every queued pod traces back to an admitting drain pass -/
theorem queued_was_admitted (k : Nat) (steps : List Step) (s0 : State) (hna : noAdd steps = true) (hq : s0.q = [])
    (h : qhas (runState s0 steps).q k = true) :
    ∃ pre st d post, steps = pre ++ st :: post ∧ passDeadline st = some d ∧
      k ∈ (enqueued (livePods (runState s0 pre)) d (runState s0 pre).now).map (·.uid) ∧
      queuedThroughout k (nextState (runState s0 pre) st) post = true := by
  rcases queued_from k steps s0 hna h with hthr | hex
  · have := queuedThroughout_head k steps s0 hthr
    simp [qhas, hq, qget_nil] at this
  · exact hex

/-! ### every stored deadline was supplied by a step of the history -/

/-- the deadline a step hands to `Queue.Add`, if it enqueues at all: a direct add's, a drain pass's, or the one
    the termination controller read off the NodeClaim (nothing when it could not read one) -/
def stepDeadline : Step → Option (Option Int)
  | .add d _ => some d
  | st => passDeadline st

theorem dmin_getD_origin (prev : Option (Option Int)) (D e : Option Int)
    (h : dmin (prev.getD none) D = e) : prev = some e ∨ D = e := by
  cases prev with
  | none =>
    right
    simp only [Option.getD_none] at h
    cases D with
    | none => simpa [dmin, dle] using h
    | some d => simpa [dmin, dle] using h
  | some p =>
    simp only [Option.getD_some] at h
    rcases dmin_eq_or p D with h1 | h1
    · left; rw [← h, h1]
    · right; rw [← h, h1]

theorem drainStep_origin (s : State) (d : Option Int) (k : Nat) (e : Option Int)
    (h : qget (drainStep s d).items k = some e) : qget s.q k = some e ∨ d = e := by
  simp only [drainStep] at h
  rw [qget_drain] at h
  by_cases hin : k ∈ (enqueued (livePods s) d s.now).map (·.uid)
  · simp only [hin, if_true, Option.some.injEq] at h
    exact dmin_getD_origin _ _ _ h
  · simp only [hin, if_false] at h; left; exact h

/-- the deadline a pod is stored under after a step is the one it was stored under before, or the one this step
    supplied -/
theorem step_deadline_origin (s : State) (st : Step) (k : Nat) (e : Option Int)
    (h : qget (nextState s st).q k = some e) : qget s.q k = some e ∨ stepDeadline st = some e := by
  rw [nextState_q] at h
  cases st with
  | add d ps =>
    simp only [stepModel] at h
    rw [qget_qaddAll] at h
    by_cases hin : k ∈ liveUids s ps
    · simp only [hin, if_true, Option.some.injEq] at h
      rcases dmin_getD_origin _ _ _ h with h1 | h1
      · left; exact h1
      · right; simp [stepDeadline, h1]
    · simp only [hin, if_false] at h; left; exact h
  | drain d =>
    simp only [stepModel] at h
    rcases drainStep_origin s d k e h with h1 | h1
    · left; exact h1
    · right; simp [stepDeadline, passDeadline, h1]
  | node src =>
    simp only [stepModel] at h
    cases hT : nodeTerminationTime src with
    | none => simp only [hT, refusedStep] at h; left; exact h
    | some d =>
      simp only [hT] at h
      rcases drainStep_origin s d k e h with h1 | h1
      · left; exact h1
      · right; simp [stepDeadline, passDeadline, hT, h1]
  | tick ns => simp only [stepModel] at h; left; exact h
  | change i m => simp only [stepModel] at h; left; exact h
  | recon i ea da =>
    left
    simp only [stepModel] at h
    cases hp : s.pods[i]? with
    | none => simpa [hp] using h
    | some w =>
      simp only [hp] at h
      by_cases hg : w.gone = true
      · simpa [hg] using h
      · simp only [hg, Bool.false_eq_true, if_false] at h
        rcases reconcile_items s.q w.pod s.now ea da with e1 | e1
        · rw [e1] at h; exact h
        · rw [e1, qget_qerase] at h
          by_cases hk : k = w.pod.uid
          · simp [hk] at h
          · simpa [hk] using h

/-- along every history: a stored deadline was there from the start or was supplied by one of the steps -/
theorem history_deadline_origin (k : Nat) (e : Option Int) : ∀ (steps : List Step) (s : State),
    qget (runState s steps).q k = some e → qget s.q k = some e ∨ e ∈ steps.filterMap stepDeadline := by
  intro steps
  induction steps with
  | nil => intro s h; left; simpa [runState] using h
  | cons st rest ih =>
    intro s h
    simp only [runState] at h
    rcases ih _ h with h1 | h1
    · rcases step_deadline_origin s st k e h1 with h2 | h2
      · left; exact h2
      · right; simp [h2]
    · right
      rw [List.filterMap_cons]
      cases stepDeadline st with
      | none => exact h1
      | some d => exact List.mem_cons_of_mem _ h1

end Karp.Drain
