/-
Helper lemmas for C05 (disruption budgets): the activity window, `strconv.Atoi` on digit strings, the
rounding of percentages, the fold of `GetAllowedDisruptionsByReason`, and the budget accounting loops.
The property theorems themselves are in `Karp/Props/C05.lean`.
-/
import Karp.Model.Budget
import Karp.Spec.BudgetWindow

namespace Karp.Budget
open Karp.Spec.BudgetWindow

theorem mem_minuteMultiples (lo hi h : Int) :
    h ∈ minuteMultiples lo hi ↔ (lo < h ∧ h ≤ hi ∧ h % 60000000000 = 0) := by
  unfold minuteMultiples
  simp only [List.mem_map, List.mem_range]
  constructor
  · rintro ⟨i, hi', rfl⟩
    omega
  · rintro ⟨h1, h2, h3⟩
    refine ⟨(h / 60000000000 - (lo / 60000000000 + 1)).toNat, ?_, ?_⟩ <;> omega

theorem windowActive_iff (hit : Int → Bool) (hmin : ∀ h, hit h = true → h % 60000000000 = 0) (d now : Int) :
    windowActive hit d now = true ↔ ∃ h, hit h = true ∧ h ≤ now ∧ now < h + d := by
  unfold windowActive
  rw [List.any_eq_true]
  constructor
  · rintro ⟨h, hm, hh⟩
    rw [mem_minuteMultiples] at hm
    exact ⟨h, hh, by omega, by omega⟩
  · rintro ⟨h, hh, h1, h2⟩
    exact ⟨h, (mem_minuteMultiples _ _ _).2 ⟨by omega, h1, hmin h hh⟩, hh⟩

structure NextSpec (hit : Int → Bool) (next : Int → Option Int) : Prop where
  sound : ∀ t h, next t = some h → hit h = true ∧ t < h
  least : ∀ t h, next t = some h → ∀ h', hit h' = true → t < h' → h ≤ h'

theorem isActive_scheduled (cron : Cron) (hit : Int → Bool) (next : Int → Option Int) (b : Budget) (s : String) (now : Int)
    (hs : b.schedule = some s) (hc : cron s = some next) (hn : NextSpec hit next)
    (hmin : ∀ h, hit h = true → h % 60000000000 = 0) :
    isActive cron b now = some (windowActive hit (b.duration.getD 0) now || (next (now - b.duration.getD 0)).isNone) := by
  unfold isActive
  simp only [hs, Option.isNone_some, Bool.false_and, Option.getD_some, hc]
  cases hnx : next (now - b.duration.getD 0) with
  | none => simp
  | some h =>
    simp only [Option.isNone_some, Bool.or_false, Bool.false_eq_true, if_false]
    congr 1
    obtain ⟨hh, hlt⟩ := hn.sound _ _ hnx
    by_cases hle : now < h
    · have : windowActive hit (b.duration.getD 0) now = false := by
        rw [Bool.eq_false_iff]
        intro hw
        rw [windowActive_iff hit hmin] at hw
        obtain ⟨h', hh', h1, h2⟩ := hw
        have := hn.least _ _ hnx h' hh' (by omega)
        omega
      simp [hle, this]
    · have : windowActive hit (b.duration.getD 0) now = true := by
        rw [windowActive_iff hit hmin]
        exact ⟨h, hh, by omega, by omega⟩
      simp [hle, this]

theorem isDigit_eq (c : Char) : isDigitChar c = isDigit c := rfl

theorem digitsVal_eq (cs : List Char) : digitsVal cs = decimal cs := by
  unfold digitsVal decimal digitVal
  rfl

theorem splitSign_digit (c : Char) (r : List Char) (hc : isDigit c = true) : splitSign (c :: r) = (false, c :: r) := by
  have hm : c ≠ '-' := by intro h; subst h; revert hc; decide
  have hp : c ≠ '+' := by intro h; subst h; revert hc; decide
  unfold splitSign
  split
  · rename_i heq; simp at heq; exact absurd heq.1 hm
  · rename_i heq; simp at heq; exact absurd heq.1 hp
  · rfl

theorem atoi_digits (cs : List Char) (h1 : cs.isEmpty = false) (h2 : cs.all isDigit = true) :
    atoi cs = if (digitsVal cs : Int) ≤ maxInt64 then some (digitsVal cs : Int) else none := by
  cases cs with
  | nil => simp at h1
  | cons c r =>
    have hc : isDigit c = true := by simp [List.all_cons] at h2; exact h2.1
    unfold atoi
    rw [splitSign_digit c r hc]
    simp only [h1, h2, Bool.not_true, Bool.or_self, Bool.false_eq_true, if_false]
    have : ¬ ((digitsVal (c :: r) : Int) < minInt64) := by unfold minInt64; omega
    by_cases hle : (digitsVal (c :: r) : Int) ≤ maxInt64
    · have : ¬ (maxInt64 < (digitsVal (c :: r) : Int)) := by omega
      simp [*]
    · have : (maxInt64 < (digitsVal (c :: r) : Int)) := by omega
      simp [*]

/-- a string that is not a plain digit string and does not start with a sign is rejected by Atoi -/
theorem atoi_nondigits (cs : List Char) (h : (cs.isEmpty || !cs.all isDigit) = true)
    (hs : ∀ r, cs ≠ '-' :: r ∧ cs ≠ '+' :: r) : atoi cs = none := by
  have : splitSign cs = (false, cs) := by
    unfold splitSign
    split
    · exact absurd rfl (hs _).1
    · exact absurd rfl (hs _).2
    · rfl
  unfold atoi
  rw [this]
  simp only [h, if_true]

theorem wrap32_le (v : Int) (h : 0 ≤ v) : wrap32 v ≤ v := by
  unfold wrap32; omega

theorem wrap32_id (v : Int) (h : -2147483648 ≤ v) (h2 : v ≤ 2147483647) : wrap32 v = v := by
  unfold wrap32; omega

theorem scalePercent_eq (p n : Nat) : scalePercent (p : Int) (n : Int) = (ceilPercent p n : Int) := by
  unfold scalePercent ceilDiv100 ceilPercent
  simp only [Karp.Gen.BudgetFacts.scaledRoundUp, if_true]
  have : ((p : Int) * (n : Int)) = ((p * n : Nat) : Int) := by simp
  rw [this]
  omega

/-- `⌈·⌉` really is the ceiling: the least `k` with `100·k ≥ p·n` -/
theorem ceilPercent_spec (p n : Nat) :
    p * n ≤ 100 * ceilPercent p n ∧ ∀ k, p * n ≤ 100 * k → ceilPercent p n ≤ k := by
  unfold ceilPercent
  constructor
  · omega
  · intro k hk; omega


/-- the spec's limit as a function of the nodes string -/
def limitOf (cs : List Char) (n : Nat) : Nat :=
  match nodesSpec cs with
  | .count k => k
  | .percent p => ceilPercent p n
  | .malformed => 0

theorem allDigits_spec (cs : List Char) : cs.all isDigitChar = cs.all isDigit := rfl

theorem scaledValue_le_limit (cs : List Char) (n : Nat) (hadm : nodesSpec cs ≠ .malformed) :
    ∀ v, scaledValue cs n = some v → v ≤ (limitOf cs n : Int) := by
  intro v hv
  unfold limitOf
  unfold nodesSpec at hadm ⊢
  by_cases hd : (!cs.isEmpty && cs.all isDigitChar) = true
  · simp only [hd, if_true] at hadm ⊢
    simp only [Bool.and_eq_true, Bool.not_eq_true', allDigits_spec] at hd
    unfold scaledValue at hv
    rw [atoi_digits cs hd.1 hd.2] at hv
    by_cases hle : (digitsVal cs : Int) ≤ maxInt64
    · simp only [hle, if_true] at hv
      have := wrap32_le (digitsVal cs : Int) (by omega)
      rw [digitsVal_eq] at this hv
      simp at hv
      omega
    · simp only [hle, if_false] at hv
      -- the last character is a digit, not '%'
      cases hl : cs.getLast? with
      | none => simp [hl] at hv
      | some c =>
        have hmem := List.mem_of_getLast? hl
        have hcd := (List.all_eq_true.mp hd.2) c hmem
        have : c ≠ '%' := by intro h; subst h; revert hcd; decide
        simp only [hl] at hv
        split at hv
        · rename_i heq; simp at heq; exact absurd heq this
        · simp at hv
  · simp only [hd] at hadm ⊢
    have hd' : (cs.isEmpty || !cs.all isDigit) = true := by
      rw [allDigits_spec] at hd
      cases h1 : cs.isEmpty <;> cases h2 : cs.all isDigit <;> simp_all
    cases hl : cs.getLast? with
    | none => simp [hl] at hadm
    | some c =>
      simp only [hl] at hadm ⊢
      by_cases hc : c = '%'
      · subst hc
        simp only at hadm ⊢
        by_cases hds : (!cs.dropLast.isEmpty && cs.dropLast.all isDigitChar) = true
        · simp only [hds, if_true] at hadm ⊢
          simp only [Bool.and_eq_true, Bool.not_eq_true', allDigits_spec] at hds
          obtain ⟨ys, hys⟩ := List.getLast?_eq_some_iff.mp hl
          have hdl : cs.dropLast = ys := by rw [hys]; simp
          rw [hdl] at hds ⊢
          -- cs does not start with a sign: its head is the head of ys, a digit
          have hsign : ∀ r, cs ≠ '-' :: r ∧ cs ≠ '+' :: r := by
            intro r
            cases ys with
            | nil => simp at hds
            | cons y ys' =>
              have hy : isDigit y = true := by
                have := hds.2; simp [List.all_cons] at this; exact this.1
              rw [hys]
              constructor <;> (intro h; simp at h; have := h.1; subst this; revert hy; decide)
          unfold scaledValue at hv
          rw [atoi_nondigits cs hd' hsign] at hv
          simp only [hl, hdl] at hv
          rw [atoi_digits ys hds.1 hds.2] at hv
          by_cases hle : (digitsVal ys : Int) ≤ maxInt64
          · simp only [hle, if_true] at hv
            rw [scalePercent_eq, digitsVal_eq] at hv
            simp at hv
            simp only [Bool.false_eq_true, ↓reduceIte]
            omega
          · simp [hle] at hv
        · simp [hds] at hadm
      · have : (match (some c : Option Char) with
            | some '%' => (if (!cs.dropLast.isEmpty && cs.dropLast.all isDigitChar) = true then NodesSpec.percent (decimal cs.dropLast) else NodesSpec.malformed)
            | _ => NodesSpec.malformed) = NodesSpec.malformed := by
          split
          · rename_i heq; simp at heq; exact absurd heq hc
          · rfl
        exact absurd this hadm




/-- the cron parameter of the model agrees with the spec's reading of schedule strings -/
structure CronAgrees (cron : Cron) (hitOf : HitOf) : Prop where
  /-- the empty spec string is a parse error -/
  empty : cron "" = none
  /-- same strings are schedules -/
  parse : ∀ s, (cron s).isNone = (hitOf s).isNone
  /-- `Next` returns the least activation strictly after its argument (or the zero time) -/
  next : ∀ s nx hit, cron s = some nx → hitOf s = some hit → NextSpec hit nx
  /-- activations are whole minutes -/
  minute : ∀ s hit, hitOf s = some hit → ∀ h, hit h = true → h % 60000000000 = 0

theorem limit_eq (b : Budget) (n : Nat) : limit b n = limitOf b.nodes n := rfl

/-- one budget: if the spec says it is well-formed and active, the model's value is an error or at most the limit -/
theorem budgetAllowed_le (cron : Cron) (hitOf : HitOf) (hc : CronAgrees cron hitOf) (b : Budget) (now : Int) (n : Nat)
    (hadm : nodesSpec b.nodes ≠ .malformed) (hact : active hitOf b now = true) :
    (budgetAllowed cron b now n).2 = true ∨ (budgetAllowed cron b now n).1 ≤ (limit b n : Int) := by
  have key : isActive cron b now = none ∨ isActive cron b now = some true := by
    unfold active at hact
    cases hs : b.schedule with
    | none =>
      unfold isActive
      cases hd : b.duration with
      | none => simp [hs]
      | some d => simp [hs, hc.empty]
    | some s =>
      simp only [hs] at hact
      cases hh : hitOf s with
      | none => simp [hh] at hact
      | some hit =>
        simp only [hh] at hact
        cases hcs : cron s with
        | none => left; unfold isActive; simp [hs, hcs]
        | some nx =>
          right
          rw [isActive_scheduled cron hit nx b s now hs hcs (hc.next s nx hit hcs hh) (hc.minute s hit hh), hact]
          simp
  unfold budgetAllowed
  rcases key with h | h
  · simp [h]
  · simp only [h]
    cases hv : scaledValue b.nodes n with
    | none => simp
    | some v =>
      right
      simp only
      rw [limit_eq]
      exact scaledValue_le_limit b.nodes n hadm v hv

/-- an unreadable schedule is an error in the model -/
theorem budgetAllowed_err_of_unreadable (cron : Cron) (hitOf : HitOf) (hc : CronAgrees cron hitOf) (b : Budget) (now : Int) (total : Int)
    (s : String) (hs : b.schedule = some s) (hh : hitOf s = none) : (budgetAllowed cron b now total).2 = true := by
  have : cron s = none := by
    have := hc.parse s; rw [hh] at this; simpa using this
  unfold budgetAllowed isActive
  simp [hs, this]

theorem foldl_byReason (cron : Cron) (now : Int) (total : Int) (reason : String) (bs : List Budget) :
    ∀ acc : Int × Bool,
      let r := bs.foldl (byReasonStep cron now total reason) acc
      r.1 ≤ acc.1 ∧
      (∀ b ∈ bs, appliesTo b reason = true → r.1 ≤ (budgetAllowed cron b now total).1) ∧
      (r.2 = (acc.2 || bs.any (fun b => (budgetAllowed cron b now total).2))) := by
  induction bs with
  | nil => intro acc; simp
  | cons b bs ih =>
    intro acc
    simp only [List.foldl_cons]
    obtain ⟨h1, h2, h3⟩ := ih (byReasonStep cron now total reason acc b)
    refine ⟨?_, ?_, ?_⟩
    · refine Int.le_trans h1 ?_
      unfold byReasonStep
      simp only
      split
      · exact Int.min_le_left _ _
      · exact Int.le_refl _
    · intro b' hb' happ
      rcases List.mem_cons.mp hb' with rfl | hb'
      · refine Int.le_trans h1 ?_
        unfold byReasonStep
        simp only [happ, if_true]
        exact Int.min_le_right _ _
      · exact h2 b' hb' happ
    · rw [h3]
      unfold byReasonStep
      simp [Bool.or_assoc]

theorem le_minLimit (x : Int) (l : List Nat) (h : ∀ v ∈ l, x ≤ (v : Int)) : leAllowed x (minLimit l) = true := by
  induction l with
  | nil => simp [minLimit, leAllowed]
  | cons a l ih =>
    have ih' := ih (fun v hv => h v (List.mem_cons_of_mem _ hv))
    have ha := h a (List.mem_cons_self)
    unfold minLimit
    cases hm : minLimit l with
    | none => simp [leAllowed, ha]
    | some y =>
      rw [hm] at ih'
      simp only [leAllowed, decide_eq_true_eq] at ih' ⊢
      omega

/-- the code's "applies to" agrees with the property's, unless the guard is the nil test and the list is non-nil empty -/
theorem applies_eq (b : Budget) (reason : String)
    (h : Karp.Gen.BudgetFacts.emptyReasonsApply = true ∨ b.reasons ≠ some []) : applies b reason = appliesTo b reason := by
  unfold applies appliesTo
  cases hr : b.reasons with
  | none => rfl
  | some rs =>
    cases rs with
    | nil =>
      rcases h with h | h
      · simp [h]
      · exact absurd hr h
    | cons a l => simp

theorem allowed_le_spec (cron : Cron) (hitOf : HitOf) (hc : CronAgrees cron hitOf)
    (bs : List Budget) (now : Int) (n : Nat) (reason : String)
    (hadm : ∀ b ∈ bs, nodesSpec b.nodes ≠ .malformed)
    (hreasons : Karp.Gen.BudgetFacts.emptyReasonsApply = true ∨ ∀ b ∈ bs, b.reasons ≠ some []) :
    leAllowed (mustAllowed cron bs now n reason) (specAllowed hitOf bs now n reason) = true := by
  obtain ⟨_, h2, h3⟩ := foldl_byReason cron now n reason bs (Karp.Gen.BudgetFacts.initialAllowed, false)
  simp only [Bool.false_or] at h3
  unfold mustAllowed allowedByReason
  by_cases herr : (bs.foldl (byReasonStep cron now n reason) (Karp.Gen.BudgetFacts.initialAllowed, false)).2 = true
  · -- fail closed: 0 ≤ anything
    simp only [herr, if_true]
    cases specAllowed hitOf bs now n reason with
    | none => rfl
    | some v => simp [leAllowed, Karp.Gen.BudgetFacts.mustErrorValue]
  · simp only [herr]
    have hnoerr : ∀ b ∈ bs, (budgetAllowed cron b now n).2 = false := by
      intro b hb
      rw [h3] at herr
      simp only [List.any_eq_true, not_exists, not_and, Bool.not_eq_true] at herr
      exact herr b hb
    unfold specAllowed
    have hnomal : bs.any (malformed hitOf) = false := by
      rw [Bool.eq_false_iff]
      intro hm
      obtain ⟨b, hb, hmb⟩ := List.any_eq_true.mp hm
      unfold malformed at hmb
      have := hadm b hb
      cases hs : b.schedule with
      | none => simp [hs, this] at hmb
      | some s =>
        simp only [hs, Bool.or_eq_true, beq_iff_eq, this, false_or, Option.isNone_iff_eq_none] at hmb
        have := budgetAllowed_err_of_unreadable cron hitOf hc b now n s hs hmb
        rw [hnoerr b hb] at this
        exact Bool.noConfusion this
    simp only [hnomal, Bool.false_eq_true, if_false]
    apply le_minLimit
    intro v hv
    obtain ⟨b, hb, rfl⟩ := List.mem_map.mp hv
    rw [List.mem_filter] at hb
    obtain ⟨hb, hcond⟩ := hb
    simp only [Bool.and_eq_true] at hcond
    rw [applies_eq b reason (hreasons.imp id (fun h => h b hb))] at hcond
    refine Int.le_trans (h2 b hb hcond.1) ?_
    rcases budgetAllowed_le cron hitOf hc b now n (hadm b hb) hcond.2 with h | h
    · rw [hnoerr b hb] at h; exact Bool.noConfusion h
    · exact h

theorem countPool_cons (p : String) (c : Cand) (l : List Cand) :
    countPool p (c :: l) = (if c.pool == p then 1 else 0) + countPool p l := by
  unfold countPool
  by_cases h : (c.pool == p) = true
  · simp [h]; omega
  · simp [h]

theorem countPool_nil (p : String) : countPool p [] = 0 := rfl

theorem dec_self (m : Mapping) (p : String) : (m.dec p) p = m p - 1 := by simp [Mapping.dec]
theorem dec_other (m : Mapping) (p q : String) (h : q ≠ p) : (m.dec p) q = m q := by simp [Mapping.dec, h]

/-- the shared loop never takes more of a pool than the mapping had, and leaves the rest in the mapping -/
theorem budgetFilter_count (keep : Cand → Bool) (cs : List Cand) :
    ∀ (m : Mapping) (p : String),
      countPool p (budgetFilter keep m cs).1 + (budgetFilter keep m cs).2 p = m p := by
  induction cs with
  | nil => intro m p; simp [budgetFilter, countPool_nil]
  | cons c cs ih =>
    intro m p
    unfold budgetFilter
    by_cases hk : keep c = true
    · simp only [hk, Bool.not_true, Bool.false_eq_true, if_false]
      by_cases hz : m c.pool = 0
      · simp only [hz, if_true]; exact ih m p
      · simp only [hz, if_false]
        rw [countPool_cons]
        have := ih (m.dec c.pool) p
        by_cases hp : c.pool = p
        · subst hp
          simp only [beq_self_eq_true, if_true]
          rw [dec_self] at this
          omega
        · have hne : (c.pool == p) = false := by simpa using hp
          simp only [hne, Bool.false_eq_true, if_false]
          rw [dec_other m c.pool p (fun h => hp h.symm)] at this
          omega
    · simp only [hk, Bool.not_false, if_true]
      exact ih m p

theorem budgetFilter_count_le (keep : Cand → Bool) (cs : List Cand) (m : Mapping) (p : String) :
    countPool p (budgetFilter keep m cs).1 ≤ m p := by
  have := budgetFilter_count keep cs m p; omega

/-- exactness (greedy): the loop takes `min (m p) (#kept candidates of p)` -/
theorem budgetFilter_exact (keep : Cand → Bool) (cs : List Cand) :
    ∀ (m : Mapping) (p : String),
      countPool p (budgetFilter keep m cs).1 = min (m p) (countPool p (cs.filter keep)) := by
  induction cs with
  | nil => intro m p; simp [budgetFilter, countPool_nil]
  | cons c cs ih =>
    intro m p
    unfold budgetFilter
    by_cases hk : keep c = true
    · simp only [hk, Bool.not_true, Bool.false_eq_true, if_false, List.filter_cons, if_true]
      by_cases hz : m c.pool = 0
      · simp only [hz, if_true]
        rw [ih m p, countPool_cons]
        by_cases hp : c.pool = p
        · subst hp; simp [hz]
        · have hne : (c.pool == p) = false := by simpa using hp
          simp [hne]
      · simp only [hz, if_false]
        rw [countPool_cons, countPool_cons, ih (m.dec c.pool) p]
        by_cases hp : c.pool = p
        · subst hp
          simp only [beq_self_eq_true, if_true]
          rw [dec_self]
          omega
        · have hne : (c.pool == p) = false := by simpa using hp
          simp only [hne, Bool.false_eq_true, if_false]
          rw [dec_other m c.pool p (fun h => hp h.symm)]
          omega
    · simp only [hk, Bool.not_false, if_true, List.filter_cons, Bool.false_eq_true, if_false]
      exact ih m p

theorem budgetFilter_sub (keep : Cand → Bool) (cs : List Cand) :
    ∀ (m : Mapping), ∀ c ∈ (budgetFilter keep m cs).1, c ∈ cs ∧ keep c = true ∧ m c.pool ≠ 0 := by
  induction cs with
  | nil => intro m c hc; simp [budgetFilter] at hc
  | cons a cs ih =>
    intro m c hc
    unfold budgetFilter at hc
    by_cases hk : keep a = true
    · simp only [hk, Bool.not_true, Bool.false_eq_true, if_false] at hc
      by_cases hz : m a.pool = 0
      · simp only [hz, if_true] at hc
        obtain ⟨h1, h2, h3⟩ := ih m c hc
        exact ⟨List.mem_cons_of_mem _ h1, h2, h3⟩
      · simp only [hz, if_false] at hc
        rcases List.mem_cons.mp hc with rfl | hc
        · exact ⟨List.mem_cons_self, hk, hz⟩
        · obtain ⟨h1, h2, h3⟩ := ih _ c hc
          refine ⟨List.mem_cons_of_mem _ h1, h2, ?_⟩
          intro h0
          apply h3
          unfold Mapping.dec
          split <;> omega
    · simp only [hk, Bool.not_false, if_true] at hc
      obtain ⟨h1, h2, h3⟩ := ih m c hc
      exact ⟨List.mem_cons_of_mem _ h1, h2, h3⟩

theorem countPool_take_le (p : String) (l : List Cand) (k : Nat) : countPool p (l.take k) ≤ countPool p l := by
  unfold countPool
  exact ((List.take_sublist k l).filter _).length_le

theorem selectFirst_some (ok : Cand → Bool) (m : Mapping) (cs : List Cand) (c : Cand)
    (h : selectFirst ok m cs = some c) : c ∈ cs ∧ m c.pool ≠ 0 ∧ ok c = true := by
  induction cs with
  | nil => simp [selectFirst] at h
  | cons a cs ih =>
    unfold selectFirst at h
    by_cases hz : m a.pool = 0
    · simp only [hz, if_true] at h
      obtain ⟨h1, h2⟩ := ih h
      exact ⟨List.mem_cons_of_mem _ h1, h2⟩
    · simp only [hz, if_false] at h
      by_cases hok : ok a = true
      · simp only [hok, if_true] at h
        cases h
        exact ⟨List.mem_cons_self, hz, hok⟩
      · simp only [hok] at h
        obtain ⟨h1, h2⟩ := ih h
        exact ⟨List.mem_cons_of_mem _ h1, h2⟩

theorem countPool_single_le (m : Mapping) (c : Cand) (h : m c.pool ≠ 0) (p : String) : countPool p [c] ≤ m p := by
  rw [countPool_cons, countPool_nil]
  by_cases hp : c.pool = p
  · subst hp; simp; omega
  · have hne : (c.pool == p) = false := by simpa using hp
    simp [hne]

theorem reserveGrant_le (remaining : Int) (wanted : Nat) : reserveGrant remaining wanted ≤ wanted := by
  unfold reserveGrant
  split
  · omega
  · split <;> omega

theorem staticCount_le (mp ncands : Nat) (over : Bool) (remaining : Int) :
    staticCount mp ncands over remaining ≤ mp ∧ staticCount mp ncands over remaining ≤ ncands := by
  unfold staticCount
  split
  · omega
  · split
    · omega
    · have := reserveGrant_le remaining (min mp ncands); omega

theorem allWithin_count (nominated : Cand → Bool) (cs : List Cand) :
    ∀ (m : Mapping), allWithin nominated m cs = true → ∀ p, countPool p cs ≤ m p := by
  induction cs with
  | nil => intro m _ p; simp [countPool_nil]
  | cons c cs ih =>
    intro m h p
    unfold allWithin at h
    simp only [Bool.and_eq_true, Bool.not_eq_true', bne_iff_ne, ne_eq] at h
    obtain ⟨⟨_, hz⟩, hrest⟩ := h
    have := ih _ hrest p
    rw [countPool_cons]
    by_cases hp : c.pool = p
    · subst hp
      simp only [beq_self_eq_true, if_true]
      rw [dec_self] at this
      omega
    · have hne : (c.pool == p) = false := by simpa using hp
      simp only [hne, Bool.false_eq_true, if_false]
      rw [dec_other m c.pool p (fun h => hp h.symm)] at this
      omega


theorem counted_eq (pool : String) (n : Node) : counted pool n = isPoolNode pool n := by
  unfold counted isPoolNode
  cases n.managed <;> cases n.initialized <;> cases n.terminating <;> cases (n.pool == pool) <;> rfl

theorem numNodes_eq (nodes : List Node) (pool : String) : numNodes nodes pool = poolSize nodes pool := by
  unfold numNodes poolSize
  congr 1
  apply List.filter_congr
  intro n _
  exact counted_eq pool n

theorem disrupting_eq (nodes : List Node) (pool : String) : disrupting nodes pool = alreadyDisrupting nodes pool := by
  unfold disrupting alreadyDisrupting
  congr 1
  apply List.filter_congr
  intro n _
  unfold disruptingNode
  rw [counted_eq]

/-- well-formedness of a pool list: unique names, admissible `nodes` values, and — unless the source has the repaired
    guard — no empty non-nil reason list (known finding `C05-empty-reasons`) -/
structure GoodPools (ps : List Pool) : Prop where
  nodup : (ps.map (·.name)).Nodup
  adm : ∀ p ∈ ps, ∀ b ∈ p.budgets, nodesSpec b.nodes ≠ .malformed
  reasons : Karp.Gen.BudgetFacts.emptyReasonsApply = true ∨ ∀ p ∈ ps, ∀ b ∈ p.budgets, b.reasons ≠ some []

theorem lookup_buildMapping (f : Pool → Nat) (ps : List Pool) (h : (ps.map (·.name)).Nodup) (p : Pool) (hp : p ∈ ps) :
    ((ps.map (fun q => (q.name, f q))).lookup p.name).getD 0 = f p := by
  induction ps with
  | nil => simp at hp
  | cons q ps ih =>
    simp only [List.map_cons, List.nodup_cons] at h
    rcases List.mem_cons.mp hp with rfl | hp'
    · simp
    · have hne : p.name ≠ q.name := by
        intro heq
        apply h.1
        rw [← heq]
        exact List.mem_map.mpr ⟨p, hp', rfl⟩
      simp only [List.map_cons, List.lookup]
      have : (p.name == q.name) = false := by simpa using hne
      rw [this]
      exact ih h.2 hp'

theorem world_mapping_eq (cron : Cron) (w : World) (reason : String) (h : (w.pools.map (·.name)).Nodup)
    (p : Pool) (hp : p ∈ w.pools) :
    w.mapping cron reason p.name = poolRemaining cron p w.nodes w.now reason := by
  unfold World.mapping Mapping.ofList buildMapping
  exact lookup_buildMapping (fun q => poolRemaining cron q w.nodes w.now reason) w.pools h p hp

theorem leAllowed_mono (x y : Int) (s : Option Nat) (h : x ≤ y) (hy : leAllowed y s = true) : leAllowed x s = true := by
  cases s with
  | none => rfl
  | some v => simp only [leAllowed, decide_eq_true_eq] at hy ⊢; omega

/-- selecting up to the published remaining allowance respects the property's bound -/
theorem mapping_sound (cron : Cron) (hitOf : HitOf) (hc : CronAgrees cron hitOf) (w : World) (hg : GoodPools w.pools)
    (reason : String) (p : Pool) (hp : p ∈ w.pools) (k : Nat) (hk : k ≤ w.mapping cron reason p.name) :
    poolBoundOK hitOf p w.nodes w.now reason k = true := by
  unfold poolBoundOK
  by_cases h0 : k = 0
  · simp [h0]
  · have hle := allowed_le_spec cron hitOf hc p.budgets w.now (numNodes w.nodes p.name) reason (hg.adm p hp) (hg.reasons.imp id (fun h => h p hp))
    rw [world_mapping_eq cron w reason hg.nodup p hp] at hk
    unfold poolRemaining at hk
    rw [numNodes_eq] at hle hk
    rw [disrupting_eq] at hk
    simp only [Bool.or_eq_true, beq_iff_eq, h0, false_or]
    refine leAllowed_mono _ _ _ ?_ hle
    omega

theorem countPool_append (p : String) (a b : List Cand) : countPool p (a ++ b) = countPool p a + countPool p b := by
  unfold countPool; simp [List.filter_append]

theorem countPool_group (q g : String) (cands : List Cand) (k : Nat) :
    countPool q ((cands.filter (fun c => c.pool == g)).take k) ≤ (if g = q then k else 0) := by
  by_cases h : g = q
  · subst h
    simp only [if_true]
    unfold countPool
    refine Nat.le_trans (List.length_filter_le _ _) ?_
    simp [List.length_take]
    omega
  · simp only [h, if_false, Nat.le_zero]
    unfold countPool
    rw [List.length_eq_zero_iff, List.filter_eq_nil_iff]
    intro c hc
    have := List.mem_of_mem_take hc
    rw [List.mem_filter] at this
    have hg : c.pool = g := by simpa using this.2
    simp [hg, h]

theorem selectStatic_count (m : Mapping) (over : String → Bool) (remaining : String → Int) (cands : List Cand) (q : String) :
    ∀ (groups : List String), groups.Nodup →
      countPool q (selectStatic m over remaining groups cands) ≤ (if q ∈ groups then m q else 0) := by
  intro groups
  induction groups with
  | nil => intro _; simp [selectStatic, countPool]
  | cons g gs ih =>
    intro hnd
    simp only [List.nodup_cons] at hnd
    have ih' := ih hnd.2
    unfold selectStatic at ih' ⊢
    simp only [List.flatMap_cons]
    rw [countPool_append]
    have h1 := countPool_group q g cands (staticCount (m g) (countPool g cands) (over g) (remaining g))
    have h2 := (staticCount_le (m g) (countPool g cands) (over g) (remaining g)).1
    by_cases hg : g = q
    · subst hg
      have hq : ¬ g ∈ gs := hnd.1
      simp only [hq, if_false, Nat.le_zero] at ih'
      simp only [if_true] at h1
      simp only [List.mem_cons, true_or, if_true]
      omega
    · simp only [hg, if_false, Nat.le_zero] at h1
      have : (q ∈ g :: gs) ↔ q ∈ gs := by
        simp only [List.mem_cons]
        constructor
        · rintro (h | h)
          · exact absurd h.symm hg
          · exact h
        · exact Or.inr
      simp only [this]
      omega

/-- pure accounting: whatever a round hands to the queue fits, pool by pool, the mapping of the world on which
    its budget was last computed -/
theorem runRound_within (cron : Cron) (w : World) (e : RoundEnv) (hgroups : e.groups.Nodup) (q : String) :
    countPool q (runRound cron w e).1 ≤ (runRound cron w e).2.mapping cron e.method.reason q := by
  unfold runRound
  cases hm : e.method with
  | emptiness =>
    simp only
    split
    · simp [countPool]
    · split
      · simp [countPool]
      · rename_i v hv
        unfold validateEmptiness at hv
        split at hv
        · cases hv
        · simp only at hv
          split at hv
          · cases hv
          · cases hv
            exact budgetFilter_count_le _ _ _ _
  | multi =>
    simp only
    split
    · simp [countPool]
    · split
      · rename_i hv
        unfold validateConsolidation at hv
        simp only [Bool.and_eq_true] at hv
        exact allWithin_count _ _ _ hv.2 q
      · simp [countPool]
  | single =>
    simp only
    split
    · simp [countPool]
    · split
      · rename_i hv
        unfold validateConsolidation at hv
        simp only [Bool.and_eq_true] at hv
        exact allWithin_count _ _ _ hv.2 q
      · simp [countPool]
  | drift =>
    simp only
    cases hs : selectDrift e.ok (w.mapping cron Method.drift.reason) e.cands with
    | none => simp [countPool]
    | some c =>
      simp only [Option.toList_some]
      unfold selectDrift at hs
      exact countPool_single_le _ c (selectFirst_some _ _ _ _ hs).2.1 q
  | staticDrift =>
    simp only
    refine Nat.le_trans (selectStatic_count _ _ _ _ q _ hgroups) ?_
    split
    · exact Nat.le_refl _
    · exact Nat.zero_le _


theorem runRound_world (cron : Cron) (w : World) (e : RoundEnv) :
    (runRound cron w e).2 = w ∨ (runRound cron w e).2 = e.later := by
  unfold runRound
  cases e.method with
  | emptiness =>
    simp only
    split
    · exact Or.inl rfl
    · split <;> exact Or.inr rfl
  | multi =>
    simp only
    split
    · exact Or.inl rfl
    · split <;> exact Or.inr rfl
  | single =>
    simp only
    split
    · exact Or.inl rfl
    · split <;> exact Or.inr rfl
  | drift => exact Or.inl rfl
  | staticDrift => exact Or.inl rfl


/-- the candidates stand for nodes of the world: same name ⇒ same pool -/
def CandsOfNodes (nodes : List Node) (cs : List Cand) : Prop :=
  ∀ c ∈ cs, ∀ n ∈ nodes, n.name = c.name → n.pool = c.pool

def markOne (names : List String) (n : Node) : Node :=
  if names.contains n.name then { n with marked := true } else n

theorem markNodes_eq (names : List String) (nodes : List Node) : markNodes names nodes = nodes.map (markOne names) := rfl

theorem markOne_name (names : List String) (n : Node) : (markOne names n).name = n.name := by
  unfold markOne; split <;> rfl

theorem markOne_isPoolNode (names : List String) (p : String) (n : Node) :
    isPoolNode p (markOne names n) = isPoolNode p n := by
  unfold markOne; split <;> rfl

theorem markNodes_names (names : List String) (nodes : List Node) :
    (markNodes names nodes).map (·.name) = nodes.map (·.name) := by
  rw [markNodes_eq, List.map_map]
  apply List.map_congr_left
  intro n _
  exact markOne_name names n


theorem filter_length_le_add {α : Type} (P Q R : α → Bool) (l : List α)
    (h : ∀ x ∈ l, P x = true → Q x = true ∨ R x = true) :
    (l.filter P).length ≤ (l.filter Q).length + (l.filter R).length := by
  induction l with
  | nil => simp
  | cons x xs ih =>
    have ih' := ih (fun y hy => h y (List.mem_cons_of_mem _ hy))
    have hx := h x List.mem_cons_self
    simp only [List.filter_cons]
    by_cases hP : P x = true
    · rcases hx hP with hQ | hR
      · simp only [hP, hQ, if_true, List.length_cons]
        split <;> (try simp only [List.length_cons]) <;> omega
      · simp only [hP, hR, if_true, List.length_cons]
        split <;> (try simp only [List.length_cons]) <;> omega
    · simp only [hP, Bool.false_eq_true, if_false]
      split <;> split <;> (try simp only [List.length_cons]) <;> omega

theorem filter_length_mono {α : Type} (P Q : α → Bool) (l : List α) (h : ∀ x ∈ l, P x = true → Q x = true) :
    (l.filter P).length ≤ (l.filter Q).length := by
  have := filter_length_le_add P Q (fun _ => false) l (fun x hx hp => Or.inl (h x hx hp))
  have h0 : (l.filter (fun _ => false)).length = 0 := by simp
  omega

theorem markNodes_poolSize (names : List String) (nodes : List Node) (p : String) :
    poolSize (markNodes names nodes) p = poolSize nodes p := by
  unfold poolSize
  rw [markNodes_eq, List.filter_map, List.length_map]
  congr 1
  apply List.filter_congr
  intro n _
  exact markOne_isPoolNode names p n

/-- the number of pool-`p` nodes whose name is in `names` -/
def namedIn (names : List String) (p : String) (nodes : List Node) : Nat :=
  (nodes.filter (fun n => names.contains n.name && n.pool == p)).length

theorem disrupting_mark_le (names : List String) (p : String) (nodes : List Node) :
    alreadyDisrupting (markNodes names nodes) p ≤ alreadyDisrupting nodes p + namedIn names p nodes := by
  unfold alreadyDisrupting namedIn
  rw [markNodes_eq, List.filter_map, List.length_map]
  apply filter_length_le_add
  intro n _ h
  simp only [Function.comp] at h
  by_cases hc : names.contains n.name = true
  · right
    have hp : isPoolNode p (markOne names n) = true := by
      cases hx : isPoolNode p (markOne names n)
      · rw [hx] at h; simp at h
      · rfl
    rw [markOne_isPoolNode] at hp
    unfold isPoolNode at hp
    have hpool : (n.pool == p) = true := by
      cases hx : (n.pool == p)
      · rw [hx] at hp; simp at hp
      · rfl
    rw [hc, hpool]; rfl
  · left
    unfold markOne at h
    rw [if_neg hc] at h
    exact h

theorem filter_name_le_one (s : String) (nodes : List Node) (hnd : (nodes.map (·.name)).Nodup) :
    (nodes.filter (fun n => n.name == s)).length ≤ 1 := by
  induction nodes with
  | nil => simp
  | cons n ns ih =>
    simp only [List.map_cons, List.nodup_cons] at hnd
    simp only [List.filter_cons]
    by_cases h : (n.name == s) = true
    · simp only [h, if_true, List.length_cons]
      have : ns.filter (fun n => n.name == s) = [] := by
        rw [List.filter_eq_nil_iff]
        intro m hm hms
        apply hnd.1
        have h1 : n.name = s := by simpa using h
        have h2 : m.name = s := by simpa using hms
        rw [h1, ← h2]
        exact List.mem_map.mpr ⟨m, hm, rfl⟩
      rw [this]; simp
    · simp only [h, Bool.false_eq_true, if_false]
      exact ih hnd.2

theorem namedIn_le_countPool (p : String) (nodes : List Node) (hnd : (nodes.map (·.name)).Nodup) :
    ∀ (A : List Cand), CandsOfNodes nodes A → namedIn (A.map (·.name)) p nodes ≤ countPool p A := by
  intro A
  induction A with
  | nil => intro _; simp [namedIn, countPool]
  | cons c A ih =>
    intro hc
    have hc' : CandsOfNodes nodes A := fun c' h => hc c' (List.mem_cons_of_mem _ h)
    have ih' := ih hc'
    rw [countPool_cons]
    -- split the nodes named in (c :: A) into those named c.name and those named in A
    have hsplit : namedIn ((c :: A).map (·.name)) p nodes ≤
        (nodes.filter (fun n => n.name == c.name && n.pool == p)).length + namedIn (A.map (·.name)) p nodes := by
      unfold namedIn
      refine filter_length_le_add _ _ _ nodes ?_
      intro n _ h
      have hpool : (n.pool == p) = true := by
        cases hx : (n.pool == p)
        · rw [hx] at h; simp at h
        · rfl
      have hcont : ((c :: A).map (·.name)).contains n.name = true := by
        cases hx : ((c :: A).map (·.name)).contains n.name
        · rw [hx] at h; simp at h
        · rfl
      rw [List.map_cons, List.contains_cons] at hcont
      by_cases h1 : (n.name == c.name) = true
      · left; rw [h1, hpool]; rfl
      · right
        have : (A.map (·.name)).contains n.name = true := by
          cases hx : (A.map (·.name)).contains n.name
          · rw [hx] at hcont
            simp only [Bool.or_false] at hcont
            exact absurd hcont h1
          · rfl
        rw [this, hpool]; rfl
    have hfirst : (nodes.filter (fun n => n.name == c.name && n.pool == p)).length ≤ (if c.pool == p then 1 else 0) := by
      by_cases hp : (c.pool == p) = true
      · simp only [hp, if_true]
        refine Nat.le_trans ?_ (filter_name_le_one c.name nodes hnd)
        apply filter_length_mono
        intro n _ h
        simp only [Bool.and_eq_true] at h
        exact h.1
      · simp only [hp, Bool.false_eq_true, if_false, Nat.le_zero, List.length_eq_zero_iff, List.filter_eq_nil_iff]
        intro n hn h
        simp only [Bool.and_eq_true, beq_iff_eq] at h
        have := hc c List.mem_cons_self n hn h.1
        apply hp
        rw [← this, h.2]
        simp
    omega

/-- marking the accepted candidates raises a pool's disrupting count by at most their number in that pool -/
theorem disrupting_after_accept (nodes : List Node) (hnd : (nodes.map (·.name)).Nodup) (A : List Cand)
    (hc : CandsOfNodes nodes A) (p : String) :
    alreadyDisrupting (markNodes (A.map (·.name)) nodes) p ≤ alreadyDisrupting nodes p + countPool p A :=
  Nat.le_trans (disrupting_mark_le _ p nodes) (Nat.add_le_add_left (namedIn_le_countPool p nodes hnd A hc) _)

/-- in-flight candidates are counted: after acceptance every accepted pool node is "being deleted" -/
theorem accepted_counted (names : List String) (nodes : List Node) (p : String) :
    ∀ n ∈ markNodes names nodes, names.contains n.name = true → isPoolNode p n = true →
      (isPoolNode p n && (!n.ready || n.marked)) = true := by
  intro n hn hname hp
  rw [markNodes_eq] at hn
  obtain ⟨m, _, rfl⟩ := List.mem_map.mp hn
  rw [markOne_name] at hname
  unfold markOne at hp ⊢
  simp only [hname, if_true] at hp ⊢
  simp [hp]


/-- whatever a round accepts was a candidate of the round (first listing or re-listing) -/
theorem runRound_sub (cron : Cron) (w : World) (e : RoundEnv) :
    ∀ c ∈ (runRound cron w e).1, c ∈ e.cands ∨ c ∈ e.cur := by
  intro c hc
  unfold runRound at hc
  cases hm : e.method with
  | emptiness =>
    simp only [hm] at hc
    split at hc
    · simp at hc
    · split at hc
      · simp at hc
      · rename_i v hv
        unfold validateEmptiness at hv
        split at hv
        · cases hv
        · simp only at hv
          split at hv
          · cases hv
          · cases hv
            exact Or.inr (budgetFilter_sub _ _ _ c hc).1
  | multi =>
    simp only [hm] at hc
    split at hc
    · simp at hc
    · split at hc
      · exact Or.inr hc
      · simp at hc
  | single =>
    simp only [hm] at hc
    split at hc
    · simp at hc
    · split at hc
      · exact Or.inr hc
      · simp at hc
  | drift =>
    simp only [hm] at hc
    cases hs : selectDrift e.ok (w.mapping cron Method.drift.reason) e.cands with
    | none => rw [hs] at hc; simp at hc
    | some d =>
      rw [hs] at hc
      simp only [Option.toList_some, List.mem_singleton] at hc
      subst hc
      unfold selectDrift at hs
      have := (selectFirst_some _ _ _ _ hs).1
      unfold driftOrder at this
      rw [List.mem_append] at this
      rcases this with h | h <;> exact Or.inl (List.mem_filter.mp h).1
  | staticDrift =>
    simp only [hm] at hc
    unfold selectStatic at hc
    rw [List.mem_flatMap] at hc
    obtain ⟨g, _, hg⟩ := hc
    exact Or.inl (List.mem_filter.mp (List.mem_of_mem_take hg)).1

/-! ### The queue life cycle with informer lag -/

theorem Track.fresh_inv (name : String) : (Track.fresh name).inv = true := rfl

theorem inv_start (t : Track) (hinv : t.inv = true) (hpre : (!t.stateMarked && !t.inFlight) = true) :
    ({ t with mark := true, inFlight := true } : Track).inv = true := by
  rcases t with ⟨n, m, s, a, i⟩
  cases m <;> cases s <;> cases a <;> cases i <;> simp_all [Track.inv, Track.stateMarked]

theorem inv_finish (t : Track) (ok : Bool) (hinv : t.inv = true) (hpre : t.inFlight = true) :
    ({ t with api := t.api || ok, mark := t.mark && !completeUnmarks false ok, inFlight := false } : Track).inv = true := by
  rcases t with ⟨n, m, s, a, i⟩
  cases m <;> cases s <;> cases a <;> cases i <;> cases ok <;> simp_all [Track.inv, completeUnmarks]

theorem inv_sync (t : Track) (hinv : t.inv = true) : ({ t with seen := t.api } : Track).inv = true := by
  rcases t with ⟨n, m, s, a, i⟩
  cases m <;> cases s <;> cases a <;> cases i <;> simp_all [Track.inv]

theorem qstep_inv (ts : List Track) (s : QStep) (hinv : ∀ t ∈ ts, t.inv = true) (hpre : s.pre ts = true) :
    ∀ t ∈ qstep false ts s, t.inv = true := by
  intro t ht
  cases s with
  | start names =>
    simp only [qstep, onNames, List.mem_map] at ht
    obtain ⟨t0, h0, rfl⟩ := ht
    simp only [QStep.pre, List.all_eq_true] at hpre
    have hp := hpre t0 h0
    split
    · rename_i hc
      simp only [hc, Bool.not_true, Bool.false_or] at hp
      exact inv_start t0 (hinv t0 h0) hp
    · exact hinv t0 h0
  | finish names ok =>
    simp only [qstep, onNames, List.mem_map] at ht
    obtain ⟨t0, h0, rfl⟩ := ht
    simp only [QStep.pre, List.all_eq_true] at hpre
    have hp := hpre t0 h0
    split
    · rename_i hc
      simp only [hc, Bool.not_true, Bool.false_or] at hp
      exact inv_finish t0 ok (hinv t0 h0) hp
    · exact hinv t0 h0
  | sync names =>
    simp only [qstep, onNames, List.mem_map] at ht
    obtain ⟨t0, h0, rfl⟩ := ht
    split
    · exact inv_sync t0 (hinv t0 h0)
    · exact hinv t0 h0
  | appear name =>
    simp only [qstep] at ht
    split at ht
    · exact hinv t ht
    · rcases List.mem_append.mp ht with h | h
      · exact hinv t h
      · simp only [List.mem_singleton] at h
        subst h
        rfl

theorem qrun_inv (steps : List QStep) :
    ∀ ts : List Track, (∀ t ∈ ts, t.inv = true) → qrunOK false ts steps = true → ∀ t ∈ qrun false ts steps, t.inv = true := by
  induction steps with
  | nil => intro ts h _ t ht; exact h t ht
  | cons s ss ih =>
    intro ts h hok t ht
    simp only [qrunOK, Bool.and_eq_true] at hok
    exact ih (qstep false ts s) (qstep_inv ts s h hok.1) hok.2 t ht

theorem inv_counted (t : Track) (h : t.inv = true) (hb : t.beingDeleted = true) : t.stateMarked = true := by
  rcases t with ⟨n, m, s, a, i⟩
  cases m <;> cases s <;> cases a <;> cases i <;> simp_all [Track.inv, Track.beingDeleted, Track.stateMarked]

/-! ### More marks can only tighten the bound -/

/-- the same nodes with (possibly) more of them marked -/
def raiseMarks (extra : Node → Bool) (nodes : List Node) : List Node :=
  nodes.map (fun n => { n with marked := n.marked || extra n })

theorem raiseMarks_poolSize (extra : Node → Bool) (nodes : List Node) (p : String) :
    poolSize (raiseMarks extra nodes) p = poolSize nodes p := by
  unfold poolSize raiseMarks
  rw [List.filter_map, List.length_map]
  congr 1

theorem raiseMarks_disrupting (extra : Node → Bool) (nodes : List Node) (p : String) :
    alreadyDisrupting nodes p ≤ alreadyDisrupting (raiseMarks extra nodes) p := by
  unfold alreadyDisrupting raiseMarks
  rw [List.filter_map, List.length_map]
  apply filter_length_mono
  intro n _ h
  simp only [Function.comp, isPoolNode] at h ⊢
  simp only [Bool.and_eq_true, Bool.or_eq_true] at h ⊢
  refine ⟨h.1, ?_⟩
  rcases h.2 with h2 | h2
  · exact Or.inl h2
  · exact Or.inr (Or.inl h2)

theorem poolBound_of_raised (hitOf : HitOf) (p : Pool) (nodes : List Node) (extra : Node → Bool) (now : Int)
    (reason : String) (k : Nat) (h : poolBoundOK hitOf p (raiseMarks extra nodes) now reason k = true) :
    poolBoundOK hitOf p nodes now reason k = true := by
  unfold poolBoundOK at h ⊢
  rw [raiseMarks_poolSize] at h
  rcases Bool.or_eq_true _ _ |>.mp h with h0 | h1
  · simp [h0]
  · have := raiseMarks_disrupting extra nodes p.name
    rw [Bool.or_eq_true]
    right
    exact leAllowed_mono _ _ _ (by omega) h1

/-- the cluster state's view is the observer's view with more marks, as long as the invariant holds -/
theorem withTrack_view (ts : List Track) (hinv : ∀ t ∈ ts, t.inv = true) (nodes : List Node) :
    nodes.map (Node.withTrack Track.stateMarked ts) =
      raiseMarks (fun n => ts.any (fun t => t.name == n.name && t.stateMarked)) (nodes.map (Node.withTrack Track.beingDeleted ts)) := by
  unfold raiseMarks
  rw [List.map_map]
  apply List.map_congr_left
  intro n _
  simp only [Function.comp, Node.withTrack]
  have himp : ts.any (fun t => t.name == n.name && t.beingDeleted) = true →
      ts.any (fun t => t.name == n.name && t.stateMarked) = true := by
    intro h
    rw [List.any_eq_true] at h ⊢
    obtain ⟨t, ht, hb⟩ := h
    simp only [Bool.and_eq_true] at hb
    exact ⟨t, ht, by simp only [Bool.and_eq_true]; exact ⟨hb.1, inv_counted t (hinv t ht) hb.2⟩⟩
  cases hm : n.marked <;> cases hb : ts.any (fun t => t.name == n.name && t.beingDeleted) <;>
    cases hs : ts.any (fun t => t.name == n.name && t.stateMarked) <;> simp_all

end Karp.Budget
