/-
World-level lemmas for C09: the invariant behind leak-freedom and its preservation by every step of the transition
system `Karp.Term.step` (for every fault vector), given that launches persist their provider id.  Core Lean only.
-/
import Karp.Proofs.TermLemmas

namespace Karp.Term

/-! ## World-level lemmas -/

theorem claimStAfter_finalizer (st : ClaimState) (o : ClaimOut) : (claimStAfter st o).finalizer = (st.finalizer || o.finalizerAdded) := by
  unfold claimStAfter
  cases o.annotated <;> cases o.instPersisted <;> cases o.statusPersisted <;> simp

theorem claimStAfter_pid (st : ClaimState) (o : ClaimOut) : (claimStAfter st o).pid = (st.pid || (o.statusPersisted && o.launchPersisted)) := by
  unfold claimStAfter
  cases o.annotated <;> cases o.instPersisted <;> cases o.statusPersisted <;> simp

theorem claimStAfter_fresh (st : ClaimState) (o : ClaimOut) : (claimStAfter st o).fresh = (st.fresh && !o.statusPersisted) := by
  unfold claimStAfter
  cases o.annotated <;> cases o.instPersisted <;> cases o.statusPersisted <;> simp

theorem deleteClaimObj_some (now : Int) (c c' : ClaimW) (h : deleteClaimObj now c = some c') :
    c'.st.finalizer = c.st.finalizer ∧ c'.st.pid = c.st.pid ∧ c'.st.fresh = c.st.fresh := by
  unfold deleteClaimObj at h
  cases hd : c.st.deleting <;> cases hf : c.st.finalizer <;> simp [hd, hf] at h <;> subst h <;> simp [hf]

theorem deleteClaimObj_held (now : Int) (c : ClaimW) (h : c.st.finalizer = true) : ∃ c', deleteClaimObj now c = some c' := by
  unfold deleteClaimObj
  cases hd : c.st.deleting <;> simp [h]

theorem triggerInst_gone (i : Inst) (h : triggerInst i ≠ .gone) : i ≠ .gone := by
  intro hg; subst hg; exact h rfl


/-- "launched ⇒ provider id persisted", as a property of a step: a lifecycle pass that creates an instance also persists
    its provider id in that very pass -/
def launchPersists (w : World) : Event → Bool
  | .reconcileClaim f p =>
    match w.claim with
    | none => true
    | some c =>
      if !c.st.deleting && !launchDomain c.st then true
      else !(w.claimPass c f p).created || (w.claimPass c f p).launchPersisted
  | _ => true

def launchesPersist (w : World) : List Event → Bool
  | [] => true
  | e :: es => launchPersists w e && launchesPersist (step w e) es

/-- the invariant behind leak-freedom: no instance is unreferenced, an existing instance is backed by a NodeClaim that
    carries the finalizer and the provider id, and a claim that was never successfully reconciled has no provider id -/
structure Inv (w : World) : Prop where
  notLost : w.lost = false
  backed : w.inst ≠ .gone → ∃ c, w.claim = some c ∧ c.st.finalizer = true ∧ c.st.pid = true
  freshNoPid : ∀ c, w.claim = some c → c.st.fresh = true → c.st.pid = false

theorem inv_of_claim_eq (w w' : World) (h : Inv w) (hl : w'.lost = w.lost) (hi : w'.inst ≠ .gone → w.inst ≠ .gone) (hc : w'.claim = w.claim) : Inv w' :=
  ⟨by rw [hl]; exact h.notLost, fun hne => by rw [hc]; exact h.backed (hi hne), fun c hcl hf => h.freshNoPid c (by rw [← hc]; exact hcl) hf⟩

theorem inv_reconcileNode (w : World) (n : NodeObs) (o : NodeOut) (h : Inv w) : Inv (applyNodeOut w n o) := by
  unfold applyNodeOut
  refine ⟨h.notLost, ?_, ?_⟩
  · intro hne
    have hne' : w.inst ≠ .gone := by
      dsimp only at hne
      by_cases ht : o.triggered = true
      · simp only [ht, if_true] at hne; exact triggerInst_gone _ hne
      · simp only [ht] at hne; exact hne
    obtain ⟨c, hc, hf, hp⟩ := h.backed hne'
    dsimp only
    rw [hc]
    simp only
    cases hoc : o.conds with
    | none =>
      simp only
      by_cases hd : o.deletedClaim = true
      · simp only [hd, if_true]
        obtain ⟨c', hc'⟩ := deleteClaimObj_held w.now c hf
        obtain ⟨a, b, _⟩ := deleteClaimObj_some _ _ _ hc'
        exact ⟨c', hc', by rw [a]; exact hf, by rw [b]; exact hp⟩
      · simp only [hd]
        exact ⟨c, rfl, hf, hp⟩
    | some k =>
      simp only
      by_cases hd : o.deletedClaim = true
      · simp only [hd, if_true]
        obtain ⟨c', hc'⟩ := deleteClaimObj_held w.now { c with drained := k.drained, drainedAt := floorSec k.drainedAt, vol := k.vol, st := { c.st with inst := k.inst } } hf
        obtain ⟨a, b, _⟩ := deleteClaimObj_some _ _ _ hc'
        exact ⟨c', hc', by rw [a]; exact hf, by rw [b]; exact hp⟩
      · simp only [hd]
        exact ⟨_, rfl, hf, hp⟩
  · intro c' hc' hfresh
    dsimp only at hc'
    cases hwc : w.claim with
    | none => rw [hwc] at hc'; simp at hc'
    | some c =>
      rw [hwc] at hc'
      simp only at hc'
      have base := h.freshNoPid c hwc
      cases hoc : o.conds with
      | none =>
        rw [hoc] at hc'
        simp only at hc'
        by_cases hd : o.deletedClaim = true
        · simp only [hd, if_true] at hc'
          obtain ⟨_, b, cfr⟩ := deleteClaimObj_some _ _ _ hc'
          rw [b]; exact base (by rw [← cfr]; exact hfresh)
        · simp only [hd] at hc'
          cases hc'
          exact base hfresh
      | some k =>
        rw [hoc] at hc'
        simp only at hc'
        by_cases hd : o.deletedClaim = true
        · simp only [hd, if_true] at hc'
          obtain ⟨_, b, cfr⟩ := deleteClaimObj_some _ _ _ hc'
          rw [b]; exact base (by rw [← cfr]; exact hfresh)
        · simp only [hd] at hc'
          cases hc'
          exact base hfresh


theorem inv_applyClaimOut (w : World) (c : ClaimW) (o : ClaimOut) (h : Inv w) (hc : w.claim = some c)
    (hremoved : o.removed = true → w.inst = .gone ∧ o.created = false)
    (hcreated : o.created = true → c.st.fresh = true ∧ o.launchPersisted = true ∧ o.statusPersisted = true ∧
      (c.st.finalizer = true ∨ o.finalizerAdded = true)) :
    Inv (applyClaimOut w c o) := by
  have hgone_of_created : o.created = true → w.inst = .gone := by
    intro hcr
    have hpid := h.freshNoPid c hc (hcreated hcr).1
    cases hi : w.inst with
    | gone => rfl
    | running =>
      obtain ⟨c', hc', _, hp⟩ := h.backed (by rw [hi]; simp)
      rw [hc] at hc'; cases hc'; rw [hpid] at hp; simp at hp
    | terminating =>
      obtain ⟨c', hc', _, hp⟩ := h.backed (by rw [hi]; simp)
      rw [hc] at hc'; cases hc'; rw [hpid] at hp; simp at hp
  -- the claim object after the pass, if it is still there
  have hclaim : ∀ c'', (applyClaimOut w c o).claim = some c'' →
      c''.st.finalizer = (c.st.finalizer || o.finalizerAdded) ∧ c''.st.pid = (c.st.pid || (o.statusPersisted && o.launchPersisted)) ∧
      c''.st.fresh = (c.st.fresh && !o.statusPersisted) := by
    intro c'' hc''
    unfold applyClaimOut at hc''
    dsimp only at hc''
    by_cases hr : o.removed = true
    · simp [hr] at hc''
    · simp only [hr] at hc''
      by_cases hs : o.selfDeleted = true
      · simp only [hs, if_true] at hc''
        obtain ⟨a, b, d⟩ := deleteClaimObj_some _ _ _ hc''
        simp only at a b d
        rw [a, b, d, claimStAfter_finalizer, claimStAfter_pid, claimStAfter_fresh]
        exact ⟨rfl, rfl, rfl⟩
      · simp only [hs] at hc''
        cases hc''
        simp only [claimStAfter_finalizer, claimStAfter_pid, claimStAfter_fresh]
        simp
  have hsome : o.removed = false → (c.st.finalizer || o.finalizerAdded) = true → ∃ c'', (applyClaimOut w c o).claim = some c'' := by
    intro hr hf
    unfold applyClaimOut
    dsimp only
    simp only [hr, Bool.false_eq_true, if_false]
    by_cases hs : o.selfDeleted = true
    · simp only [hs, if_true]
      exact deleteClaimObj_held _ _ (by simp only [claimStAfter_finalizer]; exact hf)
    · simp only [hs]; exact ⟨_, rfl⟩
  have hinst : (applyClaimOut w c o).inst = (if o.created = true then Inst.running else if o.triggered = true then triggerInst w.inst else w.inst) := by
    unfold applyClaimOut; rfl
  have hlost : (applyClaimOut w c o).lost = (w.lost || (o.created && decide (w.inst ≠ .gone))) := by
    unfold applyClaimOut; rfl
  refine ⟨?_, ?_, ?_⟩
  · rw [hlost, h.notLost]
    by_cases hcr : o.created = true
    · simp [hcr, hgone_of_created hcr]
    · simp [hcr]
  · intro hne
    rw [hinst] at hne
    by_cases hcr : o.created = true
    · obtain ⟨_, hlp, hsp, hfin⟩ := hcreated hcr
      have hrem : o.removed = false := by
        cases hr : o.removed
        · rfl
        · have := (hremoved hr).2; rw [hcr] at this; simp at this
      have hf : (c.st.finalizer || o.finalizerAdded) = true := by
        rcases hfin with h | h <;> simp [h]
      obtain ⟨c'', hc''⟩ := hsome hrem hf
      obtain ⟨a, b, _⟩ := hclaim c'' hc''
      exact ⟨c'', hc'', by rw [a]; exact hf, by rw [b]; simp [hlp, hsp]⟩
    · simp only [hcr] at hne
      have hne' : w.inst ≠ .gone := by
        by_cases ht : o.triggered = true
        · simp only [ht, if_true] at hne; exact triggerInst_gone _ hne
        · simp only [ht] at hne; exact hne
      obtain ⟨c', hc', hf, hp⟩ := h.backed hne'
      rw [hc] at hc'; cases hc'
      have hrem : o.removed = false := by
        cases hr : o.removed
        · rfl
        · exact absurd (hremoved hr).1 hne'
      obtain ⟨c'', hc''⟩ := hsome hrem (by simp [hf])
      obtain ⟨a, b, _⟩ := hclaim c'' hc''
      exact ⟨c'', hc'', by rw [a]; simp [hf], by rw [b]; simp [hp]⟩
  · intro c'' hc'' hfresh
    obtain ⟨_, b, d⟩ := hclaim c'' hc''
    rw [d] at hfresh
    simp only [Bool.and_eq_true, Bool.not_eq_true'] at hfresh
    rw [b, h.freshNoPid c hc hfresh.1, hfresh.2]
    rfl


theorem provAnswer_notFound (i : Inst) (fault : Fault) (h : provAnswer i fault = .notFound) : i = .gone := by
  unfold provAnswer at h
  cases fault <;> simp at h
  exact h

theorem inv_reconcileClaim (w : World) (c : ClaimW) (f : ClaimFaults) (p : ProvFaults) (h : Inv w) (hc : w.claim = some c)
    (hp : (!(w.claimPass c f p).created || (w.claimPass c f p).launchPersisted) = true) :
    Inv (applyClaimOut w c (w.claimPass c f p)) := by
  apply inv_applyClaimOut w c _ h hc
  · intro hr
    unfold World.claimPass at hr ⊢
    rcases claimReconcile_cases c.st w.nodeRefs w.cache f (provAnswer w.inst p.delete) p.create with ⟨_, he⟩ | ⟨_, _, he⟩ | ⟨_, _, he⟩
    · rw [he] at hr; simp at hr
    · rw [he] at hr ⊢
      have facts := claimFinalize_spec c.st w.nodeRefs f (provAnswer w.inst p.delete)
      obtain ⟨_, _, hpid⟩ := facts.removed hr
      refine ⟨?_, facts.created⟩
      cases hcp : c.st.pid
      · cases hi : w.inst with
        | gone => rfl
        | running =>
          obtain ⟨c', hc', _, hpp⟩ := h.backed (by rw [hi]; simp)
          rw [hc] at hc'; cases hc'; rw [hcp] at hpp; simp at hpp
        | terminating =>
          obtain ⟨c', hc', _, hpp⟩ := h.backed (by rw [hi]; simp)
          rw [hc] at hc'; cases hc'; rw [hcp] at hpp; simp at hpp
      · exact provAnswer_notFound _ _ (hpid hcp)
    · rw [he, (claimLaunch_spec c.st w.cache f p.create).removed] at hr
      simp at hr
  · intro hcr
    unfold World.claimPass at hcr hp ⊢
    rcases claimReconcile_cases c.st w.nodeRefs w.cache f (provAnswer w.inst p.delete) p.create with ⟨_, he⟩ | ⟨_, _, he⟩ | ⟨_, _, he⟩
    · rw [he] at hcr; simp at hcr
    · rw [he] at hcr
      have := (claimFinalize_spec c.st w.nodeRefs f (provAnswer w.inst p.delete)).created
      simp only at hcr
      rw [this] at hcr; simp at hcr
    · rw [he] at hcr hp ⊢
      have facts := claimLaunch_spec c.st w.cache f p.create
      have hlp : (claimLaunch c.st w.cache f p.create).launchPersisted = true := by
        simpa [hcr] using hp
      exact ⟨(facts.created hcr).1, hlp, facts.persisted hlp, facts.finalizer (Or.inl hcr)⟩

theorem inv_step (w : World) (e : Event) (h : Inv w) (hp : launchPersists w e = true) : Inv (step w e) := by
  cases e with
  | reconcileNode f p =>
    unfold step
    cases hn : w.node with
    | none => exact h
    | some n => exact inv_reconcileNode w n _ h
  | reconcileClaim f p =>
    unfold step
    unfold launchPersists at hp
    cases hc : w.claim with
    | none => exact h
    | some c =>
      simp only [hc] at hp ⊢
      by_cases hd : (!c.st.deleting && !launchDomain c.st) = true
      · simp only [hd, if_true]; exact h
      · simp only [hd] at hp ⊢
        exact inv_reconcileClaim w c f p h hc hp
  | deleteNode => exact inv_of_claim_eq w _ h rfl id rfl
  | deleteClaim =>
    unfold step
    refine ⟨h.notLost, ?_, ?_⟩
    · intro hne
      obtain ⟨c, hc, hf, hpid⟩ := h.backed hne
      simp only [hc, Option.bind_some]
      obtain ⟨c', hc'⟩ := deleteClaimObj_held w.now c hf
      obtain ⟨a, b, _⟩ := deleteClaimObj_some _ _ _ hc'
      exact ⟨c', hc', by rw [a]; exact hf, by rw [b]; exact hpid⟩
    · intro c' hc' hfresh
      cases hwc : w.claim with
      | none => simp [hwc] at hc'
      | some c =>
        simp only [hwc, Option.bind_some] at hc'
        obtain ⟨_, b, d⟩ := deleteClaimObj_some _ _ _ hc'
        rw [b]; exact h.freshNoPid c hwc (by rw [← d]; exact hfresh)
  | podGone name => exact inv_of_claim_eq w _ h rfl id rfl
  | podTerminating name => exact inv_of_claim_eq w _ h rfl id rfl
  | podAdd p =>
    unfold step
    by_cases hx : (w.pods.any (·.name == p.name)) = true
    · simp only [hx, if_true]; exact h
    · simp only [hx]; exact inv_of_claim_eq w _ h rfl id rfl
  | vaGone name => exact inv_of_claim_eq w _ h rfl id rfl
  | vaTerminating name => exact inv_of_claim_eq w _ h rfl id rfl
  | vaAdd v =>
    unfold step
    by_cases hx : (w.vas.any (·.name == v.name)) = true
    · simp only [hx, if_true]; exact h
    · simp only [hx]; exact inv_of_claim_eq w _ h rfl id rfl
  | tick d => exact inv_of_claim_eq w _ h rfl id rfl
  | instanceGone => exact ⟨h.notLost, fun hne => absurd rfl hne, h.freshNoPid⟩
  | setReady b => exact inv_of_claim_eq w _ h rfl id rfl
  | restart => exact inv_of_claim_eq w _ h rfl id rfl

theorem inv_run (es : List Event) : ∀ (w : World), Inv w → launchesPersist w es = true → Inv (run w es) := by
  induction es with
  | nil => intro w h _; exact h
  | cons e es ih =>
    intro w h hp
    simp only [launchesPersist, Bool.and_eq_true] at hp
    exact ih _ (inv_step w e h hp.1) hp.2

/-- under the invariant no instance exists without its NodeClaim -/
theorem inv_no_orphan (w : World) (h : Inv w) (hc : w.claim = none) : w.instanceExists = false := by
  unfold World.instanceExists
  rw [h.notLost]
  cases hi : w.inst with
  | gone => simp
  | running =>
    obtain ⟨c, hc', _⟩ := h.backed (by rw [hi]; simp)
    rw [hc] at hc'; simp at hc'
  | terminating =>
    obtain ⟨c, hc', _⟩ := h.backed (by rw [hi]; simp)
    rw [hc] at hc'; simp at hc'

end Karp.Term

