import Karp.Spec.K8sSelector
import Karp.Proofs.AtoiUniverse
set_option linter.unusedSimpArgs false
namespace Karp.Req
open Karp.Spec.K8s

theorem atoiChars_range (cs : List Char) (i : Int) (h : atoiChars cs = (i, true)) : minInt ≤ i ∧ i ≤ maxInt := by
  unfold atoiChars at h
  repeat' split at h
  all_goals first
    | (simp at h; done)
    | (have h1 := (Prod.mk.inj h).1; subst h1; simp only [minInt, maxInt] at *; omega)

theorem atoi_range (s : String) (i : Int) (h : atoi s = some i) : minInt ≤ i ∧ i ≤ maxInt := by
  unfold atoi atoiRaw at h
  apply atoiChars_range s.toList
  cases hh : atoiChars s.toList with
  | mk a b => rw [hh] at h; cases b <;> simp at h; subst h; rfl
theorem geOk_max (a b : Option Int) (i : Int) : geOk (maxOpt a b) i = (geOk a i && geOk b i) := by
  cases a with
  | none => cases b <;> simp [geOk, maxOpt]
  | some x => cases b with
    | none => simp [geOk, maxOpt]
    | some y =>
      by_cases hxy : x > y
      · simp only [geOk, maxOpt, hxy, if_true]
        rw [Bool.eq_iff_iff]; simp only [Bool.and_eq_true, decide_eq_true_eq]; omega
      · simp only [geOk, maxOpt, hxy, if_false]
        rw [Bool.eq_iff_iff]; simp only [Bool.and_eq_true, decide_eq_true_eq]; omega
theorem leOk_min (a b : Option Int) (i : Int) : leOk (minOpt a b) i = (leOk a i && leOk b i) := by
  cases a with
  | none => cases b <;> simp [leOk, minOpt]
  | some x => cases b with
    | none => simp [leOk, minOpt]
    | some y =>
      by_cases hxy : x < y
      · simp only [leOk, minOpt, hxy, if_true]
        rw [Bool.eq_iff_iff]; simp only [Bool.and_eq_true, decide_eq_true_eq]; omega
      · simp only [leOk, minOpt, hxy, if_false]
        rw [Bool.eq_iff_iff]; simp only [Bool.and_eq_true, decide_eq_true_eq]; omega
theorem withinBounds_eq (v : Val) (g l : Option Int) :
    withinBounds v g l = match atoi v with
      | some i => geOk g i && leOk l i
      | none => g.isNone && l.isNone := by
  cases g <;> cases l <;> cases h : atoi v <;> simp [withinBounds, h, geOk, leOk]

theorem maxOpt_isNone (a b : Option Int) : (maxOpt a b).isNone = (a.isNone && b.isNone) := by
  cases a <;> cases b <;> simp [maxOpt]
  split <;> rfl
theorem minOpt_isNone (a b : Option Int) : (minOpt a b).isNone = (a.isNone && b.isNone) := by
  cases a <;> cases b <;> simp [minOpt]
  split <;> rfl

theorem withinBounds_inter (v : Val) (g1 l1 g2 l2 : Option Int) :
    withinBounds v (maxOpt g1 g2) (minOpt l1 l2) = (withinBounds v g1 l1 && withinBounds v g2 l2) := by
  simp only [withinBounds_eq]
  cases h : atoi v with
  | some i => simp only [geOk_max, leOk_min]; cases geOk g1 i <;> cases geOk g2 i <;> cases leOk l1 i <;> cases leOk l2 i <;> rfl
  | none =>
    simp only [maxOpt_isNone, minOpt_isNone]
    cases g1.isNone <;> cases g2.isNone <;> cases l1.isNone <;> cases l2.isNone <;> rfl

/-- when the combined bounds are contradictory no value is within both -/
theorem withinBounds_empty (v : Val) (g1 l1 g2 l2 : Option Int) (g l : Int)
    (hg : maxOpt g1 g2 = some g) (hl : minOpt l1 l2 = some l) (h : g > l) :
    (withinBounds v g1 l1 && withinBounds v g2 l2) = false := by
  rw [← withinBounds_inter, hg, hl, withinBounds_eq]
  cases atoi v with
  | none => rfl
  | some i => simp [geOk, leOk]; omega

theorem contains_filter (l : List Val) (p : Val → Bool) (v : Val) :
    (l.filter p).contains v = (l.contains v && p v) := by
  induction l with
  | nil => simp
  | cons x xs ih =>
    simp only [List.filter_cons]
    by_cases hp : p x = true
    · simp only [hp, if_true, List.contains_cons, ih]
      by_cases hx : v == x
      · have : v = x := by simpa using hx
        subst this; simp [hp]
      · simp [hx]
    · simp only [hp, List.contains_cons, ih]
      by_cases hx : v == x
      · have : v = x := by simpa using hx
        subst this
        have : p v = false := by simpa using hp
        simp [this]
      · simp [hx]

theorem contains_append (l m : List Val) (v : Val) :
    (l ++ m).contains v = (l.contains v || m.contains v) := by
  induction l with
  | nil => simp
  | cons x xs ih => simp only [List.cons_append, List.contains_cons, ih, Bool.or_assoc]

@[simp] theorem withinBounds_none (v : Val) : withinBounds v none none = true := rfl

theorem boundsEmpty_spec (g l : Option Int) (h : boundsEmpty g l = true) :
    ∃ gi li, g = some gi ∧ l = some li ∧ gi > li := by
  cases g <;> cases l <;> simp [boundsEmpty] at h
  exact ⟨_, _, rfl, rfl, h⟩

/-- **intersection is intersection** on admitted values, for every pair of requirements -/
theorem has_inter (r q : Req) (v : Val) : (r.inter q).has v = (r.has v && q.has v) := by
  unfold Req.inter
  simp only []
  by_cases hempty : boundsEmpty (maxOpt r.gte q.gte) (minOpt r.lte q.lte) = true
  · -- contradictory bounds
    obtain ⟨g, l, hg, hl, hgl⟩ := boundsEmpty_spec _ _ hempty
    have hfalse := withinBounds_empty v _ _ _ _ g l hg hl hgl
    simp only [hempty, if_true, Req.has, doesNotExist]
    cases hr : r.complement <;> cases hq : q.complement <;>
      cases hwr : withinBounds v r.gte r.lte <;> cases hwq : withinBounds v q.gte q.lte <;>
      simp_all
  · have hw := withinBounds_inter v r.gte r.lte q.gte q.lte
    simp only [hempty, if_false]
    cases hr : r.complement <;> cases hq : q.complement <;>
      simp only [Req.has, hr, hq, Bool.and_true, Bool.and_false, Bool.true_and, Bool.false_and, Bool.not_true,
        Bool.not_false, if_true, if_false, contains_filter, contains_append, hw, Bool.false_eq_true,
        withinBounds_none] <;>
      generalize r.values.contains v = a <;> generalize q.values.contains v = b <;>
      generalize withinBounds v r.gte r.lte = c <;> generalize withinBounds v q.gte q.lte = d <;>
      cases a <;> cases b <;> cases c <;> cases d <;> rfl

/-- every stored bound is an int64 -/
def Req.boundsInRange (r : Req) : Prop :=
  (∀ g, r.gte = some g → minInt ≤ g ∧ g ≤ maxInt) ∧ (∀ l, r.lte = some l → minInt ≤ l ∧ l ≤ maxInt)

theorem maxOpt_cases (a b : Option Int) : maxOpt a b = a ∨ maxOpt a b = b := by
  cases a <;> cases b <;> simp [maxOpt]
  omega
theorem minOpt_cases (a b : Option Int) : minOpt a b = a ∨ minOpt a b = b := by
  cases a <;> cases b <;> simp [minOpt]
  omega

/-- some value lies within any non-contradictory in-range bounds, outside any finite list -/
theorem exists_within (L : List Val) (g l : Option Int)
    (hg : ∀ x, g = some x → minInt ≤ x ∧ x ≤ maxInt) (hl : ∀ x, l = some x → minInt ≤ x ∧ x ≤ maxInt)
    (hne : boundsEmpty g l = false) :
    ∃ v : Val, L.contains v = false ∧ withinBounds v g l = true := by
  cases g with
  | none =>
    cases l with
    | none =>
      obtain ⟨v, hv⟩ := fresh_value L
      exact ⟨v, hv, rfl⟩
    | some lb =>
      obtain ⟨h1, h2⟩ := hl lb rfl
      obtain ⟨v, hv, hp⟩ := fresh_int L lb h1 h2
      refine ⟨v, hv, ?_⟩
      simp [withinBounds_eq, hp, geOk, leOk]
  | some gb =>
    obtain ⟨h1, h2⟩ := hg gb rfl
    obtain ⟨v, hv, hp⟩ := fresh_int L gb h1 h2
    refine ⟨v, hv, ?_⟩
    cases l with
    | none => simp [withinBounds_eq, hp, geOk, leOk]
    | some lb =>
      have : ¬ gb > lb := by simpa [boundsEmpty] using hne
      simp [withinBounds_eq, hp, geOk, leOk]; omega

theorem any_iff (l : List Val) (p : Val → Bool) : l.any p = true ↔ ∃ v, l.contains v = true ∧ p v = true := by
  simp [List.any_eq_true]

/-- **the quick overlap test is exact** -/
theorem hasIntersection_iff (r q : Req) (hr : r.boundsInRange) (hq : q.boundsInRange) :
    r.hasIntersection q = true ↔ ∃ v, r.has v = true ∧ q.has v = true := by
  unfold Req.hasIntersection
  simp only []
  by_cases hempty : boundsEmpty (maxOpt r.gte q.gte) (minOpt r.lte q.lte) = true
  · obtain ⟨g, l, hg, hl, hgl⟩ := boundsEmpty_spec _ _ hempty
    simp only [hempty, if_true, Bool.false_eq_true, false_iff]
    rintro ⟨v, h1, h2⟩
    have hfalse := withinBounds_empty v _ _ _ _ g l hg hl hgl
    simp only [Req.has] at h1 h2
    cases hrc : r.complement <;> cases hqc : q.complement <;> simp_all
  · simp only [hempty, if_false]
    have hw := fun v => withinBounds_inter v r.gte r.lte q.gte q.lte
    cases hrc : r.complement <;> cases hqc : q.complement <;>
      simp only [Bool.and_true, Bool.and_false, Bool.true_and, Bool.false_and, Bool.not_true, Bool.not_false,
        if_true, if_false, Bool.false_eq_true, Req.has, hrc, hqc, any_iff, hw]
    · constructor
      · rintro ⟨v, h1, h2⟩; exact ⟨v, by simp_all, by simp_all⟩
      · rintro ⟨v, h1, h2⟩; exact ⟨v, by simp_all, by simp_all⟩
    · constructor
      · rintro ⟨v, h1, h2⟩; exact ⟨v, by simp_all, by simp_all⟩
      · rintro ⟨v, h1, h2⟩; exact ⟨v, by simp_all, by simp_all⟩
    · constructor
      · rintro ⟨v, h1, h2⟩; exact ⟨v, by simp_all, by simp_all⟩
      · rintro ⟨v, h1, h2⟩; exact ⟨v, by simp_all, by simp_all⟩
    · simp only [true_iff]
      have hne : boundsEmpty (maxOpt r.gte q.gte) (minOpt r.lte q.lte) = false := by simpa using hempty
      have hG : ∀ x, maxOpt r.gte q.gte = some x → minInt ≤ x ∧ x ≤ maxInt := by
        intro x hx
        rcases maxOpt_cases r.gte q.gte with h | h
        · exact hr.1 x (h ▸ hx)
        · exact hq.1 x (h ▸ hx)
      have hL : ∀ x, minOpt r.lte q.lte = some x → minInt ≤ x ∧ x ≤ maxInt := by
        intro x hx
        rcases minOpt_cases r.lte q.lte with h | h
        · exact hr.2 x (h ▸ hx)
        · exact hq.2 x (h ▸ hx)
      obtain ⟨v, hv, hwv⟩ := exists_within (r.values ++ q.values) _ _ hG hL hne
      rw [contains_append] at hv
      rw [hw] at hwv
      refine ⟨v, ?_, ?_⟩ <;> simp_all
theorem atoiRaw_of_atoi (n : Val) (j : Int) (h : atoi n = some j) : (atoiRaw n).1 = j := by
  unfold atoi at h
  cases hh : atoiRaw n with
  | mk a b => rw [hh] at h; cases b <;> simp at h; exact h

theorem map_normalizeValue (k : String) (vals : List Val) : vals.map (normalizeValue k) = vals := by
  induction vals with
  | nil => rfl
  | cons x xs ih => simp [normalizeValue, ih]

theorem has_doesNotExist (k : String) (mv : Option Int) (v : Val) : (doesNotExist k mv).has v = false := by
  simp [Req.has, doesNotExist]

/-- **a requirement built from an operator admits exactly the values Kubernetes admits** -/
theorem has_new (key : String) (op : Op) (mv : Option Int) (vals : List Val) (r : Req) (v : Val)
    (hvalid : validOperands op vals = true) (h : Req.new key op mv vals = .ok r) :
    r.has v = k8sMatch op vals (some v) := by
  have hnorm : vals.map (normalizeValue (normalizeKey key)) = vals := map_normalizeValue _ vals
  cases op with
  | in_ => simp only [Req.new, hnorm, pure, Except.pure, Except.ok.injEq] at h; subst h; simp [Req.has, k8sMatch]
  | notIn => simp only [Req.new, hnorm, pure, Except.pure, Except.ok.injEq] at h; subst h; simp [Req.has, k8sMatch]
  | exists_ => simp only [Req.new, pure, Except.pure, Except.ok.injEq] at h; subst h; simp [Req.has, k8sMatch]
  | doesNotExist => simp only [Req.new, pure, Except.pure, Except.ok.injEq] at h; subst h; simp [Req.has, k8sMatch]
  | other => simp [validOperands] at hvalid
  | gt =>
    match vals, hvalid with
    | [n], hv =>
      simp only [validOperands, Option.isSome_iff_exists] at hv
      obtain ⟨j, hj⟩ := hv
      have hraw := atoiRaw_of_atoi n j hj
      have hjr := atoi_range n j hj
      simp only [Req.new, hnorm, hraw] at h
      by_cases hmax : j = maxInt
      · simp only [hmax, if_true, pure, Except.pure, Except.ok.injEq] at h
        subst h
        rw [has_doesNotExist]
        simp only [k8sMatch, cmpMatch, hj]
        cases hv : atoi v with
        | none => rfl
        | some i => have := atoi_range v i hv; simp; omega
      · simp only [hmax, if_false, pure, Except.pure, Except.ok.injEq] at h
        subst h
        simp only [Req.has, k8sMatch, cmpMatch, hj, withinBounds_eq]
        cases hv : atoi v with
        | none => simp
        | some i => simp [geOk, leOk]; omega
  | lt =>
    match vals, hvalid with
    | [n], hv =>
      simp only [validOperands, Option.isSome_iff_exists] at hv
      obtain ⟨j, hj⟩ := hv
      have hraw := atoiRaw_of_atoi n j hj
      have hjr := atoi_range n j hj
      simp only [Req.new, hnorm, hraw] at h
      by_cases hmin : j = minInt
      · simp only [hmin, if_true, pure, Except.pure, Except.ok.injEq] at h
        subst h
        rw [has_doesNotExist]
        simp only [k8sMatch, cmpMatch, hj]
        cases hv : atoi v with
        | none => rfl
        | some i => have := atoi_range v i hv; simp; omega
      · simp only [hmin, if_false, pure, Except.pure, Except.ok.injEq] at h
        subst h
        simp only [Req.has, k8sMatch, cmpMatch, hj, withinBounds_eq]
        cases hv : atoi v with
        | none => simp
        | some i => simp [geOk, leOk]; omega
  | gte =>
    match vals, hvalid with
    | [n], hv =>
      simp only [validOperands, Option.isSome_iff_exists] at hv
      obtain ⟨j, hj⟩ := hv
      have hraw := atoiRaw_of_atoi n j hj
      simp only [Req.new, hnorm, hraw, pure, Except.pure, Except.ok.injEq] at h
      subst h
      simp only [Req.has, k8sMatch, cmpMatch, hj, withinBounds_eq]
      cases hv : atoi v with
      | none => simp
      | some i => simp [geOk, leOk]
  | lte =>
    match vals, hvalid with
    | [n], hv =>
      simp only [validOperands, Option.isSome_iff_exists] at hv
      obtain ⟨j, hj⟩ := hv
      have hraw := atoiRaw_of_atoi n j hj
      simp only [Req.new, hnorm, hraw, pure, Except.pure, Except.ok.injEq] at h
      subst h
      simp only [Req.has, k8sMatch, cmpMatch, hj, withinBounds_eq]
      cases hv : atoi v with
      | none => simp
      | some i => simp [geOk, leOk]
/-- well-formed requirement: what every constructor and `Intersection` produce -/
structure Req.WF (r : Req) : Prop where
  inRange : r.boundsInRange
  nonEmptyBounds : boundsEmpty r.gte r.lte = false
  concreteNoBounds : r.complement = false → r.gte = none ∧ r.lte = none

theorem card_eq_zero (l : List Val) : card l = 0 ↔ l = [] := by
  unfold card
  constructor
  · intro h
    cases l with
    | nil => rfl
    | cons x xs =>
      have : (x :: xs).eraseDups ≠ [] := by simp [List.eraseDups_cons]
      exact absurd (List.length_eq_zero_iff.mp h) this
  · intro h; subst h; rfl

/-- every well-formed requirement accepts something (a value or absence) -/
theorem exists_admits (b : Req) (h : b.WF) : ∃ x, b.admits x = true := by
  cases hc : b.complement with
  | true =>
    obtain ⟨v, hv, hw⟩ := exists_within b.values b.gte b.lte h.inRange.1 h.inRange.2 h.nonEmptyBounds
    exact ⟨some v, by simp only [Req.admits, Req.has, hc, hv, hw]; rfl⟩
  | false =>
    obtain ⟨hg, hl⟩ := h.concreteNoBounds hc
    cases hv : b.values with
    | nil =>
      refine ⟨none, ?_⟩
      simp [Req.admits, Req.absentOk, Req.operator, Req.len, hc, hv, card]
    | cons v vs =>
      refine ⟨some v, ?_⟩
      simp [Req.admits, Req.has, hc, hv, hg, hl]

theorem lookup_isSome (A : Reqs) (k : String) : A.hasKey k = (A.lookup k).isSome := rfl

/-- **compatibility is satisfiability, key by key** -/
theorem compatible_iff (A B : Reqs) (U : List String)
    (hA : ∀ k a, A.lookup k = some a → a.boundsInRange) (hB : ∀ p ∈ B, p.2.WF) :
    A.compatible B U = true ↔
      ∀ p ∈ B, ∃ x : Option Val, nodeAllows A U p.1 x = true ∧ p.2.admits x = true := by
  unfold Reqs.compatible Reqs.intersects
  rw [Bool.and_eq_true, List.all_eq_true, List.all_eq_true]
  constructor
  · rintro ⟨h1, h2⟩ p hp
    have h1p := h1 p hp
    have h2p := h2 p hp
    obtain ⟨k, inc⟩ := p
    simp only at h1p h2p ⊢
    unfold nodeAllows
    cases hlk : A.lookup k with
    | some ex =>
      simp only [hlk] at h2p
      rw [Bool.or_eq_true] at h2p
      rcases h2p with hi | ha
      · obtain ⟨v, hv1, hv2⟩ := (hasIntersection_iff ex inc (hA k ex hlk) (hB _ hp).inRange).mp hi
        exact ⟨some v, by simpa [Req.admits] using hv1, by simpa [Req.admits] using hv2⟩
      · rw [Bool.and_eq_true] at ha
        exact ⟨none, by simpa [Req.admits] using ha.2, by simpa [Req.admits] using ha.1⟩
    | none =>
      simp only [Reqs.hasKey, hlk, Option.isSome_none, Bool.or_false] at h1p
      rw [Bool.or_eq_true] at h1p
      rcases h1p with hu | ha
      · obtain ⟨x, hx⟩ := exists_admits inc (hB _ hp)
        exact ⟨x, by rw [hu]; rfl, hx⟩
      · exact ⟨none, by simp, by simpa [Req.admits] using ha⟩
  · intro h
    refine ⟨?_, ?_⟩
    · intro p hp
      obtain ⟨x, hx1, hx2⟩ := h p hp
      obtain ⟨k, inc⟩ := p
      simp only at hx1 hx2 ⊢
      unfold nodeAllows at hx1
      cases hlk : A.lookup k with
      | some ex => simp [Reqs.hasKey, hlk]
      | none =>
        simp only [hlk] at hx1
        rw [Bool.or_eq_true] at hx1
        rcases hx1 with hu | hn
        · rw [hu]; rfl
        · cases x with
          | none => simp only [Req.admits] at hx2; simp [hx2]
          | some v => simp at hn
    · intro p hp
      obtain ⟨x, hx1, hx2⟩ := h p hp
      obtain ⟨k, inc⟩ := p
      simp only at hx1 hx2 ⊢
      unfold nodeAllows at hx1
      cases hlk : A.lookup k with
      | none => rfl
      | some ex =>
        simp only [hlk] at hx1
        rw [Bool.or_eq_true]
        cases x with
        | some v =>
          left
          exact (hasIntersection_iff ex inc (hA k ex hlk) (hB _ hp).inRange).mpr ⟨v, by simpa [Req.admits] using hx1, by simpa [Req.admits] using hx2⟩
        | none =>
          right
          simp only [Req.admits] at hx1 hx2
          simp [hx1, hx2]
theorem atoiChars_fst_range (cs : List Char) : minInt ≤ (atoiChars cs).1 ∧ (atoiChars cs).1 ≤ maxInt := by
  unfold atoiChars
  repeat' split
  all_goals (simp only [minInt, maxInt] at *; omega)

theorem atoiRaw_range (v : Val) : minInt ≤ (atoiRaw v).1 ∧ (atoiRaw v).1 ≤ maxInt :=
  atoiChars_fst_range _

theorem wf_doesNotExist (k : String) (mv : Option Int) : (doesNotExist k mv).WF :=
  ⟨⟨by intro g h; simp [doesNotExist] at h, by intro g h; simp [doesNotExist] at h⟩, rfl, fun _ => ⟨rfl, rfl⟩⟩

/-- every requirement the constructor returns is well-formed (for any operands, validated or not) -/
theorem wf_new (key : String) (op : Op) (mv : Option Int) (vals : List Val) (r : Req)
    (h : Req.new key op mv vals = .ok r) : r.WF := by
  cases op with
  | in_ | notIn | exists_ | doesNotExist | other =>
    simp only [Req.new, pure, Except.pure, Except.ok.injEq] at h; subst h
    exact ⟨⟨by intro g h; simp at h, by intro g h; simp at h⟩, rfl, fun _ => ⟨rfl, rfl⟩⟩
  | gt =>
    cases vals with
    | nil => simp [Req.new] at h
    | cons n rest =>
      simp only [Req.new, List.map_cons] at h
      have hr := atoiRaw_range (normalizeValue (normalizeKey key) n)
      split at h
      · simp only [pure, Except.pure, Except.ok.injEq] at h; subst h; exact wf_doesNotExist _ _
      · rename_i hne
        simp only [pure, Except.pure, Except.ok.injEq] at h; subst h
        refine ⟨⟨?_, by intro g h; simp at h⟩, rfl, fun hc => by simp at hc⟩
        intro g hg; simp at hg; subst hg; simp only [minInt, maxInt] at *; omega
  | lt =>
    cases vals with
    | nil => simp [Req.new] at h
    | cons n rest =>
      simp only [Req.new, List.map_cons] at h
      have hr := atoiRaw_range (normalizeValue (normalizeKey key) n)
      split at h
      · simp only [pure, Except.pure, Except.ok.injEq] at h; subst h; exact wf_doesNotExist _ _
      · rename_i hne
        simp only [pure, Except.pure, Except.ok.injEq] at h; subst h
        refine ⟨⟨by intro g h; simp at h, ?_⟩, rfl, fun hc => by simp at hc⟩
        intro g hg; simp at hg; subst hg; simp only [minInt, maxInt] at *; omega
  | gte =>
    cases vals with
    | nil => simp [Req.new] at h
    | cons n rest =>
      simp only [Req.new, List.map_cons, pure, Except.pure, Except.ok.injEq] at h; subst h
      have hr := atoiRaw_range (normalizeValue (normalizeKey key) n)
      refine ⟨⟨?_, by intro g h; simp at h⟩, rfl, fun hc => by simp at hc⟩
      intro g hg; simp at hg; subst hg; exact hr
  | lte =>
    cases vals with
    | nil => simp [Req.new] at h
    | cons n rest =>
      simp only [Req.new, List.map_cons, pure, Except.pure, Except.ok.injEq] at h; subst h
      have hr := atoiRaw_range (normalizeValue (normalizeKey key) n)
      refine ⟨⟨by intro g h; simp at h, ?_⟩, rfl, fun hc => by simp at hc⟩
      intro g hg; simp at hg; subst hg; exact hr

/-- `Intersection` preserves well-formedness -/
theorem wf_inter (r q : Req) (hr : r.WF) (hq : q.WF) : (r.inter q).WF := by
  unfold Req.inter
  simp only []
  by_cases hempty : boundsEmpty (maxOpt r.gte q.gte) (minOpt r.lte q.lte) = true
  · simp only [hempty, if_true]; exact wf_doesNotExist _ _
  · simp only [hempty, if_false]
    have hne : boundsEmpty (maxOpt r.gte q.gte) (minOpt r.lte q.lte) = false := by simpa using hempty
    have hG : ∀ x, maxOpt r.gte q.gte = some x → minInt ≤ x ∧ x ≤ maxInt := by
      intro x hx
      rcases maxOpt_cases r.gte q.gte with h | h
      · exact hr.inRange.1 x (h ▸ hx)
      · exact hq.inRange.1 x (h ▸ hx)
    have hL : ∀ x, minOpt r.lte q.lte = some x → minInt ≤ x ∧ x ≤ maxInt := by
      intro x hx
      rcases minOpt_cases r.lte q.lte with h | h
      · exact hr.inRange.2 x (h ▸ hx)
      · exact hq.inRange.2 x (h ▸ hx)
    by_cases hcc : (r.complement && q.complement) = true
    · simp only [hcc, if_true]
      exact ⟨⟨hG, hL⟩, hne, fun hc => by simp at hc⟩
    · simp only [hcc, if_false]
      exact ⟨⟨by intro g h; simp at h, by intro g h; simp at h⟩, rfl, fun _ => ⟨rfl, rfl⟩⟩

theorem minValues_inter (r q : Req) : (r.inter q).minValues = maxOpt r.minValues q.minValues := by
  unfold Req.inter
  simp only []
  by_cases hempty : boundsEmpty (maxOpt r.gte q.gte) (minOpt r.lte q.lte) = true
  · simp only [hempty, if_true]; rfl
  · simp only [hempty, if_false]
    by_cases hcc : (r.complement && q.complement) = true
    · simp [hcc]
    · simp [hcc]


end Karp.Req
