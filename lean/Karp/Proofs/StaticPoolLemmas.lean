/-
Helper lemmas about static-drift passes (`Karp/Model/StaticPool.lean`), for any pool name and any number of pools:
`ComputeCommands` never reserves more slots for a pool than the pool has candidates as long as the pool's own candidate
count is one of the arguments of the cap; every command gives its reserved node slot back; nothing a pool does touches
another pool's reserved counter.
-/
import Karp.Proofs.PoolStateLemmas
import Karp.Model.StaticPool
namespace Karp.StaticPool
open Karp.PoolState

/-! ### the reserved counters only ever gain entries during a pass -/

theorem limits_mark_isSome (s : State) (np' nc : Name) (ph : Phase) :
    ((mark s np' nc ph).limits np').isSome = true := by
  cases ph <;> simp only [mark, markActive, markDeleting, markPending] <;> exact limits_ensure_isSome s np'

theorem limits_ensure_other_isSome (s : State) (a x : Name) (h : (s.limits x).isSome = true) :
    ((ensure s a).limits x).isSome = true := by
  unfold ensure
  cases ha : s.limits a with
  | some v => simpa using h
  | none =>
    simp only [upd]
    split
    · rfl
    · exact h

theorem limits_mark_mono (s : State) (p nc x : Name) (ph : Phase) (h : (s.limits x).isSome = true) :
    ((mark s p nc ph).limits x).isSome = true := by
  cases ph <;> simp only [mark, markActive, markDeleting, markPending] <;> exact limits_ensure_other_isSome s p x h

theorem limits_setMapping_mono (s : State) (p nc x : Name) (h : (s.limits x).isSome = true) :
    ((setMapping s p nc).limits x).isSome = true := by
  unfold setMapping
  split
  · exact h
  · exact limits_ensure_other_isSome s p x h

theorem limits_update_mono (s : State) (p nc x : Name) (m : Bool) (h : (s.limits x).isSome = true) :
    ((update s p nc m).limits x).isSome = true := by
  unfold update
  split
  · exact h
  · cases m
    · simp only [Bool.false_eq_true, if_false]
      exact limits_mark_mono _ p nc x .active (limits_setMapping_mono s p nc x h)
    · simp only [if_true]
      exact limits_mark_mono _ p nc x .deleting (limits_setMapping_mono s p nc x h)

theorem reservedOf_update (s : State) (p nc x : Name) (m : Bool) : reservedOf (update s p nc m) x = reservedOf s x := by
  unfold update
  split
  · rfl
  · cases m
    · simp only [Bool.false_eq_true, if_false]
      have := reservedOf_mark (setMapping s p nc) p nc x .active
      simpa [mark] using this
    · simp only [if_true]
      have := reservedOf_mark (setMapping s p nc) p nc x .deleting
      simpa [mark] using this

/-- `ReleaseNodeCount(p, 1)` on an existing counter: no panic, only `p`'s counter moves -/
theorem release_some (p : Name) (s : State) (h : (s.limits p).isSome = true) :
    ∃ s', release .asIs s p 1 = some s' ∧ (∀ x, (s.limits x).isSome = true → (s'.limits x).isSome = true) ∧
      (∀ x, reservedOf s' x =
        if x = p then (if reservedOf s p - 1 < 0 then 0 else reservedOf s p - 1) else reservedOf s x) := by
  unfold release
  cases hl : s.limits p with
  | none => simp [hl] at h
  | some cur =>
    refine ⟨_, rfl, ?_, ?_⟩
    · intro x hx
      simp only [upd]
      split
      · rfl
      · exact hx
    · intro x
      by_cases hx : x = p
      · subst hx; simp [reservedOf, hl]
      · simp [reservedOf, upd, hx]

/-- a command gives its slot back: always when it gets as far as `createReplacementNodeClaims`, and on the early
    return (`lost`) when the source releases there -/
theorem startCommandP_releases (p : Name) (s : State) (cand new : Nat) (lost createOk : Bool)
    (hE : lost = true → Karp.Gen.C03Pool.startCommandReleasesEarly = true)
    (h : (s.limits p).isSome = true) (hpos : 1 ≤ reservedOf s p) :
    ∃ s' ok made, startCommandP p s cand new lost createOk = some (s', ok, made) ∧
      (∀ x, (s.limits x).isSome = true → (s'.limits x).isSome = true) ∧
      (∀ x, reservedOf s' x = if x = p then reservedOf s p - 1 else reservedOf s x) := by
  unfold startCommandP
  cases lost with
  | true =>
    simp only [if_true, hE rfl]
    obtain ⟨s3, hs3, hi3, hr3⟩ := release_some p s h
    rw [hs3]
    refine ⟨s3, false, false, rfl, hi3, ?_⟩
    intro x; rw [hr3 x]; split
    · split <;> omega
    · rfl
  | false =>
    simp only [Bool.false_eq_true, if_false]
    have h1 : ((markPending s p cand).limits p).isSome = true := limits_mark_isSome s p cand .pending
    have m1 : ∀ x, (s.limits x).isSome = true → ((markPending s p cand).limits x).isSome = true :=
      fun x hx => limits_mark_mono s p cand x .pending hx
    have r1 : ∀ x, reservedOf (markPending s p cand) x = reservedOf s x := by
      intro x; have := reservedOf_mark s p cand x .pending; simpa [mark] using this
    cases createOk with
    | false =>
      simp only [Bool.false_eq_true, if_false]
      obtain ⟨s3, hs3, hi3, hr3⟩ := release_some p _ h1
      rw [hs3]
      refine ⟨s3, false, false, rfl, fun x hx => hi3 x (m1 x hx), ?_⟩
      intro x; rw [hr3 x, r1, r1]; split
      · split <;> omega
      · rfl
    | true =>
      simp only [if_true]
      have h2 := limits_update_mono (markPending s p cand) p new p false h1
      obtain ⟨s3, hs3, hi3, hr3⟩ := release_some p _ h2
      rw [hs3]
      refine ⟨markDeleting s3 p cand, true, true, rfl, ?_, ?_⟩
      · intro x hx
        exact limits_mark_mono s3 p cand x .deleting (hi3 x (limits_update_mono _ p new x false (m1 x hx)))
      · intro x
        have := reservedOf_mark s3 p cand x .deleting
        simp only [mark] at this
        rw [this, hr3 x, reservedOf_update, reservedOf_update, r1, r1]; split
        · split <;> omega
        · rfl

theorem contains_ne_nil (l : List Nat) (i : Nat) (h : l.contains i = true) : l ≠ [] := by
  intro hl; subst hl; simp at h

/-- all commands of one pool: nothing panics, the pool's counter goes down by one per command, no other counter moves -/
theorem driftGoP_releases (p g next : Nat) (lost createFail : List Nat)
    (hE : lost ≠ [] → Karp.Gen.C03Pool.startCommandReleasesEarly = true) :
    ∀ (todo : List Nat) (s : State) (i creates created started failed : Nat),
      ((s.limits p).isSome = true ∨ todo = []) → (todo.length : Int) ≤ reservedOf s p →
      (driftGoP p g lost createFail next s i creates created started failed todo).panicked = false ∧
      (∀ x, (s.limits x).isSome = true →
        ((driftGoP p g lost createFail next s i creates created started failed todo).st.limits x).isSome = true) ∧
      (∀ x, reservedOf (driftGoP p g lost createFail next s i creates created started failed todo).st x
        = if x = p then reservedOf s p - todo.length else reservedOf s x) := by
  intro todo
  induction todo with
  | nil =>
    intro s i c cr st f _ _
    refine ⟨rfl, fun x hx => hx, ?_⟩
    intro x; simp only [driftGoP, List.length_nil]; split
    · rename_i hx; subst hx; simp
    · rfl
  | cons cand rest ih =>
    intro s i c cr st f h hlen
    have h : (s.limits p).isSome = true := by
      rcases h with h | h
      · exact h
      · cases h
    simp only [List.length_cons] at hlen
    have hpos : 1 ≤ reservedOf s p := by omega
    obtain ⟨s', ok, made, hs, hi, hr⟩ := startCommandP_releases p s cand (next + cr) (lost.contains i) (!createFail.contains c)
      (fun hl => hE (contains_ne_nil lost i hl)) h hpos
    simp only [driftGoP, hs]
    have hrp : reservedOf s' p = reservedOf s p - 1 := by rw [hr p]; simp
    have := ih s' (i + 1) (if lost.contains i = true then c else c + 1) (if made = true then cr + 1 else cr)
      (if ok = true then st + 1 else st) (if ok = true then f else f + 1) (Or.inl (hi p h)) (by rw [hrp]; omega)
    refine ⟨this.1, fun x hx => this.2.1 x (hi x hx), ?_⟩
    intro x
    rw [this.2.2 x]
    by_cases hx : x = p
    · simp only [hx, if_true, hrp, List.length_cons]; omega
    · simp only [hx, if_false]; rw [hr x]; simp [hx]

/-! ### `ReserveNodeCount` -/

theorem limits_reserve_isSome (p : Name) (s : State) (limit wanted : Int) :
    ((reserve s p limit wanted).1.limits p).isSome = true := by
  unfold reserve
  simp only
  split
  · exact limits_ensure_isSome s p
  · simp

theorem limits_reserve_mono (p : Name) (s : State) (limit wanted : Int) (x : Name) (h : (s.limits x).isSome = true) :
    ((reserve s p limit wanted).1.limits x).isSome = true := by
  unfold reserve
  simp only
  split
  · exact limits_ensure_other_isSome s p x h
  · simp only [upd]
    split
    · rfl
    · exact limits_ensure_other_isSome s p x h

theorem reserve_grant_bounds (p : Name) (s : State) (limit wanted : Int) (hw : 0 ≤ wanted) :
    0 ≤ (reserve s p limit wanted).2 ∧ (reserve s p limit wanted).2 ≤ wanted := by
  unfold reserve
  simp only
  split
  · exact ⟨Int.le_refl 0, hw⟩
  · split <;> constructor <;> omega

/-! ### the cap on the drifts of a pool -/

theorem foldl_min_le_init (f : Nat → Nat) (l : List Nat) (m : Nat) :
    l.foldl (fun m x => min m (f x)) m ≤ m := by
  induction l generalizing m with
  | nil => exact Nat.le_refl _
  | cons a t ih =>
    simp only [List.foldl_cons]
    exact Nat.le_trans (ih _) (Nat.min_le_left _ _)

theorem foldl_min_le_mem (f : Nat → Nat) (l : List Nat) (m x : Nat) (hx : x ∈ l) :
    l.foldl (fun m x => min m (f x)) m ≤ f x := by
  induction l generalizing m with
  | nil => cases hx
  | cons a t ih =>
    simp only [List.foldl_cons]
    rcases List.mem_cons.mp hx with h | h
    · subst h
      exact Nat.le_trans (foldl_min_le_init f t _) (Nat.min_le_right _ _)
    · exact ih _ h

/-- a cap that has the pool's own candidate count among its arguments never exceeds it -/
theorem driftCap_le_own (args : List Nat) (budget own all : Nat) (h : 1 ∈ args) : driftCap args budget own all ≤ own := by
  cases args with
  | nil => cases h
  | cons a t =>
    simp only [driftCap]
    rcases List.mem_cons.mp h with h1 | h1
    · subst h1
      exact foldl_min_le_init _ t _
    · exact foldl_min_le_mem (capArg budget own all) t _ 1 h1

/-- … and never the pool's budget when that is among them -/
theorem driftCap_le_budget (args : List Nat) (budget own all : Nat) (h : 0 ∈ args) : driftCap args budget own all ≤ budget := by
  cases args with
  | nil => cases h
  | cons a t =>
    simp only [driftCap]
    rcases List.mem_cons.mp h with h1 | h1
    · subst h1
      exact foldl_min_le_init _ t _
    · exact foldl_min_le_mem (capArg budget own all) t _ 0 h1

/-- the loop body of `ComputeCommands` for one pool: it does not panic, takes at most as many slots as the pool has
    candidates, and touches only this pool's counter -/
theorem computeOne_spec (args : List Nat) (hcap : 1 ∈ args) (all : Nat) (s : State) (P : PoolIn) :
    ∃ g, (computeOne args all s P).2 = some g ∧ g ≤ P.cands.length ∧
      (∀ x, (s.limits x).isSome = true → ((computeOne args all s P).1.limits x).isSome = true) ∧
      (0 < g → ((computeOne args all s P).1.limits P.p).isSome = true) ∧
      (∀ x, reservedOf (computeOne args all s P).1 x = if x = P.p then reservedOf s P.p + g else reservedOf s x) := by
  unfold computeOne
  simp only
  split
  · refine ⟨0, rfl, Nat.zero_le _, fun x hx => hx, fun h => absurd h (Nat.lt_irrefl 0), ?_⟩
    intro x; split
    · rename_i hx; subst hx; simp
    · rfl
  · have hw : (0 : Int) ≤ ((driftCap args P.budget P.cands.length all : Nat) : Int) := Int.natCast_nonneg _
    obtain ⟨hg0, hgw⟩ := reserve_grant_bounds P.p s (nodeLimit P.limit) _ hw
    have hcapLe := driftCap_le_own args P.budget P.cands.length all hcap
    generalize hr : reserve s P.p (nodeLimit P.limit) ((driftCap args P.budget P.cands.length all : Nat) : Int) = r at *
    have hle : r.2.toNat ≤ P.cands.length := by omega
    have hnot : ¬ (r.2.toNat > P.cands.length) := by omega
    simp only [hnot, if_false]
    refine ⟨r.2.toNat, rfl, hle, ?_, ?_, ?_⟩
    · intro x hx; rw [← hr]; exact limits_reserve_mono P.p s _ _ x hx
    · intro _; rw [← hr]; exact limits_reserve_isSome P.p s _ _
    · intro x
      rw [← hr, reservedOf_reserve]
      split
      · rw [hr]; omega
      · rfl

/-! ### a whole pass -/

/-- slots `ComputeCommands` took for pool `q` -/
def owed (q : Name) : List (PoolIn × Nat) → Int
  | [] => 0
  | Pg :: rest => (if Pg.1.p = q then (Pg.2 : Int) else 0) + owed q rest

theorem owed_nonneg (q : Name) (todo : List (PoolIn × Nat)) : 0 ≤ owed q todo := by
  induction todo with
  | nil => exact Int.le_refl 0
  | cons Pg rest ih =>
    simp only [owed]
    split <;> omega

theorem computeAll_spec (args : List Nat) (hcap : 1 ∈ args) (all : Nat) :
    ∀ (pools : List PoolIn) (s : State), ∃ sA todo, computeAll args all s pools = (sA, some todo) ∧
      (∀ Pg ∈ todo, Pg.2 ≤ Pg.1.cands.length ∧ (0 < Pg.2 → (sA.limits Pg.1.p).isSome = true)) ∧
      (∀ x, (s.limits x).isSome = true → (sA.limits x).isSome = true) ∧
      (∀ q, reservedOf sA q = reservedOf s q + owed q todo) ∧
      todo.map (·.1) = pools := by
  intro pools
  induction pools with
  | nil =>
    intro s
    refine ⟨s, [], rfl, ?_, fun _ h => h, ?_, rfl⟩
    · intro Pg h; cases h
    · intro q; simp [owed]
  | cons P rest ih =>
    intro s
    obtain ⟨g, hg, hle, hmono, hsome, hres⟩ := computeOne_spec args hcap all s P
    generalize hc : computeOne args all s P = c at *
    obtain ⟨s1, og⟩ := c
    simp only at hg hmono hsome hres
    subst hg
    obtain ⟨sA, todo, hA, hall, hmonoA, hresA, hmap⟩ := ih s1
    refine ⟨sA, (P, g) :: todo, ?_, ?_, ?_, ?_, ?_⟩
    · simp only [computeAll, hc, hA]
    · intro Pg hPg
      rcases List.mem_cons.mp hPg with h | h
      · subst h
        exact ⟨hle, fun hpos => hmonoA _ (hsome hpos)⟩
      · exact hall Pg h
    · intro x hx; exact hmonoA x (hmono x hx)
    · intro q
      rw [hresA q, hres q]
      simp only [owed]
      by_cases hq : q = P.p
      · subst hq; simp; omega
      · have : ¬ P.p = q := fun h => hq h.symm
        simp only [hq, this, if_false]; omega
    · simp [hmap]

theorem startAll_spec :
    ∀ (todo : List (PoolIn × Nat)) (s : State),
      (∀ Pg ∈ todo, Pg.1.lost ≠ [] → Karp.Gen.C03Pool.startCommandReleasesEarly = true) →
      (∀ Pg ∈ todo, Pg.2 ≤ Pg.1.cands.length ∧ (0 < Pg.2 → (s.limits Pg.1.p).isSome = true)) →
      (∀ q, owed q todo ≤ reservedOf s q) →
      (startAll s todo).panicked = false ∧ ∀ q, reservedOf (startAll s todo).st q = reservedOf s q - owed q todo := by
  intro todo
  induction todo with
  | nil =>
    intro s _ _ _
    exact ⟨rfl, fun q => by simp [startAll, owed]⟩
  | cons Pg rest ih =>
    intro s hE hall howed
    obtain ⟨P, g⟩ := Pg
    obtain ⟨hle, hsome⟩ := hall (P, g) List.mem_cons_self
    simp only at hle hsome
    have hlen : (P.cands.take g).length = g := by
      rw [List.length_take]; exact Nat.min_eq_left hle
    have hown := howed P.p
    simp only [owed, if_true] at hown
    have hnn := owed_nonneg P.p rest
    have hstart : (s.limits P.p).isSome = true ∨ P.cands.take g = [] := by
      by_cases hg : 0 < g
      · exact Or.inl (hsome hg)
      · right
        have : g = 0 := by omega
        subst this; simp
    obtain ⟨hp, hmono, hres⟩ := driftGoP_releases P.p g P.next P.lost P.createFail
      (hE (P, g) List.mem_cons_self) (P.cands.take g) s 0 0 0 0 0 hstart (by rw [hlen]; omega)
    simp only [startAll, hp, Bool.false_eq_true, if_false]
    have := ih (driftGoP P.p g P.lost P.createFail P.next s 0 0 0 0 0 (P.cands.take g)).st
      (fun Pg h => hE Pg (List.mem_cons_of_mem _ h))
      (fun Pg h => ⟨(hall Pg (List.mem_cons_of_mem _ h)).1,
        fun hpos => hmono _ ((hall Pg (List.mem_cons_of_mem _ h)).2 hpos)⟩)
      (by
        intro q
        rw [hres q, hlen]
        have hq := howed q
        simp only [owed] at hq
        by_cases hx : q = P.p
        · subst hx; simp only [if_true] at hq ⊢; omega
        · have : ¬ P.p = q := fun h => hx h.symm
          simp only [hx, this, if_false] at hq ⊢; omega)
    refine ⟨this.1, ?_⟩
    intro q
    rw [this.2 q, hres q, hlen]
    simp only [owed]
    by_cases hx : q = P.p
    · subst hx; simp only [if_true]; omega
    · have : ¬ P.p = q := fun h => hx h.symm
      simp only [hx, this, if_false]; omega

/-- a whole pass over any number of pools (any names, also repeated ones): nothing panics and every reserved counter is
    back where it was -/
theorem driftPass_gives_back (args : List Nat) (hcap : 1 ∈ args) (pools : List PoolIn) (s : State)
    (hE : ∀ P ∈ pools, P.lost ≠ [] → Karp.Gen.C03Pool.startCommandReleasesEarly = true)
    (h0 : ∀ q, 0 ≤ reservedOf s q) :
    (driftPass args s pools).panicked = false ∧ ∀ q, reservedOf (driftPass args s pools).st q = reservedOf s q := by
  obtain ⟨sA, todo, hA, hall, _, hres, hmap⟩ := computeAll_spec args hcap (totalCands pools) pools s
  unfold driftPass
  rw [hA]
  simp only
  have hE' : ∀ Pg ∈ todo, Pg.1.lost ≠ [] → Karp.Gen.C03Pool.startCommandReleasesEarly = true := by
    intro Pg hPg
    apply hE Pg.1
    rw [← hmap]
    exact List.mem_map_of_mem hPg
  obtain ⟨hp, hr⟩ := startAll_spec todo sA hE' hall (by intro q; rw [hres q]; have := h0 q; omega)
  refine ⟨hp, ?_⟩
  intro q
  rw [hr q, hres q]; omega

/-- a drift round of the single pool `np` in which no `StartCommand` returns early: nothing panics and the reserved
    counter is back where it was -/
theorem driftRound_gives_back (hcap : 1 ∈ Karp.Gen.C03Pool.staticDriftCapArgs)
    (s : State) (replicas : Int) (limit : Option Int) (budget : Nat) (cands createFail : List Nat)
    (next : Nat) (h0 : 0 ≤ reservedOf s np) :
    (driftRound s replicas limit budget cands [] createFail next).panicked = false ∧
    reservedOf (driftRound s replicas limit budget cands [] createFail next).st np = reservedOf s np := by
  unfold driftRound
  simp only
  generalize hP : ({ p := np, replicas := replicas, limit := limit, budget := budget, cands := cands, lost := [],
                     createFail := createFail, next := next } : PoolIn) = P
  obtain ⟨g, hg, hle, _, hsome, hres⟩ := computeOne_spec Karp.Gen.C03Pool.staticDriftCapArgs hcap cands.length s P
  generalize hc : computeOne Karp.Gen.C03Pool.staticDriftCapArgs cands.length s P = c at *
  obtain ⟨s1, og⟩ := c
  simp only at hg hsome hres
  subst hg
  have hPp : P.p = np := by rw [← hP]
  have hPc : P.cands = cands := by rw [← hP]
  rw [hPc] at hle
  simp only [driftGo]
  have hlen : (cands.take g).length = g := by rw [List.length_take]; exact Nat.min_eq_left hle
  have hstart : (s1.limits np).isSome = true ∨ cands.take g = [] := by
    by_cases hg : 0 < g
    · left; rw [← hPp]; exact hsome hg
    · right
      have : g = 0 := by omega
      subst this; simp
  have hr1 : reservedOf s1 np = reservedOf s np + g := by
    have := hres np; rw [hPp] at this; simpa using this
  obtain ⟨hp, _, hr⟩ := driftGoP_releases np g next [] createFail (fun h => absurd rfl h) (cands.take g) s1 0 0 0 0 0 hstart
    (by rw [hlen, hr1]; omega)
  refine ⟨hp, ?_⟩
  rw [hr np, hlen, hr1]; simp

end Karp.StaticPool
