/-
Helper lemmas about one static-drift round (`Karp/Model/StaticPool.lean`): every command that does not return
early gives its reserved node slot back.
-/
import Karp.Proofs.PoolStateLemmas
import Karp.Model.StaticPool
namespace Karp.StaticPool
open Karp.PoolState

theorem limits_mark_isSome (s : State) (np' nc : Name) (ph : Phase) :
    ((mark s np' nc ph).limits np').isSome = true := by
  cases ph <;> simp only [mark, markActive, markDeleting, markPending] <;> exact limits_ensure_isSome s np'

theorem limits_ensure_other_isSome (s : State) (a x : Name) (h : (s.limits x).isSome = true) :
    ((ensure s a).limits x).isSome = true := by
  unfold ensure
  cases ha : s.limits a with
  | some v => simpa using h
  | none =>
    simp only [upd]
    split
    · rfl
    · exact h

theorem limits_update_isSome (s : State) (nc : Name) (m : Bool) (_h : (s.limits np).isSome = true) :
    ((update s np nc m).limits np).isSome = true := by
  unfold update
  simp only [np, Nat.one_ne_zero, if_false]
  cases m
  · exact limits_mark_isSome _ 1 nc .active
  · exact limits_mark_isSome _ 1 nc .deleting

theorem reservedOf_update (s : State) (nc x : Name) (m : Bool) : reservedOf (update s np nc m) x = reservedOf s x := by
  unfold update
  simp only [np, Nat.one_ne_zero, if_false]
  cases m
  · have := reservedOf_mark (setMapping s 1 nc) 1 nc x .active
    simpa [mark] using this
  · have := reservedOf_mark (setMapping s 1 nc) 1 nc x .deleting
    simpa [mark] using this

theorem release_some (s : State) (h : (s.limits np).isSome = true) :
    ∃ s', release .asIs s np 1 = some s' ∧ (s'.limits np).isSome = true ∧
      reservedOf s' np = (if reservedOf s np - 1 < 0 then 0 else reservedOf s np - 1) := by
  unfold release
  cases hl : s.limits np with
  | none => simp [hl] at h
  | some cur =>
    refine ⟨_, rfl, by simp, ?_⟩
    simp [reservedOf, hl]

/-- a command that does not return early gives its slot back -/
theorem startCommand_releases (s : State) (cand new : Nat) (createOk : Bool) (_h : (s.limits np).isSome = true)
    (hpos : 1 ≤ reservedOf s np) :
    ∃ s' ok made, startCommand s cand new false createOk = some (s', ok, made) ∧ (s'.limits np).isSome = true ∧
      reservedOf s' np = reservedOf s np - 1 := by
  unfold startCommand
  simp only [Bool.false_eq_true, if_false]
  have h1 : ((markPending s np cand).limits np).isSome = true := limits_mark_isSome s np cand .pending
  have r1 : reservedOf (markPending s np cand) np = reservedOf s np := by
    have := reservedOf_mark s np cand np .pending; simpa [mark] using this
  cases createOk with
  | false =>
    simp only [Bool.false_eq_true, if_false]
    obtain ⟨s3, hs3, hi3, hr3⟩ := release_some _ h1
    rw [hs3]
    refine ⟨s3, false, false, rfl, hi3, ?_⟩
    rw [hr3, r1]; split <;> omega
  | true =>
    simp only [if_true]
    have h2 := limits_update_isSome (markPending s np cand) new false h1
    obtain ⟨s3, hs3, hi3, hr3⟩ := release_some _ h2
    rw [hs3]
    refine ⟨markDeleting s3 np cand, true, true, rfl, ?_, ?_⟩
    · exact limits_mark_isSome s3 np cand .deleting
    · have := reservedOf_mark s3 np cand np .deleting
      simp only [mark] at this
      rw [this, hr3, reservedOf_update, r1]; split <;> omega

theorem driftGo_releases (g next : Nat) (createFail : List Nat) :
    ∀ (todo : List Nat) (s : State) (i creates created started failed : Nat),
      (s.limits np).isSome = true → (todo.length : Int) ≤ reservedOf s np →
      (driftGo g [] createFail next s i creates created started failed todo).panicked = false ∧
      reservedOf (driftGo g [] createFail next s i creates created started failed todo).st np
        = reservedOf s np - todo.length := by
  intro todo
  induction todo with
  | nil => intro s i c cr st f _ _; simp [driftGo]
  | cons cand rest ih =>
    intro s i c cr st f h hlen
    simp only [List.length_cons] at hlen
    have hpos : 1 ≤ reservedOf s np := by omega
    obtain ⟨s', ok, made, hs, hi, hr⟩ := startCommand_releases s cand (next + cr) (!createFail.contains c) h hpos
    simp only [driftGo, List.contains_nil, hs]
    have := ih s' (i + 1) (c + 1) (if made then cr + 1 else cr) (if ok then st + 1 else st) (if ok then f else f + 1) hi
      (by rw [hr]; omega)
    simp only [Bool.false_eq_true, if_false] at this ⊢
    refine ⟨this.1, ?_⟩
    rw [this.2, hr]; simp only [List.length_cons]; omega


theorem limits_reserve_isSome (s : State) (limit wanted : Int) :
    ((reserve s np limit wanted).1.limits np).isSome = true := by
  unfold reserve
  simp only
  split
  · exact limits_ensure_isSome s np
  · simp

theorem reserve_grant_bounds (s : State) (limit wanted : Int) (hw : 0 ≤ wanted) :
    0 ≤ (reserve s np limit wanted).2 ∧ (reserve s np limit wanted).2 ≤ wanted := by
  unfold reserve
  simp only
  split
  · exact ⟨Int.le_refl 0, hw⟩
  · split <;> constructor <;> omega

/-- a drift round in which no `StartCommand` returns early: nothing panics and the reserved counter is back where it was -/
theorem driftRound_gives_back (s : State) (replicas : Int) (limit : Option Int) (budget : Nat) (cands createFail : List Nat)
    (next : Nat) (h0 : 0 ≤ reservedOf s np) :
    (driftRound s replicas limit budget cands [] createFail next).panicked = false ∧
    reservedOf (driftRound s replicas limit budget cands [] createFail next).st np = reservedOf s np := by
  unfold driftRound
  simp only
  split
  · exact ⟨rfl, rfl⟩
  · rename_i hc
    simp only [Bool.or_eq_true, decide_eq_true_eq, not_or] at hc
    have hw : (0 : Int) ≤ ((min budget cands.length : Nat) : Int) := Int.natCast_nonneg _
    obtain ⟨hg0, hgw⟩ := reserve_grant_bounds s (nodeLimit limit) _ hw
    generalize hr : reserve s np (nodeLimit limit) ((min budget cands.length : Nat) : Int) = r at *
    have hsome : (r.1.limits np).isSome = true := by rw [← hr]; exact limits_reserve_isSome s _ _
    have hres : reservedOf r.1 np = reservedOf s np + r.2 := by
      rw [← hr, reservedOf_reserve]; simp
    have hlen : ((cands.take r.2.toNat).length : Int) = r.2 := by
      rw [List.length_take]
      have : r.2.toNat ≤ cands.length := by omega
      rw [Nat.min_eq_left this]
      omega
    have := driftGo_releases r.2.toNat next createFail (cands.take r.2.toNat) r.1 0 0 0 0 0 hsome (by rw [hlen, hres]; omega)
    refine ⟨this.1, ?_⟩
    rw [this.2, hlen, hres]; omega

end Karp.StaticPool
