import Karp.Model.Ring
import Karp.Spec.Window

namespace Karp.Ring
open Karp.Spec.Window (lastN)

variable {α : Type}

theorem lastN_length_le (n : Nat) (l : List α) (h : l.length ≤ n) : lastN n l = l := by
  unfold lastN
  have : l.length - n = 0 := by omega
  simp [this]

theorem lastN_length (n : Nat) (l : List α) : (lastN n l).length = min n l.length := by
  unfold lastN; simp; omega

/-- appending to the window and re-windowing equals windowing the appended log -/
theorem lastN_append_lastN (n : Nat) (l : List α) (v : α) :
    lastN n (lastN n l ++ [v]) = lastN n (l ++ [v]) := by
  unfold lastN
  by_cases hn : n = 0
  · subst hn; simp
  by_cases h : l.length ≤ n
  · have h1 : l.length - n = 0 := by omega
    simp [h1]
  · have hlen : (List.drop (l.length - n) l ++ [v]).length - n = 1 := by
      simp; omega
    have h3 : (l ++ [v]).length - n = (l.length - n) + 1 := by simp; omega
    rw [hlen, h3]
    have e1 : List.drop 1 (List.drop (l.length - n) l ++ [v]) = List.drop 1 (List.drop (l.length - n) l) ++ [v] := by
      apply List.drop_append_of_le_length
      rw [List.length_drop]
      omega
    have e2 : List.drop (l.length - n + 1) (l ++ [v]) = List.drop (l.length - n + 1) l ++ [v] := by
      apply List.drop_append_of_le_length; omega
    rw [e1, e2, List.drop_drop]

theorem split_at (l : List α) (h : Nat) (hh : h < l.length) :
    ∃ A x B, l = A ++ x :: B ∧ A.length = h := by
  refine ⟨l.take h, l[h], l.drop (h+1), ?_, ?_⟩
  · rw [← List.drop_eq_getElem_cons hh, List.take_append_drop]
  · simp; omega

theorem drop_split (A B : List α) (v : α) : (A ++ v :: B).drop (A.length + 1) = B := by
  rw [show A ++ v :: B = (A ++ [v]) ++ B by simp]
  apply List.drop_left'; simp

theorem take_split (A B : List α) (v : α) : (A ++ v :: B).take (A.length + 1) = A ++ [v] := by
  rw [show A ++ v :: B = (A ++ [v]) ++ B by simp]
  apply List.take_left'; simp

/-- well-formedness of a ring buffer: what `New`/`Insert`/`Reset` maintain -/
structure WF (b : Ring α) : Prop where
  capPos : 0 < b.cap
  lenLe : b.values.length ≤ b.cap
  headLt : b.head < b.cap
  headZero : b.values.length < b.cap → b.head = 0

theorem wf_new (c : Nat) (h : 0 < c) : WF (Ring.new c : Ring α) :=
  ⟨h, by simp [Ring.new], by simp [Ring.new, h], by simp [Ring.new]⟩

theorem wf_reset (b : Ring α) (h : WF b) : WF b.reset :=
  ⟨h.capPos, by simp [Ring.reset], by simp [Ring.reset, h.capPos], by simp [Ring.reset]⟩

theorem wf_insert (b : Ring α) (v : α) (h : WF b) : WF (b.insert v) := by
  obtain ⟨hc, hl, hh, h0⟩ := h
  unfold Ring.insert
  split
  · rename_i hlt
    refine ⟨hc, ?_, ?_, ?_⟩
    · simp; omega
    · simp [h0 hlt, hc]
    · intro _; simp [h0 hlt]
  · rename_i hge
    refine ⟨hc, ?_, ?_, ?_⟩
    · simpa using hl
    · exact Nat.mod_lt _ hc
    · intro hlt; simp at hlt; omega

@[simp] theorem cap_insert (b : Ring α) (v : α) : (b.insert v).cap = b.cap := by
  unfold Ring.insert; split <;> rfl
@[simp] theorem cap_reset (b : Ring α) : b.reset.cap = b.cap := rfl

/-- the key step: inserting keeps the logical (oldest-first) content equal to the sliding window -/
theorem logical_insert (b : Ring α) (v : α) (h : WF b) :
    (b.insert v).logical = lastN b.cap (b.logical ++ [v]) := by
  obtain ⟨hc, hl, hh, h0⟩ := h
  unfold Ring.insert
  split
  · rename_i hlt
    have hz := h0 hlt
    simp only [Ring.logical, hz, List.drop_zero, List.take_zero, List.append_nil]
    rw [lastN_length_le]
    simp; omega
  · rename_i hge
    have hlen : b.values.length = b.cap := by omega
    have hhl : b.head < b.values.length := by omega
    obtain ⟨A, x, B, hv, hA⟩ := split_at b.values b.head hhl
    simp only [Ring.logical]
    rw [hv, ← hA]
    have hcap : b.cap = A.length + 1 + B.length := by rw [← hlen, hv]; simp; omega
    have hold : List.drop A.length (A ++ x :: B) ++ List.take A.length (A ++ x :: B) = x :: (B ++ A) := by
      simp
    rw [hold]
    have hset : (A ++ x :: B).set A.length v = A ++ v :: B := by simp
    rw [hset]
    have hwin : lastN b.cap (x :: (B ++ A) ++ [v]) = B ++ A ++ [v] := by
      unfold lastN
      have : (x :: (B ++ A) ++ [v]).length - b.cap = 1 := by simp; omega
      rw [this]; simp
    rw [hwin]
    by_cases hB : B = []
    · subst hB
      have : (A.length + 1) % b.cap = 0 := by
        rw [hcap]; simp
      rw [this]; simp
    · have hBl : 0 < B.length := List.length_pos_iff.mpr hB
      have : (A.length + 1) % b.cap = A.length + 1 := Nat.mod_eq_of_lt (by omega)
      rw [this, drop_split, take_split]; simp

end Karp.Ring
