/-
The invariant behind C14 and its preservation by every step of the modelled system
(environment events, reconciles on fresh or lagging copies under every outcome vector, the deletion path).
-/
import Karp.Proofs.LifecycleLemmas

set_option linter.unusedSimpArgs false
set_option linter.unusedVariables false
namespace Karp.Lifecycle

/-- a well-formed copy of the NodeClaim -/
structure VOK (v : Claim) : Prop where
  ir : v.conds.i.status = .true_ → v.conds.r.status = .true_
  rl : v.conds.r.status = .true_ → v.conds.l.status = .true_
  pl : v.providerID = true → v.conds.l.status = .true_
  lp : v.conds.l.status = .true_ → v.providerID = true
  ppl : v.providerID = true → v.provLabels = true
  lnf : v.conds.l.status ≠ .false_
  lfin : v.conds.l.status = .true_ → v.finalizer = true

/-- "older Launched ⇒ newer Launched" over a newest-first list of copies -/
abbrev LSorted (l : List Claim) : Prop :=
  l.Pairwise (fun newer older => older.conds.l.status = .true_ → newer.conds.l.status = .true_)

structure Inv (w : World) : Prop where
  vok : ∀ v ∈ w.versions, VOK v
  linst : ∀ v ∈ w.versions, v.conds.l.status = .true_ → 1 ≤ w.instances
  sorted : LSorted w.versions
  /-- the heart of create-once: once an instance exists, either the launch cache still holds it or every copy
      the informer cache may still serve says Launched -/
  seen : 1 ≤ w.instances → w.cache = true ∨ ∀ v ∈ w.versions, v.conds.l.status = .true_
  cacheInst : w.cache = true → 1 ≤ w.instances
  once : w.instances ≤ 1
  finEver : ∀ v ∈ w.versions, v.finalizer = true → w.finEver = true
  pidMono : ∀ v ∈ w.versions, v.providerID = true → w.claim.providerID = true
  plMono : ∀ v ∈ w.versions, v.provLabels = true → w.claim.provLabels = true
  finMono : ∀ v ∈ w.versions, v.finalizer = true → w.claim.finalizer = true

theorem claim_mem_versions (w : World) : w.claim ∈ w.versions := by simp [World.versions]

theorem head_dom {w : World} (h : Inv w) : ∀ v ∈ w.versions, v.conds.l.status = .true_ → w.claim.conds.l.status = .true_ := by
  intro v hv hl
  have hs := h.sorted
  simp only [World.versions, List.pairwise_cons] at hs
  simp only [World.versions, List.mem_cons] at hv
  rcases hv with rfl | hv
  · exact hl
  · exact hs.1 v hv hl

theorem keptVersions_sublist (w : World) (lag : Nat) : (keptVersions w lag).Sublist w.versions := by
  unfold keptVersions; exact List.take_sublist _ _

theorem keptVersions_ne_nil (w : World) (lag : Nat) : keptVersions w lag ≠ [] := by
  unfold keptVersions World.versions; simp

theorem pickView_mem (w : World) (lag : Nat) : pickView w lag ∈ keptVersions w lag := by
  unfold pickView
  have h := keptVersions_ne_nil w lag
  cases hk : (keptVersions w lag).getLast? with
  | none => simp [List.getLast?_eq_none_iff] at hk; exact absurd hk h
  | some v => simp; exact List.mem_of_getLast? hk

/-- the served copy is the oldest one kept: if it says Launched, every kept copy does -/
theorem pickView_oldest {w : World} (h : Inv w) (lag : Nat) (hl : (pickView w lag).conds.l.status = .true_) :
    ∀ v ∈ keptVersions w lag, v.conds.l.status = .true_ := by
  have hs : LSorted (keptVersions w lag) := h.sorted.sublist (keptVersions_sublist w lag)
  have hne := keptVersions_ne_nil w lag
  unfold pickView at hl
  cases hk : (keptVersions w lag).getLast? with
  | none => simp [List.getLast?_eq_none_iff] at hk; exact absurd hk hne
  | some x =>
    rw [hk] at hl
    simp at hl
    obtain ⟨init, hinit⟩ : ∃ init, keptVersions w lag = init ++ [x] := by
      have := List.getLast?_eq_some_iff.mp hk
      exact this
    rw [hinit] at hs ⊢
    intro v hv
    simp only [List.mem_append, List.mem_singleton] at hv
    rcases hv with hv | rfl
    · exact (List.pairwise_append.mp hs).2.2 v hv x (by simp) hl
    · exact hl

/-- a new current copy `nc` on top of a sublist `kept` of the old versions -/
theorem inv_push {w w' : World} {kept : List Claim} {nc : Claim} (h : Inv w)
    (hclaim : w'.claim = nc) (hviews : w'.views = kept) (hsub : kept.Sublist w.versions)
    (hvok : VOK nc)
    (hlinst : nc.conds.l.status = .true_ → 1 ≤ w'.instances)
    (hdom : w.claim.conds.l.status = .true_ → nc.conds.l.status = .true_)
    (hinst : w.instances ≤ w'.instances)
    (hseen : 1 ≤ w'.instances → w'.cache = true ∨ ∀ v ∈ nc :: kept, v.conds.l.status = .true_)
    (hcache : w'.cache = true → 1 ≤ w'.instances)
    (honce : w'.instances ≤ 1)
    (hfe : w.finEver = true → w'.finEver = true)
    (hfe' : nc.finalizer = true → w'.finEver = true)
    (hpid : w.claim.providerID = true → nc.providerID = true)
    (hplb : w.claim.provLabels = true → nc.provLabels = true)
    (hfin : w.claim.finalizer = true → nc.finalizer = true) : Inv w' := by
  have hmem : ∀ v ∈ kept, v ∈ w.versions := fun v hv => hsub.subset hv
  have hver : w'.versions = nc :: kept := by simp [World.versions, hclaim, hviews]
  constructor
  · intro v hv
    rw [hver] at hv
    rcases List.mem_cons.mp hv with rfl | hv
    · exact hvok
    · exact h.vok v (hmem v hv)
  · intro v hv hl
    rw [hver] at hv
    rcases List.mem_cons.mp hv with rfl | hv
    · exact hlinst hl
    · exact Nat.le_trans (h.linst v (hmem v hv) hl) hinst
  · rw [hver]
    refine List.pairwise_cons.mpr ⟨?_, h.sorted.sublist hsub⟩
    intro v hv hl
    exact hdom (head_dom h v (hmem v hv) hl)
  · rw [hver]; exact hseen
  · exact hcache
  · exact honce
  · intro v hv hf
    rw [hver] at hv
    rcases List.mem_cons.mp hv with rfl | hv
    · exact hfe' hf
    · exact hfe (h.finEver v (hmem v hv) hf)
  · intro v hv hp
    rw [hver] at hv
    rw [hclaim]
    rcases List.mem_cons.mp hv with rfl | hv
    · exact hp
    · exact hpid (h.pidMono v (hmem v hv) hp)
  · intro v hv hp
    rw [hver] at hv
    rw [hclaim]
    rcases List.mem_cons.mp hv with rfl | hv
    · exact hp
    · exact hplb (h.plMono v (hmem v hv) hp)
  · intro v hv hp
    rw [hver] at hv
    rw [hclaim]
    rcases List.mem_cons.mp hv with rfl | hv
    · exact hp
    · exact hfin (h.finMono v (hmem v hv) hp)

/-- pushing a copy that agrees with the current one on everything the invariant looks at
    (deletion marks and removal do not matter) -/
theorem inv_push_same {w w' : World} {kept : List Claim} {nc : Claim} (h : Inv w)
    (hclaim : w'.claim = nc) (hviews : w'.views = kept) (hsub : kept.Sublist w.versions)
    (hconds : nc.conds = w.claim.conds) (hpid : nc.providerID = w.claim.providerID)
    (hplb : nc.provLabels = w.claim.provLabels) (hfin : nc.finalizer = w.claim.finalizer)
    (hcache : w'.cache = w.cache) (hinst : w'.instances = w.instances) (hfe : w'.finEver = w.finEver) : Inv w' := by
  have hc := h.vok w.claim (claim_mem_versions w)
  have hmem : ∀ v ∈ kept, v ∈ w.versions := fun v hv => hsub.subset hv
  refine inv_push h hclaim hviews hsub ?_ ?_ ?_ ?_ ?_ ?_ ?_ ?_ ?_ ?_ ?_ ?_
  · constructor
    · rw [hconds]; exact hc.ir
    · rw [hconds]; exact hc.rl
    · rw [hconds, hpid]; exact hc.pl
    · rw [hconds, hpid]; exact hc.lp
    · rw [hpid, hplb]; exact hc.ppl
    · rw [hconds]; exact hc.lnf
    · rw [hconds, hfin]; exact hc.lfin
  · rw [hconds, hinst]; exact h.linst w.claim (claim_mem_versions w)
  · rw [hconds]; exact id
  · rw [hinst]; exact Nat.le_refl _
  · rw [hinst, hcache]
    intro h1
    rcases h.seen h1 with hc' | hall
    · exact Or.inl hc'
    · right
      intro v hv
      rcases List.mem_cons.mp hv with rfl | hv
      · rw [hconds]; exact hall w.claim (claim_mem_versions w)
      · exact hall v (hmem v hv)
  · rw [hcache, hinst]; exact h.cacheInst
  · rw [hinst]; exact h.once
  · rw [hfe]; exact id
  · rw [hfin, hfe]; exact h.finEver w.claim (claim_mem_versions w)
  · rw [hpid]; exact id
  · rw [hplb]; exact id
  · rw [hfin]; exact id


/-! ### environment steps -/

theorem applyEnv_facts (w : World) (e : Env) :
    (applyEnv w e).cache = w.cache ∧ (applyEnv w e).instances = w.instances ∧ (applyEnv w e).finEver = w.finEver ∧
    (applyEnv w e).claim.conds = w.claim.conds ∧ (applyEnv w e).claim.providerID = w.claim.providerID ∧
    (applyEnv w e).claim.provLabels = w.claim.provLabels ∧ (applyEnv w e).claim.finalizer = w.claim.finalizer := by
  cases e <;> simp [applyEnv]
  case nodeAppear n => split <;> simp
  case userDelete => split <;> simp [deleted_core]

theorem inv_env (sp : Spec) {w : World} (h : Inv w) (e : Env) : Inv (step sp w (.env e)).1 := by
  have hf := applyEnv_facts w e
  simp only [step]
  exact inv_push_same (w' := { applyEnv w e with views := w.versions }) (nc := (applyEnv w e).claim) h rfl rfl
    (List.Sublist.refl _) hf.2.2.2.1 hf.2.2.2.2.1 hf.2.2.2.2.2.1 hf.2.2.2.2.2.2 hf.1 hf.2.1 hf.2.2.1

/-! ### the launch case, unfolded -/

theorem launchCase_cases (co : CreateOutcome) (c : Ctx) :
    (launchCase co c = .keptTrue ∧ c.mem.conds.l.status = .true_) ∨
    (launchCase co c = .keptFalse ∧ c.mem.conds.l.status = .false_) ∨
    (launchCase co c = .cacheHit ∧ c.mem.conds.l.status = .unknown ∧ c.w.cache = true) ∨
    (launchCase co c = .created ∧ c.mem.conds.l.status = .unknown ∧ c.w.cache = false ∧ co = .ok) ∨
    (launchCase co c = .failed ∧ c.mem.conds.l.status = .unknown ∧ c.w.cache = false ∧ co ≠ .ok) := by
  unfold launchCase
  cases hs : c.mem.conds.l.status <;> simp
  by_cases hc : c.w.cache = true <;> simp [hc]
  by_cases ho : co = .ok <;> simp [ho]


/-! ### the pass over the sub-reconcilers -/

/-- summary of the in-memory NodeClaim after the pass, given the invariant -/
structure MemSummary (w : World) (r : RecOut) (m0 mem : Claim) (w0cache : Bool) (lc : LaunchCase) : Prop where
  /-- either Launched is (still / now) true in memory, or the launch failed and no instance exists -/
  ltrue_or : mem.conds.l.status = .true_ ∨
    (mem.conds.l.status = .unknown ∧ mem.providerID = false ∧ w.instances = 0 ∧ lc = .failed)
  lpid : mem.conds.l.status = .true_ → mem.providerID = true ∧ mem.provLabels = true
  linst : mem.conds.l.status = .true_ → 1 ≤ r.w.instances
  keepL : m0.conds.l.status = .true_ → mem.conds.l.status = .true_ ∧ lc = .keptTrue
  pidUp : m0.providerID ≠ mem.providerID → mem.providerID = true ∧ m0.conds.l.status ≠ mem.conds.l.status
  plUp : m0.provLabels ≠ mem.provLabels → mem.provLabels = true ∧ m0.conds.l.status ≠ mem.conds.l.status
  instLe : w.instances ≤ r.w.instances
  once : r.w.instances ≤ 1
  cacheInst : r.w.cache = true → 1 ≤ r.w.instances
  seen : 1 ≤ r.w.instances → r.w.cache = true ∨ m0.conds.l.status = .true_

theorem memSummary {w w0 : World} {m0 mem : Claim} {r : RecOut} {co : CreateOutcome} {calls : List Call} {lc : LaunchCase}
    (h : Inv w) (hw0cache : w0.cache = w.cache) (hw0inst : w0.instances = w.instances)
    (hm0 : VOK m0)
    (hm0v : ∃ v ∈ w.versions, m0.conds = v.conds ∧ m0.providerID = v.providerID ∧ m0.provLabels = v.provLabels)
    (hlc : launchCase co { w := w0, mem := m0, calls := calls } = lc)
    (rcache : r.w.cache = launchCache lc w0.cache) (rinst : r.w.instances = launchInst lc w0.instances)
    (hLM : LaunchMem lc m0 mem) : MemSummary w r m0 mem w0.cache lc := by
  obtain ⟨v0, hv0, hv0c, hv0p, hv0l⟩ := hm0v
  have hcases := launchCase_cases co { w := w0, mem := m0, calls := calls }
  rw [hlc] at hcases
  simp only [] at hcases
  have hinst_m0 : 1 ≤ w.instances → w.cache = false → m0.conds.l.status = .true_ := by
    intro h1 hc
    rcases h.seen h1 with hc' | hall
    · rw [hc] at hc'; exact absurd hc' (by simp)
    · rw [hv0c]; exact hall v0 hv0
  have hzero : m0.conds.l.status = .unknown → w.cache = false → w.instances = 0 := by
    intro hu hc
    by_cases h1 : 1 ≤ w.instances
    · have := hinst_m0 h1 hc; rw [hu] at this; exact absurd this (by simp)
    · omega
  rcases hcases with ⟨rfl, hs⟩ | ⟨rfl, hs⟩ | ⟨rfl, hs, hc⟩ | ⟨rfl, hs, hc, hco⟩ | ⟨rfl, hs, hc, hco⟩
  · -- keptTrue
    simp only [LaunchMem] at hLM
    obtain ⟨ml, mp, mpl⟩ := hLM
    have hp := hm0.lp hs
    have hpl := hm0.ppl hp
    simp only [launchCache, launchInst] at rcache rinst
    have hi : 1 ≤ w.instances := h.linst v0 hv0 (by rw [← hv0c]; exact hs)
    constructor
    · left; rw [ml]; exact hs
    · intro _; rw [mp, mpl]; exact ⟨hp, hpl⟩
    · intro _; rw [rinst, hw0inst]; exact hi
    · intro _; exact ⟨by rw [ml]; exact hs, rfl⟩
    · intro hne; exact absurd mp.symm hne
    · intro hne; exact absurd mpl.symm hne
    · rw [rinst, hw0inst]; exact Nat.le_refl _
    · rw [rinst, hw0inst]; exact h.once
    · rw [rcache]; simp
    · intro _; right; exact hs
  · -- keptFalse: impossible
    exact absurd hs hm0.lnf
  · -- cacheHit
    simp only [LaunchMem] at hLM
    obtain ⟨ml, mp, mpl⟩ := hLM
    simp only [launchCache, launchInst] at rcache rinst
    have hi : 1 ≤ w.instances := h.cacheInst (by rw [← hw0cache]; exact hc)
    constructor
    · left; exact ml
    · intro _; exact ⟨mp, mpl⟩
    · intro _; rw [rinst, hw0inst]; exact hi
    · intro h'; rw [hs] at h'; exact absurd h' (by simp)
    · intro _; exact ⟨mp, by rw [hs, ml]; simp⟩
    · intro _; exact ⟨mpl, by rw [hs, ml]; simp⟩
    · rw [rinst, hw0inst]; exact Nat.le_refl _
    · rw [rinst, hw0inst]; exact h.once
    · intro _; rw [rinst, hw0inst]; exact hi
    · intro _; left; exact rcache
  · -- created
    simp only [LaunchMem] at hLM
    obtain ⟨ml, mp, mpl⟩ := hLM
    simp only [launchCache, launchInst] at rcache rinst
    have hz : w.instances = 0 := hzero hs (by rw [← hw0cache]; exact hc)
    constructor
    · left; exact ml
    · intro _; exact ⟨mp, mpl⟩
    · intro _; rw [rinst]; omega
    · intro h'; rw [hs] at h'; exact absurd h' (by simp)
    · intro _; exact ⟨mp, by rw [hs, ml]; simp⟩
    · intro _; exact ⟨mpl, by rw [hs, ml]; simp⟩
    · rw [rinst, hw0inst]; omega
    · rw [rinst, hw0inst, hz]; omega
    · intro _; rw [rinst]; omega
    · intro _; left; exact rcache
  · -- failed
    simp only [LaunchMem] at hLM
    obtain ⟨ml, mp, mpl⟩ := hLM
    simp only [launchCache, launchInst] at rcache rinst
    have hz : w.instances = 0 := hzero hs (by rw [← hw0cache]; exact hc)
    have hpf : m0.providerID = false := by
      cases hp : m0.providerID with
      | false => rfl
      | true => have := hm0.pl hp; rw [hs] at this; exact absurd this (by simp)
    constructor
    · right; exact ⟨ml, by rw [mp]; exact hpf, hz, rfl⟩
    · intro h'; rw [ml] at h'; exact absurd h' (by simp)
    · intro h'; rw [ml] at h'; exact absurd h' (by simp)
    · intro h'; rw [hs] at h'; exact absurd h' (by simp)
    · intro hne; exact absurd mp.symm hne
    · intro hne; exact absurd mpl.symm hne
    · rw [rinst, hw0inst]; exact Nat.le_refl _
    · rw [rinst, hw0inst]; exact h.once
    · rw [rcache, hc]; simp
    · intro h1; rw [rinst, hw0inst, hz] at h1; omega


theorem inv_runSubs (sp : Spec) (f : Faults) (co : CreateOutcome) {w w0 : World} {kept : List Claim} {m0 : Claim}
    (calls : List Call) (h : Inv w) (hsub : kept.Sublist w.versions) (hhead : w.claim ∈ kept)
    (hw0c : w0.claim.conds = w.claim.conds) (hw0p : w0.claim.providerID = w.claim.providerID)
    (hw0l : w0.claim.provLabels = w.claim.provLabels) (hw0f : w0.claim.finalizer = true)
    (hw0cache : w0.cache = w.cache) (hw0inst : w0.instances = w.instances) (hw0fe : w0.finEver = true)
    (hm0 : VOK m0)
    (hm0v : ∃ v ∈ w.versions, m0.conds = v.conds ∧ m0.providerID = v.providerID ∧ m0.provLabels = v.provLabels)
    (hm0old : m0.conds.l.status = .true_ → ∀ v ∈ kept, v.conds.l.status = .true_) :
    Inv { (runSubs sp f co w0 m0 calls).w with views := kept } := by
  obtain ⟨rv, rfe, rfin, rcache, rinst, mem, _, hLM, hmf, hmR, hmI, hkR, hkI, hsame, hclaim⟩ :=
    runSubs_facts sp f co w0 m0 calls
  generalize hlc : launchCase co { w := w0, mem := m0, calls := calls } = lc at rcache rinst hLM
  generalize runSubs sp f co w0 m0 calls = r at *
  have S := memSummary (r := r) h hw0cache hw0inst hm0 hm0v hlc rcache rinst hLM
  obtain ⟨v0, hv0, hv0c, hv0p, hv0l⟩ := hm0v
  have hsrv := h.vok w.claim (claim_mem_versions w)
  -- Launched on the server ⇒ Launched in memory
  have hsrvL : w.claim.conds.l.status = .true_ → mem.conds.l.status = .true_ := by
    intro hl
    rcases S.ltrue_or with ht | ⟨_, _, hz, _⟩
    · exact ht
    · have := h.linst w.claim (claim_mem_versions w) hl; omega
  -- seen, for any new copy whose Launched is true whenever the old current copy's or the memory's is
  have hseen : ∀ nc : Claim, (m0.conds.l.status = .true_ → nc.conds.l.status = .true_) →
      1 ≤ r.w.instances → r.w.cache = true ∨ ∀ v ∈ nc :: kept, v.conds.l.status = .true_ := by
    intro nc hnc h1
    rcases S.seen h1 with hc | hm
    · exact Or.inl hc
    · right
      intro v hv
      rcases List.mem_cons.mp hv with rfl | hv
      · exact hnc hm
      · exact hm0old hm v hv
  have hpush : ∀ (hvok : VOK r.w.claim)
      (hlinst : r.w.claim.conds.l.status = .true_ → 1 ≤ r.w.instances)
      (hdom : w.claim.conds.l.status = .true_ → r.w.claim.conds.l.status = .true_)
      (hkeep : m0.conds.l.status = .true_ → r.w.claim.conds.l.status = .true_)
      (hpid : w.claim.providerID = true → r.w.claim.providerID = true)
      (hplb : w.claim.provLabels = true → r.w.claim.provLabels = true),
      Inv { r.w with views := kept } := by
    intro hvok hlinst hdom hkeep hpid hplb
    refine inv_push (w' := { r.w with views := kept }) (nc := r.w.claim) h rfl rfl hsub hvok hlinst hdom S.instLe
      (hseen r.w.claim hkeep) S.cacheInst S.once ?_ ?_ hpid hplb ?_
    · intro _; simp only []; rw [rfe]; exact hw0fe
    · intro _; simp only []; rw [rfe]; exact hw0fe
    · intro _; rw [rfin]; exact hw0f
  -- a copy that keeps the server's conditions and provider id
  have hA : r.w.claim.conds = w.claim.conds → r.w.claim.providerID = w.claim.providerID →
      (r.w.claim.provLabels = w.claim.provLabels ∨
        r.w.claim.provLabels = (if m0.provLabels = mem.provLabels then w.claim.provLabels else mem.provLabels)) →
      Inv { r.w with views := kept } := by
    intro ec ep el
    have hplb : w.claim.provLabels = true → r.w.claim.provLabels = true := by
      intro hp
      rcases el with el | el
      · rw [el]; exact hp
      · rw [el]; split
        · exact hp
        · rename_i hne; exact (S.plUp hne).1
    apply hpush
    · constructor
      · rw [ec]; exact hsrv.ir
      · rw [ec]; exact hsrv.rl
      · rw [ec, ep]; exact hsrv.pl
      · rw [ec, ep]; exact hsrv.lp
      · rw [ep]; intro hp; exact hplb (hsrv.ppl hp)
      · rw [ec]; exact hsrv.lnf
      · intro _; rw [rfin]; exact hw0f
    · rw [ec]; intro hl; exact Nat.le_trans (h.linst w.claim (claim_mem_versions w) hl) S.instLe
    · rw [ec]; exact id
    · rw [ec]; intro hm; exact hm0old hm w.claim hhead
    · rw [ep]; exact id
    · exact hplb
  rw [hw0c, hw0p, hw0l] at hclaim
  rcases hclaim with ⟨ec, ep, el⟩ | ⟨ec, ep, el⟩
  · exact hA ec ep el
  · by_cases hce : m0.conds = mem.conds
    · -- the condition list did not change: neither did provider id / labels
      have hpe : m0.providerID = mem.providerID := by
        cases hdec : decide (m0.providerID = mem.providerID) with
        | true => exact of_decide_eq_true hdec
        | false => exact absurd (by rw [hce]) (S.pidUp (of_decide_eq_false hdec)).2
      have hle : m0.provLabels = mem.provLabels := by
        cases hdec : decide (m0.provLabels = mem.provLabels) with
        | true => exact of_decide_eq_true hdec
        | false => exact absurd (by rw [hce]) (S.plUp (of_decide_eq_false hdec)).2
      rw [if_pos hce] at ec
      rw [if_pos hpe] at ep
      exact hA ec ep (Or.inr el)
    · rw [if_neg hce] at ec
      have hml : r.w.claim.conds.l.status = mem.conds.l.status := by rw [ec]
      have hpid : w.claim.providerID = true → r.w.claim.providerID = true := by
        intro hp; rw [ep]; split
        · exact hp
        · rename_i hne; exact (S.pidUp hne).1
      have hplb : w.claim.provLabels = true → r.w.claim.provLabels = true := by
        intro hp; rw [el]; split
        · exact hp
        · rename_i hne; exact (S.plUp hne).1
      -- provider id recorded on the new copy ⇒ Launched in memory
      have hpidL : r.w.claim.providerID = true → mem.conds.l.status = .true_ := by
        intro hp
        rw [ep] at hp
        split at hp
        · exact hsrvL (hsrv.pl hp)
        · rcases S.ltrue_or with ht | ⟨_, hpf, _, _⟩
          · exact ht
          · rw [hpf] at hp; exact absurd hp (by simp)
      apply hpush
      · constructor
        · rw [ec]; intro hi
          rcases hmI hi with h0 | hr
          · exact hkR (hm0.ir h0)
          · exact hr
        · rw [ec]; intro hr
          rcases hmR hr with h0 | hp
          · exact (S.keepL (hm0.rl h0)).1
          · rcases S.ltrue_or with ht | ⟨_, hpf, _, _⟩
            · exact ht
            · rw [hpf] at hp; exact absurd hp (by simp)
        · rw [hml]; exact hpidL
        · rw [hml]; intro hl
          have hmp := (S.lpid hl).1
          rw [ep]; split
          · rename_i he; exact h.pidMono v0 hv0 (by rw [← hv0p, he]; exact hmp)
          · exact hmp
        · intro hp
          have hmpl := (S.lpid (hpidL hp)).2
          rw [el]; split
          · rename_i he; exact h.plMono v0 hv0 (by rw [← hv0l, he]; exact hmpl)
          · exact hmpl
        · rw [hml]
          rcases S.ltrue_or with ht | ⟨hu, _, _, _⟩
          · rw [ht]; simp
          · rw [hu]; simp
        · intro _; rw [rfin]; exact hw0f
      · rw [hml]; exact S.linst
      · rw [hml]; exact hsrvL
      · rw [hml]; intro hm; exact (S.keepL hm).1
      · exact hpid
      · exact hplb


/-! ### reconcile steps -/

theorem claim_mem_kept (w : World) (lag : Nat) : w.claim ∈ keptVersions w lag := by
  unfold keptVersions World.versions; simp [List.take_succ_cons]

theorem inv_views {w : World} (h : Inv w) (lag : Nat) : Inv { w with views := keptVersions w lag } :=
  inv_push_same (w' := { w with views := keptVersions w lag }) (nc := w.claim) h rfl rfl
    (keptVersions_sublist w lag) rfl rfl rfl rfl rfl rfl rfl

theorem finPatch_ok {f : Faults} {w : World} (h : finPatchOutcome f w = .ok) :
    w.claim.present = true ∧ w.claim.finalizer = false := by
  unfold finPatchOutcome at h
  split at h
  · rename_i e _; cases e <;> simp [Err.toOutcome] at h
  · split at h; · simp at h
    split at h; · simp at h
    rename_i h1 h2
    simp at h1 h2
    exact ⟨h1, h2⟩

theorem inv_reconcileLive (sp : Spec) (f : Faults) (co : CreateOutcome) {w : World} (h : Inv w) (lag : Nat) :
    Inv { (reconcileLive sp f co w (pickView w lag)).w with views := keptVersions w lag } := by
  have hvmem : pickView w lag ∈ w.versions := (keptVersions_sublist w lag).subset (pickView_mem w lag)
  have hsrv := h.vok w.claim (claim_mem_versions w)
  unfold reconcileLive
  by_cases hf : (pickView w lag).finalizer = true
  · simp only [hf, if_true]
    exact inv_runSubs sp f co [] h (keptVersions_sublist w lag) (claim_mem_kept w lag) rfl rfl rfl
      (h.finMono _ hvmem hf) rfl rfl (h.finEver _ hvmem hf) (h.vok _ hvmem) ⟨_, hvmem, rfl, rfl, rfl⟩
      (pickView_oldest h lag)
  · simp only [hf]
    simp only [Bool.false_eq_true, if_false]
    cases ho : finPatchOutcome f w
    case ok =>
      obtain ⟨hp, hnf⟩ := finPatch_ok ho
      simp only []
      refine inv_runSubs sp f co _ h (keptVersions_sublist w lag) (claim_mem_kept w lag) rfl rfl rfl rfl rfl rfl rfl ?_
        ⟨w.claim, claim_mem_versions w, rfl, rfl, rfl⟩ ?_
      · exact ⟨hsrv.ir, hsrv.rl, hsrv.pl, hsrv.lp, hsrv.ppl, hsrv.lnf, fun _ => rfl⟩
      · intro hl
        have := hsrv.lfin hl
        rw [hnf] at this; exact absurd this (by simp)
    all_goals exact inv_views h lag

theorem inv_finalize {w : World} (h : Inv w) (lag : Nat) (fin : FinalizeOut) :
    Inv { finalizeStep w fin with views := keptVersions w lag } := by
  refine inv_push_same (w' := { finalizeStep w fin with views := keptVersions w lag }) (nc := (finalizeStep w fin).claim)
    h rfl rfl (keptVersions_sublist w lag) ?_ ?_ ?_ ?_ rfl rfl rfl
  all_goals (unfold finalizeStep; simp only []; split <;> rfl)

theorem inv_step (sp : Spec) {w : World} (h : Inv w) (s : Step) : Inv (step sp w s).1 := by
  cases s with
  | env e => exact inv_env sp h e
  | reconcile lag co f fin =>
    simp only [step]
    split
    · exact inv_views h lag
    · split
      · exact inv_finalize h lag fin
      · exact inv_reconcileLive sp f co h lag

theorem inv_init (fin : Bool) : Inv (World.init fin) := by
  have hall : ∀ v ∈ (World.init fin).versions, v = { finalizer := fin } := by
    intro v hv; simpa [World.init, World.versions] using hv
  constructor
  · intro v hv; rw [hall v hv]; constructor <;> simp
  · intro v hv; rw [hall v hv]; simp
  · simp [World.init, World.versions]
  · simp [World.init]
  · simp [World.init]
  · simp [World.init]
  · intro v hv; rw [hall v hv]; simp [World.init]
  · intro v hv; rw [hall v hv]; simp
  · intro v hv; rw [hall v hv]; simp
  · intro v hv; rw [hall v hv]; simp [World.init]

theorem inv_run (sp : Spec) (steps : List Step) : ∀ {w : World}, Inv w → Inv (run sp w steps) := by
  induction steps with
  | nil => intro w h; exact h
  | cons s ss ih => intro w h; exact ih (inv_step sp h s)

end Karp.Lifecycle
