/-
C17: the reservation manager refines the holder ledger (`Karp/Spec/ReservedLedger.lean`): same observations along
every history, same panics.
-/
import Karp.Proofs.ReservationLemmas
import Karp.Spec.ReservedLedger
namespace Karp.Reservation
open Karp.Spec.ReservedLedger Karp.Spec.Reserved

theorem capOf_eq (offerings : List (Id × Int)) (id : Id) :
    capOf offerings id = (RM.new offerings).capacity.lookup id := by
  induction offerings with
  | nil => rfl
  | cons o os ih =>
    obtain ⟨k, c⟩ := o
    have hcap : (RM.new ((k, c) :: os)).capacity = insertMin (RM.new os).capacity (k, c) := rfl
    rw [hcap]
    unfold capOf
    by_cases hk : k = id
    · subst hk
      rw [lookup_insertMin_eq, ← ih]
      simp only [BEq.rfl, if_true]
      congr 1
      cases capOf os k with
      | none => rfl
      | some m =>
        simp only
        by_cases hgt : m > c
        · simp only [hgt, if_true]; exact Int.min_eq_left (by omega)
        · simp only [hgt, if_false]; exact Int.min_eq_right (by omega)
    · have hne : (k == id) = false := by simpa using hk
      rw [lookup_insertMin_ne _ _ _ _ (fun e => hk e.symm), ← ih]
      simp [hne]

/-- simulation relation between the manager and the ledger -/
structure Sim (offerings : List (Id × Int)) (rm : RM) (b : Book) : Prop where
  holds : rm.holds = b
  ledger : Ledger (fun id => (capOf offerings id).getD 0) rm
  known : ∀ id, rm.capacity.lookup id = none ↔ capOf offerings id = none
  heldKnown : ∀ h id, rm.has h id = true → rm.capacity.lookup id ≠ none

theorem sim_init (offerings : List (Id × Int)) (hcap : ∀ o ∈ offerings, 0 ≤ o.2) : Sim offerings (RM.new offerings) [] := by
  refine ⟨rfl, ?_, ?_, ?_⟩
  · have := ledger_new offerings hcap
    have heq : (fun id => (RM.new offerings).remaining id) = (fun id => (capOf offerings id).getD 0) := by
      funext id; unfold RM.remaining; rw [capOf_eq]
    rw [heq] at this; exact this
  · intro id; rw [capOf_eq]
  · intro h id hh; simp [RM.has, RM.new] at hh

theorem sim_free (offerings : List (Id × Int)) (rm : RM) (b : Book) (S : Sim offerings rm b) (id : Id) :
    free offerings b id = rm.remaining id := by
  have := S.ledger.sum id
  unfold free holders
  rw [← S.holds]
  rw [holders_def] at this
  omega

theorem sim_can (offerings : List (Id × Int)) (rm : RM) (b : Book) (S : Sim offerings rm b) (h : Host) (id : Id) :
    rm.canReserve h id = can offerings b h id := by
  unfold RM.canReserve can
  have hc : rm.has h id = b.contains (h, id) := by rw [has_def, S.holds]
  rw [hc]
  by_cases hb : b.contains (h, id) = true
  · rw [if_pos hb, if_pos hb]
  · rw [if_neg hb, if_neg hb]
    cases hl : rm.capacity.lookup id with
    | none => rw [(S.known id).mp hl]
    | some c =>
      have hn : capOf offerings id ≠ none := fun e => by rw [(S.known id).mpr e] at hl; cases hl
      cases hcap : capOf offerings id with
      | none => exact absurd hcap hn
      | some m =>
        simp only
        have hf := sim_free offerings rm b S id
        have hr : rm.remaining id = c := by unfold RM.remaining; rw [hl]; rfl
        have hnn := S.ledger.nonneg id
        rw [hf, hr]
        rw [hr] at hnn
        congr 1
        by_cases hz : c = 0
        · subst hz; simp
        · have : 0 < c := by omega
          simp [hz, this]


theorem lookup_cons_self (m : List (Id × Int)) (id : Id) (c : Int) : List.lookup id ((id, c) :: m) = some c := by
  simp

theorem lookup_cons_ne (m : List (Id × Int)) (id x : Id) (c : Int) (h : x ≠ id) :
    List.lookup x ((id, c) :: m) = List.lookup x m := by
  have : (x == id) = false := by simpa using h
  simp [List.lookup_cons, this]

theorem sim_reserve1 (offerings : List (Id × Int)) (rm : RM) (b : Book) (S : Sim offerings rm b) (h : Host) (id : Id) :
    (∀ p, rm.reserve1 h id = .error p → grant1 offerings b h id = .error p) ∧
    (∀ rm', rm.reserve1 h id = .ok rm' → ∃ b', grant1 offerings b h id = .ok b' ∧ Sim offerings rm' b') := by
  have hc : rm.has h id = b.contains (h, id) := by rw [has_def, S.holds]
  have hf := sim_free offerings rm b S id
  rcases reserve1_cases rm h id with ⟨hh, e⟩ | ⟨hno, hlt, e⟩ | ⟨hno, hge, e⟩
  · rw [e]
    refine ⟨fun p hp => (by cases hp), fun rm' hr => ?_⟩
    cases hr
    refine ⟨b, ?_, S⟩
    unfold grant1
    rw [if_pos (by rw [← hc]; exact hh)]
    rfl
  · rw [e]
    refine ⟨fun p hp => ?_, fun rm' hr => (by cases hr)⟩
    cases hp
    unfold grant1
    rw [if_neg (by rw [← hc, hno]; simp), if_pos (by rw [hf]; exact hlt)]
    rfl
  · rw [e]
    refine ⟨fun p hp => (by cases hp), fun rm' hr => ?_⟩
    cases hr
    refine ⟨(h, id) :: b, ?_, ?_⟩
    · unfold grant1
      rw [if_neg (by rw [← hc, hno]; simp), if_neg (by rw [hf]; omega)]
      rfl
    · have hkn : rm.capacity.lookup id ≠ none := by
        intro hl
        have : rm.remaining id = 0 := by unfold RM.remaining; rw [hl]; rfl
        omega
      refine ⟨by rw [← S.holds], ledger_reserve1 _ rm _ h id S.ledger e, ?_, ?_⟩
      · intro x
        show List.lookup x ((id, rm.remaining id - 1) :: rm.capacity) = none ↔ _
        by_cases hx : x = id
        · subst hx
          rw [lookup_cons_self]
          constructor
          · intro hh; cases hh
          · intro hh; exact absurd ((S.known x).mpr hh) hkn
        · rw [lookup_cons_ne _ _ _ _ hx]; exact S.known x
      · intro h' x hh'
        show List.lookup x ((id, rm.remaining id - 1) :: rm.capacity) ≠ none
        by_cases hx : x = id
        · subst hx; rw [lookup_cons_self]; intro hh; cases hh
        · rw [lookup_cons_ne _ _ _ _ hx]
          apply S.heldKnown h' x
          rw [has_cons] at hh'
          have hxf : (x == id) = false := by simpa using hx
          simp only [hxf, Bool.and_false, Bool.false_or] at hh'
          exact hh'

theorem sim_reserve (offerings : List (Id × Int)) (h : Host) : ∀ (ids : List Id) (rm : RM) (b : Book), Sim offerings rm b →
    (∀ p, rm.reserve h ids = .error p → grant offerings b h ids = .error p) ∧
    (∀ rm', rm.reserve h ids = .ok rm' → ∃ b', grant offerings b h ids = .ok b' ∧ Sim offerings rm' b') := by
  intro ids
  induction ids with
  | nil =>
    intro rm b S
    refine ⟨fun p hp => (by cases hp), fun rm' hr => ?_⟩
    cases hr; exact ⟨b, rfl, S⟩
  | cons id ids ih =>
    intro rm b S
    obtain ⟨h1, h2⟩ := sim_reserve1 offerings rm b S h id
    unfold RM.reserve grant
    cases hr : rm.reserve1 h id with
    | error p => rw [h1 p hr]; exact ⟨fun q hq => (by cases hq; rfl), fun rm' hq => (by cases hq)⟩
    | ok rm1 =>
      obtain ⟨b1, hg, S1⟩ := h2 rm1 hr
      rw [hg]
      exact ih rm1 b1 S1

theorem filter_absent (b : Book) (p : Host × Id) (h : b.contains p = false) : b.filter (fun q => q != p) = b := by
  apply List.filter_eq_self.mpr
  intro q hq
  have : q ≠ p := by
    intro e; subst e
    rw [List.contains_iff_mem.mpr hq] at h; cases h
  simpa using this

theorem sim_release1 (offerings : List (Id × Int)) (rm : RM) (b : Book) (S : Sim offerings rm b) (h : Host) (id : Id) :
    Sim offerings (rm.release1 h id) (b.filter (fun p => p != (h, id))) := by
  have hc : rm.has h id = b.contains (h, id) := by rw [has_def, S.holds]
  rcases release1_cases rm h id with ⟨hno, e⟩ | ⟨hyes, e⟩
  · rw [e, filter_absent b (h, id) (by rw [← hc]; exact hno)]; exact S
  · have L := ledger_release1 _ rm h id S.ledger
    rw [e] at L ⊢
    have hkn := S.heldKnown h id hyes
    refine ⟨by rw [← S.holds], L, ?_, ?_⟩
    · intro x
      show List.lookup x ((id, rm.remaining id + 1) :: rm.capacity) = none ↔ _
      by_cases hx : x = id
      · subst hx
        rw [lookup_cons_self]
        constructor
        · intro hh; cases hh
        · intro hh; exact absurd ((S.known x).mpr hh) hkn
      · rw [lookup_cons_ne _ _ _ _ hx]; exact S.known x
    · intro h' x hh'
      show List.lookup x ((id, rm.remaining id + 1) :: rm.capacity) ≠ none
      by_cases hx : x = id
      · subst hx; rw [lookup_cons_self]; intro hh; cases hh
      · rw [lookup_cons_ne _ _ _ _ hx]
        apply S.heldKnown h' x
        rw [has_filter] at hh'
        simp only [Bool.and_eq_true] at hh'
        exact hh'.1

theorem sim_release (offerings : List (Id × Int)) (h : Host) : ∀ (ids : List Id) (rm : RM) (b : Book), Sim offerings rm b →
    Sim offerings (rm.release h ids) (drop b h ids) := by
  intro ids
  induction ids with
  | nil => intro rm b S; exact S
  | cons id ids ih => intro rm b S; exact ih _ _ (sim_release1 offerings rm b S h id)

theorem sim_toReserve (offerings : List (Id × Int)) (rm : RM) (b : Book) (S : Sim offerings rm b) (h : Host) :
    ∀ ids, toReserve rm h ids = askAll offerings b h ids := by
  intro ids
  induction ids with
  | nil => rfl
  | cons id ids ih =>
    unfold toReserve askAll
    rw [sim_can offerings rm b S h id, ih]
    rfl

/-- one step: same observation, related states; same panic -/
theorem sim_step (offerings : List (Id × Int)) (rm : RM) (b : Book) (S : Sim offerings rm b) (op : Op) :
    (∀ p, stepOp rm op = .error p → specStep offerings b op = .error p) ∧
    (∀ rm' o, stepOp rm op = .ok (rm', o) → ∃ b', specStep offerings b op = .ok (b', o) ∧ Sim offerings rm' b') := by
  cases op with
  | canReserve h id =>
    simp only [stepOp, specStep]
    rw [sim_can offerings rm b S h id]
    cases can offerings b h id with
    | error p => exact ⟨fun q hq => (by cases hq; rfl), fun rm' o hq => (by cases hq)⟩
    | ok x => exact ⟨fun q hq => (by cases hq), fun rm' o hq => (by cases hq; exact ⟨b, rfl, S⟩)⟩
  | reserve h ids =>
    simp only [stepOp, specStep]
    obtain ⟨h1, h2⟩ := sim_reserve offerings h ids rm b S
    cases hr : rm.reserve h ids with
    | error p => rw [h1 p hr]; exact ⟨fun q hq => (by cases hq; rfl), fun rm' o hq => (by cases hq)⟩
    | ok rm1 =>
      obtain ⟨b1, hg, S1⟩ := h2 rm1 hr
      rw [hg]
      exact ⟨fun q hq => (by cases hq), fun rm' o hq => (by cases hq; exact ⟨b1, rfl, S1⟩)⟩
  | guarded h ids =>
    simp only [stepOp, specStep]
    rw [sim_toReserve offerings rm b S h ids]
    cases askAll offerings b h ids with
    | error p => exact ⟨fun q hq => (by cases hq; rfl), fun rm' o hq => (by cases hq)⟩
    | ok rs =>
      simp only
      obtain ⟨h1, h2⟩ := sim_reserve offerings h rs rm b S
      cases hr : rm.reserve h rs with
      | error p => rw [h1 p hr]; exact ⟨fun q hq => (by cases hq; rfl), fun rm' o hq => (by cases hq)⟩
      | ok rm1 =>
        obtain ⟨b1, hg, S1⟩ := h2 rm1 hr
        rw [hg]
        exact ⟨fun q hq => (by cases hq), fun rm' o hq => (by cases hq; exact ⟨b1, rfl, S1⟩)⟩
  | release h ids =>
    simp only [stepOp, specStep, pure, Except.pure]
    exact ⟨fun q hq => (by cases hq), fun rm' o hq => (by cases hq; exact ⟨_, rfl, sim_release offerings h ids rm b S⟩)⟩
  | has h id =>
    simp only [stepOp, specStep, pure, Except.pure]
    refine ⟨fun q hq => (by cases hq), fun rm' o hq => ?_⟩
    cases hq
    refine ⟨b, ?_, S⟩
    rw [has_def, S.holds]
  | remaining id =>
    simp only [stepOp, specStep, pure, Except.pure]
    refine ⟨fun q hq => (by cases hq), fun rm' o hq => ?_⟩
    cases hq
    refine ⟨b, ?_, S⟩
    rw [sim_free offerings rm b S id]

theorem sim_obs (offerings : List (Id × Int)) : ∀ (ops : List Op) (rm : RM) (b : Book), Sim offerings rm b →
    (runOps rm ops).2 = specObs offerings b ops := by
  intro ops
  induction ops with
  | nil => intro rm b _; rfl
  | cons op ops ih =>
    intro rm b S
    obtain ⟨h1, h2⟩ := sim_step offerings rm b S op
    unfold runOps specObs
    cases hs : stepOp rm op with
    | error p => rw [h1 p hs]
    | ok r =>
      obtain ⟨rm1, o⟩ := r
      obtain ⟨b1, hg, S1⟩ := h2 rm1 o hs
      rw [hg]
      simp only
      rw [ih rm1 b1 S1]

end Karp.Reservation
