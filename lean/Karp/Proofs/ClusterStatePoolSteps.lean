/-
C11 helper lemmas: every operation of the cache preserves the pool-total invariant `PoolInv`.
-/
import Karp.Proofs.ClusterStatePool

namespace Karp.ClusterState
open Cluster

theorem contrib_congr (a b : SNode) (h1 : a.node = b.node) (h2 : a.claim = b.claim) (h3 : a.marked = b.marked) :
    a.contrib = b.contrib := by
  cases a; cases b
  simp only at h1 h2 h3
  subst h1 h2 h3
  rfl

theorem contrib_new : SNode.new.contrib = ("", Res.zero) := rfl

theorem contribAt_new (p : String) : contribAt SNode.new p = Res.zero := by
  simp [contribAt, contrib_new]

theorem poolInv_ite (b : Bool) (x y : Cluster) (hx : PoolInv x) (hy : PoolInv y) : PoolInv (if b = true then x else y) := by
  cases b <;> simp [hx, hy]

/-! ### per-pod updates do not touch Node / NodeClaim / mark -/

theorem volAdd_fields (fx : Fixes) (s : SNode) (k : String) (v : List Vol) :
    (s.volAdd fx k v).node = s.node ∧ (s.volAdd fx k v).claim = s.claim ∧ (s.volAdd fx k v).marked = s.marked ∧
    (s.volAdd fx k v).nominated = s.nominated := by
  simp [SNode.volAdd]

theorem updateForPod_fields (fx : Fixes) (s : SNode) (p : PodObj) :
    (s.updateForPod fx p).node = s.node ∧ (s.updateForPod fx p).claim = s.claim ∧ (s.updateForPod fx p).marked = s.marked ∧
    (s.updateForPod fx p).nominated = s.nominated := by
  unfold SNode.updateForPod
  simp only [volAdd_fields]
  by_cases h1 : p.ds = true <;> by_cases h2 : p.cost > 0 <;> simp [h1, h2]

theorem cleanupForPod_fields (s : SNode) (k : String) :
    (s.cleanupForPod k).node = s.node ∧ (s.cleanupForPod k).claim = s.claim ∧ (s.cleanupForPod k).marked = s.marked ∧
    (s.cleanupForPod k).nominated = s.nominated := by
  simp [SNode.cleanupForPod, SNode.volDelete]

theorem contrib_updateForPod (fx : Fixes) (s : SNode) (p : PodObj) : (s.updateForPod fx p).contrib = s.contrib :=
  contrib_congr _ _ (updateForPod_fields fx s p).1 (updateForPod_fields fx s p).2.1 (updateForPod_fields fx s p).2.2.1

theorem contrib_cleanupForPod (s : SNode) (k : String) : (s.cleanupForPod k).contrib = s.contrib :=
  contrib_congr _ _ (cleanupForPod_fields s k).1 (cleanupForPod_fields s k).2.1 (cleanupForPod_fields s k).2.2.1

theorem nodeByName_some {c : Cluster} {n id : String} {sn : SNode} (h : c.nodeByName n = some (id, sn)) :
    Map.get c.nodes id = some sn := by
  unfold Cluster.nodeByName at h
  cases hg : Map.get c.nodes (Map.getD c.nodeNameToPid n "") with
  | none => simp [hg] at h
  | some s =>
    simp [hg] at h
    rw [← h.1, ← h.2]; exact hg

/-- the contribution of the state node under `id` is the same in both clusters -/
def ContribEq (c c' : Cluster) (id : String) : Prop :=
  (Map.get c'.nodes id).map SNode.contrib = (Map.get c.nodes id).map SNode.contrib

theorem contribEq_refl (c : Cluster) (id : String) : ContribEq c c id := rfl
theorem contribEq_trans {a b c : Cluster} {id : String} (h1 : ContribEq a b id) (h2 : ContribEq b c id) : ContribEq a c id := by
  unfold ContribEq at *; rw [h2, h1]

theorem contribEq_touch (c : Cluster) (id : String) (sn sn' : SNode) (hg : Map.get c.nodes id = some sn)
    (hc : sn'.contrib = sn.contrib) (c' : Cluster) (hn : c'.nodes = Map.put c.nodes id sn') (id' : String) :
    ContribEq c c' id' := by
  unfold ContribEq
  rw [hn, Map.get_put]
  by_cases h : id' = id
  · rw [if_pos h, h, hg]; simp [hc]
  · rw [if_neg h]

/-! ### pods -/

theorem cleanupOldBindings_inv (c : Cluster) (p : PodObj) (h : PoolInv c) :
    PoolInv (c.cleanupOldBindings p) ∧ (∀ id, ContribEq c (c.cleanupOldBindings p) id) ∧
    (c.cleanupOldBindings p).nodeNameToPid = c.nodeNameToPid ∧ (c.cleanupOldBindings p).claimNameToPid = c.claimNameToPid := by
  unfold Cluster.cleanupOldBindings
  split
  · split
    · exact ⟨h, fun _ => rfl, rfl, rfl⟩
    · split
      · rename_i id sn hb
        have hg := nodeByName_some hb
        exact ⟨poolInv_touch c id sn _ h hg (contrib_cleanupForPod sn p.name) _ rfl rfl,
               fun id' => contribEq_touch c id sn _ hg (contrib_cleanupForPod sn p.name) _ rfl id', rfl, rfl⟩
      · exact ⟨h, fun _ => rfl, rfl, rfl⟩
  · exact ⟨h, fun _ => rfl, rfl, rfl⟩

theorem podCompletion_inv (c : Cluster) (k : String) (h : PoolInv c) :
    PoolInv (c.podCompletion k) ∧ (c.podCompletion k).nodeNameToPid = c.nodeNameToPid ∧
    (c.podCompletion k).claimNameToPid = c.claimNameToPid := by
  unfold Cluster.podCompletion
  split
  · exact ⟨h, rfl, rfl⟩
  · dsimp only
    split
    · exact ⟨⟨h.nodup, h.sum⟩, rfl, rfl⟩
    · rename_i id sn hb
      have hg : Map.get c.nodes id = some sn := nodeByName_some (c := { c with bindings := Map.erase c.bindings k }) hb
      exact ⟨poolInv_touch c id sn _ h hg (contrib_cleanupForPod sn k) _ rfl rfl, rfl, rfl⟩

theorem podUsage_inv (fx : Fixes) (c : Cluster) (p : PodObj) (h : PoolInv c) : PoolInv (c.podUsage fx p).1 := by
  unfold Cluster.podUsage
  split
  · exact poolInv_ite _ _ _ (podCompletion_inv c p.name h).1 h
  · split
    · exact poolInv_ite _ _ _ (podCompletion_inv c p.name h).1 h
    · rename_i id sn hb
      have hg := nodeByName_some hb
      have h1 : PoolInv { c with nodes := Map.put c.nodes id (sn.updateForPod fx p) } :=
        poolInv_touch c id sn _ h hg (contrib_updateForPod fx sn p) _ rfl rfl
      have h2 := (cleanupOldBindings_inv _ p h1).1
      exact ⟨h2.nodup, h2.sum⟩

theorem updatePod_inv (fx : Fixes) (c : Cluster) (p : PodObj) (h : PoolInv c) : PoolInv (c.updatePod fx p).1 := by
  unfold Cluster.updatePod
  split
  · exact (podCompletion_inv c p.name h).1
  · exact podUsage_inv fx c p h

theorem populate_inv (fx : Fixes) (nodeName : String) (pods : List PodObj) :
    ∀ (c : Cluster) (n : SNode), PoolInv c →
      PoolInv (c.populate fx n nodeName pods).1 ∧ (∀ id, ContribEq c (c.populate fx n nodeName pods).1 id) ∧
      (c.populate fx n nodeName pods).1.nodeNameToPid = c.nodeNameToPid ∧
      (c.populate fx n nodeName pods).1.claimNameToPid = c.claimNameToPid ∧
      (c.populate fx n nodeName pods).2.node = n.node ∧ (c.populate fx n nodeName pods).2.claim = n.claim ∧
      (c.populate fx n nodeName pods).2.marked = n.marked := by
  induction pods with
  | nil => intro c n h; exact ⟨h, fun _ => rfl, rfl, rfl, rfl, rfl, rfl⟩
  | cons p ps ih =>
    intro c n h
    unfold Cluster.populate
    split
    · have hc := cleanupOldBindings_inv c p h
      have h1 : PoolInv { (c.cleanupOldBindings p) with bindings := Map.put (c.cleanupOldBindings p).bindings p.name p.node } :=
        ⟨hc.1.nodup, hc.1.sum⟩
      have := ih _ (n.updateForPod fx p) h1
      refine ⟨this.1, fun id => contribEq_trans (hc.2.1 id) (this.2.1 id), ?_, ?_, ?_, ?_, ?_⟩
      · rw [this.2.2.1]; exact hc.2.2.1
      · rw [this.2.2.2.1]; exact hc.2.2.2
      · rw [this.2.2.2.2.1]; exact (updateForPod_fields fx n p).1
      · rw [this.2.2.2.2.2.1]; exact (updateForPod_fields fx n p).2.1
      · rw [this.2.2.2.2.2.2]; exact (updateForPod_fields fx n p).2.2.1
    · exact ih c n h

/-! ### nodes and claims -/

theorem detachNode_inv (fx : Fixes) (c : Cluster) (name id : String) (sn : SNode) (h : PoolInv c)
    (hsn : Map.get c.nodes id = some sn) :
    PoolInv (c.detachNode fx name id sn) ∧ (∀ id', id' ≠ id → Map.get (c.detachNode fx name id sn).nodes id' = Map.get c.nodes id') := by
  unfold Cluster.detachNode
  dsimp only
  split
  · refine ⟨?_, ?_⟩
    · have := poolInv_remove c id sn h hsn { (c.updateNodePoolResources (some sn) none) with nodes := Map.erase c.nodes id } rfl rfl
      exact ⟨this.nodup, this.sum⟩
    · intro id' hx
      simp only [updateNodePoolResources]
      rw [Map.get_erase, if_neg hx]
  · refine ⟨?_, ?_⟩
    · have := poolInv_replace c id (some sn) _ h (by intro p; rw [hsn])
        { (c.updateNodePoolResources (some sn) (some (if fx.nodeGoneResets = true then ({ claim := sn.claim, marked := sn.marked, nominated := sn.nominated } : SNode) else { sn with node := none }))) with
          nodes := Map.put c.nodes id (if fx.nodeGoneResets = true then ({ claim := sn.claim, marked := sn.marked, nominated := sn.nominated } : SNode) else { sn with node := none }) } rfl rfl
      exact ⟨this.nodup, this.sum⟩
    · intro id' hx
      simp only [updateNodePoolResources]
      rw [Map.get_put, if_neg hx]

theorem cleanupNode_inv (fx : Fixes) (c c' : Cluster) (name : String) (h : PoolInv c)
    (hr : c.cleanupNode fx name = .ok c') :
    PoolInv c' ∧ (∀ id', Map.get c.nodeNameToPid name ≠ some id' → Map.get c'.nodes id' = Map.get c.nodes id') := by
  unfold Cluster.cleanupNode at hr
  split at hr
  · rename_i id hid
    have hne : ∀ id', Map.get c.nodeNameToPid name ≠ some id' → id' ≠ id := by
      intro id' hx e; apply hx; rw [hid, e]
    split at hr
    · split at hr
      · simp at hr
      · rename_i sn hsn
        simp only [Except.ok.injEq] at hr
        subst hr
        have := detachNode_inv fx c name id sn h hsn
        exact ⟨this.1, fun id' hx => this.2 id' (hne id' hx)⟩
    · simp only [Except.ok.injEq] at hr
      subst hr; exact ⟨h, fun _ _ => rfl⟩
  · simp only [Except.ok.injEq] at hr
    subst hr; exact ⟨h, fun _ _ => rfl⟩

theorem detachClaim_inv (c : Cluster) (id : String) (sn : SNode) (h : PoolInv c)
    (hsn : Map.get c.nodes id = some sn) :
    PoolInv (c.detachClaim id sn) ∧ (∀ id', id' ≠ id → Map.get (c.detachClaim id sn).nodes id' = Map.get c.nodes id') := by
  unfold Cluster.detachClaim
  split
  · refine ⟨poolInv_remove c id sn h hsn _ rfl rfl, ?_⟩
    intro id' hx
    simp only [updateNodePoolResources]
    rw [Map.get_erase, if_neg hx]
  · refine ⟨poolInv_replace c id (some sn) _ h (by intro p; rw [hsn]) _ rfl rfl, ?_⟩
    intro id' hx
    simp only [updateNodePoolResources]
    rw [Map.get_put, if_neg hx]

theorem forgetClaim_inv (c : Cluster) (name : String) (h : PoolInv c) : PoolInv (c.forgetClaim name) :=
  ⟨h.nodup, h.sum⟩

theorem cleanupNodeClaim_inv (c c' : Cluster) (name : String) (h : PoolInv c)
    (hr : c.cleanupNodeClaim name = .ok c') :
    PoolInv c' ∧ (∀ id', Map.get c.claimNameToPid name ≠ some id' → Map.get c'.nodes id' = Map.get c.nodes id') := by
  unfold Cluster.cleanupNodeClaim at hr
  split at hr
  · rename_i id hid
    have hne : ∀ id', Map.get c.claimNameToPid name ≠ some id' → id' ≠ id := by
      intro id' hx e; apply hx; rw [hid, e]
    split at hr
    · split at hr
      · simp at hr
      · rename_i sn hsn
        simp only [Except.ok.injEq] at hr
        subst hr
        have := detachClaim_inv c id sn h hsn
        exact ⟨forgetClaim_inv _ name this.1, fun id' hx => this.2 id' (hne id' hx)⟩
    · simp only [Except.ok.injEq] at hr
      subst hr; exact ⟨forgetClaim_inv _ name h, fun _ _ => rfl⟩
  · simp only [Except.ok.injEq] at hr
    subst hr; exact ⟨forgetClaim_inv _ name h, fun _ _ => rfl⟩

/-- the contribution read off `old` (taken before populate / cleanup) is still what the cache holds under `pid` -/
theorem old_contrib (c c2 : Cluster) (pid : String) (hce : ContribEq c c2 pid) (p : String) :
    optContribAt (some ((Map.get c.nodes pid).getD SNode.new)) p = optContribAt (Map.get c2.nodes pid) p := by
  unfold ContribEq at hce
  cases h1 : Map.get c.nodes pid with
  | none =>
    rw [h1] at hce
    cases h2 : Map.get c2.nodes pid with
    | none => simp [optContribAt, contribAt_new]
    | some s => rw [h2] at hce; simp at hce
  | some s =>
    rw [h1] at hce
    cases h2 : Map.get c2.nodes pid with
    | none => rw [h2] at hce; simp at hce
    | some s2 =>
      rw [h2] at hce
      simp only [Option.map_some, Option.some.injEq] at hce
      simp [optContribAt, contribAt, hce]

end Karp.ClusterState

namespace Karp.ClusterState
open Cluster

theorem installNode_inv (c c0 : Cluster) (node : NodeObj) (n : SNode) (h : PoolInv c) (hce : ContribEq c0 c node.pid) :
    PoolInv (c.installNode node ((Map.get c0.nodes node.pid).getD SNode.new) n) := by
  unfold Cluster.installNode
  have := poolInv_replace c node.pid (some ((Map.get c0.nodes node.pid).getD SNode.new)) n h
    (old_contrib c0 c node.pid hce)
    { (c.updateNodePoolResources (some ((Map.get c0.nodes node.pid).getD SNode.new)) (some n)) with
      nodes := Map.put c.nodes node.pid n } rfl rfl
  exact ⟨this.nodup, this.sum⟩

theorem rekeyed_true {m : Map String} {name pid : String} (h : rekeyed m name pid = true) : Map.get m name ≠ some pid := by
  unfold rekeyed at h
  intro e
  rw [e] at h
  simp at h

theorem newStateFromNode_inv (fx : Fixes) (c c' : Cluster) (api : Api) (node : NodeObj) (h : PoolInv c)
    (hr : c.newStateFromNode fx api node = .ok c') : PoolInv c' := by
  unfold Cluster.newStateFromNode at hr
  dsimp only at hr
  generalize hcn : c.populate fx (nodeLiteral node ((Map.get c.nodes node.pid).getD SNode.new)) node.name api.pods.vals = cn at hr
  have hp := populate_inv fx node.name api.pods.vals c (nodeLiteral node ((Map.get c.nodes node.pid).getD SNode.new)) h
  rw [hcn] at hp
  split at hr
  · simp at hr
  · rename_i c2 hc2
    simp only [Except.ok.injEq] at hr
    subst hr
    by_cases hrk : rekeyed cn.1.nodeNameToPid node.name node.pid = true
    · rw [if_pos hrk] at hc2
      have hcl := cleanupNode_inv fx cn.1 c2 node.name hp.1 hc2
      apply installNode_inv c2 c node cn.2 hcl.1
      -- the state node under the new id is not the one the cleanup touched
      have := hcl.2 node.pid (rekeyed_true hrk)
      unfold ContribEq
      rw [this]
      exact hp.2.1 node.pid
    · rw [if_neg hrk] at hc2
      simp only [Except.ok.injEq] at hc2
      subst hc2
      exact installNode_inv cn.1 c node cn.2 hp.1 (hp.2.1 node.pid)

theorem updateNode_inv (fx : Fixes) (c c' : Cluster) (api : Api) (node : NodeObj) (h : PoolInv c)
    (hr : c.updateNode fx api node = .ok c') : PoolInv c' := by
  unfold Cluster.updateNode at hr
  dsimp only at hr
  split at hr
  · simp only [Except.ok.injEq] at hr
    subst hr; exact h
  · split at hr
    · simp only [Except.ok.injEq] at hr
      subst hr; exact h
    · exact newStateFromNode_inv fx c c' api _ h hr

theorem installClaim_inv (fx : Fixes) (c c' : Cluster) (claim : ClaimObj) (h : PoolInv c)
    (hr : c.installClaim fx claim = .ok c') : PoolInv c' := by
  unfold Cluster.installClaim at hr
  dsimp only at hr
  split at hr
  · simp at hr
  · rename_i c2 hc2
    simp only [Except.ok.injEq] at hr
    subst hr
    have key : PoolInv c2 ∧ ContribEq c c2 claim.pid := by
      by_cases hrk : rekeyed c.claimNameToPid claim.name claim.pid = true
      · rw [if_pos hrk] at hc2
        have hcl := cleanupNodeClaim_inv c c2 claim.name h hc2
        refine ⟨hcl.1, ?_⟩
        unfold ContribEq
        rw [hcl.2 claim.pid (rekeyed_true hrk)]
      · rw [if_neg hrk] at hc2
        simp only [Except.ok.injEq] at hc2
        subst hc2
        exact ⟨h, rfl⟩
    have := poolInv_replace c2 claim.pid (some ((Map.get c.nodes claim.pid).getD SNode.new))
      (claimLiteral fx claim ((Map.get c.nodes claim.pid).getD SNode.new)) key.1
      (old_contrib c c2 claim.pid key.2)
      { (c2.updateNodePoolResources (some ((Map.get c.nodes claim.pid).getD SNode.new))
          (some (claimLiteral fx claim ((Map.get c.nodes claim.pid).getD SNode.new)))) with
        nodes := Map.put c2.nodes claim.pid (claimLiteral fx claim ((Map.get c.nodes claim.pid).getD SNode.new)) } rfl rfl
    exact ⟨this.nodup, this.sum⟩

theorem updateNodeClaim_inv (fx : Fixes) (c c' : Cluster) (claim : ClaimObj) (h : PoolInv c)
    (hr : c.updateNodeClaim fx claim = .ok c') : PoolInv c' := by
  unfold Cluster.updateNodeClaim at hr
  split at hr
  · simp at hr
  · rename_i c2 hc2
    simp only [Except.ok.injEq] at hr
    subst hr
    have h2 : PoolInv c2 := by
      split at hc2
      · exact installClaim_inv fx c c2 claim h hc2
      · simp only [Except.ok.injEq] at hc2
        subst hc2; exact h
    exact ⟨h2.nodup, h2.sum⟩

theorem markForDeletion_inv (c : Cluster) (pid : String) (h : PoolInv c) : PoolInv (c.markForDeletion pid) := by
  unfold Cluster.markForDeletion
  split
  · exact h
  · rename_i sn hsn
    dsimp only
    have := poolInv_replace c pid (some sn) { sn with marked := true } h (by intro p; rw [hsn])
      { (c.updateNodePoolResources (some sn) (some { sn with marked := true })) with
        nodes := Map.put c.nodes pid { sn with marked := true } } rfl rfl
    split
    · exact ⟨this.nodup, this.sum⟩
    · exact this

theorem unmarkForDeletion_inv (c : Cluster) (pid : String) (h : PoolInv c) : PoolInv (c.unmarkForDeletion pid) := by
  unfold Cluster.unmarkForDeletion
  split
  · exact h
  · rename_i sn hsn
    dsimp only
    have := poolInv_replace c pid (some sn) { sn with marked := false } h (by intro p; rw [hsn])
      { (c.updateNodePoolResources (some sn) (some { sn with marked := false })) with
        nodes := Map.put c.nodes pid { sn with marked := false } } rfl rfl
    split
    · split
      · exact ⟨this.nodup, this.sum⟩
      · exact this
    · exact this

theorem nominate_inv (c : Cluster) (pid : String) (h : PoolInv c) : PoolInv (c.nominate pid) := by
  unfold Cluster.nominate
  split
  · exact h
  · rename_i sn hsn
    exact poolInv_touch c pid sn { sn with nominated := true } h hsn (contrib_congr _ _ rfl rfl rfl) _ rfl rfl

theorem withResult_ok {r : RecResult} {m : M Cluster} {c' : Cluster} {r' : RecResult}
    (h : withResult r m = .ok (c', r')) : m = .ok c' := by
  cases m with
  | error e => simp [withResult] at h
  | ok c => simp [withResult] at h; rw [h.1]

theorem step_poolInv (fx : Fixes) (c c' : Cluster) (api : Api) (e : Event) (r : RecResult) (h : PoolInv c)
    (hr : c.step fx api e = .ok (c', r)) : PoolInv c' := by
  cases e with
  | recNode name =>
    simp only [Cluster.step] at hr
    split at hr
    · exact (cleanupNode_inv fx c c' name h (withResult_ok hr)).1
    · exact updateNode_inv fx c c' api _ h (withResult_ok hr)
  | recClaim name =>
    simp only [Cluster.step] at hr
    split at hr
    · exact (cleanupNodeClaim_inv c c' name h (withResult_ok hr)).1
    · split at hr
      · simp only [Except.ok.injEq, Prod.mk.injEq] at hr
        rw [← hr.1]; exact h
      · exact updateNodeClaim_inv fx c c' _ h (withResult_ok hr)
  | recPod name =>
    simp only [Cluster.step] at hr
    split at hr
    · simp only [Except.ok.injEq, Prod.mk.injEq] at hr
      rw [← hr.1]; exact (podCompletion_inv c name h).1
    · simp only [Except.ok.injEq, Prod.mk.injEq] at hr
      rw [← hr.1]; exact updatePod_inv fx c _ h
  | mark pid =>
    simp only [Cluster.step, Except.ok.injEq, Prod.mk.injEq] at hr
    rw [← hr.1]; exact markForDeletion_inv c pid h
  | unmark pid =>
    simp only [Cluster.step, Except.ok.injEq, Prod.mk.injEq] at hr
    rw [← hr.1]; exact unmarkForDeletion_inv c pid h
  | nominate pid =>
    simp only [Cluster.step, Except.ok.injEq, Prod.mk.injEq] at hr
    rw [← hr.1]; exact nominate_inv c pid h
  | setNode _ | delNode _ | setClaim _ | delClaim _ | setPod _ | delPod _ =>
    simp only [Cluster.step, Except.ok.injEq, Prod.mk.injEq] at hr
    rw [← hr.1]; exact h

theorem run_poolInv (fx : Fixes) (es : List Event) :
    ∀ (c c' : Cluster) (api api' : Api), PoolInv c → run fx c api es = .ok (c', api') → PoolInv c' := by
  induction es with
  | nil =>
    intro c c' api api' h hr
    simp only [run, Except.ok.injEq, Prod.mk.injEq] at hr
    rw [← hr.1]; exact h
  | cons e es ih =>
    intro c c' api api' h hr
    simp only [run] at hr
    split at hr
    · simp at hr
    · rename_i c1 r hs
      exact ih c1 c' _ api' (step_poolInv fx c c1 _ e r h hs) hr

end Karp.ClusterState
