/-
C11 helper lemmas: the pod-layer invariant along whole histories, and what it says at quiescence.
-/
import Karp.Proofs.ClusterStatePodSteps

namespace Karp.ClusterState
open Cluster Karp.Spec.ClusterAbs

theorem dirty_recNode (g : Ghost) (api : Api) (name : String) : (g.step api (.recNode name)).dirty = (g.clean "n" name).dirty := by
  simp only [Ghost.step]
  cases Map.get api.nodes name with
  | none => rfl
  | some n => dsimp only; cases nodeKey n <;> rfl

theorem dirty_recClaim (g : Ghost) (api : Api) (name : String) : (g.step api (.recClaim name)).dirty = (g.clean "c" name).dirty := by
  simp only [Ghost.step]
  cases Map.get api.claims name with
  | none => rfl
  | some c => dsimp only; split <;> rfl

theorem step_ok_api {fx : Fixes} {c c' : Cluster} {api : Api} {e : Event} {r : RecResult} (he : e.isApi = true)
    (hr : c.step fx api e = .ok (c', r)) : c' = c := by
  cases e <;> simp [Event.isApi] at he <;> simp only [Cluster.step, Except.ok.injEq, Prod.mk.injEq] at hr <;> exact hr.1.symm

theorem podInv_step (fx : Fixes) (hf : PodFix fx) (w : Owners) (dsOf : String → Bool) {c c' : Cluster} {o o' : OC} {api : Api}
    {g : Ghost} (he : (proj c).Eqv o) (hi : OInv w o api g) (hp : PodInv dsOf c api g.dirty) (hpa : PodsOK dsOf api) (e : Event)
    (hpe : podEventOK dsOf e) (r : RecResult) (hr : c.step fx (api.step e) e = .ok (c', r))
    (he' : (proj c').Eqv o') (hi' : OInv w o' (api.step e) (g.step (api.step e) e)) :
    PodInv dsOf c' (api.step e) (g.step (api.step e) e).dirty := by
  have hN' := (nameOK_of_struct he' hi'.st).1
  have h0 := (nameOK_of_struct he hi.st).2
  have soilOther : ∀ (kind n : String), kind ≠ "p" → ∀ api' : Api, api'.pods = api.pods →
      PodInv dsOf c api' (g.soil kind n).dirty := by
    intro kind n hk api' hpods
    apply podInv_api _ hp
    intro k hx
    rw [mem_soil] at hx
    exact ⟨fun a => hx (Or.inr a), by rw [hpods]⟩
  cases e with
  | setNode n => rw [step_ok_api rfl hr]; exact soilOther "n" n.name (by decide) _ rfl
  | delNode k => rw [step_ok_api rfl hr]; exact soilOther "n" k (by decide) _ rfl
  | setClaim cl => rw [step_ok_api rfl hr]; exact soilOther "c" cl.name (by decide) _ rfl
  | delClaim k => rw [step_ok_api rfl hr]; exact soilOther "c" k (by decide) _ rfl
  | setPod p =>
    rw [step_ok_api rfl hr]
    apply podInv_api _ hp
    intro k hx
    simp only [Ghost.step] at hx
    rw [mem_soil] at hx
    refine ⟨fun a => hx (Or.inr a), ?_⟩
    simp only [Api.step]
    have : k ≠ p.name := fun e => hx (Or.inl (by rw [e]))
    rw [Map.get_put, if_neg this]
  | delPod k0 =>
    rw [step_ok_api rfl hr]
    apply podInv_api _ hp
    intro k hx
    simp only [Ghost.step] at hx
    rw [mem_soil] at hx
    refine ⟨fun a => hx (Or.inr a), ?_⟩
    simp only [Api.step]
    have : k ≠ k0 := fun e => hx (Or.inl (by rw [e]))
    rw [Map.get_erase, if_neg this]
  | recNode name =>
    rw [dirty_recNode]
    apply podInv_dirty_congr (fun k => mem_p_clean g "n" name k (by decide))
    have hapi : api.step (.recNode name) = api := rfl
    rw [hapi] at hr ⊢
    simp only [Cluster.step] at hr
    split at hr
    · exact podInv_objOp hp hN' (objOp_cleanupNode fx hf c c' name (withResult_ok hr))
    · rename_i n _
      have hr' := withResult_ok hr
      unfold Cluster.updateNode at hr'
      dsimp only at hr'
      split at hr'
      · simp only [Except.ok.injEq] at hr'; rw [← hr']; exact hp
      · split at hr'
        · simp only [Except.ok.injEq] at hr'; rw [← hr']; exact hp
        · exact podInv_newStateFromNode fx hf hp h0 hpa _ hr' hN'
  | recClaim name =>
    rw [dirty_recClaim]
    apply podInv_dirty_congr (fun k => mem_p_clean g "c" name k (by decide))
    have hapi : api.step (.recClaim name) = api := rfl
    rw [hapi] at hr ⊢
    simp only [Cluster.step] at hr
    split at hr
    · exact podInv_objOp hp hN' (objOp_cleanupNodeClaim c c' name (withResult_ok hr))
    · split at hr
      · simp only [Except.ok.injEq, Prod.mk.injEq] at hr; rw [← hr.1]; exact hp
      · exact podInv_objOp hp hN' (objOp_updateNodeClaim fx hf c c' _ (withResult_ok hr))
  | recPod name =>
    have hapi : api.step (.recPod name) = api := rfl
    rw [hapi] at hr ⊢
    exact podInv_recPod fx hf hp h0 hpa name c' r hr
  | mark pid =>
    have hapi : api.step (.mark pid) = api := rfl
    rw [hapi] at hr ⊢
    simp only [Cluster.step, Except.ok.injEq, Prod.mk.injEq] at hr
    rw [← hr.1]
    have hd : (g.step api (.mark pid)).dirty = g.dirty := by simp only [Ghost.step]; split <;> rfl
    rw [hd]
    rw [← hr.1] at hN'
    exact podInv_objOp hp hN' (objOp_marks c pid).1
  | unmark pid =>
    have hapi : api.step (.unmark pid) = api := rfl
    rw [hapi] at hr ⊢
    simp only [Cluster.step, Except.ok.injEq, Prod.mk.injEq] at hr
    rw [← hr.1]
    rw [← hr.1] at hN'
    exact podInv_objOp hp hN' (objOp_marks c pid).2.1
  | nominate pid =>
    have hapi : api.step (.nominate pid) = api := rfl
    rw [hapi] at hr ⊢
    simp only [Cluster.step, Except.ok.injEq, Prod.mk.injEq] at hr
    rw [← hr.1]
    have hd : (g.step api (.nominate pid)).dirty = g.dirty := by simp only [Ghost.step]; split <;> rfl
    rw [hd]
    rw [← hr.1] at hN'
    exact podInv_objOp hp hN' (objOp_marks c pid).2.2

/-- **objects and pods along any well-formed history** (with the repairs the pod layer needs) -/
theorem run_all (fx : Fixes) (hf : PodFix fx) (w : Owners) (dsOf : String → Bool) (es : List Event) :
    ∀ (c : Cluster) (o : OC) (api : Api) (g : Ghost), (proj c).Eqv o → OInv w o api g → ApiOK w api →
      PodInv dsOf c api g.dirty → PodsOK dsOf api →
      (∀ e ∈ es, w.okEvent e ∧ podEventOK dsOf e) → wRun g api es = true →
      ∃ c' o', run fx c api es = .ok (c', apiRun api es) ∧ (proj c').Eqv o' ∧ OInv w o' (apiRun api es) (ghostRun g api es) ∧
        ApiOK w (apiRun api es) ∧ PodInv dsOf c' (apiRun api es) (ghostRun g api es).dirty ∧ PodsOK dsOf (apiRun api es) := by
  induction es with
  | nil =>
    intro c o api g he hi ha hp hpa _ _
    exact ⟨c, o, rfl, he, hi, ha, hp, hpa⟩
  | cons e es ih =>
    intro c o api g he hi ha hp hpa hok hw
    simp only [wRun, Bool.and_eq_true] at hw
    have hoke := hok e List.mem_cons_self
    obtain ⟨o1, ho1, hi1⟩ := oinv_step hi ha e hoke.1 hw.1
    have hsim := sim_step fx c o he (api.step e) e
    rw [ho1] at hsim
    cases hc : c.step fx (api.step e) e with
    | error err => rw [hc] at hsim; simp at hsim
    | ok cr =>
      obtain ⟨c1, r⟩ := cr
      rw [hc] at hsim
      have he1 : (proj c1).Eqv o1 := hsim
      have hp1 := podInv_step fx hf w dsOf he hi hp hpa e hoke.2 r hc he1 hi1
      obtain ⟨c', o', hr, he', hi', ha', hp', hpa'⟩ := ih c1 o1 (api.step e) _ he1 hi1 (apiOK_step ha e hoke.1) hp1
        (podsOK_step hpa e hoke.2) (fun e' hm => hok e' (List.mem_cons_of_mem _ hm)) hw.2
      refine ⟨c', o', ?_, he', hi', ha', hp', hpa'⟩
      simp only [run, hc]
      exact hr

end Karp.ClusterState

namespace Karp.ClusterState
open Cluster Karp.Spec.ClusterAbs

/-! ### quiescence -/

/-- once every changed object has been reconciled, the table of a state node is exactly the API's pods of its Node -/
theorem quiescent_table {dsOf : String → Bool} {b : Map String} {api : Api} {s : SNode} {R : Map PodObj}
    (h : Good dsOf b api [] s R) :
    match s.node with
    | some v => ∀ k, Map.get R k = (Map.get api.pods k).filter (onNode v.name)
    | none => R = [] := by
  cases hv : s.node with
  | none => exact h.t1 hv
  | some v =>
    intro k
    cases hg : Map.get R k with
    | some p =>
      symm
      rw [option_filter_some]
      obtain ⟨ht, v', hv', hn, _⟩ := h.t2 k p hg
      rw [hv] at hv'
      rw [← Option.some.inj hv'] at hn
      refine ⟨h.t3 k p hg (by simp), ?_⟩
      unfold onNode
      simp [hn, ht]
    | none =>
      symm
      cases hf : (Map.get api.pods k).filter (onNode v.name) with
      | none => rfl
      | some p =>
        rw [option_filter_some] at hf
        have hon := hf.2
        unfold onNode at hon
        simp only [Bool.and_eq_true, decide_eq_true_eq, Bool.not_eq_eq_eq_not, Bool.not_true] at hon
        have := h.t4 k p v hv hf.1 (by simp) hon.2 hon.1
        rw [hg] at this
        simp at this

theorem sumRes_eq_sumOver (l : List PodObj) (f : PodObj → Res) : AbsNode.sumRes (l.map f) = sumOver l f := by
  induction l with
  | nil => rfl
  | cons a l ih => simp only [List.map_cons, AbsNode.sumRes, List.foldr_cons, sumOver_cons]; rw [← ih]; rfl

theorem sumOver_filter (l : List PodObj) (q : PodObj → Bool) (f : PodObj → Res) :
    sumOver (l.filter q) f = sumOver l (fun p => if q p then f p else Res.zero) := by
  induction l with
  | nil => rfl
  | cons a l ih =>
    by_cases hq : q a = true
    · rw [List.filter_cons_of_pos hq, sumOver_cons, sumOver_cons, ih, if_pos hq]
    · rw [List.filter_cons_of_neg hq, sumOver_cons, ih, if_neg hq, Res.zero_add]

theorem sumOver_vals (m : Map PodObj) (f : PodObj → Res) : sumOver (Map.vals m) f = sumOver m (fun e => f e.2) := by
  induction m with
  | nil => rfl
  | cons e m ih =>
    show sumOver (e.2 :: Map.vals m) f = _
    rw [sumOver_cons, sumOver_cons, ih]

/-- a sum over the table equals the sum over the API's pods of the node -/
theorem sum_table_eq (api : Api) (R : Map PodObj) (nodeName : String) (hR : Map.NoDup R) (hnd : Map.NoDup api.pods)
    (hget : ∀ k, Map.get R k = (Map.get api.pods k).filter (onNode nodeName)) (f : PodObj → Res) :
    sumOver R (fun e => f e.2) = sumOver (api.pods.vals.filter (onNode nodeName)) f := by
  rw [sumOver_filter, sumOver_vals]
  have hsub : ∀ k, k ∈ Map.keys R → k ∈ Map.keys api.pods := by
    intro k hk
    rw [Map.mem_keys_iff] at hk ⊢
    rw [hget k] at hk
    cases hg : Map.get api.pods k with
    | none => rw [hg] at hk; simp [Option.filter] at hk
    | some p => rfl
  rw [sumOver_map_keys R (Map.keys api.pods) f hR hnd hsub,
    sumOver_map_keys api.pods (Map.keys api.pods) (fun p => if onNode nodeName p then f p else Res.zero) hnd hnd (fun _ hk => hk)]
  apply sumOver_congr
  intro k _
  rw [hget k]
  cases hg : Map.get api.pods k with
  | none => rfl
  | some p =>
    by_cases hq : onNode nodeName p = true
    · simp [Option.filter, hq]
    · have : onNode nodeName p = false := by cases hx : onNode nodeName p <;> simp_all
      simp [Option.filter, this]

theorem get_map_named (l : List PodObj) (f : PodObj → List HostPort) (k : String) :
    Map.get (l.map (fun p => (p.name, f p))) k = (l.find? (fun p => p.name = k)).map f := by
  induction l with
  | nil => rfl
  | cons a l ih =>
    rw [List.map_cons, Map.get_cons]
    by_cases ha : a.name = k
    · rw [if_pos ha, List.find?_cons_of_pos (by simpa using ha)]; rfl
    · rw [if_neg ha, List.find?_cons_of_neg (by simpa using ha), ih]

end Karp.ClusterState

namespace Karp.ClusterState
open Cluster Karp.Spec.ClusterAbs

theorem absNodeAt_pods {api : Api} {g : Ghost} {pid : String} {a : AbsNode} (h : absNodeAt api g pid = some a) :
    a.pods = match a.node? with | some n => api.pods.vals.filter (onNode n.name) | none => [] := by
  unfold absNodeAt at h
  dsimp only at h
  cases hn : (api.nodes.vals.find? (fun n => nodeKey n = some pid)).map nodeStored with
  | none =>
    rw [hn] at h
    cases hc : api.claims.vals.find? (fun c => claimKey c = some pid) with
    | none => rw [hc] at h; simp at h
    | some cl => rw [hc] at h; simp only [Option.some.injEq] at h; rw [← h]; rfl
  | some n =>
    rw [hn] at h
    cases hc : api.claims.vals.find? (fun c => claimKey c = some pid) with
    | none => rw [hc] at h; simp only [Option.some.injEq] at h; rw [← h]; rfl
    | some cl => rw [hc] at h; simp only [Option.some.injEq] at h; rw [← h]; rfl

theorem map_empty_of_get_none {α : Type} (m : Map α) (h : ∀ k, Map.get m k = none) : m = [] := by
  cases m with
  | nil => rfl
  | cons e m =>
    obtain ⟨k, v⟩ := e
    have := h k
    rw [Map.get_cons, if_pos rfl] at this
    simp at this

theorem foldr_filter_int (l : List PodObj) (q : PodObj → Bool) (f : PodObj → Int) :
    ((l.filter q).map f).foldr (· + ·) 0 = (l.map (fun p => if q p then f p else 0)).foldr (· + ·) 0 := by
  induction l with
  | nil => rfl
  | cons a l ih =>
    by_cases hq : q a = true
    · rw [List.filter_cons_of_pos hq]; simp only [List.map_cons, List.foldr_cons, ih, hq, if_true]
    · rw [List.filter_cons_of_neg hq]; simp only [List.map_cons, List.foldr_cons, ih, hq]; simp

/-- **the per-pod aggregates of a state node at quiescence are the from-scratch values** -/
theorem quiescent_pods {dsOf : String → Bool} {b : Map String} {api : Api} {s : SNode} {R : Map PodObj} {a : AbsNode}
    (hG : Good dsOf b api [] s R) (hapi : PodsOK dsOf api) (ho : s.objs = absObjs a)
    (hp : a.pods = match a.node? with | some n => api.pods.vals.filter (onNode n.name) | none => []) :
    sumOver s.podReq (fun e => e.2) = a.requests ∧ sumOver s.podLim (fun e => e.2) = a.limits ∧
    sumOver s.dsReq (fun e => e.2) = a.dsRequests ∧ sumOver s.dsLim (fun e => e.2) = a.dsLimits ∧
    costUnit + (s.costs.map (·.2)).foldr (· + ·) 0 = a.cost ∧
    (∀ k, Map.get s.ports k = Map.get a.ports k) ∧ s.limits = a.volLimits ∧ (∀ x, x ∈ a.volumes → x ∈ s.volumes) := by
  have hnode : s.node = a.node? := congrArg Objs.node ho
  have hnamed : ∀ k p, Map.get api.pods k = some p → p.name = k := fun k p hg => (hapi.named k p hg).1
  have hsums := agg_sums s R hG.agg hG.tab.nd
  have htab := quiescent_table hG
  unfold AbsNode.requests AbsNode.limits AbsNode.dsRequests AbsNode.dsLimits AbsNode.cost AbsNode.ports AbsNode.volLimits AbsNode.volumes
  cases hv : s.node with
  | none =>
    rw [hv] at htab
    rw [hnode] at hv
    rw [hv] at hp ⊢
    rw [hp]
    have e1 : s.podReq = [] := map_empty_of_get_none _ (fun k => by rw [hG.agg.req k, htab]; rfl)
    have e2 : s.podLim = [] := map_empty_of_get_none _ (fun k => by rw [hG.agg.lim k, htab]; rfl)
    have e3 : s.dsReq = [] := map_empty_of_get_none _ (fun k => by rw [hG.agg.dreq k, htab]; rfl)
    have e4 : s.dsLim = [] := map_empty_of_get_none _ (fun k => by rw [hG.agg.dlim k, htab]; rfl)
    have e5 : s.costs = [] := map_empty_of_get_none _ (fun k => by rw [hG.agg.cost k, htab]; rfl)
    have e6 : s.ports = [] := map_empty_of_get_none _ (fun k => by rw [hG.agg.ports k, htab]; rfl)
    rw [e1, e2, e3, e4, e5, e6]
    refine ⟨rfl, rfl, rfl, rfl, rfl, fun _ => rfl, ?_, ?_⟩
    · rw [hG.lim, hnode, hv]
    · intro x hx; simp at hx
  | some v =>
    rw [hv] at htab
    have hva : a.node? = some v := by rw [← hnode]; exact hv
    rw [hva] at hp ⊢
    dsimp only at hp htab ⊢
    rw [hp]
    have tbl := sum_table_eq api R v.name hG.tab.nd hapi.nd htab
    refine ⟨?_, ?_, ?_, ?_, ?_, ?_, ?_, ?_⟩
    · rw [hsums.1, sumRes_eq_sumOver]; exact tbl (·.req)
    · rw [hsums.2.1, sumRes_eq_sumOver]; exact tbl (·.lim)
    · rw [hsums.2.2.1, sumRes_eq_sumOver, sumOver_filter]; exact tbl (fun p => if p.ds then p.req else Res.zero)
    · rw [hsums.2.2.2.1, sumRes_eq_sumOver, sumOver_filter]; exact tbl (fun p => if p.ds then p.lim else Res.zero)
    · rw [hsums.2.2.2.2, foldr_filter_int]
      have := tbl (fun p => ({ cpu := if !p.ds && decide (p.cost > 0) then p.cost else 0 } : Res))
      have h2 := congrArg Res.cpu this
      rw [sumOver_cpu, sumOver_cpu] at h2
      have e1 : (R.map fun (a : String × PodObj) => (({ cpu := if !a.2.ds && decide (a.2.cost > 0) then a.2.cost else 0 } : Res)).cpu) =
          R.map (fun e => if !e.2.ds && decide (e.2.cost > 0) then e.2.cost else 0) := rfl
      rw [e1] at h2
      rw [h2]
    · intro k
      rw [hG.agg.ports k, htab k, get_map_named, find_named hapi.nd hnamed]
    · rw [hG.lim, hv]; rfl
    · intro x hx
      rw [(volUnionAll_aux _ [] List.nodup_nil).2 x] at hx
      rcases hx with hx | ⟨l, hl, hxl⟩
      · simp at hx
      · rw [List.mem_map] at hl
        obtain ⟨p, hpm, hpl⟩ := hl
        rw [List.mem_filter] at hpm
        obtain ⟨k, hk⟩ := mem_vals_get hapi.nd hpm.1
        have hR : Map.get R k = some p := by rw [htab k, option_filter_some]; exact ⟨hk, hpm.2⟩
        exact hG.agg.volSup x k p hR (by rw [hpl]; exact hxl)

end Karp.ClusterState
