/-
Helper lemmas for C19 that relate the model's orderings to the executable specification predicates.
-/
import Karp.Proofs.WeightPriceLemmas
import Karp.Proofs.FirstSuccessLemmas
import Karp.Spec.WeightPrice

namespace Karp.C19
open List Karp.WeightOrder Karp.FirstSuccess Karp.Spec.WeightPrice

theorem adjacentOk_of_sorted : ∀ (l : List Pool), Sorted before l → adjacentOk l = true
  | [], _ => rfl
  | [_], _ => rfl
  | a :: b :: rest, h => by
    unfold Sorted at h
    rw [pairwise_cons] at h
    have hab := h.1 b mem_cons_self
    simp only [adjacentOk, Bool.and_eq_true]
    refine ⟨?_, adjacentOk_of_sorted (b :: rest) h.2⟩
    unfold before at hab
    unfold mayPrecede
    by_cases hw : b.weight = a.weight
    · simp only [hw, if_true] at hab
      simp [hw, hab]
    · simp only [hw, if_false, decide_eq_false_iff_not] at hab
      have : b.weight < a.weight := by omega
      simp [this]

theorem qualifies_iff (outs : List Outcome) (i : Nat) :
    qualifies outs i = true ↔ outs.getD i .fail = .ok ∧ ∀ j, j < i → outs.getD j .fail = .fail := by
  simp only [qualifies, Bool.and_eq_true, beq_iff_eq, all_eq_true]
  constructor
  · rintro ⟨h1, h2⟩
    refine ⟨h1, fun j hj => ?_⟩
    by_cases hlen : j < outs.length
    · have hmem : outs[j] ∈ outs.take i := by
        rw [mem_take_iff_getElem]
        exact ⟨j, by omega, rfl⟩
      have := h2 _ hmem
      simp [getD, getElem?_eq_getElem hlen, this]
    · simp [getD, getElem?_eq_none (by omega : outs.length ≤ j)]
  · rintro ⟨h1, h2⟩
    refine ⟨h1, fun x hx => ?_⟩
    rw [mem_take_iff_getElem] at hx
    obtain ⟨j, hj, rfl⟩ := hx
    have := h2 j (by omega)
    have hlen : j < outs.length := by omega
    simpa [getD, getElem?_eq_getElem hlen] using this

end Karp.C19
