/-
Bridge between the consolidation model and the executable specification (C06): the specification's "the request
permits this launch", node price and combined price are the model's offering compatibility, candidate price and
price sum on the scenario read as model input (`Karp/Model/ConsolidateScn.lean`).  Core Lean only.
-/
import Karp.Proofs.Consolidate
import Karp.Model.ConsolidateScn
import Karp.Spec.Consolidation

namespace Karp.Consolidate
open Karp.Req Karp.Scn
open Karp.Spec.Consolidation (permits launches combinedPrice nodePrice strictlyCheaper firstV)

/-- the specification's "the request permits this launch" is the model's offering compatibility -/
theorem permits_eq (ridKey : String) (R : Reqs) (o : Scn.Offering) :
    permits ridKey R o = offeringCompat ridKey R (offeringOf o) := by
  unfold permits offeringCompat
  rw [admitsIn_get, admitsIn_get]
  have h1 : Karp.Spec.Consolidation.zoneKey = zoneKey := rfl
  have h2 : Karp.Spec.Consolidation.ctKey = ctKey := by decide
  have h3 : reserved = "reserved" := by decide
  simp only [offeringOf, h1, h2, h3]
  by_cases hr : (o.ct == "reserved") = true
  · simp only [hr, if_true, admitsIn_get]
  · simp only [hr, admitsAbsent]
    cases R.lookup ridKey <;> rfl

theorem find_map_offering (l : List Scn.Offering) (z ct : String) :
    (l.map offeringOf).find? (fun o => o.zone == z && o.ct == ct) =
      (l.find? (fun o => o.zone == z && o.ct == ct)).map offeringOf := by
  induction l with
  | nil => rfl
  | cons a l ih =>
    simp only [List.map_cons, List.find?_cons]
    have : (offeringOf a).zone = a.zone ∧ (offeringOf a).ct = a.ct := ⟨rfl, rfl⟩
    rw [this.1, this.2]
    cases (a.zone == z && a.ct == ct) with
    | true => rfl
    | false => exact ih

/-- the specification's node price (unknown = 0) is the model's candidate price -/
theorem price_eq (s : Scenario) (n : Scn.Node) : (nodePrice s n).getD 0 = (candOf s n).price := by
  unfold nodePrice Cand.price candOf
  cases h : s.it? n.it with
  | none => simp
  | some it =>
    simp only [Option.bind_some, find_map_offering]
    cases it.offerings.find? (fun o => o.zone == n.zone && o.ct == n.ct) with
    | none => simp
    | some o => simp [offeringOf]

theorem filterMap_nodes (s : Scenario) (nodes : List Scn.Node) (h : ∀ n ∈ nodes, s.node? n.name = some n) :
    (nodes.map (·.name)).filterMap s.node? = nodes := by
  induction nodes with
  | nil => rfl
  | cons a l ih =>
    simp only [List.map_cons, List.filterMap_cons, h a List.mem_cons_self]
    rw [ih (fun n hn => h n (List.mem_cons_of_mem _ hn))]

theorem combinedPrice_eq (s : Scenario) (nodes : List Scn.Node) (h : ∀ n ∈ nodes, s.node? n.name = some n) :
    combinedPrice s (nodes.map (·.name)) = sumPrices (nodes.map (candOf s)) := by
  unfold combinedPrice sumPrices
  rw [filterMap_nodes s nodes h, List.map_map]
  congr 1
  apply List.map_congr_left
  intro n _
  exact price_eq s n

theorem firstV_none (l : List Karp.Spec.Consolidation.Verdict) (h : ∀ v ∈ l, v = none) : firstV l = none := by
  unfold firstV
  rw [List.findSome?_eq_none_iff]
  intro v hv
  simpa using h v hv

theorem get_add1_spot_has (R : Reqs) (v : String) (h : ((R.add1 spotReq).get ctKey).has v = true) :
    (R.get ctKey).has v = true := by
  rw [← admitsIn_get, admitsIn_add1_spot_ct, admitsIn_get] at h
  cases hx : (R.get ctKey).has v <;> simp_all

theorem allSpot_eq (s : Scenario) (nodes : List Scn.Node) (hnodes : ∀ n ∈ nodes, s.node? n.name = some n) :
    Karp.Spec.Consolidation.allSpot s (nodes.map (·.name)) = (nodes.map (candOf s)).all (fun cn => cn.ct == spot) := by
  unfold Karp.Spec.Consolidation.allSpot
  rw [filterMap_nodes s nodes hnodes, List.all_map]
  rfl

theorem launchable_length (s : Scenario) (ridKey : String) (R : Reqs) (l : List IType)
    (hcat : ∀ it ∈ l, ∃ sit, s.it? it.name = some sit ∧ itypeOf sit = it)
    (hl : ∀ it ∈ l, ∃ o ∈ it.offerings, o.available = true ∧ offeringCompat ridKey R o = true) :
    (((l.map (·.name)).filterMap s.it?).filter (fun it => !(Karp.Spec.Consolidation.launches ridKey R it).isEmpty)).length = l.length := by
  induction l with
  | nil => rfl
  | cons a l ih =>
    obtain ⟨sit, hs, he⟩ := hcat a List.mem_cons_self
    obtain ⟨o, ho, hav, hcomp⟩ := hl a List.mem_cons_self
    have hP : (!(Karp.Spec.Consolidation.launches ridKey R sit).isEmpty) = true := by
      rw [← he] at ho
      obtain ⟨o', ho', rfl⟩ := List.mem_map.mp ho
      have : o' ∈ Karp.Spec.Consolidation.launches ridKey R sit := by
        unfold Karp.Spec.Consolidation.launches
        refine List.mem_filter.mpr ⟨ho', ?_⟩
        rw [permits_eq, hcomp]
        have : o'.available = true := hav
        simp [this]
      cases hx : Karp.Spec.Consolidation.launches ridKey R sit with
      | nil => rw [hx] at this; cases this
      | cons _ _ => rfl
    simp only [List.map_cons, List.filterMap_cons, hs, List.filter_cons, hP, if_true, List.length_cons]
    rw [ih (fun it hit => hcat it (List.mem_cons_of_mem _ hit)) (fun it hit => hl it (List.mem_cons_of_mem _ hit))]

/-! ### Price tables per NodePool -/

open Karp.Spec.Consolidation (poolView combinedPriceT Tables)

/-- a NodePool's view changes the catalog only -/
theorem poolView_node? (t : Tables) (s : Scenario) (p n : String) : (poolView t s p).node? n = s.node? n := by
  unfold poolView
  cases t.lookup p <;> rfl

/-- without tables every NodePool is charged the scenario's catalog -/
theorem poolView_nil (s : Scenario) (p : String) : poolView [] s p = s := rfl

/-- the specification's combined price, each node at its own NodePool's price, is the model's price sum over candidates
    that carry their own NodePool's offerings -/
theorem combinedPriceT_eq (t : Tables) (s : Scenario) (nodes : List Scn.Node) (h : ∀ n ∈ nodes, s.node? n.name = some n) :
    combinedPriceT t s (nodes.map (·.name)) = sumPrices (nodes.map (fun n => candOf (poolView t s n.pool) n)) := by
  unfold combinedPriceT sumPrices
  rw [filterMap_nodes s nodes h, List.map_map]
  congr 1
  apply List.map_congr_left
  intro n _
  exact price_eq (poolView t s n.pool) n

end Karp.Consolidate
