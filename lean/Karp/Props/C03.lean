/-
C03 — NodePool limits and static node caps are never exceeded.

Property theorems only (helper lemmas: `Karp/Proofs/PoolStateLemmas.lean`, `Karp/Proofs/LimitsLemmas.lean`).

Part 1 (static pools).  Model `Karp/Model/PoolState.lean` (`state.NodePoolState`, every exported method one
atomic step because each holds the mutex for its whole body, so the interleavings of concurrent reconciles
are exactly the sequences of steps); specification `Karp/Spec/PoolLedger.lean` (a ledger of existing
NodeClaims and outstanding grants).

Part 2 (limits).  Model `Karp/Model/Limits.lean` (`remainingResources`, `filterByRemainingResources`,
`subtractMax`, the early node-limit check, `Limits.ExceededBy`, the pool as a transition system over passes,
launches and removals); specification `Karp/Spec/LimitsSpec.lean` (sum of node usages against the limits).

Part 3 (a static pool next to the pod-driven provisioner; end of the file).  Model `Karp/Model/StaticPool.lean`
(`nodepoolutils.IsStatic`, the NodePools `Provisioner.NewScheduler` offers to the solver, the routing of events to the
static controllers); specification `Karp/Spec/StaticSpec.lean` (`replicaBased`, `checkPodPass`, `checkRoute`).
-/
import Karp.Proofs.PoolStateLemmas
import Karp.Proofs.LimitsLemmas
import Karp.Proofs.StaticPoolLemmas
import Karp.Spec.StaticSpec
import Karp.Gen.C03Pool
import Karp.Gen.C03Limits

namespace Karp.C03
open Karp.PoolState Karp.Spec.PoolLedger

/-! ## Fact expectations over the regenerated facts -/

/-- the pool entry must never be garbage-collected while Active or Deleting NodeClaims exist -/
theorem fact_gc_requires_active_and_deleting_empty :
    0 ∈ Karp.Gen.C03Pool.gcEmptySets ∧ 1 ∈ Karp.Gen.C03Pool.gcEmptySets := by decide

/-- the source is in one of two known states: as found at the pinned commit — which *is* the recorded defect
    (PendingDisruption and the reserved counter are not looked at; `ReleaseNodeCount` dereferences without a presence
    check) — or with `fixes/C03-poolstate-gc.patch` applied.  The model (`Variant.asIs`) follows these values; in the
    first state the witnesses `C03_static_*_witness` show the violation, in the second `C03_static_safe_when_repaired`
    gives the full-strength statement for the code as it is. -/
def poolGCAsFound : Bool :=
  Karp.Gen.C03Pool.gcEmptySets == [0, 1] && !Karp.Gen.C03Pool.gcChecksReserved && !Karp.Gen.C03Pool.releaseGuardsMissingEntry
def poolGCRepaired : Bool :=
  Karp.Gen.C03Pool.gcEmptySets == [0, 1, 2] && Karp.Gen.C03Pool.gcChecksReserved && Karp.Gen.C03Pool.releaseGuardsMissingEntry

theorem fact_pool_gc_known_state : (poolGCAsFound || poolGCRepaired) = true := by decide

/-- static provisioning: wait for the cluster sync, read the counts, reserve, then create -/
theorem fact_static_provision_calls :
    Karp.Gen.C03Pool.staticProvisionCalls = ["Synced", "GetNodeCount", "ReserveNodeCount", "CreateNodeClaims"] := by decide

/-- static deprovisioning: read the counts, pick candidates, delete, mark Deleting -/
theorem fact_static_deprovision_calls :
    Karp.Gen.C03Pool.staticDeprovisionCalls =
      ["GetNodeCount", "getDeprovisioningCandidates", "kubeClient.Delete", "MarkNodeClaimDeleting"] := by decide

/-- every slot handed to `CreateNodeClaims` is given back, after the create attempt -/
theorem fact_create_then_release :
    Karp.Gen.C03Pool.createNodeClaimsCalls = ["p.Create", "ReleaseNodeCount"] := by decide

/-- static drift reserves after reading the counts; `StartCommand` reaches the release (inside
    `createReplacementNodeClaims` → `CreateNodeClaims`) only after two earlier exits (`HasAny`, `markDisrupted`) -/
theorem fact_static_drift_calls :
    Karp.Gen.C03Pool.staticDriftCalls = ["GetNodeCount", "ReserveNodeCount"] ∧
    Karp.Gen.C03Pool.startCommandCalls = ["HasAny", "markDisrupted", "createReplacementNodeClaims", "MarkForDeletion"] := by decide

/-- static drift never asks `ReserveNodeCount` for more slots than the NodePool being processed has drifted candidates
    (`1`: the candidates of that pool, not those of all pools of the pass — the commands are then cut out of
    `npCandidates[:granted]`), nor for more than that pool's disruption budget (`0`) -/
theorem fact_static_drift_cap :
    1 ∈ Karp.Gen.C03Pool.staticDriftCapArgs ∧ 0 ∈ Karp.Gen.C03Pool.staticDriftCapArgs := by decide

/-- the cluster state forwards NodeClaim updates and deletions to the pool state -/
theorem fact_cluster_forwards :
    Karp.Gen.C03Pool.clusterUpdateNodeClaimCalls = ["newStateFromNodeClaim", "NodePoolState.UpdateNodeClaim"] ∧
    Karp.Gen.C03Pool.clusterCleanupCalls.getLast? = some "NodePoolState.Cleanup" := by decide

/-- the `nodes` resource of `spec.limits` -/
theorem fact_node_resource_name : Karp.Gen.C03Limits.nodeResourceName = "nodes" := by decide

/-- the provisioner schedules only when the cluster state is synced, and creates afterwards -/
theorem fact_reconcile_gate :
    Karp.Gen.C03Limits.reconcileCalls = ["cluster.Synced", "p.Schedule", "p.CreateNodeClaims"] := by decide

/-- `Create`: limits check, then the API create, then the state update -/
theorem fact_create_guard :
    Karp.Gen.C03Limits.createCalls = ["ExceededBy", "kubeClient.Create", "cluster.UpdateNodeClaim"] := by decide

/-- opening a NodeClaim: node-limit check, filter by the remaining resources, `CanAdd`, `Add`, then `subtractMax` -/
theorem fact_open_new_calls :
    Karp.Gen.C03Limits.openNewCalls = ["IsZero", "filterByRemainingResources", "CanAdd", "newNodeClaim.Add", "subtractMax"] := by decide

/-- every existing node is subtracted (`resources.Subtract` of `node.Capacity()`); `subtractMax` subtracts the
    *maximum* over the options -/
theorem fact_remaining_bookkeeping :
    Karp.Gen.C03Limits.existingCalls = ["updateRemainingResources"] ∧
    Karp.Gen.C03Limits.updateRemainingCalls = ["resources.Subtract", "node.Capacity"] ∧
    Karp.Gen.C03Limits.subtractMaxCalls = ["resources.MaxResources", "cp.Sub"] := by decide

/-! ## Part 1 — static pools: all interleavings

Full-strength statement (what the property asks of the code as it is):

    theorem C03_static_safe (ops) : ∀ s L, Refines s L → wfTrace L ops (observations .asIs s ops) →
        accepts L ops (observations .asIs s ops)

i.e. for every interleaving of protocol events, no call panics, `GetNodeCount` reports the NodeClaims that
exist, and every grant keeps `claims + outstanding ≤ limit` and is maximal.  The code violates it
(`C03_static_*_witness` below, replayed on the real code by `corpus/c03.poolgc/*`).  It is proved for the
repaired variant (`C03_static_safe_repaired`) and for the code as it is under exactly the excluded guard
(`C03_static_safe_partial`). -/

/-- **C03_static_safe_repaired** — all histories of protocol events (hence all interleavings of concurrent
    reconciles), any length: with the garbage collection repaired, every answer is acceptable to the ledger
    specification, and the state keeps refining the ledger. -/
theorem C03_static_safe_repaired (ops : List Op) :
    ∀ (s : State) (L : Ledger), Refines s L → wfTrace L ops (observations .repaired s ops) = true →
      accepts L ops (observations .repaired s ops) = true ∧
      Refines (run .repaired s ops) (advanceAll L ops (observations .repaired s ops)) := by
  induction ops with
  | nil => intro s L h _; exact ⟨rfl, h⟩
  | cons op ops ih =>
    intro s L h hwf
    simp only [observations, wfTrace, Bool.and_eq_true] at hwf
    obtain ⟨hok, href⟩ := step_repaired h op hwf.1
    obtain ⟨h1, h2⟩ := ih _ _ href hwf.2
    exact ⟨by simp only [observations, accepts, hok, h1, Bool.and_self], h2⟩

/-- **C03_static_safe_partial** — the code as it is, under the hypothesis that no step of the history
    garbage-collects a pool entry that still holds PendingDisruption NodeClaims or an outstanding reservation
    and no `ReleaseNodeCount` meets a missing counter (`safeTrace`). -/
theorem C03_static_safe_partial (ops : List Op) (s : State) (L : Ledger) (h : Refines s L)
    (hsafe : safeTrace s ops = true) (hwf : wfTrace L ops (observations .asIs s ops) = true) :
    accepts L ops (observations .asIs s ops) = true := by
  rw [observations_agree ops s hsafe] at hwf ⊢
  exact (C03_static_safe_repaired ops s L h hwf).1

/-- **C03_static_safe_when_repaired** — once the source is in the repaired state (regenerated facts), the
    full-strength statement holds for the code as it is: no hypothesis on the history other than that its events
    are protocol events.  (At the pinned commit the hypothesis is false and the witnesses below apply.) -/
theorem C03_static_safe_when_repaired (hfix : poolGCRepaired = true)
    (ops : List Op) (s : State) (L : Ledger) (h : Refines s L)
    (hwf : wfTrace L ops (observations .asIs s ops) = true) :
    accepts L ops (observations .asIs s ops) = true := by
  simp only [poolGCRepaired, Bool.and_eq_true, beq_iff_eq] at hfix
  obtain ⟨⟨h1, h2⟩, h3⟩ := hfix
  have hl : ∀ s op, lossy s op = false := by
    intro s op
    cases op <;> simp only [lossy]
    · cases s.pools (s.mapping _) with
      | none => rfl
      | some e => simp only [gcCond, h1, h2]; simp
    · simp [h3]
  have hs : ∀ ops s, safeTrace s ops = true := by
    intro ops
    induction ops with
    | nil => intro _; rfl
    | cons op ops ih => intro s; simp [safeTrace, hl, ih]
  exact C03_static_safe_partial ops s L h (hs ops s) hwf

/-- **C03_static_never_exceeds** — one `ReserveNodeCount` in any state that refines the ledger: a positive grant
    keeps NodeClaims + outstanding grants within the node limit, and nothing is granted beyond what was asked. -/
theorem C03_static_never_exceeds (s : State) (L : Ledger) (h : Refines s L) (np : Name) (limit wanted : Int)
    (hw : 1 ≤ wanted) :
    let g := (reserve s np limit wanted).2
    0 ≤ g ∧ g ≤ wanted ∧ (0 < g → (L.count np : Int) + L.outstanding np + g ≤ limit) := by
  simp only [reserve_spec h, expectedGrant]
  split
  · omega
  · split <;> omega

/-- the three ways the code as it is violates the full statement (protocol-conformant histories) -/
def releaseAfterGC : List Op := [.reserve 1 5 1, .update 1 1 false, .cleanup 1, .release 1 1]
def pendingDropped : List Op := [.update 1 1 false, .update 1 2 false, .markPending 1 1, .cleanup 2, .count 1]
def reservationLost : List Op := [.update 1 1 false, .reserve 1 2 1, .cleanup 1, .reserve 1 2 2]

/-- `ReleaseNodeCount` after the entry was garbage-collected: nil dereference -/
theorem C03_static_release_panics_witness : poolGCAsFound = true →
    wfTrace Ledger.init releaseAfterGC (observations .asIs State.init releaseAfterGC) = true ∧
    observations .asIs State.init releaseAfterGC = [.grant 1, .unit, .unit, .panic] ∧
    accepts Ledger.init releaseAfterGC (observations .repaired State.init releaseAfterGC) = true := by decide

/-- the PendingDisruption NodeClaim vanishes from the counts when the last other claim is cleaned up -/
theorem C03_static_pending_dropped_witness : poolGCAsFound = true →
    wfTrace Ledger.init pendingDropped (observations .asIs State.init pendingDropped) = true ∧
    (observations .asIs State.init pendingDropped).getLast? = some (.counts 0 0 0) ∧
    (observations .repaired State.init pendingDropped).getLast? = some (.counts 0 0 1) ∧
    accepts Ledger.init pendingDropped (observations .asIs State.init pendingDropped) = false := by decide

/-- an outstanding reservation is forgotten: 1 slot outstanding + 2 newly granted against a node limit of 2 -/
theorem C03_static_reservation_lost_witness : poolGCAsFound = true →
    wfTrace Ledger.init reservationLost (observations .asIs State.init reservationLost) = true ∧
    observations .asIs State.init reservationLost = [.unit, .grant 1, .unit, .grant 2] ∧
    observations .repaired State.init reservationLost = [.unit, .grant 1, .unit, .grant 1] ∧
    accepts Ledger.init reservationLost (observations .asIs State.init reservationLost) = false := by decide

/-! ### The static controllers' decisions: never above the limit, settling at the replica count -/

/-- what one static-provisioning reconcile is granted, as a function of the counts it read -/
def provisionGrant (running deleting pending : Nat) (reserved replicas limit : Int) : Int :=
  match provisionWanted running pending replicas with
  | none => 0
  | some w =>
    let room := limit - ((running + deleting + pending : Nat) : Int) - reserved
    if room < 0 then 0 else if w > room then room else w

/-- the model's `ReserveNodeCount` computes exactly that -/
theorem provisionGrant_is_reserve (s : State) (np : Name) (replicas limit : Int) :
    provisionGrant (counts s np).1 (counts s np).2.1 (counts s np).2.2 (reservedOf s np) replicas limit =
      match provisionWanted (counts s np).1 (counts s np).2.2 replicas with
      | none => 0
      | some w => (reserve s np limit w).2 := by
  unfold provisionGrant
  cases provisionWanted (counts s np).1 (counts s np).2.2 replicas with
  | none => rfl
  | some w =>
    simp only [reserve, counts_total, entryOf_ensure, reservedOf_ensure]
    rw [← counts_total]
    split <;> rfl

/-- **C03_static_provision_bound** — a provisioning reconcile never takes claims + reservations above the node
    limit (if they were not above it already), and never above the replica count. -/
theorem C03_static_provision_bound (a d p : Nat) (r replicas limit : Int) :
    let g := provisionGrant a d p r replicas limit
    0 ≤ g ∧ (0 < g → (a + d + p : Nat) + r + g ≤ limit) ∧ (0 < g → (a : Int) + g ≤ replicas) := by
  simp only [provisionGrant, provisionWanted]
  split
  · rename_i h; split at h <;> simp_all
  · rename_i w h
    split at h
    · cases h
    · simp only [Option.some.injEq] at h
      subst h
      split
      · omega
      · split <;> omega

/-- **C03_static_settles_up** — quiescent pool (nothing deleting, pending or reserved) below its replica count
    and with room under the limit: one provisioning reconcile whose creates succeed brings it to the replica count. -/
theorem C03_static_settles_up (a : Nat) (replicas limit : Int) (hlt : (a : Int) < replicas) (hroom : replicas ≤ limit) :
    (a : Int) + provisionGrant a 0 0 0 replicas limit = replicas := by
  simp only [provisionGrant, provisionWanted]
  have h1 : ¬ ((a : Int) + ((0 : Nat) : Int) ≥ replicas) := by omega
  simp only [h1, if_false]
  split
  · omega
  · split <;> omega

/-- **C03_static_settles_down** — above the replica count the deprovisioning reconcile deletes exactly the excess;
    at the replica count neither controller does anything (fixed point). -/
theorem C03_static_settles_down (a : Nat) (replicas : Int) :
    ((a : Int) > replicas → (a : Int) - deprovisionCount a replicas = replicas) ∧
    ((a : Int) ≤ replicas → deprovisionCount a replicas = 0) ∧
    ((a : Int) = replicas → provisionWanted a 0 replicas = none ∧ deprovisionCount a replicas = 0) := by
  unfold deprovisionCount provisionWanted
  refine ⟨?_, ?_, ?_⟩
  · intro h
    have : ¬ ((a : Int) - replicas ≤ 0) := by omega
    simp only [this, if_false]
    omega
  · intro h
    have : (a : Int) - replicas ≤ 0 := by omega
    simp [this]
  · intro h
    have : (a : Int) - replicas ≤ 0 := by omega
    simp [this]; omega

/-! ### Static drift: the slots a round reserves

Full-strength statement: after a drift round (`StaticDrift.ComputeCommands`, then `Queue.StartCommand` for every command)
the reserved counter is back where it was, whatever happens to the individual commands.  The code as it is gives a slot
back only inside `CreateNodeClaims`; a `StartCommand` that returns earlier (its `markDisrupted` failed) keeps it. -/

open Karp.StaticPool in
/-- **C03_drift_round_gives_slots_back_partial** — a round in which no `StartCommand` returns before
    `createReplacementNodeClaims` (`lost = []`), whatever the budget, the candidates and whichever replacement creates
    fail: nothing panics and every reserved slot is given back. -/
theorem C03_drift_round_gives_slots_back_partial (s : State) (replicas : Int) (limit : Option Int) (budget : Nat)
    (cands createFail : List Nat) (next : Nat) (h0 : 0 ≤ reservedOf s Karp.StaticPool.np) :
    (driftRound s replicas limit budget cands [] createFail next).panicked = false ∧
    reservedOf (driftRound s replicas limit budget cands [] createFail next).st Karp.StaticPool.np
      = reservedOf s Karp.StaticPool.np :=
  driftRound_gives_back fact_static_drift_cap.1 s replicas limit budget cands createFail next h0

open Karp.StaticPool in
/-- **C03_drift_pass_gives_slots_back** — one static-drift pass (`StaticDrift.ComputeCommands` over the candidates of
    ALL NodePools, then `Queue.StartCommand` for every command) over any number of pools with any names, budgets, node
    limits, candidates, failing replacement creates and — where the source gives the slot back on the early return —
    vanishing candidate Nodes, from any state: as long as the pool's OWN candidate count is one of the arguments of the
    cap on its drifts (`hcap`), cutting the commands out of the pool's candidates never goes out of range, no
    `ReleaseNodeCount` meets a missing counter, and after the pass the reserved counter of EVERY pool is back where it
    was: nothing stays blocked under any pool's node limit. -/
theorem C03_drift_pass_gives_slots_back (args : List Nat) (hcap : 1 ∈ args) (pools : List PoolIn) (s : State)
    (hE : ∀ P ∈ pools, P.lost ≠ [] → Karp.Gen.C03Pool.startCommandReleasesEarly = true)
    (h0 : ∀ q, 0 ≤ reservedOf s q) :
    (driftPass args s pools).panicked = false ∧ ∀ q, reservedOf (driftPass args s pools).st q = reservedOf s q :=
  driftPass_gives_back args hcap pools s hE h0

open Karp.StaticPool in
/-- **C03_drift_pass_as_is** — the same for the cap the source has now (regenerated `staticDriftCapArgs`), with no
    condition on the commands once the source releases on the early return of `StartCommand` -/
theorem C03_drift_pass_as_is (hearly : Karp.Gen.C03Pool.startCommandReleasesEarly = true) (pools : List PoolIn)
    (s : State) (h0 : ∀ q, 0 ≤ reservedOf s q) :
    (driftPass Karp.Gen.C03Pool.staticDriftCapArgs s pools).panicked = false ∧
    ∀ q, reservedOf (driftPass Karp.Gen.C03Pool.staticDriftCapArgs s pools).st q = reservedOf s q :=
  driftPass_gives_back _ fact_static_drift_cap.1 pools s (fun _ _ _ => hearly) h0

open Karp.StaticPool in
/-- **C03_drift_pass_takes_at_most_own_candidates** — what `ComputeCommands` takes for one pool of the pass: at most as
    many slots as the pool has drifted candidates, and only under this pool's counter. -/
theorem C03_drift_pass_takes_at_most_own_candidates (args : List Nat) (hcap : 1 ∈ args) (all : Nat) (s : State)
    (P : PoolIn) :
    ∃ g, (computeOne args all s P).2 = some g ∧ g ≤ P.cands.length ∧
      ∀ x, reservedOf (computeOne args all s P).1 x = if x = P.p then reservedOf s P.p + g else reservedOf s x := by
  obtain ⟨g, h1, h2, _, _, h5⟩ := computeOne_spec args hcap all s P
  exact ⟨g, h1, h2, h5⟩

/-- two static pools (1, 2) with one launched, drifted NodeClaim each, replicas 1, `limits.nodes` 3, budget 2 -/
def twoPoolsState : State := update (update State.init 1 101 false) 2 201 false
def twoPools : List Karp.StaticPool.PoolIn :=
  [{ p := 1, replicas := 1, limit := some 3, budget := 2, cands := [101], lost := [], createFail := [], next := 150 },
   { p := 2, replicas := 1, limit := some 3, budget := 2, cands := [201], lost := [], createFail := [], next := 250 }]

open Karp.StaticPool in
/-- why `hcap` is needed: were the cap the number of candidates of ALL pools of the pass (class 2) instead of the pool's
    own, the first pool would be granted 2 slots for 1 candidate: the pass panics (slice bounds) and the 2 slots stay
    reserved under that pool's node limit.  With the pool's own count both nodes are replaced and nothing stays. -/
theorem C03_drift_cap_all_candidates_witness :
    (driftPass [0, 2] twoPoolsState twoPools).panicked = true ∧
    reservedOf (driftPass [0, 2] twoPoolsState twoPools).st 1 = 2 ∧
    (driftPass [0, 1] twoPoolsState twoPools).panicked = false ∧
    (driftPass [0, 1] twoPoolsState twoPools).results.map (·.started) = [1, 1] ∧
    reservedOf (driftPass [0, 1] twoPoolsState twoPools).st 1 = 0 ∧
    reservedOf (driftPass [0, 1] twoPoolsState twoPools).st 2 = 0 := by decide

/-- two launched NodeClaims (2, 3), both drifted, budget 1, limit 3 -/
def driftWitnessState : State := update (update State.init 1 2 false) 1 3 false

open Karp.StaticPool in
/-- the first command returns early: one slot stays reserved (at the pinned commit; with
    `fixes/C03-drift-reservation-leak.patch` the regenerated fact flips and the slot is given back) -/
theorem C03_drift_slot_leak_witness : Karp.Gen.C03Pool.startCommandReleasesEarly = false →
    reservedOf (driftRound driftWitnessState 2 (some 3) 1 [2, 3] [0] [] 4).st Karp.StaticPool.np = 1 ∧
    (driftRound driftWitnessState 2 (some 3) 1 [2, 3] [0] [] 4).failed = 1 := by decide

/-! ## Part 2 — limits within a pass and across passes -/

section Limits
open Karp.Limits
variable {κ : Type} [DecidableEq κ]

/-- **C03_limits_filter_sound** — an instance type that survives `filterByRemainingResources` fits into the
    remaining amount of every limited resource. -/
theorem C03_limits_filter_sound (its : List (IT κ)) (remaining : Res κ) (it : IT κ)
    (h : it ∈ filterByRemaining its remaining) (k : κ) (q : Int) (hq : remaining.lookup k = some q) :
    it.cap.get k ≤ q := by
  unfold filterByRemaining at h
  rw [List.mem_filter] at h
  exact viable_le remaining it h.2 k q hq

/-- **C03_limits_pass** — any number of NodeClaims opened by one pass (any options that pass the guard, narrowed
    arbitrarily by `CanAdd`): for every limited resource `k` whose consumption `subtractMax` tracks, the sum over
    the new NodeClaims of the *largest* usage among their options fits into what remained at the start of the pass.
    `Tracks v nodes k` is `k ≠ nodes` for the code as it is (unless the regenerated fact `subtractMaxCountsNode` says that
    `subtractMax` accounts for the node), and every `k` for the repaired `subtractMax`. -/
theorem C03_limits_pass (v : Karp.Limits.Variant) (nodes k : κ) (htr : Tracks v nodes k)
    (claims : List (List (IT κ))) (remaining : Res κ) (q : Int)
    (hpass : passOk v nodes remaining claims = true) (hne : claims ≠ [])
    (hq : remaining.lookup k = some q)
    (hnn : ∀ opts ∈ claims, ∀ it ∈ opts, NonNeg it) (hwhole : k = nodes → oneNode ∣ q) :
    sumWorst nodes claims k ≤ q :=
  pass_bound v nodes k htr claims remaining q hpass hne hq hnn hwhole

/-- usage of the instance types the provider actually launches -/
def sumChosen (nodes : κ) (chosen : List (IT κ)) (k : κ) : Int :=
  match chosen with
  | [] => 0
  | it :: rest => usageOf nodes it k + sumChosen nodes rest k

/-- the provider picks, for each NodeClaim, one of its permitted instance types -/
inductive Picks : List (IT κ) → List (List (IT κ)) → Prop
  | nil : Picks [] []
  | cons {it : IT κ} {opts : List (IT κ)} {chosen : List (IT κ)} {claims : List (List (IT κ))} :
      it ∈ opts → Picks chosen claims → Picks (it :: chosen) (opts :: claims)

/-- **C03_limits_any_choice** — whichever permitted instance type the provider picks for each NodeClaim, the
    launched usage is at most the worst case the pass accounted for. -/
theorem C03_limits_any_choice (nodes k : κ) (claims : List (List (IT κ))) (chosen : List (IT κ))
    (h : Picks chosen claims) :
    (∀ opts ∈ claims, ∀ it ∈ opts, NonNeg it) → sumChosen nodes chosen k ≤ sumWorst nodes claims k := by
  induction h with
  | nil => intro _; simp [sumChosen, sumWorst]
  | @cons it opts chosen' claims' hmem _ ih =>
    intro hnn
    have hrest := ih (fun o ho => hnn o (List.mem_cons_of_mem _ ho))
    have hone : usageOf nodes it k ≤ worst nodes opts k := by
      unfold usageOf worst
      split
      · exact Int.le_refl _
      · exact le_maxAt opts (hnn opts List.mem_cons_self) it hmem k
    simp only [sumChosen, sumWorst]
    omega

/-- **C03_limits_rounds** — any history of passes (enabled only while no NodeClaim is unlaunched: `Synced`),
    launches (any option, any capacity the provider contract allows), lost NodeClaims and node removals, of any
    length: a pool that is within its limit for `k` stays within it, counting every unlaunched NodeClaim with its
    worst option — in the terms of the independent specification. -/
theorem C03_limits_rounds (v : Karp.Limits.Variant) (nodes k : κ) (htr : Tracks v nodes k) (evs : List (Ev κ)) (P : Pool κ)
    (hwf : WFPool nodes P) (hin : Within nodes P k) (hen : enabledAll v nodes P evs = true) :
    ∀ l, (runEvs P evs).limits.lookup k = some l →
      Karp.Spec.Limits.total nodes (runEvs P evs).existing
        ((runEvs P evs).unlaunched.map (fun o => o.map (·.cap))) k ≤ l := by
  intro l hl
  obtain ⟨hwf', hin'⟩ := run_within v nodes k htr evs P hwf hin hen
  exact Int.le_trans (spec_total_le nodes _ hwf' k) (hin' l hl)

/-- **C03_create_guard** — `Limits.ExceededBy` lets a create through exactly when no limited resource is already
    used above its limit. -/
theorem C03_create_guard (limits usage : Res κ) :
    exceededBy limits usage = false ↔ ∀ k u l, (k, u) ∈ usage → limits.lookup k = some l → u ≤ l :=
  exceededBy_false_iff limits usage

end Limits

/-! ### The node limit of a dynamic pool inside one pass

Full-strength statement: `C03_limits_pass` for *every* limited resource, `nodes` included.  The code as it is does
not decrement `nodes` in `subtractMax` (an instance type has no `nodes` capacity), so within one pass the node limit
only stops new NodeClaims when it was already exhausted at the start.  Witness (replayed on the real provisioner by
`corpus/c03.limitsnodes/*`): `limits.nodes = 2`, four NodeClaims opened in one pass. -/

namespace NodesWitness
open Karp.Limits

def nodesKey : Nat := 0
def cpuKey : Nat := 1
def small : IT Nat := { name := 1, cap := [(cpuKey, 4000)] }
def limits : Res Nat := [(nodesKey, 2 * oneNode)]
def fourClaims : List (List (IT Nat)) := [[small], [small], [small], [small]]

end NodesWitness

open Karp.Limits NodesWitness in
/-- the model of the code as it is admits the pass; the specification rejects its outcome; the repaired
    `subtractMax` refuses the third NodeClaim -/
theorem C03_limits_nodes_witness : Karp.Gen.C03Limits.subtractMaxCountsNode = false →
    passOk .asIs nodesKey (remainingAtStart limits []) fourClaims = true ∧
    Karp.Spec.Limits.roundOk nodesKey limits [] [] (fourClaims.map (fun o => o.map (·.cap))) = false ∧
    passOk .repaired nodesKey (remainingAtStart limits []) fourClaims = false ∧
    passOk .repaired nodesKey (remainingAtStart limits []) (fourClaims.take 2) = true := by decide

/-! ## Non-vacuity -/

/-- the initial state refines the empty ledger -/
example : Refines State.init Ledger.init := refines_init

/-- a history in which a grant is clamped by the limit, is outstanding across other threads' events, a claim is
    pending disruption and entries are cleaned up: it is a protocol history, safe, and accepted for both variants -/
def busyHistory : List Op :=
  [.update 1 1 false, .update 1 2 false, .count 1, .reserve 1 3 2, .markPending 1 1, .update 1 3 false, .release 1 1,
   .markDeleting 1 1, .count 1, .reserve 1 3 1, .cleanup 1, .count 1, .reserve 1 3 1, .update 1 4 false, .release 1 1, .count 1]

example : wfTrace Ledger.init busyHistory (observations .asIs State.init busyHistory) = true ∧
    safeTrace State.init busyHistory = true ∧
    observations .asIs State.init busyHistory =
      [.unit, .unit, .counts 2 0 0, .grant 1, .unit, .unit, .unit, .unit, .counts 2 1 0, .grant 0, .unit,
       .counts 2 0 0, .grant 1, .unit, .unit, .counts 3 0 0] := by decide

example : accepts Ledger.init busyHistory (observations .asIs State.init busyHistory) = true :=
  C03_static_safe_partial busyHistory State.init Ledger.init refines_init (by decide) (by decide)

/-- a pass over two pools in which every hypothesis of `C03_drift_pass_gives_slots_back` holds and something happens:
    both pools get a command, a replacement each, and the counts move -/
example : (∀ q, 0 ≤ reservedOf twoPoolsState q) ∧
    (Karp.StaticPool.driftPass Karp.Gen.C03Pool.staticDriftCapArgs twoPoolsState twoPools).results.map (·.created) = [1, 1] ∧
    counts (Karp.StaticPool.driftPass Karp.Gen.C03Pool.staticDriftCapArgs twoPoolsState twoPools).st 2 = (1, 1, 0) := by
  refine ⟨fun q => ?_, by decide, by decide⟩
  have : reservedOf twoPoolsState q = 0 := by
    unfold twoPoolsState
    rw [Karp.StaticPool.reservedOf_update, Karp.StaticPool.reservedOf_update]
    rfl
  omega

example : provisionGrant 1 1 0 1 5 4 = 1 ∧ provisionGrant 2 0 0 0 5 7 = 3 ∧ deprovisionCount 5 3 = 2 := by decide

namespace NonVacuity
open Karp.Limits

def nodesKey : Nat := 0
def cpu : Nat := 1
def mem : Nat := 2
def itS : IT Nat := { name := 1, cap := [(cpu, 2000), (mem, 4000)] }
def itL : IT Nat := { name := 2, cap := [(cpu, 8000), (mem, 16000)] }
def limits : Res Nat := [(cpu, 16000), (nodesKey, 3 * oneNode)]
def pool0 : Pool Nat := { limits := limits, existing := [], unlaunched := [] }

/-- a pass that opens two NodeClaims (the second one no longer admits the large type), both launch as their largest
    option, a second pass opens one more small NodeClaim, a node is removed -/
def history : List (Ev Nat) :=
  [.pass [[itS, itL], [itS, itL]], .launch 0 1 itL.cap, .launch 0 1 itL.cap, .pass [], .remove 0, .pass [[itS, itL]],
   .lose 0]

example : enabledAll .asIs nodesKey pool0 history = true := by decide
example : passOk .asIs nodesKey (remainingAtStart limits []) [[itS, itL], [itS, itL], [itS]] = false := by decide
example : sumWorst nodesKey [[itS, itL], [itS, itL]] cpu = 16000 := by decide
example : WFPool nodesKey pool0 := by
  refine ⟨?_, ?_, ?_⟩
  · intro e he; simp [pool0] at he
  · intro o ho; simp [pool0] at ho
  · intro l hl
    have : l = 3 * oneNode := by
      have h' : (some (3 * oneNode) : Option Int) = some l := hl
      exact (Option.some.inj h').symm
    subst this; exact ⟨3, by decide⟩
example : Within nodesKey pool0 cpu := by
  intro l hl
  have : l = 16000 := by
    have h' : (some 16000 : Option Int) = some l := hl
    exact (Option.some.inj h').symm
  subst this; decide

end NonVacuity

/-! ## A static pool next to the pod-driven provisioner -/
section StaticNextToPods
open Karp.StaticPool Karp.Spec.Static

/-- `nodepoolutils.IsStatic` is `spec.replicas != nil` -/
theorem fact_static_means_replicas_set : Karp.Gen.C03Pool.isStaticMeansReplicasSet = true := by decide

/-- `Provisioner.NewScheduler` keeps static NodePools away from the pod-driven scheduler -/
theorem fact_new_scheduler_drops_static : Karp.Gen.C03Pool.newSchedulerDropsStatic = true := by decide

/-- the code's notion of "static" is the specification's "replica-based": `spec.replicas` is set, whatever its value -/
theorem C03_static_iff_replicas_set (r : Option Int) : isStatic r = replicaBased r := by
  cases r <;> rfl

/-- in particular a pool that is scaled to zero stays a static pool -/
theorem C03_scaled_to_zero_is_static : isStatic (some 0) = true ∧ replicaBased (some 0) = true := ⟨rfl, rfl⟩

/-- only pools without `spec.replicas` are offered to the pod-driven scheduler -/
theorem C03_offered_pools_are_dynamic (pools : List PoolDecl) (q : PoolDecl) (h : q ∈ offered pools) :
    q ∈ pools ∧ q.replicas = none := by
  unfold offered at h
  rw [List.mem_filter] at h
  refine ⟨h.1, ?_⟩
  cases hr : q.replicas with
  | none => rfl
  | some n => simp [isStatic, hr] at h

/-- whatever the solver would like to open (ANY choice, any number of NodeClaims, any pods), a pod-driven pass adds
    no NodeClaim to a pool that is replica-based — also when its replica count is 0 -/
theorem C03_pod_pass_leaves_static_pools (pools : List PoolDecl) (choice : List Name) (p : Name)
    (h : ∀ q ∈ pools, q.name = p → replicaBased q.replicas = true) :
    addedTo p (podPassOpens pools choice) = 0 := by
  unfold addedTo podPassOpens
  rw [List.length_eq_zero_iff, List.filter_eq_nil_iff]
  intro n hn hnp
  rw [List.mem_filter] at hn
  obtain ⟨_, hany⟩ := hn
  rw [List.any_eq_true] at hany
  obtain ⟨q, hq, hqn⟩ := hany
  have hd := C03_offered_pools_are_dynamic pools q hq
  have hname : q.name = p := by
    have h1 : q.name = n := by simpa using hqn
    have h2 : n = p := by simpa using hnp
    exact h1.trans h2
  have := h q hd.1 hname
  rw [hd.2] at this
  exact absurd this (by decide)

/-- seen from the static pool the pass changes nothing the static invariants speak about: the pool state (counts and
    reserved counter), the NodeClaims, the replica count and the limit are the same — so every `C03_static_*`
    statement carries over histories with pod-driven passes in between -/
theorem C03_pod_pass_keeps_static_world (w : World) (ran : Bool) :
    (podPass w ran).st = w.st ∧ (podPass w ran).claims = w.claims ∧ (podPass w ran).replicas = w.replicas ∧
    (podPass w ran).limit = w.limit := by
  unfold podPass; cases ran <;> simp

/-- the routing of the model meets the routing specification for every replica value and every NodeClaim -/
theorem C03_route_meets_spec (r : Option Int) (labelled ofPool : Bool) :
    let m := route r labelled ofPool
    checkRoute r ofPool { isStatic := m.1, create := m.2.1, update := m.2.2.1, delete := m.2.2.2.1,
                          generic := m.2.2.2.2.1, claimStatic := m.2.2.2.2.2.1 } = none := by
  cases r <;> cases ofPool <;> simp [route, checkRoute, isStatic, replicaBased]

/-- non-vacuity: a static pool scaled to zero (name 1) next to a dynamic pool (name 2); the solver would like two
    NodeClaims in the static pool and one in the dynamic one: only the latter is opened -/
example : podPassOpens [⟨1, some 0⟩, ⟨2, none⟩] [1, 2, 1] = [2] ∧
    addedTo 1 (podPassOpens [⟨1, some 0⟩, ⟨2, none⟩] [1, 2, 1]) = 0 ∧
    addedTo 2 (podPassOpens [⟨1, some 0⟩, ⟨2, none⟩] [1, 2, 1]) = 1 := by decide

example : checkRoute (some 0) true { isStatic := false, create := false, update := false, delete := false, generic := false, claimStatic := 0 } ≠ none := by
  decide

end StaticNextToPods
end Karp.C03
