/- C03: property theorems (stub, not yet built) -/
namespace Karp.C03
end Karp.C03
