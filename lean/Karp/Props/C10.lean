/- C10: property theorems (stub, not yet built) -/
namespace Karp.C10
end Karp.C10
