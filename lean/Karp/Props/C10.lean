/-
C10 — Drain honours PDBs, do-not-disrupt and ordering until the deadline.

Property theorems only (helper lemmas live in `Karp/Proofs/Drain.lean`).
Model: `Karp/Model/Drain.lean` (pod predicates, `needsForceDelete`, eviction `Queue`, `Terminator.Drain`,
        histories against the emulated API server).
Spec:  `Karp/Spec/Drain.lean` (what an observer may see of one step, restated from the property text).
-/
import Karp.Proofs.Drain
import Karp.Model.Rfc3339

namespace Karp.C10
open Karp.Drain Karp.Spec.Drain
open Karp.Gen

/-! ## Fact expectations over the regenerated constants, tables and call orders -/

/-- a terminating pod stops holding up the drain strictly more than one minute after its deletionTimestamp -/
theorem fact_stuck_buffer :
    C10Drain.stuckTerminatingNs = 60 * 1000000000 ∧ C10Drain.stuckTerminatingOp = ">" := by decide

/-- "never with a zero grace period": the clamp of the force-delete grace period is at least one second -/
theorem fact_min_grace : C10Drain.forceDeleteMinGraceSeconds = 1 := by decide

/-- the threshold test is `now.After(deadline − grace)` with the grace period subtracted once -/
theorem fact_threshold_compare :
    C10Drain.needsForceDeleteCompare = "clk.Now().After(deleteTime)" ∧
    C10Drain.needsForceDeleteCompareMultipliers = ["-1"] := by decide

/-- Kubernetes graceful-shutdown order: non-critical non-daemon, non-critical daemon, critical non-daemon,
    critical daemon -/
theorem fact_tier_order :
    C10Drain.tierOrder = [(false, false), (false, true), (true, false), (true, true)] := by decide

theorem fact_critical_classes :
    C10Drain.criticalPriorityClasses = ["system-cluster-critical", "system-node-critical"] := by decide

theorem fact_owner_kinds :
    C10Drain.daemonSetOwner = ("apps/v1", "DaemonSet") ∧ C10Drain.nodeOwner = ("v1", "Node") := by decide

theorem fact_annotation_and_taint :
    C10Drain.doNotDisruptAnnotationKey = "karpenter.sh/do-not-disrupt" ∧
    C10Drain.disruptedNoScheduleTaintKey = "karpenter.sh/disrupted" ∧
    C10Drain.disruptedNoScheduleTaintValue = "" ∧
    C10Drain.disruptedNoScheduleTaintEffect = "NoSchedule" := by decide

/-- the conjuncts of the pod predicates the model transcribes -/
theorem fact_predicate_structure :
    C10Drain.isActiveConjuncts = ["!IsTerminal", "!IsTerminating"] ∧
    C10Drain.isEvictableConjuncts = ["IsActive", "!ToleratesDisruptedNoScheduleTaint", "!IsOwnedByNode", "!IsDoNotDisruptActive"] ∧
    C10Drain.isDrainableConjuncts = ["!ToleratesDisruptedNoScheduleTaint", "!IsStuckTerminating", "!IsOwnedByNode"] ∧
    C10Drain.isWaitingEvictionConjuncts = ["!IsTerminal", "IsDrainable"] ∧
    C10Drain.isForcedEvictionEligibleConjuncts = ["nodeGracePeriodExpirationTime != nil", "IsTerminating", "DeletionTimestamp.After"] := by decide

/-- `Reconcile` decides in this order: force-delete test, terminal/terminating, evictable, evict -/
theorem fact_reconcile_order :
    C10Drain.reconcileCalls = ["needsForceDelete", "forceDelete", "IsActive", "complete", "IsEvictable", "evict"] := by decide

/-- `Drain` only filters, splits, groups and enqueues: it contains no `Delete`/`Create` call -/
theorem fact_drain_only_enqueues :
    C10Drain.drainCalls = ["IsWaitingEviction", "needsForceDelete", "Add", "groupPodsByPriority", "Add"] := by decide

/-- `evict` goes through the eviction sub-resource and never calls `Delete`; `forceDelete` is the only `Delete` -/
theorem fact_removal_calls :
    C10Drain.evictCalls = ["Create", "SubResource", "complete", "complete"] ∧
    C10Drain.forceDeleteCalls = ["Delete", "complete", "complete"] ∧
    C10Drain.awaitDrainCalls = ["Drain", "SetTrue"] := by decide

/-- the termination controller takes the node deadline from the NodeClaim's termination-timestamp annotation,
    read as an RFC 3339 timestamp; each guarded return of `nodeTerminationTime` (no NodeClaim, no annotation,
    unreadable annotation) hands back NO deadline, the unreadable case together with an error, and only the final
    return hands back the parsed instant -/
theorem fact_deadline_source :
    C10Drain.terminationTimestampAnnotationKey = "karpenter.sh/nodeclaim-termination-timestamp" ∧
    C10Drain.terminationTimestampLayout = "2006-01-02T15:04:05Z07:00" ∧
    C10Drain.nodeTerminationTimeAssigns =
      [("expirationTimeString, exists", "nodeClaim.Annotations[v1.NodeClaimTerminationTimestampAnnotationKey]"),
       ("expirationTime, err", "time.Parse(time.RFC3339, expirationTimeString)")] ∧
    C10Drain.nodeTerminationTimeReturns =
      [("nodeClaim == nil", "nil", "nil"), ("!exists", "nil", "nil"), ("err != nil", "nil", "error"),
       ("", "&expirationTime", "nil")] := by decide

/-- `finalize` determines the deadline (returning its error) before it taints or drains -/
theorem fact_deadline_before_drain :
    C10Drain.finalizeCalls.take 2 = ["nodeTerminationTime", "Taint"] := by decide

/-! ## One reconcile of the eviction queue: all queues, pods, clocks and API answers -/

/-- **C10_evict_only_evictable** — whenever a reconcile sends an eviction it is for the reconciled pod, the pod
    is queued, and the pod is active, not static, does not tolerate the disruption taint and has no active
    do-not-disrupt annotation (`mayEvict`, the specification's reading); moreover the pod is not past its
    force-delete threshold. -/
theorem C10_evict_only_evictable (q : Items) (p : Pod) (now : Int) (ea : EvictAns) (da : DeleteAns) (u : Nat)
    (h : (reconcile q p now ea da).1 = some (.evict u)) :
    u = p.uid ∧ (∃ D, qget q p.uid = some D ∧ needsForceDelete p D now = false) ∧ mayEvict p now = true :=
  reconcile_evict_spec q p now ea da u h

/-- what `mayEvict` says, spelled out -/
theorem C10_mayEvict_iff (p : Pod) (now : Int) :
    mayEvict p now = true ↔
      p.terminal = false ∧ p.del = none ∧ p.static = false ∧ p.tolerates = false ∧ protectedNow p now = false := by
  unfold mayEvict untouchable
  cases p.terminal <;> cases p.del <;> cases p.static <;> cases p.tolerates <;> cases protectedNow p now <;> simp

/-- **C10_no_deadline_no_delete** — a pod queued without a node deadline (the NodeClaim has no termination grace
    period), or not queued at all, is never deleted directly: the only removal request is an eviction, so
    PodDisruptionBudgets apply. -/
theorem C10_no_deadline_no_delete (q : Items) (p : Pod) (now : Int) (ea : EvictAns) (da : DeleteAns)
    (hq : qget q p.uid = some none ∨ qget q p.uid = none) (u : Nat) (g : Int) :
    (reconcile q p now ea da).1 ≠ some (.delete u g) :=
  reconcile_no_deadline q p now ea da hq u g

/-- **C10_force** — whenever a reconcile deletes a pod directly: the pod is queued under a node deadline `d`
    (so the NodeClaim has a termination grace period); the grace period sent is at least one second; an
    already terminating pod is only re-deleted if its deletionTimestamp lies after `d`, a running pod only
    strictly after `d − terminationGracePeriodSeconds`; and the grace period granted ends by `d` (or is the
    one-second minimum) — the pod is handled under the deadline it is queued under, not a later one. -/
theorem C10_force (q : Items) (p : Pod) (now : Int) (ea : EvictAns) (da : DeleteAns) (u : Nat) (g : Int)
    (h : (reconcile q p now ea da).1 = some (.delete u g)) :
    u = p.uid ∧ ∃ d, qget q p.uid = some (some d) ∧ 1 ≤ g ∧
      (match p.del with
       | some dt => d < dt
       | none => ∃ gr, p.grace = some gr ∧ d - gr * sec < now) ∧
      (now + g * sec ≤ d ∨ g = 1) :=
  reconcile_delete_spec q p now ea da u g h

/-- **C10_reconcile_meets_spec** — every reconcile (any queue, pod, clock, API answers) is one the specification
    permits: at most one removal request, permitted by `callOK`, and only the reconciled pod's entry may leave
    the queue.  (`strict` adds: never a static or tolerating pod, given that none is queued.) -/
theorem C10_reconcile_meets_spec (q : Items) (p : Pod) (now : Int) (ea : EvictAns) (da : DeleteAns) (strict : Bool)
    (hs : strict = true → (qget q p.uid).isSome = true → untouchable p = false) :
    reconcileOK p now q (reconcile q p now ea da).2.2 (reconcile q p now ea da).1.toList strict = true :=
  reconcile_meets_spec q p now ea da strict hs

/-! ## The queue's deadline: earliest wins, never loosened while queued -/

/-- **C10_add_keeps_earliest** — after `Queue.Add(d, pods)` every given pod is stored under the earlier of its
    previous deadline (none = +∞) and `d`; every other entry is untouched. -/
theorem C10_add_keeps_earliest (q : Items) (d : Option Int) (ks : List Nat) (k : Nat) :
    qget (qaddAll q d ks) k = if k ∈ ks then some (dmin ((qget q k).getD none) d) else qget q k :=
  qget_qaddAll d ks q k

/-- `dmin` is the greatest lower bound in the order "no deadline = +∞" -/
theorem C10_dmin_glb (a b c : Option Int) :
    dle (dmin a b) a = true ∧ dle (dmin a b) b = true ∧ (dle c a = true → dle c b = true → dle c (dmin a b) = true) :=
  ⟨dle_dmin_left a b, dle_dmin_right a b, dle_dmin_of⟩

/-- **C10_deadline_monotone_step** — no step of any history (direct adds, drain passes, reconciles, clock, pod
    changes) moves the stored deadline of a pod that stays queued to a later one or clears it. -/
theorem C10_deadline_monotone_step (s : State) (st : Step) (k : Nat) (e e' : Option Int)
    (h : qget s.q k = some e) (h' : qget (nextState s st).q k = some e') : dle e' e = true :=
  step_monotone s st k e e' h h'

/-- **C10_deadline_monotone** — along every history, from every state: if pod `k` is queued in every state the
    run passes through, its stored deadline at the end is no later than at the beginning (and a deadline never
    becomes "none": `dle none (some _) = false`). -/
theorem C10_deadline_monotone (k : Nat) (steps : List Step) (s : State)
    (h : queuedThroughout k s steps = true) :
    ∃ e e', qget s.q k = some e ∧ qget (runState s steps).q k = some e' ∧ dle e' e = true :=
  history_monotone k steps s h

/-! ## One drain pass: tiers, who is enqueued, verdict -/

/-- **C10_tiers** — every pod a drain pass hands to the queue is on the node, not finished, not static, not
    tolerating the disruption taint; and it is either past its force-delete threshold (only possible with a node
    deadline), or it belongs to the lowest tier — in the regenerated order of `groupPodsByPriority` — among all
    pods that still await graceful eviction. -/
theorem C10_tiers (pods : List Pod) (D : Option Int) (now : Int) (p : Pod) (h : p ∈ enqueued pods D now) :
    p ∈ pods ∧ p.onNode = true ∧ p.terminal = false ∧ p.static = false ∧ p.tolerates = false ∧
    ((needsForceDelete p D now = true ∧ D ≠ none) ∨
     (needsForceDelete p D now = false ∧
       ∀ p' ∈ pods, (p'.onNode && isWaitingEviction p' now) = true → needsForceDelete p' D now = false →
         rankIn C10Drain.tierOrder (cls p) ≤ rankIn C10Drain.tierOrder (cls p'))) := by
  have hok := enqueued_ok pods D now p h
  have hmw : mustWait p now = true := by
    have := hok.2; unfold enqueueOK at this
    simp only [Bool.and_eq_true] at this; exact this.1
  have hflags : p.onNode = true ∧ p.terminal = false ∧ p.static = false ∧ p.tolerates = false := by
    revert hmw; unfold mustWait untouchable
    cases p.onNode <;> cases p.terminal <;> cases p.static <;> cases p.tolerates <;> simp
  refine ⟨hok.1, hflags.1, hflags.2.1, hflags.2.2.1, hflags.2.2.2, ?_⟩
  rw [mem_enqueued] at h
  rcases h with h | h
  · left
    rw [mem_deleteEligible] at h
    rw [needsForceDelete_eq_strictlyPastD]
    refine ⟨h.2.2, ?_⟩
    intro hD; rw [hD] at h; simp [strictlyPastD] at h
  · right
    have hgc := (mem_gracefulCandidates pods D now p).mp (mem_firstGroup_graceful pods D now p h)
    rw [needsForceDelete_eq_strictlyPastD]
    refine ⟨hgc.2.2, ?_⟩
    intro p' hp' hw' hnf'
    rw [waiting_eq_mustWait] at hw'
    rw [needsForceDelete_eq_strictlyPastD] at hnf'
    exact (firstNonEmpty_least _ _ p h).2.2 p' ((mem_gracefulCandidates pods D now p').mpr ⟨hp', hw', hnf'⟩)
      (cls_mem_tierOrder p')

/-- **C10_first_tier_first** — in particular a daemon or critical pod is handed to the eviction path only when no
    non-critical non-daemon pod still awaits graceful eviction. -/
theorem C10_first_tier_first (pods : List Pod) (D : Option Int) (now : Int) (p p' : Pod)
    (h : p ∈ enqueued pods D now) (hnf : needsForceDelete p D now = false) (hl : late p = true)
    (hp' : p' ∈ pods) (hw' : (p'.onNode && isWaitingEviction p' now) = true)
    (hnf' : needsForceDelete p' D now = false) : late p' = true := by
  rw [mem_enqueued] at h
  rcases h with h | h
  · rw [mem_deleteEligible, ← needsForceDelete_eq_strictlyPastD, hnf] at h; simp at h
  · rw [waiting_eq_mustWait] at hw'
    rw [needsForceDelete_eq_strictlyPastD] at hnf'
    exact firstGroup_late pods D now p h hl p' ((mem_gracefulCandidates pods D now p').mpr ⟨hp', hw', hnf'⟩)

/-- **C10_drain_queue** — the queue after a drain pass, pointwise: enqueued pods are stored under the earlier of
    their previous deadline and the pass's, everything else is untouched (in particular nothing is dropped). -/
theorem C10_drain_queue (q : Items) (pods : List Pod) (D : Option Int) (now : Int) (k : Nat) :
    qget (drain q pods D now).1 k =
      if k ∈ (enqueued pods D now).map (·.uid) then some (dmin ((qget q k).getD none) D) else qget q k :=
  qget_drain q pods D now k

/-- **C10_drain_verdict** — `Drain` reports "still waiting" (a `NodeDrainError`, which stalls node termination)
    exactly when some pod on the node is not finished, not static, not tolerating and not stuck terminating. -/
theorem C10_drain_verdict (q : Items) (pods : List Pod) (D : Option Int) (now : Int) :
    (drain q pods D now).2 = true ↔ ∃ p ∈ pods, mustWait p now = true := by
  rw [drain_verdict]
  constructor
  · intro h
    cases hw : waitingPods pods now with
    | nil => rw [hw] at h; simp at h
    | cons p rest =>
      have : p ∈ waitingPods pods now := by rw [hw]; simp
      exact ⟨p, (mem_waitingPods pods now p).mp this⟩
  · intro ⟨p, hp, hm⟩
    have : p ∈ waitingPods pods now := (mem_waitingPods pods now p).mpr ⟨hp, hm⟩
    cases hw : waitingPods pods now with
    | nil => rw [hw] at this; simp at this
    | cons _ _ => rfl

/-- **C10_drain_meets_spec** — every drain pass (any queue, pod mix, deadline, clock) is one the specification
    permits: it sends no removal request, drops or loosens nothing, admits only pods `enqueueOK` allows under
    the earlier deadline, queues every pod that is due, and never reports completion while a pod is waited for. -/
theorem C10_drain_meets_spec (q : Items) (pods : List Pod) (D : Option Int) (now : Int) :
    drainOK pods D now q (drain q pods D now).1 [] (!(drain q pods D now).2) = true :=
  drain_meets_spec q pods D now

/-! ## All histories: interleavings of drain passes, reconciles, clock advances and pod changes -/

/-- **C10_histories** — for every scenario (any pods, any initial clock) and every history of drain passes,
    eviction-queue reconciles with any API answers, clock advances and pod changes, every step of the model
    meets the specification (`stepOK`, strict reading: static and tolerating pods are never touched). -/
theorem C10_histories (now : Int) (ps : List Pod) (steps : List Step) (h : noAdd steps = true) :
    allOK true (initState now ps) steps = true :=
  history_meets_spec true steps _ (wf_init now ps) (fun _ => ⟨touchable_init now ps, h⟩)

/-- **C10_histories_with_direct_adds** — the same for histories that also contain direct `Queue.Add` calls (which
    bypass `Drain`'s filters), from any well-formed state, in the non-strict reading. -/
theorem C10_histories_with_direct_adds (s : State) (hwf : WF s) (steps : List Step) :
    allOK false s steps = true :=
  history_meets_spec false steps s hwf (fun h => by simp at h)

/-- **C10_removal_traces_to_admission** — in every history of drain passes (direct or driven by the termination
    controller), reconciles, clock advances and pod changes from a scenario's start: whenever a reconcile sends a
    removal request (eviction or direct delete) for pod `u`, an earlier drain pass of that history — under the
    deadline `d` it was given or read off the NodeClaim — handed `u` to the queue — at which moment `u` met
    C10_tiers (lowest tier among the pods awaiting graceful eviction, or past its threshold) — and `u` has stayed
    queued from that pass until this reconcile (so, by C10_deadline_monotone, under a deadline that only
    tightened). -/
theorem C10_removal_traces_to_admission (now : Int) (ps : List Pod) (pre : List Step) (i : Nat)
    (ea : EvictAns) (da : DeleteAns) (c : Call) (hna : noAdd pre = true)
    (hc : c ∈ (stepModel (runState (initState now ps) pre) (.recon i ea da)).calls) :
    ∃ a st d b, pre = a ++ st :: b ∧ passDeadline st = some d ∧
      c.uid ∈ (enqueued (livePods (runState (initState now ps) a)) d (runState (initState now ps) a).now).map (·.uid) ∧
      queuedThroughout c.uid (nextState (runState (initState now ps) a) st) b = true := by
  apply queued_was_admitted c.uid pre (initState now ps) hna rfl
  generalize runState (initState now ps) pre = s at hc
  simp only [stepModel] at hc
  cases hp : s.pods[i]? with
  | none => simp [hp] at hc
  | some w =>
    simp only [hp] at hc
    by_cases hg : w.gone = true
    · simp [hg] at hc
    · simp only [hg, Bool.false_eq_true, if_false] at hc
      cases hcall : (reconcile s.q w.pod s.now ea da).1 with
      | none => simp [hcall] at hc
      | some c' =>
        simp only [hcall, Option.toList_some, List.mem_singleton] at hc
        subst hc
        cases c with
        | evict u =>
          obtain ⟨hu, ⟨D, hD, _⟩, _⟩ := reconcile_evict_spec s.q w.pod s.now ea da u hcall
          simp [Call.uid, qhas, hu, hD]
        | delete u g =>
          obtain ⟨hu, d, hD, _⟩ := reconcile_delete_spec s.q w.pod s.now ea da u g hcall
          simp [Call.uid, qhas, hu, hD]

/-! ## Where the node deadline comes from: the termination controller and the NodeClaim -/

/-- **C10_deadline_source** — the termination controller hands `Drain` a deadline `t` exactly when the NodeClaim
    carries a termination timestamp that reads as the instant `t`; it refuses (error) exactly when the timestamp
    cannot be read; without a (single) NodeClaim or without the annotation it drains with no deadline. -/
theorem C10_deadline_source (src : DeadlineSrc) :
    (∀ t, nodeTerminationTime src = some (some t) ↔ src = .annotation (some t)) ∧
    (nodeTerminationTime src = none ↔ src = .annotation none) ∧
    (nodeTerminationTime src = some none ↔ (src = .noClaim ∨ src = .noAnnotation)) := by
  cases src with
  | noClaim => simp [nodeTerminationTime]
  | noAnnotation => simp [nodeTerminationTime]
  | annotation t => cases t <;> simp [nodeTerminationTime]

/-- **C10_node_pass_is_drain** — a pass of the termination controller that determined the deadline `D` is exactly
    a `Terminator.Drain` pass under `D` (so C10_tiers, C10_drain_queue, C10_drain_verdict and C10_drain_meets_spec
    apply to it verbatim). -/
theorem C10_node_pass_is_drain (s : State) (src : DeadlineSrc) (D : Option Int)
    (h : nodeTerminationTime src = some D) :
    stepModel s (.node src) = stepModel s (.drain D) ∧ nextState s (.node src) = nextState s (.drain D) := by
  simp [nextState, stepModel, advance, h]

/-- **C10_unreadable_deadline_inert** — when the NodeClaim's termination timestamp cannot be read the pass does
    nothing at all: an error is reported, no pod is handed to the queue (under any deadline, let alone an
    invented one), no removal request is sent, and the state is unchanged. -/
theorem C10_unreadable_deadline_inert (s : State) :
    stepModel s (.node (.annotation none)) = { r := "error", calls := [], items := s.q } ∧
    nextState s (.node (.annotation none)) = s := by
  simp [nextState, stepModel, advance, nodeTerminationTime, refusedStep]

/-- **C10_node_pass_meets_spec** — every pass of the termination controller (any state, any NodeClaim shape) is one
    the specification permits: an ordinary drain pass under the deadline the NodeClaim's timestamp denotes (or
    under none when there knowingly is none), and a refusal or an evictions-only pass when it cannot be read. -/
theorem C10_node_pass_meets_spec (s : State) (src : DeadlineSrc) :
    nodePassOK (livePods s) src s.now s.q (stepModel s (.node src)).items (stepModel s (.node src)).calls
      (stepModel s (.node src)).r = true :=
  nodeStep_meets_spec s src

/-- **C10_deadline_origin** — along every history, from a scenario's start: the deadline a pod is stored under
    (a deadline, or "none") is one that a step of the history supplied — a direct `Queue.Add`'s, a direct drain
    pass's, or the one a controller pass read off the NodeClaim.  No deadline is ever made up. -/
theorem C10_deadline_origin (now : Int) (ps : List Pod) (steps : List Step) (k : Nat) (e : Option Int)
    (h : qget (runState (initState now ps) steps).q k = some e) :
    ∃ st ∈ steps, stepDeadline st = some e := by
  rcases history_deadline_origin k e steps (initState now ps) h with h0 | h0
  · simp [initState, qget_nil] at h0
  · obtain ⟨st, hst, hd⟩ := List.mem_filterMap.mp h0
    exact ⟨st, hst, hd⟩

/-- **C10_no_invented_deadline** — in particular, in a history whose only enqueueing steps are passes of the
    termination controller: a pod stored under the deadline `t` (the precondition of every direct delete, by
    C10_force) implies that some pass found a NodeClaim whose termination timestamp reads as exactly `t`. -/
theorem C10_no_invented_deadline (now : Int) (ps : List Pod) (steps : List Step) (k : Nat) (t : Int)
    (hctl : ∀ st ∈ steps, (∀ d ps, st ≠ .add d ps) ∧ (∀ d, st ≠ .drain d))
    (h : qget (runState (initState now ps) steps).q k = some (some t)) :
    Step.node (.annotation (some t)) ∈ steps := by
  obtain ⟨st, hst, hd⟩ := C10_deadline_origin now ps steps k (some t) h
  cases st with
  | add d ps' => exact absurd rfl ((hctl _ hst).1 d ps')
  | drain d => exact absurd rfl ((hctl _ hst).2 d)
  | node src =>
    have : src = .annotation (some t) := ((C10_deadline_source src).1 t).mp (by simpa [stepDeadline, passDeadline] using hd)
    rw [this] at hst; exact hst
  | recon i ea da => simp [stepDeadline, passDeadline] at hd
  | tick ns => simp [stepDeadline, passDeadline] at hd
  | change i m => simp [stepDeadline, passDeadline] at hd

/-! ## Non-vacuity: concrete scenarios that reach every branch the theorems speak about -/

def podA : Pod :=
  { uid := 0, onNode := true, terminal := false, del := none, grace := some 30, tolerates := false,
    static := false, daemon := false, critical := false, dnd := .absent, start := none }
/-- a critical daemon pod -/
def podC : Pod := { podA with uid := 1, critical := true, daemon := true }
/-- a do-not-disrupt pod with a one-hour grace period -/
def podP : Pod := { podA with uid := 2, dnd := .forever, grace := some 3600 }
/-- a static pod -/
def podS : Pod := { podA with uid := 3, static := true }

/-- node deadline used in the examples: t = 1000 s -/
def dl : Int := 1000 * sec

-- before `deadline − grace` the pod is evicted through the eviction API (hypothesis of C10_evict_only_evictable)
example : (reconcile [(0, some dl)] podA (900 * sec) .ok .ok).1 = some (.evict 0) := by decide
-- exactly at `deadline − grace` still an eviction; one nanosecond later a direct delete with the remaining 29 s
example : (reconcile [(0, some dl)] podA (970 * sec) .ok .ok).1 = some (.evict 0) := by decide
example : (reconcile [(0, some dl)] podA (970 * sec + 1) .ok .ok).1 = some (.delete 0 29) := by decide
-- after the deadline the grace period is the one-second minimum, never zero (hypothesis of C10_force)
example : (reconcile [(0, some dl)] podA (1005 * sec) .ok .ok).1 = some (.delete 0 1) := by decide
-- without a node deadline the same pod, far past everything, is still only evicted (C10_no_deadline_no_delete)
example : (reconcile [(0, none)] podA (5000 * sec) .tooMany .ok) = (some (.evict 0), .requeue, [(0, none)]) := by decide
-- an actively do-not-disrupt pod is not evicted (requeue, no request) …
example : (reconcile [(2, none)] podP (900 * sec) .ok .ok) = (none, .requeue, [(2, none)]) := by decide
-- … but with a node deadline it is deleted once `deadline − grace` has passed (grace 3600 s > time left)
example : (reconcile [(2, some dl)] podP (900 * sec) .ok .ok).1 = some (.delete 2 100) := by decide
-- a pass over a non-critical pod, a critical daemon pod and a static pod enqueues only the first (C10_tiers) …
example : drain [] [podA, podC, podS] (some dl) (900 * sec) = ([(0, some dl)], true) := by decide
-- … once it is gone the critical daemon pod follows; the static pod is never enqueued and never waited for
example : drain [] [podC, podS] (some dl) (900 * sec) = ([(1, some dl)], true) := by decide
example : drain [] [podS] (some dl) (900 * sec) = ([], false) := by decide
-- past its threshold a critical pod is enqueued together with the first tier
example : (drain [] [podA, { podC with grace := some 3600 }] (some dl) (900 * sec)).1 = [(0, some dl), (1, some dl)] := by decide
-- a later pass with a later (or no) deadline does not loosen the stored one; an earlier one tightens it
example : (drain [(0, some dl)] [podA] (some (dl + 60 * sec)) (900 * sec)).1 = [(0, some dl)] := by decide
example : (drain [(0, some dl)] [podA] none (900 * sec)).1 = [(0, some dl)] := by decide
example : (drain [(0, some dl)] [podA] (some (dl - 60 * sec)) (900 * sec)).1 = [(0, some (dl - 60 * sec))] := by decide
-- a whole history: drain, PDB refusal, clock crosses the threshold, direct delete, next tier
example :
    (runModel (initState (900 * sec) [podA, podC])
      [.drain (some dl), .recon 0 .tooMany .ok, .recon 1 .ok .ok, .tick (71 * sec), .drain (some dl), .recon 0 .ok .gone,
       .drain (some dl), .recon 1 .ok .ok]).map (fun o => (o.r, o.calls))
    = [("waiting", []), ("requeue", [.evict 0]), ("done", []), ("", []), ("waiting", []), ("done", [.delete 0 29]),
       ("waiting", []), ("done", [.delete 1 29])] := by decide
-- the hypotheses of the history theorems are met by it
example : noAdd [.drain (some dl), .recon 0 .tooMany .ok, .tick (71 * sec), .recon 0 .ok .gone] = true := by decide
example : queuedThroughout 0 (nextState (initState (900 * sec) [podA, podC]) (.drain (some dl)))
    [.recon 0 .tooMany .ok, .tick (71 * sec), .drain (some (dl - sec))] = true := by decide

-- a controller pass: a readable timestamp gives the deadline, exactly like a direct drain pass …
example : stepModel (initState (900 * sec) [podA, podC]) (.node (.annotation (some dl)))
    = { r := "waiting", calls := [], items := [(0, some dl)] } := by decide
-- … no annotation / no NodeClaim: evictions only (no deadline stored) …
example : (stepModel (initState (900 * sec) [podA]) (.node .noAnnotation)).items = [(0, none)] := by decide
example : (stepModel (initState (900 * sec) [podA]) (.node .noClaim)).items = [(0, none)] := by decide
-- … an unreadable timestamp: the pass refuses; a pod already queued keeps its deadline, nothing new is queued,
--     and (hypothesis of C10_no_invented_deadline) the stored deadline is the one the earlier pass read
example : (runModel (initState (900 * sec) [podA, { podP with uid := 1 }])
      [.node (.annotation (some dl)), .node (.annotation none), .recon 1 .ok .ok]).map (fun o => (o.r, o.calls, o.items))
    = [("waiting", [], [(0, some dl), (1, some dl)]), ("error", [], [(0, some dl), (1, some dl)]),
       ("done", [.delete 1 100], [(0, some dl)])] := by decide
-- the specification rejects what a pass acting under a made-up deadline (here: year 1) would be observed to do …
example : nodePassOK [podA] (.annotation none) (900 * sec) [] [(0, some (-63000000000 * sec))] [] "waiting" = false := by decide
-- … and accepts both a refusal and an evictions-only pass
example : nodePassOK [podA] (.annotation none) (900 * sec) [] [] [] "error" = true := by decide
example : nodePassOK [podA] (.annotation none) (900 * sec) [] [(0, none)] [] "waiting" = true := by decide

-- RFC 3339 reading of the annotation (Unix nanoseconds): zone offsets and fractions denote the same instants …
example : Karp.Rfc3339.parse "1970-01-01T00:00:00Z".toList = some 0 := by decide
example : Karp.Rfc3339.parse "2027-01-15T08:00:00Z".toList = some 1800000000000000000 := by decide
example : Karp.Rfc3339.parse "2027-01-15T10:00:00.5+02:00".toList = some 1800000000500000000 := by decide
example : Karp.Rfc3339.parse "2027-01-15T00:30:00-07:30".toList = some 1800000000000000000 := by decide
example : Karp.Rfc3339.parse "2024-02-29T23:59:59.123456789Z".toList = some 1709251199123456789 := by decide
example : Karp.Rfc3339.parse "0001-01-01T00:00:00Z".toList = some (-62135596800000000000) := by decide
-- … and everything else is not a timestamp (space for `T`, no zone, date only, Unix seconds, empty, impossible date)
example : Karp.Rfc3339.parse "2027-01-15 08:00:00Z".toList = none := by decide
example : Karp.Rfc3339.parse "2027-01-15T08:00:00".toList = none := by decide
example : Karp.Rfc3339.parse "2027-01-15".toList = none := by decide
example : Karp.Rfc3339.parse "1800000000".toList = none := by decide
example : Karp.Rfc3339.parse "".toList = none := by decide
example : Karp.Rfc3339.parse "2027-02-29T08:00:00Z".toList = none := by decide
example : Karp.Rfc3339.parse "2027-01-15T24:00:00Z".toList = none := by decide
example : Karp.Rfc3339.parse "2027-01-15T08:00:00+0200".toList = none := by decide

end Karp.C10
