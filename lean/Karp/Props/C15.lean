/-
C15 — Drift is reported for drift-relevant changes and never self-inflicted.

Property theorems only (lemmas: `Karp/Proofs/HashLemmas.lean`, `Karp/Proofs/DriftLemmas.lean`, `Karp/Proofs/LaunchLemmas.lean`).
Model: `Karp/Model/Hash.lean` (`NodePool.Hash()` = the hashstructure walk over `v1.NodeClaimTemplate`, field table
regenerated from the Go source), `Karp/Model/Drift.lean` (`areStaticFieldsDrifted`, `areRequirementsDrifted`,
`instanceTypeNotFound`, `isDrifted`, `Drift.Reconcile`, the nodepool/hash controller, `PopulateNodeClaimDetails`, the launch
under failing API writes).
Spec: `Karp/Spec/DriftSpec.lean` (which NodePools must share a hash; when a NodeClaim must / may be Drifted, with the
Kubernetes node-selector semantics).
-/
import Karp.Proofs.HashLemmas
import Karp.Proofs.DriftLemmas
import Karp.Proofs.LaunchLemmas
import Karp.Model.Template

namespace Karp.C15
open Karp.Hash Karp.Drift Karp.Req Karp.Spec.K8s Karp.Spec.DriftSpec

/-! ## Fact expectations over the regenerated tables -/

/-- `NodePool.Hash()` hashes `in.Spec.Template` and nothing else -/
theorem fact_hashed_expr : Karp.Gen.C15Hash.hashedExpr = "in.Spec.Template" := by decide

/-- lists are hashed as sets, zero values are skipped, nil pointers are zero values; FormatV2 -/
theorem fact_hash_options :
    Karp.Gen.C15Hash.hashOptions = [("IgnoreZeroValue", "true"), ("SlicesAsSets", "true"), ("ZeroNil", "true")] ∧
    Karp.Gen.C15Hash.hashFormat = "hashstructure.FormatV2" := by decide

/-- no type below the template overrides hashing (Hashable / Includable / IncludableMap) -/
theorem fact_no_custom_hashers : Karp.Gen.C15Hash.customHashers = [] := by decide

/-- the fields tagged `hash:"ignore"` / `"-"` below `v1.NodeClaimTemplate` -/
def ignoredFields : List (String × String) :=
  Karp.Gen.C15Hash.structs.flatMap (fun (_, short, fields) =>
    (fields.filter (fun (_, _, tag, _) => tag == "ignore" || tag == "-")).map (fun (name, _, _, _) => (short, name)))

/-- **exactly the documented field is ignored**: `requirements` (and the raw spelling of `expireAfter`, which is not a
    separate API field).  A missing or an additional `hash:"ignore"` tag fails here. -/
theorem fact_ignored_fields :
    ignoredFields = [("NodeClaimTemplateSpec", "Requirements"), ("NillableDuration", "Raw")] := by decide

/-- no other tag (`set`, `string`) and no unexported field occurs -/
theorem fact_only_ignore_tags :
    Karp.Gen.C15Hash.structs.all (fun (_, _, fields) => fields.all (fun (_, _, tag, exported) =>
      (tag == "" || tag == "ignore") && exported)) = true := by decide

/-- **the hashed field set** (type name as hashed, then every field in declaration order with its type and tag).  A
    new, removed, renamed, retyped or reordered field of any struct below the template fails here (and the hash version
    must then be bumped, see the comment on `NodePoolHashVersion`): the pair (field set, version) is pinned together.
    The only collections are the two maps and the two taint lists — what "reordering" can touch. -/
theorem fact_hashed_field_set :
    Karp.Gen.C15Hash.hashVersion = "v3" ∧
    Karp.Gen.C15Hash.structs.map (fun (_, short, fields) => (short, fields.map (fun (name, ty, tag, _) => (name, ty, tag)))) =
    [("NodeClaimTemplate", [("ObjectMeta", "v1.ObjectMeta", ""), ("Spec", "v1.NodeClaimTemplateSpec", "")]),
     ("ObjectMeta", [("Labels", "map[string]string", ""), ("Annotations", "map[string]string", "")]),
     ("NodeClaimTemplateSpec", [("Taints", "[]v1.Taint", ""), ("StartupTaints", "[]v1.Taint", ""),
        ("Requirements", "[]v1.NodeSelectorRequirementWithMinValues", "ignore"), ("NodeClassRef", "*v1.NodeClassReference", ""),
        ("TerminationGracePeriod", "*v1.Duration", ""), ("ExpireAfter", "v1.NillableDuration", "")]),
     ("Taint", [("Key", "string", ""), ("Value", "string", ""), ("Effect", "v1.TaintEffect", ""), ("TimeAdded", "*v1.Time", "")]),
     ("Time", [("Time", "time.Time", "")]),
     ("NodeClassReference", [("Kind", "string", ""), ("Name", "string", ""), ("Group", "string", "")]),
     ("Duration", [("Duration", "time.Duration", "")]),
     ("NillableDuration", [("Duration", "*time.Duration", ""), ("Raw", "[]byte", "ignore")])] := by decide

/-- budgets, limits, weight, consolidation settings (and replicas) are fields of `NodePoolSpec` next to `Template`,
    hence outside the hashed expression -/
theorem fact_non_drifting_fields_outside_template :
    Karp.Gen.C15Hash.nodePoolSpecFields.map (·.1) = ["Template", "Disruption", "Limits", "Weight", "Replicas"] ∧
    Karp.Gen.C15Hash.disruptionFields.map (·.1) = ["ConsolidateAfter", "ConsolidationPolicy", "Budgets"] := by decide

/-- the order of the checks in `isDrifted`: static hash, requirements, instance types, provider -/
theorem fact_isDrifted_order :
    Karp.Gen.C15Drift.isDriftedCalls =
      ["areStaticFieldsDrifted", "areRequirementsDrifted", "GetInstanceTypes", "instanceTypeNotFound", "IsDrifted"] := by decide

/-- the hash controller migrates the NodeClaims before it rewrites the NodePool's own annotations -/
theorem fact_hash_controller_order :
    Karp.Gen.C15Drift.hashReconcileCalls = ["updateNodeClaimHash", "Hash", "Patch"] ∧
    Karp.Gen.C15Drift.updateNodeClaimHashCalls = ["ListManaged", "Get", "Hash", "Patch"] := by decide

/-- a drift reason is never the empty string (which `isDrifted` uses for "not drifted") and the three are distinct -/
theorem fact_reasons :
    Karp.Gen.C15Drift.reasonNodePoolDrifted ≠ "" ∧ Karp.Gen.C15Drift.reasonRequirementsDrifted ≠ "" ∧
    Karp.Gen.C15Drift.reasonInstanceTypeNotFound ≠ "" ∧
    Karp.Gen.C15Drift.reasonNodePoolDrifted ≠ Karp.Gen.C15Drift.reasonRequirementsDrifted ∧
    Karp.Gen.C15Drift.conditionDrifted = "Drifted" ∧ Karp.Gen.C15Drift.conditionLaunched = "Launched" := by decide

/-- the instance-type check asks `it.Offerings.HasCompatible(reqs)` on the full offering list: no `Available()` (or
    other) filter in between — what `Karp.Drift.instanceTypeNotFound` models by not reading `Offer.available` -/
theorem fact_instance_type_check_reads_all_offerings :
    Karp.Gen.C15Drift.instanceTypeNotFoundOfferingCalls = ["HasCompatible"] := by decide

/-- `Launch.Reconcile`: the cached answer or a real launch (`launchNodeClaim`, which only calls `Create` and merges
    nothing itself), then — after the two paths have joined — the answer is cached, merged into the NodeClaim
    (`PopulateNodeClaimDetails`) and only then `Launched` is set: what `Karp.Drift.launchReconcile` models -/
theorem fact_launch_merges_on_both_paths :
    Karp.Gen.C15Drift.launchReconcileCalls =
      ["cache.Get", "launchNodeClaim", "cache.SetDefault", "PopulateNodeClaimDetails", "SetTrue"] ∧
    Karp.Gen.C15Drift.launchNodeClaimCalls = ["Create"] := by decide

/-- the API writes of the lifecycle controller's reconcile, in order: the finalizer patch, (the sub-reconcilers), the
    metadata patch, the status patch — the numbering of `failAt` in `Karp.Drift.launchReconcile` -/
theorem fact_lifecycle_write_order :
    Karp.Gen.C15Drift.lifecycleReconcileCalls =
      ["AddFinalizer", "kubeClient.Patch", "reconciler.Reconcile", "kubeClient.Patch", "kubeClient.Status().Patch"] := by decide

variable {U : Type}

/-! ## The hash: invariance -/

/-- **C15_order_insensitive** — reordering the labels, the annotations, the taints and the startup taints of a template
    (any permutation of each, all four at once) leaves the hash unchanged; for every template, every hash primitive set
    with a commutative and associative `xor` (in particular the FNV instance that reproduces the real value). -/
theorem C15_order_insensitive (P : Prims U) (hL : Lawful P) (a b : Template) (h : SameUpToOrder a b)
    (hreq : a.requirements = b.requirements) (hraw : a.expireAfterRaw = b.expireAfterRaw) :
    hashTemplate P a = hashTemplate P b := by
  apply hash_invariant P hL a b h
  · simp only [Template.specIsZero, h.taints.isNone_eq, h.startupTaints.isNone_eq, hreq, h.nodeClassRef, h.tgp,
      h.expireAfter, hraw]
  · right; rw [hraw]

/-- **C15_ignored (requirements)** — for a template with a node class reference (required by the CRD), replacing the
    requirements by ANY other requirement list (also nil ↔ non-nil) leaves the hash unchanged. -/
theorem C15_ignored_requirements (P : Prims U) (hL : Lawful P) (t : Template) (r : Option (List Sel))
    (href : t.nodeClassRef.isSome = true) :
    hashTemplate P { t with requirements := r } = hashTemplate P t := by
  apply hash_invariant P hL
  · exact ⟨OptPerm.refl _, OptPerm.refl _, OptPerm.refl _, OptPerm.refl _, rfl, rfl, rfl⟩
  · cases hr : t.nodeClassRef with
    | none => rw [hr] at href; simp at href
    | some x => simp [Template.specIsZero, hr]
  · right; rfl

/-- **C15_ignored (spelling of expireAfter)** — with a duration set, the raw text it was written as ("720h",
    "43200m", "720h0m0s") does not matter. -/
theorem C15_ignored_raw (P : Prims U) (hL : Lawful P) (t : Template) (raw : Option String)
    (hd : t.expireAfter.isSome = true) :
    hashTemplate P { t with expireAfterRaw := raw } = hashTemplate P t := by
  apply hash_invariant P hL
  · exact ⟨OptPerm.refl _, OptPerm.refl _, OptPerm.refl _, OptPerm.refl _, rfl, rfl, rfl⟩
  · cases he : t.expireAfter with
    | none => rw [he] at hd; simp at hd
    | some x => simp [Template.specIsZero, he]
  · left; exact hd

/-- **C15_ignored (outside the template)** — budgets, limits, weight, consolidateAfter / consolidationPolicy, replicas
    and the NodePool's own metadata never reach the hash: it is a function of `spec.template` alone. -/
theorem C15_ignored_outside (P : Prims U) (p : Pool) (o : Outside) :
    poolHash P { p with outside := o } = poolHash P p := rfl

/-- **C15_spec_must_equal** (the specification's "must be equal" verdict is met by the model, for all NodePools):
    whenever the property text demands equal hashes — valid templates that differ only in the order of lists / maps,
    in `requirements`, in the spelling of `expireAfter`, and in anything outside the template — the hashes are equal. -/
theorem C15_spec_must_equal (P : Prims U) (hL : Lawful P) (a b : Pool)
    (h : fingerprintVerdict a b = .mustEqual) : poolHash P a = poolHash P b := by
  unfold fingerprintVerdict at h
  split at h
  · cases h
  · rename_i hvalid
    split at h
    · rename_i hsame
      split at h
      · rename_i hrepr
        simp only [Bool.not_and, Bool.or_eq_true, Bool.not_eq_true', not_or, Bool.not_eq_false] at hvalid
        obtain ⟨hva, hvb⟩ := hvalid
        simp only [validTemplate, Bool.and_eq_true] at hva hvb
        simp only [sameUpToOrder, Bool.and_eq_true, beq_iff_eq] at hsame
        simp only [sameRepresentation, Bool.and_eq_true] at hrepr
        obtain ⟨⟨⟨⟨⟨⟨hl, han⟩, ht⟩, hst⟩, href⟩, htgp⟩, hexp⟩ := hsame
        obtain ⟨⟨⟨rl, ran⟩, rt⟩, rst⟩ := hrepr
        have hS : SameUpToOrder a.template b.template :=
          ⟨isPerm_optPerm _ _ hl rl, isPerm_optPerm _ _ han ran, isPerm_optPerm _ _ ht rt, isPerm_optPerm _ _ hst rst,
            href, htgp, hexp⟩
        unfold poolHash
        apply hash_invariant P hL _ _ hS
        · have ha : a.template.nodeClassRef.isSome = true := hva.1.1.1.1
          have hb : b.template.nodeClassRef.isSome = true := hvb.1.1.1.1
          cases hra : a.template.nodeClassRef <;> cases hrb : b.template.nodeClassRef <;> simp_all [Template.specIsZero]
        · right
          have ha : (a.template.expireAfter.isSome == a.template.expireAfterRaw.isSome) = true := hva.1.1.1.2
          have hb : (b.template.expireAfter.isSome == b.template.expireAfterRaw.isSome) = true := hvb.1.1.1.2
          rw [hexp] at ha
          cases hx : a.template.expireAfterRaw <;> cases hy : b.template.expireAfterRaw <;>
            cases hz : b.template.expireAfter <;> simp_all
      · cases h
    · cases h

/-! ## The hash: sensitivity

Full statement (what the property demands): *any* change of a non-ignored template field changes the hash.  For a
64-bit hash this can only hold up to collisions; proved is the structural part — with collision-free primitives
(`CollisionFree`, the named hypothesis) a change of the value hash of ONE hashed field, the others unchanged, is never
masked or cancelled by the walk (this is what `hashFinishUnordered` after every field is for).  That a changed field
value changes its own value hash is again collision-freeness, except for the taint lists: they are XOR-folded, so
duplicates cancel (`C15_duplicates_cancel` below — excluded by runtime validation: a taint (key, effect) occurs once). -/

inductive Field | labels | annotations | taints | startupTaints | nodeClassRef | tgp | expireAfter
deriving DecidableEq, Repr

/-- the value hash of each hashed field (`none` = zero value, the field is skipped) -/
def leaf (P : Prims U) (t : Template) : Field → Option U
  | .labels => hMap P t.labels
  | .annotations => hMap P t.annotations
  | .taints => hTaints P t.taints
  | .startupTaints => hTaints P t.startupTaints
  | .nodeClassRef => hRef P t.nodeClassRef
  | .tgp => hTGP P t.tgp
  | .expireAfter => hExpire P t.expireAfter t.expireAfterRaw

/-- **C15_sensitive_partial** — for collision-free primitives: if two templates have the same shape (the same fields
    are zero), the value hash of exactly one hashed field `f` differs and the value hashes of all others agree, then
    the template hashes differ.  For every template pair and every one of the seven hashed fields. -/
theorem C15_sensitive_partial (P : Prims U) (hL : Lawful P) (hC : CollisionFree P) (a b : Template) (f : Field)
    (hshape : ∀ g, (leaf P a g).isSome = (leaf P b g).isSome)
    (hmz : a.metaIsZero = b.metaIsZero) (hsz : a.specIsZero = b.specIsZero)
    (hothers : ∀ g, g ≠ f → leaf P a g = leaf P b g)
    (hdiff : leaf P a f ≠ leaf P b f) : hashTemplate P a ≠ hashTemplate P b := by
  intro heq
  apply hdiff
  rw [hashTemplate_eq, hashTemplate_eq] at heq
  have hl := hothers .labels; have han := hothers .annotations; have ht := hothers .taints
  have hst := hothers .startupTaints; have hr := hothers .nodeClassRef; have hg := hothers .tgp
  have he := hothers .expireAfter
  simp only [leaf] at hl han ht hst hr hg he
  have sl := hshape .labels; have san := hshape .annotations; have st := hshape .taints
  have sst := hshape .startupTaints; have sr := hshape .nodeClassRef; have sg := hshape .tgp
  have se := hshape .expireAfter
  simp only [leaf] at sl san st sst sr sg se
  by_cases hmeta : f = .labels ∨ f = .annotations
  · -- the Spec field agrees: peel it, then look inside ObjectMeta
    have hspec : hSpec P a = hSpec P b := by
      rw [hSpec_eq, hSpec_eq, hsz]
      rw [ht (by rcases hmeta with h | h <;> simp [h]), hst (by rcases hmeta with h | h <;> simp [h]),
        hr (by rcases hmeta with h | h <;> simp [h]), hg (by rcases hmeta with h | h <;> simp [h]),
        he (by rcases hmeta with h | h <;> simp [h])]
    rw [hspec] at heq
    have h1 := inc_acc_inj hL hC _ _ _ _ heq
    rw [hMeta_eq, hMeta_eq, hmz] at h1
    by_cases hz : b.metaIsZero = true
    · -- both maps nil on both sides: nothing differs
      have hza : a.metaIsZero = true := by rw [hmz]; exact hz
      simp only [Template.metaIsZero, Bool.and_eq_true, Option.isNone_iff_eq_none] at hz hza
      rcases hmeta with h | h <;> subst h <;> simp [leaf, hz.1, hz.2, hza.1, hza.2]
    · simp only [hz] at h1
      have h2 := inc_val_inj hC _ _ _ _ h1
      rcases hmeta with h | h <;> subst h
      · rw [han (by simp)] at h2
        have h3 := inc_acc_inj hL hC _ _ _ _ h2
        exact inc_opt_inj hC _ _ _ _ sl h3
      · rw [hl (by simp)] at h2
        exact inc_opt_inj hC _ _ _ _ san h2
  · -- ObjectMeta agrees: peel to the Spec struct
    have hmeta' : hMeta P a = hMeta P b := by
      rw [hMeta_eq, hMeta_eq, hmz, hl (by intro h; exact hmeta (Or.inl h.symm)),
        han (by intro h; exact hmeta (Or.inr h.symm))]
    rw [hmeta'] at heq
    rw [hSpec_eq, hSpec_eq, hsz] at heq
    by_cases hz : b.specIsZero = true
    · have hza : a.specIsZero = true := by rw [hsz]; exact hz
      simp only [Template.specIsZero, Bool.and_eq_true, Option.isNone_iff_eq_none] at hz hza
      obtain ⟨⟨⟨⟨⟨⟨z1, z2⟩, _⟩, z4⟩, z5⟩, z6⟩, z7⟩ := hz
      obtain ⟨⟨⟨⟨⟨⟨y1, y2⟩, _⟩, y4⟩, y5⟩, y6⟩, y7⟩ := hza
      cases f <;> simp [leaf, z1, z2, z4, z5, z6, z7, y1, y2, y4, y5, y6, y7, hExpire_eq] at hmeta ⊢
    · simp only [hz] at heq
      have h1 := inc_val_inj hC _ _ _ _ heq
      cases f with
      | labels => exact absurd (Or.inl rfl) hmeta
      | annotations => exact absurd (Or.inr rfl) hmeta
      | expireAfter =>
        rw [ht (by simp), hst (by simp), hr (by simp), hg (by simp)] at h1
        exact inc_opt_inj hC _ _ _ _ se h1
      | tgp =>
        rw [ht (by simp), hst (by simp), hr (by simp), he (by simp)] at h1
        have h2 := inc_acc_inj hL hC _ _ _ _ h1
        exact inc_opt_inj hC _ _ _ _ sg h2
      | nodeClassRef =>
        rw [ht (by simp), hst (by simp), hg (by simp), he (by simp)] at h1
        have h2 := inc_acc_inj hL hC _ _ _ _ (inc_acc_inj hL hC _ _ _ _ h1)
        exact inc_opt_inj hC _ _ _ _ sr h2
      | startupTaints =>
        rw [ht (by simp), hr (by simp), hg (by simp), he (by simp)] at h1
        have h2 := inc_acc_inj hL hC _ _ _ _ (inc_acc_inj hL hC _ _ _ _ (inc_acc_inj hL hC _ _ _ _ h1))
        exact inc_opt_inj hC _ _ _ _ sst h2
      | taints =>
        rw [hst (by simp), hr (by simp), hg (by simp), he (by simp)] at h1
        have h2 := inc_acc_inj hL hC _ _ _ _ (inc_acc_inj hL hC _ _ _ _ (inc_acc_inj hL hC _ _ _ _
          (inc_acc_inj hL hC _ _ _ _ h1)))
        exact inc_opt_inj hC _ _ _ _ st h2

/-! ### Boundaries of the invariance theorems (machine-checked on the FNV instance = the real hash values)

These are consequences of `IgnoreZeroValue` / XOR set hashing, all replayed on the real `NodePool.Hash()` by the
correspondence op `c15.hash` (corpus `c15.hash/*`). -/

set_option maxRecDepth 8000

def wRef : NodeClassRef := { kind := "TestNodeClass", name := "default", group := "karpenter.test.sh" }
def wTaint : Taint := { key := "dedicated", value := "a", effect := "NoSchedule" }
def wSel : Sel := { key := "team", op := .in_, values := ["a"], minValues := none }

/-- XOR set hashing: a taint repeated an odd number of times hashes like a single occurrence, an even number of times
    like an empty (non-nil) list.  Excluded by runtime validation (a taint (key, effect) pair occurs once). -/
theorem C15_duplicates_cancel :
    hashTemplate fnvPrims { nodeClassRef := some wRef, taints := some [wTaint, wTaint, wTaint] } =
      hashTemplate fnvPrims { nodeClassRef := some wRef, taints := some [wTaint] } ∧
    hashTemplate fnvPrims { nodeClassRef := some wRef, taints := some [wTaint, wTaint] } =
      hashTemplate fnvPrims { nodeClassRef := some wRef, taints := some [] } := by decide

/-- a nil list and an empty list hash differently (the specification leaves this pair unspecified) -/
theorem C15_nil_vs_empty :
    hashTemplate fnvPrims { nodeClassRef := some wRef, taints := none } ≠
      hashTemplate fnvPrims { nodeClassRef := some wRef, taints := some [] } := by decide

/-- without a node class reference (forbidden by the CRD) the `Spec` field can be all-zero, and then the IGNORED
    requirements decide whether it is skipped: `C15_ignored_requirements` needs its hypothesis. -/
theorem C15_ignored_needs_nodeClassRef :
    hashTemplate fnvPrims { requirements := some [wSel] } ≠ hashTemplate fnvPrims { requirements := none } := by decide

/-! ## Drift: the three predicates -/

/-- **C15_static_drift** — `areStaticFieldsDrifted` reports drift exactly when both objects carry both annotations, the
    hash versions agree and the hashes differ ("its hash differs under the same hash version"). -/
theorem C15_static_drift (np nc : Ann) :
    staticDrifted np nc = true ↔
      ∃ ph pv ch cv, np.hash = some ph ∧ np.version = some pv ∧ nc.hash = some ch ∧ nc.version = some cv ∧
        pv = cv ∧ ph ≠ ch := by
  unfold staticDrifted
  cases hph : np.hash <;> cases hpv : np.version <;> cases hch : nc.hash <;> cases hcv : nc.version <;> simp

theorem C15_static_drift_spec (np nc : Ann) :
    staticDrifted np nc = hashDiffersUnderSameVersion np.hash np.version nc.hash nc.version := rfl

/-- a NodeClaim stamped with the NodePool's own annotations is never statically drifted -/
theorem C15_same_annotations_not_drifted (a : Ann) : staticDrifted a a = false := by
  unfold staticDrifted
  cases a.hash <;> cases a.version <;> simp

theorem normalizeKey_of_not_alias (k : String) (h : aliasKey k = false) : normalizeKey k = k := by
  unfold aliasKey at h
  unfold normalizeKey
  cases hl : Karp.Gen.Labels.normalizedLabels.lookup k with
  | none => rfl
  | some x => rw [hl] at h; simp at h

/-- the executable `readable` of the specification (what the driver evaluates on the implementation's observations)
    gives the `Readable` hypothesis of the theorems below, for labels that form a map -/
theorem C15_readable_of_spec (sels : List Sel) (labels : Karp.Drift.Labels) (h : readable sels labels = true)
    (hnd : (labels.map (·.1)).Nodup) : Readable sels labels := by
  unfold readable at h
  simp only [Bool.and_eq_true, List.all_eq_true, Bool.not_eq_true'] at h
  obtain ⟨hs, hl⟩ := h
  refine ⟨?_, ?_, ?_, hnd⟩
  · intro s hsm
    obtain ⟨⟨h1, _⟩, h3⟩ := hs s hsm
    unfold validSel
    rw [h1]
    simp only [Bool.true_and, Bool.not_eq_true']
    exact h3
  · intro s hsm; exact normalizeKey_of_not_alias _ (hs s hsm).1.2
  · intro kv hkv; exact normalizeKey_of_not_alias _ (hl kv hkv)

/-- **C15_no_false_requirements_drift** (never self-inflicted, requirement part) — whenever the NodeClaim's labels
    satisfy every requirement expression of the NodePool under the Kubernetes node-selector semantics,
    `areRequirementsDrifted` reports no drift.  For all requirement lists (any number of expressions per key, all eight
    operators) and all label sets, under `Readable` (validated operands, no deprecated alias keys, labels a map). -/
theorem C15_no_false_requirements_drift (sels : List Sel) (labels : Karp.Drift.Labels) (hr : Readable sels labels)
    (hsat : labelsSatisfy sels labels = true) : requirementsDrifted sels labels = .ok false :=
  not_drifted_of_satisfy sels labels hr hsat

/-- Full statement (what the property demands): for every readable requirement list and label set,

      labelsSatisfy sels labels = false → requirementsDrifted sels labels = .ok true.

    It is false for the code as it is (`C15_drift_missed_*` below; replayed on the real disruption controller, recorded
    in known_findings.json).  Proved:

    **C15_drift_detects_partial** — if some requirement expression is violated by the NodeClaim's labels, drift IS
    reported whenever the violated expression's label is present on the NodeClaim; and also when it is absent, provided
    the requirement representation is `Faithful` for the NodePool's requirement list (it is whenever each key carries
    one expression; it fails exactly for the two recorded classes). -/
theorem C15_drift_detects_partial (sels : List Sel) (labels : Karp.Drift.Labels) (hr : Readable sels labels)
    (s : Sel) (hs : s ∈ sels) (hviol : k8sMatch s.op s.values (labels.lookup s.key) = false)
    (hcase : (labels.lookup s.key).isSome = true ∨ Faithful sels) :
    requirementsDrifted sels labels = .ok true := by
  obtain ⟨b, hb⟩ := requirementsDrifted_ok sels labels (fun x hx => validOperands_of_validSel x (hr.valid x hx))
  cases b with
  | true => exact hb
  | false =>
    have := satisfy_of_not_drifted sels labels hr hb s hs hcase
    rw [hviol] at this; cases this

/-- **C15_drift_detects_one_expression_per_key** — for a NodePool that constrains every key with ONE expression (the
    overwhelmingly common shape; any of the eight operators, `Gt MaxInt` / `Lt MinInt` excepted) requirement drift is
    detected completely: the NodeClaim is reported drifted if AND ONLY IF its labels violate some requirement expression
    under the Kubernetes semantics. -/
theorem C15_drift_detects_one_expression_per_key (sels : List Sel) (labels : Karp.Drift.Labels) (hr : Readable sels labels)
    (hx : ∀ s ∈ sels, noExtreme s = true) (hnd : (sels.map (fun s => normalizeKey s.key)).Nodup) :
    requirementsDrifted sels labels = .ok (!labelsSatisfy sels labels) := by
  have hf : Faithful sels := faithful_of_distinct sels (fun s hs => ⟨hr.valid s hs, hx s hs⟩) hnd
  cases hsat : labelsSatisfy sels labels with
  | true => exact C15_no_false_requirements_drift sels labels hr hsat
  | false =>
    have : ∃ s ∈ sels, k8sMatch s.op s.values (labels.lookup s.key) = false := by
      unfold labelsSatisfy at hsat
      have := List.all_eq_false.mp hsat
      obtain ⟨s, hs, hm⟩ := this
      exact ⟨s, hs, by simpa using hm⟩
    obtain ⟨s, hs, hm⟩ := this
    exact C15_drift_detects_partial sels labels hr s hs hm (Or.inr hf)

def wLabels : Karp.Drift.Labels := [("karpenter.sh/nodepool", "pool-a"), ("topology.kubernetes.io/zone", "z1")]

/-- negation witness 1 (recorded finding C15-unsatisfiable-requirements-read-as-absent): `tier In [gold]` together with
    `tier In [silver]` is violated by every label set, yet a NodeClaim without the label is not drifted -/
theorem C15_drift_missed_unsatisfiable :
    labelsSatisfy [{ key := "tier", op := .in_, values := ["gold"], minValues := none },
                   { key := "tier", op := .in_, values := ["silver"], minValues := none }] wLabels = false ∧
    (requirementsDrifted [{ key := "tier", op := .in_, values := ["gold"], minValues := none },
                         { key := "tier", op := .in_, values := ["silver"], minValues := none }] wLabels).toOption = some false := by decide

/-- negation witness 2 (recorded finding C15-presence-lost-with-notin): `n Gt 2` needs the label, but next to
    `n NotIn [5]` a NodeClaim without it is not drifted -/
theorem C15_drift_missed_presence_lost :
    labelsSatisfy [{ key := "example.com/n", op := .gt, values := ["2"], minValues := none },
                   { key := "example.com/n", op := .notIn, values := ["5"], minValues := none }] wLabels = false ∧
    (requirementsDrifted [{ key := "example.com/n", op := .gt, values := ["2"], minValues := none },
                         { key := "example.com/n", op := .notIn, values := ["5"], minValues := none }] wLabels).toOption = some false := by decide

/-- **a NodeClaim built from a NodePool is stamped with the hash of the template it is built from**: inside
    `NewNodeClaimTemplate` the only expression assigned to the `karpenter.sh/nodepool-hash` annotation is `Hash()` of the
    NodePool passed in (not, e.g., the NodePool's own annotation, which lags behind the template until the hash controller
    has reconciled an edit), and the only hash version is the current one — what `Karp.Drift.stampOf` models. -/
theorem fact_claim_stamped_with_template_hash :
    Karp.Gen.C15Drift.claimHashStamps = [Karp.Gen.C15Drift.claimTemplateParam ++ ".Hash()"] ∧
    Karp.Gen.C15Drift.claimHashVersionStamps = ["v1.NodePoolHashVersion"] := by decide

/-- **building a NodeClaim from a NodePool does not write into the NodePool**: the NodeClaim `NewNodeClaimTemplate` starts
    from shares its label and annotation maps with the NodePool's template (`v1.NodeClaimTemplate.ToNodeClaim` copies
    nothing), and the static-capacity code builds several templates from one NodePool object; so the function fills only
    fresh maps (`lo.Assign`) and contains no in-place write (`m[k] = v`, `delete`, `clear`) at all — what
    `C15_creation_leaves_nodepool` models, and what c15.drift observes on the NodePool object handed in. -/
theorem fact_claim_template_never_written_in_place : Karp.Gen.C15Drift.claimTemplateInPlaceWrites = [] := by decide

/-! ## Drift: the sub-reconciler -/

/-- **C15_reconcile_reports** — on a launched NodeClaim, `Drift.Reconcile` sets the Drifted condition whenever the hash
    differs under the same hash version (reason NodePoolDrifted, which takes precedence) or the labels are not
    `Compatible` with the NodePool's requirements (reason RequirementsDrifted) — before any provider call, so for every
    provider answer and error. -/
theorem C15_reconcile_reports (s : St) (c : Claim) (hl : c.launched = true) (b : Bool)
    (hreq : requirementsDrifted (s.pool.pool.template.requirements.getD []) c.labels = .ok b)
    (h : staticDrifted s.pool.ann c.ann = true ∨ b = true) :
    ∃ c' k, driftReconcile s c = .ok (c', false, k) ∧
      c'.drifted = some (if staticDrifted s.pool.ann c.ann then Karp.Gen.C15Drift.reasonNodePoolDrifted
                         else Karp.Gen.C15Drift.reasonRequirementsDrifted) := by
  have e1 : (Karp.Gen.C15Drift.reasonNodePoolDrifted == "") = false := by decide
  have e2 : (Karp.Gen.C15Drift.reasonRequirementsDrifted == "") = false := by decide
  unfold driftReconcile isDrifted
  simp only [hl, Bool.not_true, Bool.false_eq_true, if_false, hreq, bind, Except.bind, pure, Except.pure]
  by_cases hs : staticDrifted s.pool.ann c.ann = true
  · simp only [hs, if_true, e1, Bool.false_eq_true, if_false]
    exact ⟨_, _, rfl, rfl⟩
  · have hb : b = true := by rcases h with h | h; exact absurd h hs; exact h
    simp only [hs, hb, if_true, e2, Bool.false_eq_true, if_false]
    exact ⟨_, _, rfl, rfl⟩

/-- a NodeClaim that is not launched never carries the condition after a reconcile -/
theorem C15_not_launched_not_drifted (s : St) (c : Claim) (hl : c.launched = false) :
    driftReconcile s c = .ok ({ c with drifted := none }, false, false) := by
  unfold driftReconcile; simp [hl, pure, Except.pure]

/-! ## The hash controller -/

/-- **C15_hash_controller_stamps** — after the hash controller ran on a managed NodePool it carries its current hash and
    the current hash version; the spec is untouched. -/
theorem C15_hash_controller_stamps (s : St) (hp : s.pool.present = true) (hm : s.poolManaged = true) :
    (hashReconcile s).pool.ann = freshAnn s ∧ (hashReconcile s).pool.pool = s.pool.pool := by
  unfold hashReconcile freshAnn
  simp [hp, hm]

/-- **C15_migration_never_drifts** (a hash-version bump is never self-inflicted) — a NodeClaim with an older hash version
    and no Drifted condition is re-stamped with the NodePool's new hash: right after the migration it is not statically
    drifted, whatever hash it carried before. -/
theorem C15_migration_never_drifts (h : String) (c : Claim) (hd : c.drifted = none)
    (hv : c.ann.version ≠ some currentVersion) :
    staticDrifted { hash := some h, version := some currentVersion } (migrateClaim h c).ann = false := by
  unfold migrateClaim
  have : (c.ann.version != some currentVersion) = true := by simpa using hv
  simp [this, hd, staticDrifted]

/-- a NodeClaim that was already Drifted keeps its old hash (it stays comparable as drifted); one that already carries the
    current version is not touched at all -/
theorem C15_migration_keeps (h : String) (c : Claim) :
    (c.drifted.isSome = true → (migrateClaim h c).ann.hash = c.ann.hash ∧ (migrateClaim h c).drifted = c.drifted) ∧
    (c.ann.version = some currentVersion → migrateClaim h c = c) := by
  unfold migrateClaim
  constructor
  · intro hd
    cases hdr : c.drifted with
    | none => rw [hdr] at hd; simp at hd
    | some r => by_cases hv : (c.ann.version != some currentVersion) = true <;> simp [hv, hdr]
  · intro hv; simp [hv]

/-! ## No self-inflicted drift -/

/-- **C15_no_self_drift** (invariant over ALL histories) — take any state in which the NodePool carries its current
    hash and hash version, the provider reports no drift, and every NodeClaim is stamped with the NodePool's
    annotations, has no Drifted condition, has labels `Compatible` with the NodePool's requirements and an instance type
    and offering the provider still lists.  Then along every history — of any length — of hash-controller runs,
    disruption-controller reconciles of any NodeClaim and clock advances (no edit of the NodePool, of a NodeClaim or of
    the provider's catalogue), with provider calls failing or not, no NodeClaim is ever reported Drifted: every
    intermediate state is settled again. -/
theorem C15_no_self_drift (s : St) (steps : List Step) (hs : Settled s) (hq : ∀ st ∈ steps, quiet st = true) :
    ∃ out, run s steps = .ok out ∧ ∀ p ∈ out, Settled p.1 ∧ ∀ c ∈ p.1.claims, c.drifted = none := by
  obtain ⟨out, hrun, hout⟩ := settled_run steps s hs hq
  exact ⟨out, hrun, fun p hp => ⟨hout p hp, fun c hc => ((hout p hp).claims c hc).2.1⟩⟩

/-- **C15_fresh_claim_settled** — a NodeClaim created from the NodePool (annotations = the NodePool's current hash and
    version, as `NewNodeClaimTemplate` stamps them; no Drifted condition) whose labels after launch satisfy the
    NodePool's requirements (Kubernetes reading) and whose instance type / offering are listed, together with the
    NodePool after the hash controller ran, is a settled state — so `C15_no_self_drift` applies to it. -/
theorem C15_fresh_claim_settled (s : St) (hp : s.pool.ann = freshAnn s) (hv : s.prov.drift = "")
    (hc : ∀ c ∈ s.claims, c.ann = freshAnn s ∧ c.drifted = none ∧
      Readable (s.pool.pool.template.requirements.getD []) c.labels ∧
      labelsSatisfy (s.pool.pool.template.requirements.getD []) c.labels = true ∧
      instanceTypeNotFound s.prov.its c.labels s.wellKnown s.reservedLabels = false) : Settled s :=
  ⟨hp, hv, fun c hcm =>
    let ⟨h1, h2, h3, h4, h5⟩ := hc c hcm
    ⟨h1, h2, C15_no_false_requirements_drift _ _ h3 h4, h5⟩⟩

/-- Full statement (what the property demands): the labels of EVERY freshly created and launched NodeClaim satisfy its
    NodePool's requirements.  It is false for the code as it is in three recorded situations (all replayed end to end,
    corpus `c15.selfdrift/*`): a template whose own label contradicts its own requirement (hypothesis `htemplate`
    below); a custom integer label for which `Requirement.Any()` finds no canonical value; and a custom label the
    NodePool needs present whose presence requirement the scheduler lost next to a pod's `NotIn` (the last two are
    excluded by hypothesis `hdefined`).  Proved:

    **C15_launch_labels_satisfy_partial** — the labels of a launched NodeClaim are, in order of precedence, the custom
    labels resolved at creation, the template's labels (with the NodePool / NodeClass labels), and below them the
    provider's labels (`PopulateNodeClaimDetails`).  If each of the three sources only carries values the NodePool's
    expressions on that key accept (resolved labels: `C13_resolved_labels_admitted`; provider labels: the provider
    contract "Create returns labels satisfying the NodeClaim's requirements"; template labels: a consistent NodePool),
    and every key some expression needs present is defined by one of them, then the final labels satisfy every
    requirement expression — whatever shadows whatever. -/
theorem C15_launch_labels_satisfy_partial (sels : List Sel) (templateLabels resolved providerLabels : Karp.Drift.Labels)
    (htemplate : ∀ s ∈ sels, ∀ v, templateLabels.lookup s.key = some v → k8sMatch s.op s.values (some v) = true)
    (hresolved : ∀ s ∈ sels, ∀ v, resolved.lookup s.key = some v → k8sMatch s.op s.values (some v) = true)
    (hprovider : ∀ s ∈ sels, ∀ v, providerLabels.lookup s.key = some v → k8sMatch s.op s.values (some v) = true)
    (hdefined : ∀ s ∈ sels, k8sMatch s.op s.values none = false →
      ((resolved.lookup s.key).isSome || (templateLabels.lookup s.key).isSome || (providerLabels.lookup s.key).isSome) = true) :
    labelsSatisfy sels (populateLabels (Karp.Template.assign templateLabels resolved) providerLabels) = true := by
  unfold labelsSatisfy
  rw [List.all_eq_true]
  intro s hs
  have hl : (populateLabels (Karp.Template.assign templateLabels resolved) providerLabels).lookup s.key =
      ((resolved.lookup s.key).or (templateLabels.lookup s.key)).or (providerLabels.lookup s.key) := by
    unfold populateLabels Karp.Drift.assign Karp.Template.assign
    rw [List.lookup_append, List.lookup_append]
  rw [hl]
  cases h1 : resolved.lookup s.key with
  | some v => simpa using hresolved s hs v h1
  | none =>
    cases h2 : templateLabels.lookup s.key with
    | some v => simpa using htemplate s hs v h2
    | none =>
      cases h3 : providerLabels.lookup s.key with
      | some v => simpa using hprovider s hs v h3
      | none =>
        simp only [Option.or_none]
        cases hm : k8sMatch s.op s.values none with
        | true => rfl
        | false =>
          have := hdefined s hs hm
          simp [h1, h2, h3] at this

/-! ## The launch under failing API writes, and capacity that sells out -/

/-- **C15_launch_creates_once** — along every history of lifecycle reconciles of a fresh NodeClaim, whichever API writes
    fail (any write of any reconcile, any number of times), `CloudProvider.Create` is called at most once: a launch whose
    write-back failed is replayed from the cache, never repeated. -/
theorem C15_launch_creates_once (l0 p : Karp.Drift.Labels) (fs : List Nat) :
    (launchFinal { labels := l0 } p fs).creates ≤ 1 := by
  have h := launchInv_final l0 p fs _ (launchInv_init l0 p)
  rcases h.creates with ⟨h0, _⟩ | ⟨h1, _⟩
  · rw [h0]; exact Nat.zero_le 1
  · rw [h1]; exact Nat.le_refl 1

/-- **C15_launch_replay_keeps_launch_choice** (invariant over ALL histories of reconciles and write failures) — in every
    state in which the stored NodeClaim is `Launched`, it carries, key by key, exactly the labels of
    `PopulateNodeClaimDetails` applied to the labels it was created with and the provider's answer: its own labels, and
    below them the provider's (instance type, zone, capacity type, …) — also when the metadata or the status patch
    failed first and the launch was replayed from the cache, once or repeatedly. -/
theorem C15_launch_replay_keeps_launch_choice (l0 p : Karp.Drift.Labels) (fs : List Nat) :
    ∀ r ∈ launchRun { labels := l0 } p fs, r.1.launched = true →
      ∀ k, r.1.labels.lookup k = (populateLabels l0 p).lookup k :=
  fun r hr hl => (launchInv_run l0 p fs _ (launchInv_init l0 p) r hr).launched hl

/-- … hence the drift verdicts on it are those of the undisturbed launch: whatever the NodePool's requirements, the
    labels of a NodeClaim launched through any history of write failures satisfy them exactly when the labels of the
    undisturbed launch do (to which `C15_launch_labels_satisfy_partial` applies). -/
theorem C15_launch_replay_labels_satisfy (sels : List Sel) (l0 p : Karp.Drift.Labels) (fs : List Nat)
    (hl : (launchFinal { labels := l0 } p fs).launched = true) :
    labelsSatisfy sels (launchFinal { labels := l0 } p fs).labels = labelsSatisfy sels (populateLabels l0 p) := by
  have h := (launchInv_final l0 p fs _ (launchInv_init l0 p)).launched hl
  unfold labelsSatisfy
  apply List.all_congr rfl
  intro s
  rw [h s.key]

/-- a reconcile none of whose writes fails leaves the NodeClaim Launched, from every state (cache filled or not): the
    histories of the two theorems above do reach `Launched` -/
theorem C15_launch_clean_reconcile_launches (s : LaunchSt) (p : Karp.Drift.Labels) :
    (launchReconcile s p 0).1.launched = true ∧ (launchReconcile s p 0).2 = false :=
  launch_clean_reconcile s p

/-- **C15_sold_out_offering_is_still_offered** — `instanceTypeNotFound`, and with it the whole drift decision
    `isDrifted`, does not depend on which of the listed offerings can currently be launched into: two catalogues that list
    the same instance types and offerings and differ only in availability give the same verdict, for every NodeClaim.
    (A NodeClaim whose launch offering is sold out is not drifted by that; an offering that is REMOVED is reported.) -/
theorem C15_sold_out_offering_is_still_offered (s : St) (its' : List ITD) (c : Claim)
    (h : listed s.prov.its = listed its') :
    instanceTypeNotFound s.prov.its c.labels s.wellKnown s.reservedLabels =
      instanceTypeNotFound its' c.labels s.wellKnown s.reservedLabels ∧
    isDrifted { s with prov := { s.prov with its := its' } } c = isDrifted s c := by
  have e := instanceTypeNotFound_listed s.prov.its its' h c.labels s.wellKnown s.reservedLabels
  refine ⟨e, ?_⟩
  unfold isDrifted
  simp only [e]

/-! ## NodeClaims created in mid-history (the provisioner runs at any point relative to the hash controller) -/

/-- **C15_create_stamps_template** — a NodeClaim the provisioner creates from the stored NodePool carries the hash of the
    template it is built from and the current hash version, has no Drifted condition, and leaves the NodePool untouched —
    whatever the NodePool's own annotations say at that moment (absent, stale after an edit, tampered with). -/
theorem C15_create_stamps_template (s s' : St) (n : String) (resolved providerLabels : Karp.Drift.Labels) (launched : Bool)
    (h : createClaim s n resolved providerLabels launched = .ok s') (hp : s.pool.present = true)
    (hnew : s.claims.any (·.name == n) = false) :
    ∃ c, s'.claims = s.claims ++ [c] ∧ c.name = n ∧ c.ann = stampOf s.pool.pool ∧ c.drifted = none ∧ s'.pool = s.pool := by
  unfold createClaim at h
  simp only [hp, hnew, Bool.not_true, Bool.or_self, Bool.false_eq_true, if_false] at h
  cases hr : s.pool.pool.template.nodeClassRef with
  | none => rw [hr] at h; simp at h
  | some r =>
    rw [hr] at h
    simp only at h
    cases hb : buildReqs (s.pool.pool.template.requirements.getD []) with
    | error x => rw [hb] at h; simp [bind, Except.bind] at h
    | ok R =>
      rw [hb] at h
      simp only [bind, Except.bind, pure, Except.pure] at h
      injection h with h; subst h
      exact ⟨_, rfl, rfl, rfl, rfl, rfl⟩

/-- the stamp does not depend on the NodePool's annotations -/
theorem C15_stamp_ignores_annotation (p : Pool) : stampOf p = { hash := some p.hashString, version := some currentVersion } := rfl

/-- **C15_created_claim_keeps_template_stamp** (invariant over ALL histories) — start in any state without a NodeClaim
    named `n`.  Along every history, of any length, of steps that neither edit the NodePool's spec nor overwrite a
    NodeClaim's annotations — creations (of `n` and of others), hash-controller runs (hash-version migrations included),
    disruption-controller reconciles, label / Launched / provider / clock changes, tampering with the NodePool's own
    annotations — every NodeClaim named `n` carries, in every state, the hash of the NodePool's current template under
    the current hash version. -/
theorem C15_created_claim_keeps_template_stamp (s : St) (n : String) (steps : List Step) (out : List (St × Bool))
    (hnew : ∀ c ∈ s.claims, c.name ≠ n) (hq : ∀ st ∈ steps, keepsStamp st = true) (hrun : run s steps = .ok out) :
    ∀ p ∈ out, ∀ c ∈ p.1.claims, c.name = n → c.ann = stampOf p.1.pool.pool :=
  tracks_run n steps s (fun c hc hn => absurd hn (hnew c hc)) hq out hrun

/-- **C15_created_claim_never_self_drifted** (invariant over ALL timely histories) — along every such history in which,
    moreover, the disruption controller reconciles only while the NodePool's annotation is up to date with its template
    (i.e. the hash controller has run since the last edit — `C15_hash_controller_stamps`) and the provider never answers
    with the reason `NodePoolDrifted`, no NodeClaim named `n` is ever reported `NodePoolDrifted`: a NodeClaim created
    between a template edit and the hash controller's next run is not drifted by that edit. -/
theorem C15_created_claim_never_self_drifted (s : St) (n : String) (steps : List Step) (out : List (St × Bool))
    (hnew : ∀ c ∈ s.claims, c.name ≠ n) (hq : timelyRun s steps = true) (hrun : run s steps = .ok out) :
    ∀ p ∈ out, ∀ c ∈ p.1.claims, c.name = n →
      c.ann = stampOf p.1.pool.pool ∧ c.drifted ≠ some Karp.Gen.C15Drift.reasonNodePoolDrifted :=
  calm_run n steps s (fun c hc hn => absurd hn (hnew c hc)) hq out hrun

/-- the hash controller brings the NodePool's annotation up to date: the hypothesis of `timely` holds after it ran -/
theorem C15_hash_controller_makes_timely (s : St) (hp : s.pool.present = true) (hm : s.poolManaged = true) :
    (hashReconcile s).pool.ann = stampOf (hashReconcile s).pool.pool := by
  obtain ⟨h1, h2⟩ := C15_hash_controller_stamps s hp hm
  rw [h1, h2]; rfl

/-- **C15_stale_window_transient** (what the hypothesis `timely` excludes; the standing assumption of manifest/C15.json,
    here as a fact of the model, replayed on the real controllers: corpus `c15.drift/006`) — while the NodePool's
    annotation is behind its template, `areStaticFieldsDrifted` compares the hash of a NodeClaim created from the NEW
    template with the annotation of the OLD one: the NodePool was stamped when its template said team=a, the template
    now says team=b, the hash controller has not run yet; a NodeClaim created now and reconciled right away is reported
    `NodePoolDrifted` — transiently: not (second part) once the hash controller has run first.  In that window the two
    clauses of the property contradict each other (the hash does differ from the NodePool's annotation under the same
    hash version), so the specification gives no verdict there. -/
def wStaleTemplate : Template :=
  { labels := some [("team", "b")], nodeClassRef := some wRef,
    requirements := some [{ key := "example.com/n", op := .gt, values := ["2"], minValues := none }] }
def wStale : St :=
  { pool := { name := "pool-a", pool := { template := wStaleTemplate },
              ann := { hash := some ({ template := { wStaleTemplate with labels := some [("team", "a")] } } : Pool).hashString,
                       version := some currentVersion } },
    claims := [], prov := { its := [{ name := "it-a", offerings := [{ reqs := [] }] }] },
    nodeClass := ("karpenter.test.sh", "TestNodeClass") }
def wProviderLabels : Karp.Drift.Labels := [("node.kubernetes.io/instance-type", "it-a"), ("topology.kubernetes.io/zone", "z1")]
/-- an outcome of the `Any()` calls: a value for the bounded custom key, and the single values of the label keys -/
def wResolved (n : String) : Karp.Drift.Labels :=
  [("example.com/n", n), ("team", "b"), ("karpenter.test.sh/testnodeclass", "default")]

theorem C15_stale_window_transient :
    (run wStale [.create "new-0" (wResolved "7") wProviderLabels true, .reconcile "new-0"]).toOption.map
      (fun out => out.map (fun p => p.1.claims.map (·.drifted))) = some [[none], [some "NodePoolDrifted"]] ∧
    (run wStale [.create "new-0" (wResolved "7") wProviderLabels true, .hashctl, .reconcile "new-0"]).toOption.map
      (fun out => out.map (fun p => p.1.claims.map (·.drifted))) = some [[none], [none], [none]] := by decide

/-! ## Several NodeClaims built from ONE in-memory NodePool object

The static-capacity code builds several NodeClaimTemplates from one NodePool object: `static.provisioning` one per missing
replica, `StaticDrift.ComputeCommands` one per drifted candidate.  Building a NodeClaim reads the NodePool and must not
write to it (the template's label map is handed out by `v1.NodeClaimTemplate.ToNodeClaim()` without a copy, so an in-place
write would change what every later `nodePool.Hash()` on that object returns). -/

/-- **C15_creation_leaves_nodepool** — along every history, of any length, of creations (by any way; a static-capacity
    controller meeting a NodePool it does not manage does nothing), the NodePool — its template, its annotations — is in
    every state what it was at the start. -/
theorem C15_creation_leaves_nodepool (steps : List Step) : ∀ (s : St) (out : List (St × Bool)),
    (∀ st ∈ steps, creationStep st = true) → run s steps = .ok out →
    ∀ p ∈ out, p.1.pool = s.pool ∧ p.1.nodeClass = s.nodeClass := by
  induction steps with
  | nil =>
    intro s out _ h p hp
    simp only [run, pure, Except.pure] at h
    injection h with h; subst h; cases hp
  | cons st rest ih =>
    intro s out hc h p hp
    simp only [run, bind, Except.bind] at h
    cases hs : step s st with
    | error x => rw [hs] at h; simp at h
    | ok r =>
      obtain ⟨s1, e⟩ := r
      rw [hs] at h
      simp only at h
      cases hr : run s1 rest with
      | error x => rw [hr] at h; simp at h
      | ok tl =>
        rw [hr] at h
        simp only [pure, Except.pure] at h
        injection h with h; subst h
        have h1 := creationStep_leaves_nodepool s s1 st e (hc st (List.mem_cons_self ..)) hs
        rcases List.mem_cons.mp hp with hp | hp
        · subst hp; exact h1
        · obtain ⟨g1, g2⟩ := ih s1 tl (fun st' hst => hc st' (List.mem_cons_of_mem _ hst)) hr p hp
          exact ⟨g1.trans h1.1, g2.trans h1.2⟩

/-- **C15_claims_of_one_nodepool_object_share_stamp** — in every state along a batch of creations of any length, by any
    mix of ways, from the NodePool of state `s`, every NodeClaim with a new name carries the hash of `s`'s template and the
    current hash version: the second and every further NodeClaim built from one NodePool object is stamped exactly like
    the first, so (with `C15_created_claim_never_self_drifted`) none of the replicas of a static NodePool is born
    NodePoolDrifted. -/
theorem C15_claims_of_one_nodepool_object_share_stamp (s : St) (b : List Creation) (n : String) (out : List (St × Bool))
    (hnew : ∀ c ∈ s.claims, c.name ≠ n) (hrun : run s (batchSteps s b) = .ok out) :
    ∀ p ∈ out, p.1.pool = s.pool ∧ ∀ c ∈ p.1.claims, c.name = n → c.ann = stampOf s.pool.pool := by
  have hcs : ∀ st ∈ batchSteps s b, creationStep st = true := by
    intro st hst
    simp only [batchSteps, List.mem_map] at hst
    obtain ⟨c, _, rfl⟩ := hst
    exact creationStep_createStep s c
  intro p hp
  have hpool := (C15_creation_leaves_nodepool (batchSteps s b) s out hcs hrun p hp).1
  refine ⟨hpool, ?_⟩
  intro c hc hn
  have := C15_created_claim_keeps_template_stamp s n (batchSteps s b) out hnew
    (fun st hst => creationStep_keepsStamp st (hcs st hst)) hrun p hp c hc hn
  rw [this, hpool]

/-- on a NodePool the provider manages every way of creation is the creation `createClaim` models -/
theorem C15_static_batch_of_managed_nodepool_creates (s : St) (v : Via) (n : String) (r p : Karp.Drift.Labels) (l : Bool)
    (hm : s.poolManaged = true) : createStep s v n r p l = .create n r p l := by
  simp [createStep, hm]

/-- the static-capacity controllers do nothing for a NodePool they do not manage -/
theorem C15_static_controllers_skip_unmanaged (s : St) (v : Via) (n : String) (r p : Karp.Drift.Labels) (l : Bool)
    (hv : v.managedOnly = true) (hm : s.poolManaged = false) : step s (createStep s v n r p l) = .ok (s, false) := by
  simp [createStep, hv, hm, step, pure, Except.pure]

/-- non-vacuity: replicas of a static NodePool whose template carries a label (the hypotheses of the batch theorem hold
    and the run succeeds), and an unmanaged NodePool the static controllers skip -/
example : (run wStale (batchSteps wStale [(.static, "new-0", wResolved "7", wProviderLabels, true),
      (.staticDrift, "new-1", wResolved "3", wProviderLabels, false)])).toOption.map
      (fun out => out.map (fun p => p.1.claims.map (fun c => (c.name, c.ann.version, c.launched)))) =
    some [[("new-0", some currentVersion, true)], [("new-0", some currentVersion, true), ("new-1", some currentVersion, false)]] := by decide
example : wStale.poolManaged = true ∧ ({ wStale with nodeClass := ("other", "Other") } : St).poolManaged = false := by decide


/-! ## Non-vacuity -/

def wTaint2 : Taint := { key := "gpu", value := "true", effect := "NoExecute" }
def wA : Template :=
  { labels := some [("team", "a"), ("tier", "b")], taints := some [wTaint, wTaint2], nodeClassRef := some wRef,
    requirements := some [wSel], tgp := some 30000000000, expireAfter := some 2592000000000000, expireAfterRaw := some "\"720h\"" }
def wB : Template :=
  { labels := some [("tier", "b"), ("team", "a")], taints := some [wTaint2, wTaint], nodeClassRef := some wRef,
    requirements := none, tgp := some 30000000000, expireAfter := some 2592000000000000, expireAfterRaw := some "\"43200m\"" }

/-- the hypotheses on the primitives are met by the FNV instance (lawful) and by a symbolic instance (lawful and
    collision-free) -/
example : Lawful fnvPrims := fnvPrims_lawful
example : Lawful symPrims ∧ CollisionFree symPrims := ⟨symPrims_lawful, symPrims_collisionFree⟩

/-- a reordered template with different requirements and a different spelling of expireAfter: same up to order … -/
example : SameUpToOrder wA wB :=
  ⟨List.Perm.swap _ _ _, OptPerm.refl _, List.Perm.swap _ _ _, OptPerm.refl _, rfl, rfl, rfl⟩
/-- … the specification says "must be equal", and the real hash values (FNV instance) are equal -/
example : fingerprintVerdict { template := wA } { template := wB, outside := { weight := some 10 } } = .mustEqual := by decide
example : hashTemplate fnvPrims wA = hashTemplate fnvPrims wB := by decide
/-- a changed label value: "must differ", and the real values differ -/
example : fingerprintVerdict { template := wA } { template := { wA with labels := some [("team", "a"), ("tier", "c")] } } = .mustDiffer := by decide
example : hashTemplate fnvPrims wA ≠ hashTemplate fnvPrims { wA with labels := some [("team", "a"), ("tier", "c")] } := by decide

/-- the hypotheses of `C15_sensitive_partial` on a concrete pair (terminationGracePeriod 30s → 31s, symbolic primitives) -/
example : hashTemplate symPrims wA ≠ hashTemplate symPrims { wA with tgp := some 31000000000 } := by
  apply C15_sensitive_partial symPrims symPrims_lawful symPrims_collisionFree wA _ .tgp
  · intro g; cases g <;> rfl
  · rfl
  · rfl
  · intro g hg; cases g <;> first | rfl | exact absurd rfl hg
  · decide

def wSels : List Sel :=
  [{ key := "team", op := .in_, values := ["a", "b"], minValues := none },
   { key := "example.com/n", op := .gt, values := ["2"], minValues := none },
   { key := "example.com/n", op := .notIn, values := ["5"], minValues := none },
   { key := "tier", op := .doesNotExist, values := [], minValues := none }]
def wGood : Karp.Drift.Labels := [("karpenter.sh/nodepool", "pool-a"), ("team", "a"), ("example.com/n", "07")]

/-- a readable requirement list (two expressions on one key, four operators) with labels that satisfy it … -/
example : Readable wSels wGood :=
  ⟨by decide, by decide, by decide, by decide⟩
example : labelsSatisfy wSels wGood = true := by decide
/-- … and labels that violate it through a PRESENT label (the unconditional branch of `C15_drift_detects_partial`) -/
example : k8sMatch .in_ ["a", "b"] (([("team", "c")] : Karp.Drift.Labels).lookup "team") = false := by decide
/-- one expression per key: the hypotheses of `C15_drift_detects_one_expression_per_key` on a concrete NodePool -/
def wSels1 : List Sel :=
  [{ key := "team", op := .in_, values := ["a", "b"], minValues := none },
   { key := "example.com/n", op := .gt, values := ["2"], minValues := none },
   { key := "tier", op := .doesNotExist, values := [], minValues := none }]
example : (∀ s ∈ wSels1, noExtreme s = true) ∧ (wSels1.map (fun s => normalizeKey s.key)).Nodup ∧ Readable wSels1 wGood :=
  ⟨by decide, by decide, ⟨by decide, by decide, by decide, by decide⟩⟩
/-- `Faithful` holds, e.g., for a single `In` expression -/
example : Faithful [wSel] := by
  intro k r hl habs s hs hk
  simp only [List.mem_singleton] at hs
  subst hs
  have hk' : k = "team" := by rw [← hk]; decide
  subst hk'
  have : r = selReq wSel := by
    have : (Reqs.add [] ([wSel].map selReq)).lookup "team" = some (selReq wSel) := by decide
    rw [this] at hl; exact (Option.some.inj hl).symm
  subst this
  exact absurd habs (by decide)

/-- a settled state: one launched NodeClaim stamped with the NodePool's current annotations -/
def wPool : Pool := { template := { wA with requirements := some wSels } }
def wState : St :=
  { pool := { name := "pool-a", pool := wPool, ann := { hash := some wPool.hashString, version := some currentVersion } },
    claims := [{ name := "nc-0", labels := wGood ++ [("node.kubernetes.io/instance-type", "it-a")],
                 ann := { hash := some wPool.hashString, version := some currentVersion } }],
    prov := { its := [{ name := "it-a", offerings := [{ reqs := [] }] }] } }

example : Settled wState :=
  ⟨rfl, rfl, by
    intro c hc
    simp only [wState, List.mem_singleton] at hc
    subst hc
    exact ⟨rfl, rfl, by rfl, by decide⟩⟩

/-- the launch theorems on a concrete history: the metadata patch fails, then the status patch fails, then an
    undisturbed reconcile — `Create` was called once, the NodeClaim is Launched and carries zone and instance type -/
example : (launchRun { labels := wGood } wProviderLabels [2, 2, 0]).map (fun r => (r.1.launched, r.1.creates, r.2)) =
    [(false, 1, true), (false, 1, true), (true, 1, false)] ∧
    (launchFinal { labels := wGood } wProviderLabels [2, 2, 0]).labels.lookup "topology.kubernetes.io/zone" = some "z1" := by decide

/-- the hypothesis of `C15_sold_out_offering_is_still_offered`: the same catalogue with the only offering sold out; the
    NodeClaim's instance type is found in both — and not once the offering is removed -/
example : listed wState.prov.its = listed [{ name := "it-a", offerings := [{ reqs := [], available := false }] }] ∧
    instanceTypeNotFound [{ name := "it-a", offerings := [{ reqs := [], available := false }] }]
      (wGood ++ [("node.kubernetes.io/instance-type", "it-a")]) [] [] = false ∧
    instanceTypeNotFound [{ name := "it-a", offerings := [] }]
      (wGood ++ [("node.kubernetes.io/instance-type", "it-a")]) [] [] = true := by decide

/-- the migration theorem's hypotheses: an un-drifted NodeClaim with an old hash version -/
example : staticDrifted { hash := some "new", version := some currentVersion }
    (migrateClaim "new" { name := "nc", labels := [], ann := { hash := some "old", version := some "v2" } }).ann = false := by decide

/-- the hypotheses of `C15_created_claim_never_self_drifted` on the interleaving "NodePool stamped → template edited →
    NodeClaim created → hash controller → reconcile": the history is timely, and the name is new -/
example : timelyRun wStale [.create "new-0" (wResolved "7") wProviderLabels true, .hashctl, .reconcile "new-0", .advance 1,
    .create "new-1" (wResolved "3") wProviderLabels true, .reconcile "new-1"] = true := by decide
example : ∀ c ∈ wStale.claims, c.name ≠ "new-0" := by intro c hc; cases hc
/-- … and the `Any()` outcome used there is one the relation allows, the created labels satisfy the NodePool's requirement -/
example : (templateReqs (wStaleTemplate.requirements.getD []) (templateLabels "pool-a" wStaleTemplate wRef)).toOption.map
    (fun R => resolvedAllowed Karp.Gen.Labels.wellKnownLabels R (wResolved "7") &&
              !resolvedAllowed Karp.Gen.Labels.wellKnownLabels R (wResolved "2")) = some true := by decide

end Karp.C15
