/- C15: property theorems (stub, not yet built) -/
namespace Karp.C15
end Karp.C15
