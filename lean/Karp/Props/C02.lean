/- C02: property theorems (stub, not yet built) -/
namespace Karp.C02
end Karp.C02
