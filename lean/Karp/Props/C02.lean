/-
C02 — property theorems over the TopologyGroup model (`Karp/Model/Topo.lean`).

The property is about the end state of a whole scheduling pass; the pass reaches that state through one
mechanism: for every pod and every candidate node it asks each topology group for the admissible domains
(`TopologyGroup.Get`), and after committing it `Record`s the placement.  The theorems below state, for every
group state reachable by any sequence of `Record`/`Register`/`Unregister` calls and for every pair of
pod/node domain requirements, what `Get` can return, and lift that to unbounded sequences of
ask-then-record steps:

* anti-affinity : only domains with count zero are offered, so however many self-matching pods are placed a
                  domain's count never passes `max initial 1` (`C02_anti_*`);
* affinity      : an offered domain holds a match, or the pod matches itself and no domain it can use holds
                  one, and then exactly one domain is offered; a self-matching set therefore ends in one
                  domain (`C02_affinity_*`);
* spread        : the offered domain satisfies `count + self − globalMin ≤ maxSkew` with the kube-scheduler
                  reading of `globalMin` (zero below `minDomains`), so the skew among the counted domains never
                  passes `max initial maxSkew` over any number of placements (`C02_spread_*`).

The link to the end state of the real pass is the whole-pass oracle `c02.pass` (Karp/Spec/InterPod.lean);
the link of this model to `topologygroup.go` is the op-sequence correspondence `c02.group`.
-/
import Karp.Proofs.Topo
import Karp.Spec.TopoSpec

namespace Karp.C02
open Karp.Req Karp.Topo Karp.Spec.Topo

/-! ## the index -/

/-- every state reachable from `NewTopologyGroup` keeps `emptyDomains` = "registered with count zero" -/
theorem C02_index_invariant (kind : Kind) (isHost : Bool) (maxSkew : Int) (minDomains : Option Int) (ai : Bool)
    (ds : List Val) (ops : List Topo.Op) :
    ((TG.new kind isHost maxSkew minDomains ai ds).run ops).Inv :=
  inv_run _ _ (inv_new ..)

/-! ## anti-affinity -/

/-- `nextDomainAntiAffinity` offers only domains in which no matching pod has been counted -/
theorem C02_anti_sound (t : TG) (h : t.Inv) (pod node : Req) (d : Val) (hd : d ∈ t.antiGet pod node) :
    t.domains.cnt d = 0 := by
  have hz : ∀ x, x ∈ t.empty → t.domains.cnt x = 0 := fun x hx =>
    cnt_of_cnt? _ _ _ ((h.emptyIff x).1 hx)
  unfold TG.antiGet at hd
  split at hd
  · split at hd
    · rename_i hc
      simp only [List.mem_singleton] at hd
      rw [hd]; simpa using hc
    · simp at hd
  · split at hd
    · rw [List.mem_filter] at hd
      simp only [Bool.and_eq_true, decide_eq_true_eq] at hd
      exact hz d hd.2.1
    · rw [List.mem_filter] at hd
      exact hz d hd.1

/-- outside the single-hostname shortcut the offered domains are also ones the pod's own requirements allow -/
theorem C02_anti_pod_compatible (t : TG) (pod node : Req) (d : Val) (hd : d ∈ t.antiGet pod node)
    (hns : ¬ (t.isHost = true ∧ ∃ h, vals node = [h])) : pod.has d = true := by
  unfold TG.antiGet at hd
  split at hd
  · rename_i h1 h2
    exact absurd ⟨h1, _, h2⟩ hns
  · split at hd
    · rw [List.mem_filter] at hd
      simp only [Bool.and_eq_true] at hd
      exact hd.2.2
    · rw [List.mem_filter] at hd
      simp only [Bool.and_eq_true] at hd
      exact hd.2.2

/-- one scheduling step of a pod that carries and matches the term: ask, then block every offered domain the
    node may still end up in (`Topology.Record` records *all* candidate domains for anti-affinity) -/
structure AntiStep where
  pod    : Req
  node   : Req
  chosen : List Val

inductive AntiTrace : TG → List AntiStep → Prop
  | nil (t : TG) : AntiTrace t []
  | cons (t : TG) (s : AntiStep) (rest : List AntiStep)
      (hn : s.chosen.Nodup) (hsub : ∀ d ∈ s.chosen, d ∈ t.antiGet s.pod s.node)
      (hrest : AntiTrace (t.record s.chosen) rest) : AntiTrace t (s :: rest)

def antiRun (t : TG) (steps : List AntiStep) : TG := steps.foldl (fun t s => t.record s.chosen) t

/-- over any number of placements a domain never receives a second matching pod -/
theorem C02_anti_never_doubles (t : TG) (h : t.Inv) (steps : List AntiStep) (ht : AntiTrace t steps) (d : Val) :
    (antiRun t steps).domains.cnt d ≤ max (t.domains.cnt d) 1 := by
  induction ht with
  | nil t => simp only [antiRun, List.foldl_nil]; omega
  | cons t s rest hn hsub _ ih =>
    have hinv : (t.record s.chosen).Inv := inv_foldl _ inv_record1 _ _ h
    have hstep : (t.record s.chosen).domains.cnt d ≤ max (t.domains.cnt d) 1 := by
      rw [cnt_record t s.chosen hn d]
      by_cases hd : d ∈ s.chosen
      · have := C02_anti_sound t h s.pod s.node d (hsub d hd)
        simp [hd, this]
      · simp [hd]; omega
    have := ih hinv
    simp only [antiRun, List.foldl_cons] at this ⊢
    omega

/-! ## affinity -/

/-- a determined answer of `nextDomainAffinity`: every offered domain is allowed by the pod and holds a match,
    or the pod matches itself, no usable domain holds a match, and it is the only domain offered -/
theorem affOpts_sound (t : TG) (pod node : Req) (d : Val) (hd : d ∈ t.affOpts pod node) :
    pod.has d = true ∧ 0 < t.domains.cnt d := by
  unfold TG.affOpts at hd
  split at hd
  · rw [List.mem_filter] at hd
    simp only [Bool.and_eq_true] at hd
    exact ⟨hd.2.1, (positive_iff t d).1 hd.2.2⟩
  · rw [List.mem_filter] at hd
    simp only [Bool.and_eq_true] at hd
    exact ⟨hd.2.1.1, (positive_iff t d).1 hd.2.1.2⟩

theorem affBoot_cases (t : TG) (pod node : Req) :
    t.affBoot pod node = .fixed [] ∨
    ∃ cs, t.affBoot pod node = .pick cs ∧ ∀ d ∈ cs, pod.has d = true ∧ (t.domains.cnt? d).isSome = true := by
  unfold TG.affBoot
  simp only
  split
  · refine Or.inr ⟨_, rfl, fun d hd => ?_⟩
    rw [List.mem_filter, has_inter] at hd
    simp only [Bool.and_eq_true] at hd
    exact ⟨hd.2.1, (mem_keys _ _).1 hd.1⟩
  · split
    · refine Or.inr ⟨_, rfl, fun d hd => ?_⟩
      rw [List.mem_filter] at hd
      exact ⟨hd.2, (mem_keys _ _).1 hd.1⟩
    · exact Or.inl rfl

/-- a determined answer of `nextDomainAffinity`: every offered domain is allowed by the pod and holds a match,
    or the pod matches itself, no usable domain holds a match, and it is the only domain offered -/
theorem C02_affinity_fixed (t : TG) (h : t.Inv) (self : Bool) (pod node : Req) (ds : List Val)
    (e : t.affGet self pod node = .fixed ds) (d : Val) (hd : d ∈ ds) :
    pod.has d = true ∧ (0 < t.domains.cnt d ∨ (self = true ∧ NoCompat t pod ∧ ds = [d])) := by
  unfold TG.affGet at e
  split at e
  · -- hostname shortcut
    split at e
    · injection e with e; subst e; simp at hd
    · rename_i hp
      split at e
      · rename_i hc
        injection e with e; subst e
        simp only [List.mem_singleton] at hd; subst hd
        exact ⟨by simpa using hp, Or.inl hc⟩
      · split at e
        · rename_i hb
          injection e with e; subst e
          simp only [List.mem_singleton] at hd; subst hd
          have := bootstrap_sound t h self pod hb
          exact ⟨by simpa using hp, Or.inr ⟨this.1, this.2, rfl⟩⟩
        · injection e with e; subst e; simp at hd
  · split at e
    · injection e with e; subst e
      have := affOpts_sound t pod node d hd
      exact ⟨this.1, Or.inl this.2⟩
    · split at e
      · rcases affBoot_cases t pod node with hb | ⟨cs, hb, _⟩
        · rw [hb] at e; injection e with e; subst e; simp at hd
        · rw [hb] at e; cases e
      · injection e with e; subst e; simp at hd

/-- a bootstrap answer: the pod matches itself, no domain it can use holds a match, and every candidate is a
    registered domain the pod allows (the implementation offers exactly one of them) -/
theorem C02_affinity_pick (t : TG) (h : t.Inv) (self : Bool) (pod node : Req) (cs : List Val)
    (e : t.affGet self pod node = .pick cs) :
    self = true ∧ NoCompat t pod ∧ ∀ d ∈ cs, pod.has d = true ∧ (t.domains.cnt? d).isSome = true := by
  unfold TG.affGet at e
  split at e
  · split at e
    · cases e
    · split at e
      · cases e
      · split at e <;> cases e
  · split at e
    · cases e
    · split at e
      · rename_i hb
        have hbs := bootstrap_sound t h self pod hb
        rcases affBoot_cases t pod node with hb' | ⟨cs', hb', hcs⟩
        · rw [hb'] at e; cases e
        · rw [hb'] at e; injection e with e; subst e
          exact ⟨hbs.1, hbs.2, hcs⟩
      · cases e

/-- the domains of the pod's requirement that hold a match are at most one -/
def AtMostOne (t : TG) (P : Req) : Prop :=
  ∀ d d', P.has d = true → P.has d' = true → 0 < t.domains.cnt d → 0 < t.domains.cnt d' → d = d'

/-- the implementation's answer `[d]` is one the model allows -/
def affChosen (t : TG) (self : Bool) (pod node : Req) (d : Val) : Prop :=
  (∃ ds, t.affGet self pod node = .fixed ds ∧ d ∈ ds) ∨ (∃ cs, t.affGet self pod node = .pick cs ∧ d ∈ cs)

theorem C02_affinity_step (t : TG) (h : t.Inv) (P node : Req) (d : Val) (hA : AtMostOne t P)
    (hc : affChosen t true P node d) : AtMostOne (t.record1 d) P := by
  have key : P.has d = true ∧ (0 < t.domains.cnt d ∨ NoCompat t P) := by
    rcases hc with ⟨ds, e, hd⟩ | ⟨cs, e, hd⟩
    · have := C02_affinity_fixed t h true P node ds e d hd
      exact ⟨this.1, this.2.imp id (fun x => x.2.1)⟩
    · have := C02_affinity_pick t h true P node cs e
      exact ⟨(this.2.2 d hd).1, Or.inr this.2.1⟩
  intro x y hx hy hpx hpy
  rw [cnt_record1] at hpx hpy
  rcases key.2 with hpos | hno
  · have hx' : 0 < t.domains.cnt x := by
      by_cases e : x = d
      · rw [e]; exact hpos
      · simpa [e] using hpx
    have hy' : 0 < t.domains.cnt y := by
      by_cases e : y = d
      · rw [e]; exact hpos
      · simpa [e] using hpy
    exact hA x y hx hy hx' hy'
  · have zero : ∀ z, P.has z = true → z ≠ d → ¬ 0 < t.domains.cnt z := by
      intro z hz _ hp
      obtain ⟨c, hc1, hc2⟩ := (cnt_pos_iff _ _).1 hp
      have := hno z c hc1 hz
      omega
    by_cases ex : x = d
    · by_cases ey : y = d
      · rw [ex, ey]
      · exact absurd (by simpa [ey] using hpy) (zero y hy ey)
    · exact absurd (by simpa [ex] using hpx) (zero x hx ex)

inductive AffTrace (P : Req) : TG → List (Req × Val) → Prop
  | nil (t : TG) : AffTrace P t []
  | cons (t : TG) (node : Req) (d : Val) (rest : List (Req × Val))
      (hc : affChosen t true P node d) (hrest : AffTrace P (t.record1 d) rest) : AffTrace P t ((node, d) :: rest)

def affRun (t : TG) (steps : List (Req × Val)) : TG := steps.foldl (fun t s => t.record1 s.2) t

/-- a set of pods that match their own required affinity term and share their node requirements ends, over any
    number of ask-then-record steps on any candidate nodes, with all its matches in one domain -/
theorem C02_affinity_single_domain (P : Req) (t : TG) (h : t.Inv) (hA : AtMostOne t P)
    (steps : List (Req × Val)) (ht : AffTrace P t steps) : AtMostOne (affRun t steps) P := by
  induction ht with
  | nil t => exact hA
  | cons t node d rest hc _ ih =>
    exact ih (inv_record1 t d h) (C02_affinity_step t h P node d hA hc)

/-! ## topology spread -/

theorem spreadValid_sound (t : TG) (self : Bool) (pod node : Req) (d : Val)
    (hd : d ∈ t.spreadValid self pod node) :
    (t.domains.cnt d : Int) + selfInc self - floor t (t.sup pod) ≤ t.maxSkew ∧ (t.domains.cnt? d).isSome = true := by
  unfold TG.spreadValid at hd
  rw [List.mem_filter] at hd
  have h1 := of_decide_eq_true hd.2
  have h2 := minCount_le_floor t (t.sup pod)
  refine ⟨by omega, ?_⟩
  have hc := hd.1
  unfold TG.spreadCand at hc
  split at hc
  · rw [List.mem_filter] at hc; exact hc.2
  · rw [List.mem_filter] at hc; exact (mem_keys _ _).1 hc.1

theorem spreadGet_cases (t : TG) (self : Bool) (pod node : Req) :
    (∃ h, t.isHost = true ∧
      t.spreadGet self pod node =
        if (t.domains.cnt h : Int) + selfInc self ≤ t.maxSkew then ⟨[h], [h]⟩ else ⟨[], []⟩) ∨
    t.spreadGet self pod node =
      ⟨t.spreadValid self pod node, t.least (selfInc self) (t.spreadValid self pod node)⟩ := by
  unfold TG.spreadGet
  split
  · rename_i h hh _
    exact Or.inl ⟨h, hh, rfl⟩
  · exact Or.inr rfl

/-- what `nextDomainTopologySpread` returns is a valid domain: with the pod counted in, it stays within `maxSkew`
    of the floor (zero for hostname, else the kube-scheduler global minimum, which the code lowers to zero while
    fewer than `minDomains` domains are eligible) -/
theorem C02_spread_sound (t : TG) (self : Bool) (pod node : Req) (d : Val)
    (hd : d ∈ (t.spreadGet self pod node).choices) :
    d ∈ (t.spreadGet self pod node).valid ∧
    (t.domains.cnt d : Int) + selfInc self - floor t (t.sup pod) ≤ t.maxSkew := by
  rcases spreadGet_cases t self pod node with ⟨h, hh, e⟩ | e
  · rw [e] at hd ⊢
    by_cases hc : (t.domains.cnt h : Int) + selfInc self ≤ t.maxSkew
    · rw [if_pos hc] at hd ⊢
      simp only [List.mem_singleton] at hd; subst hd
      refine ⟨by simp, ?_⟩
      simp only [floor, hh, if_true]; omega
    · rw [if_neg hc] at hd; simp at hd
  · rw [e] at hd ⊢
    have hv : d ∈ t.spreadValid self pod node := by
      unfold TG.least at hd
      exact (List.mem_filter.1 hd).1
    exact ⟨hv, (spreadValid_sound t self pod node d hv).1⟩

/-- … and among the valid domains it is a least-loaded one -/
theorem C02_spread_least (t : TG) (self : Bool) (pod node : Req) (d d' : Val)
    (hd : d ∈ (t.spreadGet self pod node).choices) (hd' : d' ∈ (t.spreadGet self pod node).valid) :
    t.domains.cnt d ≤ t.domains.cnt d' := by
  rcases spreadGet_cases t self pod node with ⟨h, hh, e⟩ | e
  · rw [e] at hd hd'
    by_cases hc : (t.domains.cnt h : Int) + selfInc self ≤ t.maxSkew
    · rw [if_pos hc] at hd hd'
      simp only [List.mem_singleton] at hd hd'; rw [hd, hd']; exact Nat.le_refl _
    · rw [if_neg hc] at hd; simp at hd
  · rw [e] at hd hd'
    unfold TG.least at hd
    rw [List.mem_filter] at hd
    have hb := hd.2
    simp only [beq_iff_eq] at hb
    have := (le_foldl_min' (fun x => (t.domains.cnt x : Int) + selfInc self) (t.spreadValid self pod node) maxI32
      ((t.domains.cnt d : Int) + selfInc self)).1 (by rw [← hb]; exact Int.le_refl _)
    have h3 : (t.domains.cnt d : Int) + selfInc self ≤ (t.domains.cnt d' : Int) + selfInc self := this.2 d' hd'
    omega

/-- the skew over the domains that count: every such domain is within `K` of the floor -/
def SkewOK (t : TG) (s : Val → Bool) (K : Int) : Prop :=
  ∀ d, s d = true → (t.domains.cnt d : Int) - floor t s ≤ K

theorem floor_mono_record1 (t : TG) (h : t.Inv) (s : Val → Bool) (d : Val)
    (hreg : t.isHost = false → (t.domains.cnt? d).isSome = true) :
    floor t s ≤ floor (t.record1 d) s := by
  unfold floor
  have hi : (t.record1 d).isHost = t.isHost := rfl
  rw [hi]
  by_cases hh : t.isHost = true
  · simp [hh]
  · have hh' : t.isHost = false := by simpa using hh
    rw [hh']
    show gmin t s ≤ gmin (t.record1 d) s
    rw [le_gmin_iff _ (inv_record1 t d h).keysNodup]
    have self := (le_gmin_iff t h.keysNodup s (gmin t s)).1 (Int.le_refl _)
    refine ⟨self.1, fun x c hc hs => ?_⟩
    simp only [TG.record1, cnt?_put] at hc
    by_cases hx : x = d
    · simp only [hx, if_true, Option.some.injEq] at hc
      obtain ⟨c0, hc0⟩ := Option.isSome_iff_exists.1 (hreg hh')
      have h1 := self.2 d c0 hc0 (hx ▸ hs)
      have h2 := cnt_of_cnt? _ _ _ hc0
      omega
    · simp only [hx, if_false] at hc
      exact self.2 x c hc hs

/-- one ask-then-record step of a pod that carries and matches the constraint keeps the skew bound -/
theorem C02_spread_step (t : TG) (h : t.Inv) (pod node : Req) (d : Val) (K : Int) (hK : t.maxSkew ≤ K)
    (hd : d ∈ (t.spreadGet true pod node).choices)
    (hok : SkewOK t (t.sup pod) K) : SkewOK (t.record1 d) ((t.record1 d).sup pod) K := by
  have hsup : (t.record1 d).sup pod = t.sup pod := rfl
  rw [hsup]
  have hsound := (C02_spread_sound t true pod node d hd).2
  have hreg : t.isHost = false → (t.domains.cnt? d).isSome = true := by
    intro hh
    rcases spreadGet_cases t true pod node with ⟨_, h1, _⟩ | e
    · rw [hh] at h1; cases h1
    · rw [e] at hd
      unfold TG.least at hd
      exact (spreadValid_sound t true pod node d (List.mem_filter.1 hd).1).2
  have hfl := floor_mono_record1 t h (t.sup pod) d hreg
  intro x hx
  rw [cnt_record1]
  by_cases e : x = d
  · simp only [e, if_true]
    simp only [selfInc, if_true] at hsound
    push_cast
    omega
  · simp only [e, if_false]
    have := hok x hx
    omega

def placeRun (t : TG) (steps : List (Req × Val)) : TG := steps.foldl (fun t s => t.record1 s.2) t

inductive SpreadTrace (pod : Req) : TG → List (Req × Val) → Prop
  | nil (t : TG) : SpreadTrace pod t []
  | cons (t : TG) (node : Req) (d : Val) (rest : List (Req × Val))
      (hd : d ∈ (t.spreadGet true pod node).choices)
      (hrest : SpreadTrace pod (t.record1 d) rest) : SpreadTrace pod t ((node, d) :: rest)

/-- over any number of placements of pods that carry and match a DoNotSchedule constraint (same node
    requirements, any candidate nodes), the skew among the domains that count never passes
    `max (skew before the pass) maxSkew` -/
theorem C02_spread_never_exceeds (pod : Req) (t : TG) (h : t.Inv) (K : Int) (hK : t.maxSkew ≤ K)
    (hok : SkewOK t (t.sup pod) K) (steps : List (Req × Val)) (ht : SpreadTrace pod t steps) :
    SkewOK (placeRun t steps) ((placeRun t steps).sup pod) K := by
  induction ht with
  | nil t => exact hok
  | cons t node d rest hd _ ih =>
    exact ih (inv_record1 t d h) hK (C02_spread_step t h pod node d K hK hd hok)


theorem eraseDups_single (d : Val) : [d].eraseDups = [d] := by
  simp [List.eraseDups, List.eraseDupsBy, List.eraseDupsBy.loop]

/-! ## the executable rule used on the implementation (`Karp/Spec/TopoSpec.lean`) holds of every model answer -/

theorem C02_anti_spec (t : TG) (h : t.Inv) (pod node : Req) : antiOK t.domains (t.antiGet pod node) = true := by
  unfold antiOK
  rw [List.all_eq_true]
  intro d hd
  simp [C02_anti_sound t h pod node d hd]

theorem noCompat_all (t : TG) (h : t.Inv) (pod : Req) (hn : NoCompat t pod) :
    t.domains.all (fun p => !pod.has p.1 || p.2 == 0) = true := by
  rw [List.all_eq_true]
  intro p hp
  by_cases hh : pod.has p.1 = true
  · have := hn p.1 p.2 (cnt?_of_mem _ h.keysNodup _ _ hp) hh
    simp [this]
  · simp [hh]

theorem C02_affinity_spec_fixed (t : TG) (h : t.Inv) (self : Bool) (pod node : Req) (ds : List Val)
    (e : t.affGet self pod node = .fixed ds) : affinityOK t.domains self pod.has ds = true := by
  unfold affinityOK
  rw [List.all_eq_true]
  intro d hd
  have := C02_affinity_fixed t h self pod node ds e d hd
  rcases this with ⟨hp, hpos | ⟨hs, hn, hds⟩⟩
  · simp [hp, hpos]
  · simp [hp, hs, hds, noCompat_all t h pod hn, eraseDups_single]

theorem C02_affinity_spec_pick (t : TG) (h : t.Inv) (self : Bool) (pod node : Req) (cs : List Val)
    (e : t.affGet self pod node = .pick cs) (d : Val) (hd : d ∈ cs) :
    affinityOK t.domains self pod.has [d] = true := by
  have := C02_affinity_pick t h self pod node cs e
  unfold affinityOK
  simp [(this.2.2 d hd).1, this.1, noCompat_all t h pod this.2.1, eraseDups_single]

theorem globalMin_eq (t : TG) (s : Val → Bool) : globalMin t.domains t.isHost t.minDomains s = t.minCount s := by
  unfold globalMin TG.minCount
  by_cases hh : t.isHost = true
  · simp [hh]
  · simp only [hh]
    cases t.minDomains with
    | none => simp
    | some md =>
      by_cases hc : (((t.domains.filter (fun p => s p.1)).length : Nat) : Int) < md
      · simp [hc]
      · simp [hc]

theorem C02_spread_spec (t : TG) (self : Bool) (pod node : Req) (d : Val)
    (hd : d ∈ (t.spreadGet self pod node).choices) :
    spreadOK t.domains t.isHost t.maxSkew t.minDomains self (t.sup pod) [d] = true := by
  unfold spreadOK
  rw [globalMin_eq]
  have hmin : (t.domains.cnt d : Int) + selfInc self - t.minCount (t.sup pod) ≤ t.maxSkew := by
    rcases spreadGet_cases t self pod node with ⟨h, hh, e⟩ | e
    · rw [e] at hd
      by_cases hc : (t.domains.cnt h : Int) + selfInc self ≤ t.maxSkew
      · rw [if_pos hc] at hd
        simp only [List.mem_singleton] at hd; subst hd
        simp only [TG.minCount, hh, if_true]; omega
      · rw [if_neg hc] at hd; simp at hd
    · rw [e] at hd
      unfold TG.least at hd
      have hv := (List.mem_filter.1 hd).1
      unfold TG.spreadValid at hv
      exact of_decide_eq_true (List.mem_filter.1 hv).2
  simp [hmin, eraseDups_single]

/-! ## the hypotheses are satisfiable (non-vacuity) -/

def zoneIn (vs : List Val) : Req := { key := "topology.kubernetes.io/zone", complement := false, values := vs }
def zoneAny : Req := { key := "topology.kubernetes.io/zone", complement := true, values := [] }
/-- three zones, two matching pods in `a`, one in `b` -/
def exT (k : Kind) : TG := (TG.new k false 1 none false ["a", "b", "c"]).run [.record ["a", "a", "b"]]

example : (exT .spread).spreadGet true zoneAny zoneAny = ⟨["c"], ["c"]⟩ := by decide
example : (exT .spread).spreadGet true (zoneIn ["a", "b"]) (zoneIn ["a", "b"]) = ⟨["b"], ["b"]⟩ := by decide
example : SpreadTrace zoneAny (exT .spread) [(zoneAny, "c")] :=
  .cons _ _ _ _ (by decide) (.nil _)
example : (exT .anti).antiGet zoneAny zoneAny = ["c"] := by decide
example : AntiTrace (exT .anti) [⟨zoneAny, zoneAny, ["c"]⟩] :=
  .cons _ _ _ (by decide) (by decide) (.nil _)
example : ∃ ds, (exT .affinity).affGet false zoneAny (zoneIn ["b", "c"]) = .fixed ds ∧ ds = ["b"] := ⟨_, by decide, rfl⟩
example : ∃ cs, (TG.new .affinity false 1 none false ["a", "b"]).affGet true zoneAny (zoneIn ["b"]) = .pick cs ∧ cs = ["b"] :=
  ⟨_, by decide, rfl⟩
example : affChosen (TG.new .affinity false 1 none false ["a", "b"]) true zoneAny (zoneIn ["b"]) "b" :=
  Or.inr ⟨["b"], by decide, by decide⟩

end Karp.C02
