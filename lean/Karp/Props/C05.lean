/-
C05 — Disruption budgets are never exceeded.

Property theorems only (helper lemmas live in `Karp/Proofs/BudgetLemmas.lean`).
Model: `Karp/Model/Budget.lean`  (IsActive / GetAllowedDisruptions / ByReason / MustGet, BuildDisruptionBudgetMapping,
        the five methods' budget accounting, both validators, rounds with in-flight commands).
Spec:  `Karp/Spec/BudgetWindow.lean` (window `[hit, hit+d)`, percentage rounding up, applies-to, malformed ⇒ 0,
        most restrictive active budget, the counted node sets, the bound `new + already ≤ allowed`).
The cron library is a parameter (`Cron`) specified by `NextSpec` ("least activation strictly after t, or none");
its agreement with the real `robfig/cron` is sampled by the correspondence op `c05.active`.
-/
import Karp.Proofs.BudgetLemmas

namespace Karp.C05
open Karp.Budget Karp.Spec.BudgetWindow
open Karp.Gen.BudgetFacts

/-! ## Fact expectations over the regenerated facts -/

/-- "unbounded" is `math.MaxInt32`, both for an inactive budget and as the start of the minimum -/
theorem fact_unbounded : inactiveAllowed = 2147483647 ∧ initialAllowed = 2147483647 := by decide
/-- fail closed: an error anywhere makes `MustGetAllowedDisruptions` return 0 -/
theorem fact_mustErrorValue : mustErrorValue = 0 := by decide
/-- "percentages are taken of the pool's initialized nodes rounding up" -/
theorem fact_roundUp : scaledRoundUp = true ∧ scaledTotalArg = "numNodes" := by decide
theorem fact_reasons : reasonUnderutilized = "Underutilized" ∧ reasonEmpty = "Empty" ∧ reasonDrifted = "Drifted" := by decide
/-- every method charges the budget of its own reason -/
theorem fact_method_reasons :
    reasonOfEmptiness = reasonEmpty ∧ reasonOfStaticDrift = reasonDrifted ∧ reasonOfDrift = reasonDrifted ∧
    reasonOfMultiNodeConsolidation = reasonUnderutilized ∧ reasonOfSingleNodeConsolidation = reasonUnderutilized := by decide
/-- the five methods of the model are the five methods of `NewMethods` -/
theorem fact_methodOrder :
    methodOrder = ["NewEmptiness", "NewStaticDrift", "NewDrift", "NewMultiNodeConsolidation", "NewSingleNodeConsolidation"] := by decide
/-- "validators recompute after the 15s delay" -/
theorem fact_validationDelay : validationDelayNs = 15 * 1000000000 := by decide
/-- admission preconditions of `v1.Budget` (taken as hypotheses: `nodes` is `<digits>` or `<digits>%`,
    a schedule comes with a duration) -/
theorem fact_nodesPattern : nodesPattern = "^((100|[0-9]{1,2})%|[0-9]+)$" := by decide
theorem fact_budgetsRule :
    budgetsRule = "message=\"'schedule' must be set with 'duration'\",rule=\"self.all(x, has(x.schedule) == has(x.duration))\"" := by decide
theorem fact_durationPattern : durationPattern = "^((([0-9]+(h|m))|([0-9]+h[0-9]+m))(0s)?)$" := by decide
theorem fact_schedulePattern :
    schedulePattern = "^(@(annually|yearly|monthly|weekly|daily|midnight|hourly))|((.+)\\s(.+)\\s(.+)\\s(.+)\\s(.+))$" := by decide
/-- the mapping reads the cluster, lists the pools and asks `MustGetAllowedDisruptions` -/
theorem fact_mappingCalls : mappingCalls = ["DeepCopyNodes", "ListManaged", "MustGetAllowedDisruptions"] := by decide
/-- a round: candidates, then the mapping, then the method's selection, then the queue -/
theorem fact_disruptCalls :
    disruptCalls = ["GetCandidatesWithTotals", "BuildDisruptionBudgetMapping", "ComputeCommands", "StartCommand"] := by decide
/-- both validators re-list the candidates and rebuild the mapping -/
theorem fact_validatorCalls :
    emptinessValidatorCalls = ["GetCandidates", "mapCandidates", "BuildDisruptionBudgetMapping"] ∧
    consolidationValidatorCalls = ["GetCandidates", "mapCandidates", "BuildDisruptionBudgetMapping"] ∧
    isValidCalls = ["After", "validateCandidates", "validateCommand", "validateCandidates"] := by decide
/-- the three validated methods do call their validator; the accepted candidates are marked for deletion -/
theorem fact_computeCalls :
    emptinessComputeCalls = ["Validate"] ∧ multiComputeCalls = ["firstNConsolidationOption", "Validate"] ∧
    singleComputeCalls = ["computeConsolidation", "Validate"] := by decide
theorem fact_startCommandCalls :
    startCommandCalls = ["HasAny", "markDisrupted", "createReplacementNodeClaims", "MarkForDeletion"] := by decide
/-- a node already in the queue or marked for deletion is never a candidate again -/
theorem fact_newCandidateCalls : newCandidateCalls = ["HasAny", "ValidateNodeDisruptable", "ValidatePodsDisruptable"] := by decide

/-- a finished command is un-marked only if it FAILED: `Queue.Reconcile` completes the command after
    `waitOrTerminate`, and `CompleteCommand` calls `UnmarkForDeletion` under `!cmd.Succeeded`.  A succeeded command has
    deleted its candidates' NodeClaims in the API, but the cluster state learns of the deletionTimestamp only when the
    informer delivers it; until then the mark is what keeps the node in the "being deleted" count (§9). -/
theorem fact_completeGuard : completeUnmarkGuard = "!cmd.Succeeded" ∧ completeUnmarksSucceeded = false := by decide
theorem fact_queueReconcileCalls : queueReconcileCalls = ["waitOrTerminate", "CompleteCommand"] := by decide

/-! ## 1. The activity window -/

/-- **C05_active_window** — for a scheduled budget, `IsActive` is true exactly when some activation `h` of the
    schedule satisfies `h ≤ now < h + duration` (the window `[h, h+d)`), or when the cron library found no
    activation within its five-year horizon (it then answers the zero time). For every schedule, duration
    (also a missing one: `d = 0`, empty window) and instant. -/
theorem C05_active_window (cron : Cron) (hit : Int → Bool) (next : Int → Option Int) (b : Budget) (s : String) (now : Int)
    (hs : b.schedule = some s) (hc : cron s = some next) (hn : NextSpec hit next)
    (hmin : ∀ h, hit h = true → h % 60000000000 = 0) :
    isActive cron b now = some true ↔
      ((∃ h, hit h = true ∧ h ≤ now ∧ now < h + b.duration.getD 0) ∨ next (now - b.duration.getD 0) = none) := by
  rw [isActive_scheduled cron hit next b s now hs hc hn hmin, ← windowActive_iff hit hmin]
  cases windowActive hit (b.duration.getD 0) now <;> cases next (now - b.duration.getD 0) <;> simp

/-- **C05_active_restrictive** — the five-year-horizon branch can only make a budget *more* active: whenever the
    window specification says "active", so does the code. -/
theorem C05_active_restrictive (cron : Cron) (hit : Int → Bool) (next : Int → Option Int) (b : Budget) (s : String) (now : Int)
    (hs : b.schedule = some s) (hc : cron s = some next) (hn : NextSpec hit next)
    (hmin : ∀ h, hit h = true → h % 60000000000 = 0)
    (hw : windowActive hit (b.duration.getD 0) now = true) : isActive cron b now = some true := by
  rw [isActive_scheduled cron hit next b s now hs hc hn hmin, hw]; rfl

/-- a budget without schedule and duration is always active -/
theorem C05_active_always (cron : Cron) (b : Budget) (now : Int) (hs : b.schedule = none) (hd : b.duration = none) :
    isActive cron b now = some true := by
  unfold isActive; simp [hs, hd]

/-! ## 2. Percentages, counts, malformed budgets -/

/-- **C05_percent_rounds_up** — a percentage budget allows `⌈p·n/100⌉`: the least `k` with `100·k ≥ p·n`. -/
theorem C05_percent_rounds_up (p n : Nat) :
    scalePercent (p : Int) (n : Int) = (ceilPercent p n : Int) ∧
    p * n ≤ 100 * ceilPercent p n ∧ (∀ k, p * n ≤ 100 * k → ceilPercent p n ≤ k) :=
  ⟨scalePercent_eq p n, (ceilPercent_spec p n).1, (ceilPercent_spec p n).2⟩

/-- **C05_int32_truncation_safe** — `intstr.FromInt` truncates a count to int32; for an admissible (non-negative)
    count this never *increases* it (`nodes: "2147483648"` becomes negative, later clamped to 0). -/
theorem C05_int32_truncation_safe (v : Int) (h : 0 ≤ v) : wrap32 v ≤ v ∧ (v ≤ 2147483647 → wrap32 v = v) :=
  ⟨wrap32_le v h, fun h2 => wrap32_id v (by omega) h2⟩

/-- **C05_malformed_schedule_zero** — a budget whose schedule cannot be parsed makes the pool allow zero, for every
    reason (also the reasons the budget does not list), instant and pool size. -/
theorem C05_malformed_schedule_zero (cron : Cron) (bs : List Budget) (now : Int) (total : Int) (reason : String)
    (b : Budget) (hb : b ∈ bs) (s : String) (hs : b.schedule = some s) (hbad : cron s = none) :
    mustAllowed cron bs now total reason = 0 := by
  obtain ⟨_, _, h3⟩ := foldl_byReason cron now total reason bs (initialAllowed, false)
  have : (budgetAllowed cron b now total).2 = true := by
    unfold budgetAllowed isActive; simp [hs, hbad]
  have hany : bs.any (fun b => (budgetAllowed cron b now total).2) = true := List.any_eq_true.mpr ⟨b, hb, this⟩
  unfold mustAllowed allowedByReason
  simp only [h3, hany, Bool.or_true, if_true]
  rfl

/-- **C05_malformed_nodes_zero** — an *active* budget whose `nodes` is neither `<int>` nor `<int>%` makes the pool
    allow zero (the value is only read while the budget is active). -/
theorem C05_malformed_nodes_zero (cron : Cron) (bs : List Budget) (now : Int) (total : Int) (reason : String)
    (b : Budget) (hb : b ∈ bs) (hact : isActive cron b now = some true) (hbad : scaledValue b.nodes total = none) :
    mustAllowed cron bs now total reason = 0 := by
  obtain ⟨_, _, h3⟩ := foldl_byReason cron now total reason bs (initialAllowed, false)
  have : (budgetAllowed cron b now total).2 = true := by
    unfold budgetAllowed; simp [hact, hbad]
  have hany : bs.any (fun b => (budgetAllowed cron b now total).2) = true := List.any_eq_true.mpr ⟨b, hb, this⟩
  unfold mustAllowed allowedByReason
  simp only [h3, hany, Bool.or_true, if_true]
  rfl

/-! ## 3. The pool's allowance never exceeds the most restrictive active budget

FULL STATEMENT (as the property reads):

    theorem C05_allowed_le_spec (hc : CronAgrees cron hitOf) (hadm : ∀ b ∈ bs, nodesSpec b.nodes ≠ .malformed) :
        leAllowed (mustAllowed cron bs now n reason) (specAllowed hitOf bs now n reason) = true

It is FALSE for the code as found: a budget whose `reasons` is a non-nil *empty* list applies to no reason in the
code (`budget.Reasons == nil || lo.Contains(...)`), whereas "a budget applies to a reason if it lists it or lists
none".  Witness below (`C05_empty_reasons_violation`); replayed on the real code by corpus
`c05.reasons/empty-nonnil-reasons.json`; recorded as known finding `C05-empty-reasons`
(repair: `len(budget.Reasons) == 0`, `fixes/C05-empty-reasons.patch`).

Which guard the source has is a regenerated fact (`emptyReasonsApply`), and the model follows it.  The theorem is
proved under exactly the excluded guard — "the source has the repaired guard, or no budget has `reasons = some []`" —
so on a repaired tree it *is* the full statement (`C05_allowed_le_spec_when_repaired`). -/

/-- **C05_allowed_le_spec_partial** — for every budget list with admissible `nodes` values (and, on the unrepaired
    tree, no empty non-nil reason list), every instant, pool size and reason: what `MustGetAllowedDisruptions`
    returns is at most the minimum, over the budgets that are active (window spec) and apply to the reason, of
    count / `⌈p·n/100⌉`, and 0 if any schedule is unreadable. -/
theorem C05_allowed_le_spec_partial (cron : Cron) (hitOf : HitOf) (hc : CronAgrees cron hitOf)
    (bs : List Budget) (now : Int) (n : Nat) (reason : String)
    (hadm : ∀ b ∈ bs, nodesSpec b.nodes ≠ .malformed)
    (hreasons : emptyReasonsApply = true ∨ ∀ b ∈ bs, b.reasons ≠ some []) :
    leAllowed (mustAllowed cron bs now n reason) (specAllowed hitOf bs now n reason) = true :=
  allowed_le_spec cron hitOf hc bs now n reason hadm hreasons

/-- the full statement, as soon as the source has the repaired guard -/
theorem C05_allowed_le_spec_when_repaired (hfix : emptyReasonsApply = true)
    (cron : Cron) (hitOf : HitOf) (hc : CronAgrees cron hitOf)
    (bs : List Budget) (now : Int) (n : Nat) (reason : String)
    (hadm : ∀ b ∈ bs, nodesSpec b.nodes ≠ .malformed) :
    leAllowed (mustAllowed cron bs now n reason) (specAllowed hitOf bs now n reason) = true :=
  allowed_le_spec cron hitOf hc bs now n reason hadm (Or.inl hfix)

/-- the witness: `budgets: [{nodes: "0", reasons: []}]` -/
def emptyReasonsBudget : Budget := { reasons := some [], nodes := ['0'], schedule := none, duration := none }

/-- **C05_empty_reasons_violation** — the negation of the full statement on a concrete input, for the guard as found
    (`budget.Reasons == nil`): the always-active budget `{nodes: "0", reasons: []}` lists no reason, so it applies to
    "Empty" and allows 0; the code allows `MaxInt32`. Holds for every cron parameter. -/
theorem C05_empty_reasons_violation (hguard : emptyReasonsApply = false) (cron : Cron) (hitOf : HitOf) :
    mustAllowed cron [emptyReasonsBudget] 0 5 "Empty" = 2147483647 ∧
    specAllowed hitOf [emptyReasonsBudget] 0 5 "Empty" = some 0 ∧
    leAllowed (mustAllowed cron [emptyReasonsBudget] 0 5 "Empty") (specAllowed hitOf [emptyReasonsBudget] 0 5 "Empty") = false := by
  have h1 : mustAllowed cron [emptyReasonsBudget] 0 5 "Empty" = 2147483647 := by
    simp [mustAllowed, allowedByReason, byReasonStep, budgetAllowed, isActive, emptyReasonsBudget, appliesTo,
      scaledValue, initialAllowed, hguard]
    decide
  have h2 : specAllowed hitOf [emptyReasonsBudget] 0 5 "Empty" = some 0 := by
    simp [specAllowed, malformed, emptyReasonsBudget, applies, active, limit, minLimit]
    decide
  refine ⟨h1, h2, ?_⟩
  rw [h1, h2]; decide

/-- the guard is one of the two known ones (anything else is a FACT-ERROR at regeneration time) -/
theorem fact_reasonsGuard :
    (emptyReasonsApply = false ∧ reasonsGuard = "budget.Reasons == nil || lo.Contains(budget.Reasons, reason)") ∨
    (emptyReasonsApply = true ∧ reasonsGuard = "len(budget.Reasons) == 0 || lo.Contains(budget.Reasons, reason)") := by decide

/-! ## 4. The mapping -/

/-- **C05_mapping** — `BuildDisruptionBudgetMapping` publishes, per pool, `max(allowed − disrupting, 0)` where
    `allowed` is evaluated on the number of the pool's initialized nodes and `disrupting` counts, among those, the
    ones that are not ready or marked for deletion: the very sets of the specification. -/
theorem C05_mapping (cron : Cron) (p : Pool) (nodes : List Node) (now : Int) (reason : String) :
    (poolRemaining cron p nodes now reason : Int) =
      max (mustAllowed cron p.budgets now (poolSize nodes p.name) reason - (alreadyDisrupting nodes p.name : Int)) 0 := by
  unfold poolRemaining
  rw [numNodes_eq, disrupting_eq]
  omega

/-- **C05_mapping_sound** — selecting up to the published remaining allowance of a pool respects the property's
    bound `new + already ≤ most restrictive active budget`. -/
theorem C05_mapping_sound (cron : Cron) (hitOf : HitOf) (hc : CronAgrees cron hitOf) (w : World) (hg : GoodPools w.pools)
    (reason : String) (p : Pool) (hp : p ∈ w.pools) (k : Nat) (hk : k ≤ w.mapping cron reason p.name) :
    poolBoundOK hitOf p w.nodes w.now reason k = true :=
  mapping_sound cron hitOf hc w hg reason p hp k hk

/-! ## 5. Each method's selection stays within the mapping -/

/-- **C05_select_emptiness** — per pool, Emptiness takes exactly `min(mapping, #empty candidates)`: never more than
    the mapping, and only empty candidates of pools with budget. -/
theorem C05_select_emptiness (m : Mapping) (cands : List Cand) (p : String) :
    countPool p (selectEmptiness m cands) ≤ m p ∧
    countPool p (selectEmptiness m cands) = min (m p) (countPool p (cands.filter (·.empty))) ∧
    (∀ c ∈ selectEmptiness m cands, c ∈ cands ∧ c.empty = true ∧ m c.pool ≠ 0) :=
  ⟨budgetFilter_count_le _ _ _ _, budgetFilter_exact _ _ _ _, budgetFilter_sub _ _ _⟩

/-- **C05_select_multi** — whatever prefix the binary search of multi-node consolidation settles on, per pool it
    holds at most `mapping` candidates. -/
theorem C05_select_multi (m : Mapping) (cands : List Cand) (k : Nat) (p : String) :
    countPool p (selectMulti m cands k) ≤ m p :=
  Nat.le_trans (countPool_take_le p _ k) (budgetFilter_count_le _ _ _ _)

/-- **C05_select_single** — single-node consolidation picks at most one candidate, of a pool whose mapping is not
    zero (for every outcome of the scheduling simulations). -/
theorem C05_select_single (ok : Cand → Bool) (m : Mapping) (cands : List Cand) (p : String) :
    countPool p (selectFirst ok m cands).toList ≤ m p := by
  cases h : selectFirst ok m cands with
  | none => simp [countPool]
  | some c => exact countPool_single_le m c (selectFirst_some ok m cands c h).2.1 p

/-- **C05_select_drift** — drift picks at most one candidate, of a pool whose mapping is not zero. -/
theorem C05_select_drift (ok : Cand → Bool) (m : Mapping) (cands : List Cand) (p : String) :
    countPool p (selectDrift ok m cands).toList ≤ m p :=
  C05_select_single ok m (driftOrder cands) p

/-- **C05_select_static** — static drift emits, per pool, at most `min(mapping, #candidates)` single-candidate
    commands, for every reservation outcome. -/
theorem C05_select_static (m : Mapping) (over : String → Bool) (remaining : String → Int) (groups : List String)
    (hnd : groups.Nodup) (cands : List Cand) (p : String) :
    countPool p (selectStatic m over remaining groups cands) ≤ m p := by
  refine Nat.le_trans (selectStatic_count m over remaining cands p groups hnd) ?_
  split
  · exact Nat.le_refl _
  · exact Nat.zero_le _

/-! ## 6. Validation re-checks against the recomputed mapping -/

/-- **C05_validate_consolidation** — a command that passes `ConsolidationValidator.validateCandidates` fits, pool by
    pool, the mapping rebuilt at validation time, and none of its candidates is nominated. -/
theorem C05_validate_consolidation (m' : Mapping) (nominated : Cand → Bool) (cmd cur : List Cand)
    (h : validateConsolidation m' nominated cmd cur = true) (p : String) :
    countPool p cur ≤ m' p ∧ cur.length = cmd.length := by
  unfold validateConsolidation at h
  simp only [Bool.and_eq_true, beq_iff_eq] at h
  exact ⟨allWithin_count nominated cur m' h.2 p, h.1⟩

/-- **C05_validate_emptiness** — what `EmptinessValidator.validateCandidates` lets through fits the rebuilt mapping. -/
theorem C05_validate_emptiness (m' : Mapping) (nominated : Cand → Bool) (cur v : List Cand)
    (h : validateEmptiness m' nominated cur = some v) (p : String) :
    countPool p v ≤ m' p ∧ (∀ c ∈ v, c ∈ cur ∧ nominated c = false) := by
  unfold validateEmptiness at h
  split at h
  · cases h
  · simp only at h
    split at h
    · cases h
    · cases h
      refine ⟨budgetFilter_count_le _ _ _ _, ?_⟩
      intro c hc
      obtain ⟨h1, h2, _⟩ := budgetFilter_sub _ _ _ c hc
      exact ⟨h1, by simpa using h2⟩

/-! ## 7. Rounds and histories -/

/-- a step of a history is well-formed: every world the controller can compute a budget on has unique pool names
    and admissible budgets (finding `C05-empty-reasons` excluded), and static drift groups are distinct -/
def StepGood : Step → Prop
  | .env w' => GoodPools w'.pools
  | .round e => GoodPools e.later.pools ∧ e.groups.Nodup

/-- **C05_round** — one round of any method: what reaches the queue satisfies, for every pool, the property's bound
    on the world its budget was last computed on (the validation-time world for the validated methods). -/
theorem C05_round (cron : Cron) (hitOf : HitOf) (hc : CronAgrees cron hitOf) (w : World) (e : RoundEnv)
    (hw : GoodPools w.pools) (he : StepGood (.round e)) :
    ∀ p ∈ (runRound cron w e).2.pools,
      poolBoundOK hitOf p (runRound cron w e).2.nodes (runRound cron w e).2.now e.method.reason
        (countPool p.name (runRound cron w e).1) = true := by
  intro p hp
  have hgood : GoodPools (runRound cron w e).2.pools := by
    rcases runRound_world cron w e with h | h <;> rw [h]
    · exact hw
    · exact he.1
  exact mapping_sound cron hitOf hc _ hgood e.method.reason p hp _ (runRound_within cron w e he.2 p.name)

/-- **C05_rounds** — over every history (any interleaving of arbitrary environment changes and rounds of any method,
    with earlier commands still in flight, i.e. their candidates still marked), every acceptance satisfies the
    property's bound for every pool. -/
theorem C05_rounds (cron : Cron) (hitOf : HitOf) (hc : CronAgrees cron hitOf) (steps : List Step) :
    ∀ (w : World), GoodPools w.pools → (∀ s ∈ steps, StepGood s) →
      ∀ a ∈ acceptances cron w steps, ∀ p ∈ a.world.pools,
        poolBoundOK hitOf p a.world.nodes a.world.now a.method.reason (countPool p.name a.accepted) = true := by
  induction steps with
  | nil => intro w _ _ a ha; simp [acceptances] at ha
  | cons s ss ih =>
    intro w hw hs a ha p hp
    have hss : ∀ s' ∈ ss, StepGood s' := fun s' h => hs s' (List.mem_cons_of_mem _ h)
    cases s with
    | env w' =>
      simp only [acceptances, step] at ha
      exact ih w' (hs _ List.mem_cons_self) hss a ha p hp
    | round e =>
      have he : StepGood (.round e) := hs _ List.mem_cons_self
      have hgood : GoodPools (runRound cron w e).2.pools := by
        rcases runRound_world cron w e with h | h <;> rw [h]
        · exact hw
        · exact he.1
      simp only [acceptances, step] at ha
      rcases List.mem_cons.mp ha with rfl | ha
      · exact C05_round cron hitOf hc w e hw he p hp
      · exact ih { (runRound cron w e).2 with nodes := markNodes ((runRound cron w e).1.map (·.name)) (runRound cron w e).2.nodes }
          hgood hss a ha p hp

/-! ## 8. In-flight commands accumulate in the count -/

/-- "the pool's nodes that are already not ready or being deleted do not exceed the most restrictive active budget" -/
def PoolWithin (hitOf : HitOf) (w : World) (p : Pool) (reason : String) : Prop :=
  leAllowed (alreadyDisrupting w.nodes p.name : Int) (specAllowed hitOf p.budgets w.now (poolSize w.nodes p.name) reason) = true

/-- a world whose node names are unique (the cluster state is keyed by provider id / node name) -/
def NodesNodup (w : World) : Prop := (w.nodes.map (·.name)).Nodup

/-- the state after a round -/
def afterRound (cron : Cron) (w : World) (e : RoundEnv) : World := (step cron w (.round e)).1

theorem afterRound_eq (cron : Cron) (w : World) (e : RoundEnv) :
    afterRound cron w e =
      { (runRound cron w e).2 with nodes := markNodes ((runRound cron w e).1.map (·.name)) (runRound cron w e).2.nodes } := rfl

/-- **C05_inflight_counted** — the candidates a round hands to the queue are marked, hence counted as "being deleted"
    by every later mapping (until their instance terminates): each accepted node that is an initialized pool node
    is in the `alreadyDisrupting` set of the next state. -/
theorem C05_inflight_counted (cron : Cron) (w : World) (e : RoundEnv) (p : String) :
    ∀ n ∈ (afterRound cron w e).nodes, ((runRound cron w e).1.map (·.name)).contains n.name = true →
      isPoolNode p n = true → (isPoolNode p n && (!n.ready || n.marked)) = true := by
  intro n hn
  rw [afterRound_eq] at hn
  exact accepted_counted _ _ p n hn

/-- **C05_inflight_step** — a round in a quiescent environment (the validator sees the world the round started from):
    if the pool was within its budget for the method's reason, or the round accepted at least one of its nodes, then
    the pool is within that budget *after* the accepted nodes have been marked. -/
theorem C05_inflight_step (cron : Cron) (hitOf : HitOf) (hc : CronAgrees cron hitOf) (w : World) (e : RoundEnv)
    (hw : GoodPools w.pools) (hnd : NodesNodup w) (hgroups : e.groups.Nodup) (hlater : e.later = w)
    (hcands : CandsOfNodes w.nodes (e.cands ++ e.cur)) (p : Pool) (hp : p ∈ w.pools)
    (h : PoolWithin hitOf w p e.method.reason ∨ 0 < countPool p.name (runRound cron w e).1) :
    PoolWithin hitOf (afterRound cron w e) p e.method.reason := by
  have hworld : (runRound cron w e).2 = w := by
    rcases runRound_world cron w e with h | h
    · exact h
    · rw [h, hlater]
  have hsub : CandsOfNodes w.nodes (runRound cron w e).1 := by
    intro c hcm
    apply hcands c
    rw [List.mem_append]
    exact runRound_sub cron w e c hcm
  have hdis := disrupting_after_accept w.nodes hnd (runRound cron w e).1 hsub p.name
  unfold PoolWithin
  rw [afterRound_eq, hworld]
  simp only
  rw [markNodes_poolSize]
  by_cases hk : 0 < countPool p.name (runRound cron w e).1
  · -- the bound at acceptance
    have hb := C05_round cron hitOf hc w e hw ⟨by rw [hlater]; exact hw, hgroups⟩ p (by rw [hworld]; exact hp)
    rw [hworld] at hb
    unfold poolBoundOK at hb
    have hne : (countPool p.name (runRound cron w e).1 == 0) = false := by
      simp only [beq_eq_false_iff_ne, ne_eq]; omega
    rw [hne, Bool.false_or] at hb
    refine leAllowed_mono _ _ _ ?_ hb
    omega
  · rcases h with h | h
    · unfold PoolWithin at h
      refine leAllowed_mono _ _ _ ?_ h
      omega
    · exact absurd h hk

/-- a quiescent history: only rounds, each validated against the world it started from, candidates are nodes -/
def Quiescent (cron : Cron) : World → List Step → Prop
  | _, [] => True
  | _, .env _ :: _ => False
  | w, .round e :: ss =>
    e.later = w ∧ e.groups.Nodup ∧ CandsOfNodes w.nodes (e.cands ++ e.cur) ∧ Quiescent cron (afterRound cron w e) ss

def roundsReason (reason : String) : List Step → Prop
  | [] => True
  | .env _ :: ss => roundsReason reason ss
  | .round e :: ss => e.method.reason = reason ∧ roundsReason reason ss

theorem afterRound_pools (cron : Cron) (w : World) (e : RoundEnv) (hlater : e.later = w) :
    (afterRound cron w e).pools = w.pools := by
  rw [afterRound_eq]
  rcases runRound_world cron w e with h | h
  · rw [h]
  · rw [h, hlater]

theorem afterRound_nodup (cron : Cron) (w : World) (e : RoundEnv) (hlater : e.later = w) (hnd : NodesNodup w) :
    NodesNodup (afterRound cron w e) := by
  unfold NodesNodup
  rw [afterRound_eq]
  simp only
  rw [markNodes_names]
  rcases runRound_world cron w e with h | h
  · rw [h]; exact hnd
  · rw [h, hlater]; exact hnd

/-- **C05_inflight_accumulate** — consecutive rounds with commands still in flight: over any number of rounds of one
    disruption reason in a quiescent environment (nothing terminates, nothing is rolled back, the clock stands
    still), a pool that started within its budget — or in which any round accepted a node — ends within its budget:
    in-flight commands accumulate in the "being deleted" count and can never add up past the most restrictive
    active budget. -/
theorem C05_inflight_accumulate (cron : Cron) (hitOf : HitOf) (hc : CronAgrees cron hitOf) (reason : String)
    (steps : List Step) :
    ∀ (w : World), GoodPools w.pools → NodesNodup w → Quiescent cron w steps → roundsReason reason steps →
      ∀ p ∈ w.pools,
        (PoolWithin hitOf w p reason ∨ ∃ a ∈ acceptances cron w steps, 0 < countPool p.name a.accepted) →
        PoolWithin hitOf (finalWorld cron w steps) p reason := by
  induction steps with
  | nil =>
    intro w _ _ _ _ p _ h
    rcases h with h | ⟨a, ha, _⟩
    · exact h
    · simp [acceptances] at ha
  | cons s ss ih =>
    intro w hw hnd hq hr p hp h
    cases s with
    | env w' => exact absurd hq (by simp [Quiescent])
    | round e =>
      obtain ⟨hlater, hgroups, hcands, hq'⟩ := hq
      obtain ⟨hreason, hr'⟩ := hr
      have hpools := afterRound_pools cron w e hlater
      have hw' : GoodPools (afterRound cron w e).pools := by rw [hpools]; exact hw
      have hnd' := afterRound_nodup cron w e hlater hnd
      have hp' : p ∈ (afterRound cron w e).pools := by rw [hpools]; exact hp
      show PoolWithin hitOf (finalWorld cron (afterRound cron w e) ss) p reason
      apply ih (afterRound cron w e) hw' hnd' hq' hr' p hp'
      -- either the pool is within budget after this round, or a later round accepts in it
      have hacc : acceptances cron w (.round e :: ss) =
          ⟨e.method, (runRound cron w e).1, (runRound cron w e).2⟩ :: acceptances cron (afterRound cron w e) ss := rfl
      rcases h with h | ⟨a, ha, hk⟩
      · left
        rw [← hreason]
        exact C05_inflight_step cron hitOf hc w e hw hnd hgroups hlater hcands p hp (Or.inl (by rw [hreason]; exact h))
      · rw [hacc] at ha
        rcases List.mem_cons.mp ha with rfl | ha
        · left
          rw [← hreason]
          exact C05_inflight_step cron hitOf hc w e hw hnd hgroups hlater hcands p hp (Or.inr hk)
        · exact Or.inr ⟨a, ha, hk⟩

/-! ## 9. Commands that completed, and an informer that lags behind the API server

"… plus the pool's nodes that are already … being deleted … across consecutive reconcile rounds with commands still
in flight."  A node is *being deleted* for an observer as soon as a command holds it (`inFlight`) and for as long as
its NodeClaim carries a deletionTimestamp in the API server (`api`).  The budget code reads the cluster state
(`mark || seen`), which learns of the deletionTimestamp only when the informer delivers it (`sync`), arbitrarily
later.  The theorems below show that, along every history of the queue's life cycle
(`start` / `finish succeeded` / `finish failed` / `sync` / new nodes, in any order, with any lag), whatever the observer
calls "being deleted" is counted by the cluster state — so a bound established on the cluster state's view holds on
the observer's view — and that this rests on `CompleteCommand` keeping the mark of succeeded commands. -/

/-- **C05_lag_invariant** — the life-cycle invariant (`inFlight → mark`, `api → mark ∨ seen`, `inFlight → ¬api`) is
    preserved by every step of the queue as it is in the source (guard regenerated, pinned by `fact_completeGuard`),
    for every history in which commands are started on nodes that are not marked / in flight and only queued
    commands finish.  No assumption on when — or whether — the informer syncs. -/
theorem C05_lag_invariant (steps : List QStep) (ts : List Track) (hinv : ∀ t ∈ ts, t.inv = true)
    (hok : qrunOK completeUnmarksSucceeded ts steps = true) :
    ∀ t ∈ steps.foldl qstepCode ts, t.inv = true := by
  have hf : completeUnmarksSucceeded = false := fact_completeGuard.2
  unfold qstepCode
  rw [hf] at hok ⊢
  exact qrun_inv steps ts hinv hok

/-- **C05_lag_counted** — in every reachable state, a node that a command holds or whose NodeClaim is deleting in the
    API server is `MarkedForDeletion()` in the cluster state, however stale the cluster state's NodeClaim copy is. -/
theorem C05_lag_counted (steps : List QStep) (ts : List Track) (hinv : ∀ t ∈ ts, t.inv = true)
    (hok : qrunOK completeUnmarksSucceeded ts steps = true) :
    ∀ t ∈ steps.foldl qstepCode ts, t.beingDeleted = true → t.stateMarked = true :=
  fun t ht hb => inv_counted t (C05_lag_invariant steps ts hinv hok t ht) hb

/-- **C05_lag_guard_needed** — the guard is necessary: if `CompleteCommand` un-marked succeeded commands as well, then
    after `start; finish succeeded` (no sync yet) the node is deleting in the API server and counted by nobody. -/
theorem C05_lag_guard_needed :
    (qrun true [Track.fresh "a"] [.start ["a"], .finish ["a"] true]).map (fun t => (t.beingDeleted, t.stateMarked)) = [(true, false)] ∧
    (qrun false [Track.fresh "a"] [.start ["a"], .finish ["a"] true]).map (fun t => (t.beingDeleted, t.stateMarked)) = [(true, true)] ∧
    (qrun false [Track.fresh "a"] [.start ["a"], .finish ["a"] false]).map (fun t => (t.beingDeleted, t.stateMarked)) = [(false, false)] := by
  decide

/-- **C05_lag_bound** — marks the observer does not (yet/any more) see can only tighten the bound: if the property's
    inequality holds on a node list, it holds on the same list with fewer nodes marked. -/
theorem C05_lag_bound (hitOf : HitOf) (p : Pool) (nodes : List Node) (extra : Node → Bool) (now : Int) (reason : String)
    (k : Nat) (h : poolBoundOK hitOf p (raiseMarks extra nodes) now reason k = true) :
    poolBoundOK hitOf p nodes now reason k = true :=
  poolBound_of_raised hitOf p nodes extra now reason k h

/-- **C05_round_observed** — one round of any method on a cluster state that lags behind the API server: if the
    world the budget was last computed on is `base` as the cluster state sees it (marks from `mark ∨ seen` of a
    reachable life-cycle state), then what reaches the queue satisfies the property's bound on `base` as the
    *observer* sees it (marks from `inFlight ∨ api`), for every pool. -/
theorem C05_round_observed (cron : Cron) (hitOf : HitOf) (hc : CronAgrees cron hitOf) (w : World) (e : RoundEnv)
    (hw : GoodPools w.pools) (he : StepGood (.round e))
    (steps : List QStep) (ts0 : List Track) (hinv : ∀ t ∈ ts0, t.inv = true)
    (hok : qrunOK completeUnmarksSucceeded ts0 steps = true) (base : List Node)
    (hview : (runRound cron w e).2.nodes = base.map (Node.withTrack Track.stateMarked (steps.foldl qstepCode ts0))) :
    ∀ p ∈ (runRound cron w e).2.pools,
      poolBoundOK hitOf p (base.map (Node.withTrack Track.beingDeleted (steps.foldl qstepCode ts0)))
        (runRound cron w e).2.now e.method.reason (countPool p.name (runRound cron w e).1) = true := by
  intro p hp
  have h := C05_round cron hitOf hc w e hw he p hp
  rw [hview, withTrack_view _ (C05_lag_invariant steps ts0 hinv hok) base] at h
  exact C05_lag_bound hitOf p _ _ _ _ _ h

/-! ## Non-vacuity -/

/-- a cron parameter for "every hour on the hour" (`0 * * * *`), written directly -/
def hourNs : Int := 3600000000000
def hourlyHit (t : Int) : Bool := t % 3600000000000 == 0
def hourlyNext (t : Int) : Option Int := some ((t / 3600000000000 + 1) * 3600000000000)
def demoCron : Cron := fun s => if s = "0 * * * *" then some hourlyNext else none
def demoHitOf : HitOf := fun s => if s = "0 * * * *" then some hourlyHit else none

theorem demo_nextSpec : NextSpec hourlyHit hourlyNext := by
  constructor
  · intro t h hh
    simp only [hourlyNext, Option.some.injEq] at hh
    subst hh
    simp only [hourlyHit, beq_iff_eq]
    omega
  · intro t h hh h' hh' hlt
    simp only [hourlyNext, Option.some.injEq] at hh
    subst hh
    simp only [hourlyHit, beq_iff_eq] at hh'
    omega

theorem demo_agrees : CronAgrees demoCron demoHitOf := by
  constructor
  · simp [demoCron]
  · intro s; unfold demoCron demoHitOf; split <;> rfl
  · intro s nx hit h1 h2
    unfold demoCron at h1; unfold demoHitOf at h2
    split at h1
    · rename_i hs
      simp only [hs, if_true] at h2
      cases h1; cases h2; exact demo_nextSpec
    · cases h1
  · intro s hit h1 h hh
    unfold demoHitOf at h1
    split at h1
    · cases h1
      have : (h : Int) % 3600000000000 = 0 := by simpa [hourlyHit] using hh
      show (h : Int) % 60000000000 = 0
      omega
    · cases h1

/-- a 20-minute window after every full hour, 30% of the pool, for "Empty" only -/
def demoBudget : Budget :=
  { reasons := some ["Empty"], nodes := ['3', '0', '%'], schedule := some "0 * * * *", duration := some (20 * 60000000000) }
def demoPool : Pool := { name := "a", budgets := [demoBudget, { reasons := none, nodes := ['4'], schedule := none, duration := none }] }
def mkNode (name : String) (ready marked : Bool) : Node :=
  { name := name, pool := "a", managed := true, initialized := true, terminating := false, ready := ready, marked := marked }
def demoNodes : List Node :=
  [mkNode "n1" true false, mkNode "n2" true false, mkNode "n3" false false, mkNode "n4" true true, mkNode "n5" true false,
   mkNode "n6" true false, mkNode "n7" true false]
/-- 10 minutes past the hour (inside the window) / 30 minutes past (outside) -/
def demoIn : World := { pools := [demoPool], nodes := demoNodes, now := 10 * 60000000000 }
def demoOut : World := { pools := [demoPool], nodes := demoNodes, now := 30 * 60000000000 }

-- inside the window: ⌈30% of 7⌉ = 3 for Empty, minus 2 already disrupting = 1; Drifted is only bound by "4": 4 − 2 = 2
example : demoIn.mapping demoCron "Empty" "a" = 1 ∧ demoIn.mapping demoCron "Drifted" "a" = 2 ∧
    demoOut.mapping demoCron "Empty" "a" = 2 := by decide
example : specAllowed demoHitOf demoPool.budgets demoIn.now 7 "Empty" = some 3 ∧
    specAllowed demoHitOf demoPool.budgets demoOut.now 7 "Empty" = some 4 := by decide
example : GoodPools demoIn.pools := by
  constructor
  · decide
  · intro p hp b hb
    simp only [demoIn, List.mem_singleton] at hp; subst hp
    simp only [demoPool, List.mem_cons, List.not_mem_nil, or_false] at hb
    rcases hb with rfl | rfl <;> decide
  · right
    intro p hp b hb
    simp only [demoIn, List.mem_singleton] at hp; subst hp
    simp only [demoPool, List.mem_cons, List.not_mem_nil, or_false] at hb
    rcases hb with rfl | rfl <;> decide
-- the bound is tight: 1 new node is fine, 2 would exceed it
example : poolBoundOK demoHitOf demoPool demoNodes demoIn.now "Empty" 1 = true ∧
    poolBoundOK demoHitOf demoPool demoNodes demoIn.now "Empty" 2 = false := by decide
-- selection loops on concrete data
def cA (n : String) (e : Bool) : Cand := { name := n, pool := "a", empty := e }
def cB (n : String) (e : Bool) : Cand := { name := n, pool := "b", empty := e }
def demoMap : Mapping := Mapping.ofList [("a", 2), ("b", 1)]
example : (selectEmptiness demoMap [cA "1" true, cB "2" true, cA "3" false, cA "4" true, cB "5" true, cA "6" true]).map (·.name)
    = ["1", "2", "4"] := by decide
example : (selectMulti demoMap [cA "1" true, cB "2" true, cA "3" false, cA "4" true] 3).map (·.name) = ["1", "2", "3"] := by decide
example : (selectDrift (fun c => c.name != "5") (Mapping.ofList [("a", 0), ("b", 1)]) [cA "1" true, cB "5" true, cB "6" false]).map (·.name)
    = some "6" := by decide
example : validateConsolidation demoMap (fun _ => false) [cA "1" true, cA "3" true, cA "4" true] [cA "1" true, cA "3" true, cA "4" true] = false
    ∧ validateConsolidation demoMap (fun _ => false) [cA "1" true, cA "3" true] [cA "1" true, cA "3" true] = true := by decide
example : staticCount 3 5 false 2 = 2 ∧ staticCount 3 5 false (-1) = 0 ∧ staticCount 3 2 false 9 = 2 ∧ staticCount 3 5 true 9 = 0 := by decide
-- the window, at its edges: active at the hit, one ns before the end; inactive at the end and one ns before the hit
example : isActive demoCron demoBudget (1 * 3600000000000) = some true ∧
    isActive demoCron demoBudget (1 * 3600000000000 + 20 * 60000000000 - 1) = some true ∧
    isActive demoCron demoBudget (1 * 3600000000000 + 20 * 60000000000) = some false ∧
    isActive demoCron demoBudget (1 * 3600000000000 - 1) = some false := by decide
-- design-round candidates (b) and (c)
example : isActive demoCron { demoBudget with duration := none } (1 * 3600000000000) = some false := by decide
example : scaledValue "2147483648".toList 10 = some (-2147483648) ∧ scaledValue "4294967297".toList 10 = some 1 := by decide
-- a quiescent round on the demo world: Empty has 1 left, so of the two empty candidates one survives validation;
-- afterwards 3 of the 7 nodes are not ready or being deleted = ⌈30% of 7⌉: the budget is used up, not exceeded
def demoRound : RoundEnv :=
  { method := .emptiness, cands := [cA "n1" true, cA "n2" true], ok := fun _ => true, k := 0, over := fun _ => false,
    remaining := fun _ => 0, groups := [], later := demoIn, cur := [cA "n1" true, cA "n2" true], nominated := fun _ => false }
def demoRound2 : RoundEnv := { demoRound with later := afterRound demoCron demoIn demoRound }
def demoHistory : List Step := [.round demoRound, .round demoRound2]
example : Quiescent demoCron demoIn demoHistory ∧ roundsReason "Empty" demoHistory ∧ NodesNodup demoIn := by
  refine ⟨⟨rfl, by decide, ?_, ⟨rfl, by decide, ?_, trivial⟩⟩, ⟨by decide, by decide, trivial⟩, ?_⟩
  · unfold CandsOfNodes; decide
  · unfold CandsOfNodes; decide
  · unfold NodesNodup; decide
example : (acceptances demoCron demoIn demoHistory).map (fun a => a.accepted.map (·.name)) = [["n1"], []] := by decide
example : alreadyDisrupting (finalWorld demoCron demoIn demoHistory).nodes "a" = 3 := by decide
example : PoolWithin demoHitOf demoIn demoPool "Empty" := by unfold PoolWithin; decide

-- informer lag on the demo world: n1 was accepted, the queue deleted its NodeClaim, the cluster state has not seen
-- the deletionTimestamp yet (no `sync`): the observer and the cluster state both count n1, the mapping for "Empty"
-- is used up (⌈30% of 7⌉ = 3 = n1 + n3 + n4), and a history that satisfies the preconditions exists
def lagSteps : List QStep := [.appear "n1", .start ["n1"], .finish ["n1"] true]
example : qrunOK completeUnmarksSucceeded [] lagSteps = true := by decide
example : (lagSteps.foldl qstepCode []).map (fun t => (t.mark, t.seen, t.api, t.inFlight)) = [(true, false, true, false)] := by decide
example : ({ demoIn with nodes := demoNodes.map (Node.withTrack Track.stateMarked (lagSteps.foldl qstepCode [])) } : World).mapping demoCron "Empty" "a" = 0 ∧
    alreadyDisrupting (demoNodes.map (Node.withTrack Track.beingDeleted (lagSteps.foldl qstepCode []))) "a" = 3 := by decide
-- … and once the informer has caught up nothing changes for the budget
example : ((lagSteps ++ [QStep.sync ["n1"]]).foldl qstepCode []).map (fun t => (t.stateMarked, t.beingDeleted)) = [(true, true)] := by decide

end Karp.C05
