/- C05: property theorems (stub, not yet built) -/
namespace Karp.C05
end Karp.C05
