/- C16: property theorems (stub, not yet built) -/
namespace Karp.C16
end Karp.C16
