/-
C16 — Forceful reapers act only on their documented trigger.

Property theorems only (helper lemmas live in `Karp/Proofs/Reapers.lean`).
Model: `Karp/Model/Reapers.lean` (expiration, garbage collection, liveness inside the lifecycle pass, node
repair; every API / provider call outcome and the clock are inputs).
Spec:  `Karp/Spec/Reapers.lean` (when may each reaper issue a Delete, from the property text).

All theorems quantify over ALL inputs: every NodeClaim / Node / provider state, every clock position and
every vector of call outcomes (fault sequences of any length).
-/
import Karp.Proofs.Reapers

namespace Karp.C16
open Karp.Reapers Karp.Spec.Reapers

/-! ## Fact expectations over the regenerated constants -/

/-- a NodeClaim has 5 minutes to launch -/
theorem fact_launch_timeout : Karp.Gen.Reapers.launchTimeoutNs = 5 * 60 * 1000000000 := by decide
/-- … and 15 minutes to register -/
theorem fact_registration_timeout : Karp.Gen.Reapers.registrationTimeoutNs = 15 * 60 * 1000000000 := by decide
/-- property text: "at most 20% (rounded up) of the pool's nodes are unhealthy" -/
theorem fact_breaker_percent :
    Karp.Gen.Reapers.allowedUnhealthyPercent = 20 ∧ Karp.Gen.Reapers.unhealthyRoundUp = true := by decide

/-- property text: "... and not when that cannot be established" — the collector's two list calls (NodeClaims,
    `cloudProvider.List`) are each followed by an early return on the plain `err != nil`: no error type is
    filtered out (`client.IgnoreNotFound`, `cloudprovider.IgnoreNodeClaimNotFoundError`, …) before the test.
    `gcWith` ends the pass on `listClaimsFault` / `providerListFault` whatever the error (`GCErrFrame`); that is
    the code's behaviour exactly as long as this holds. -/
theorem fact_gc_list_guards :
    Karp.Gen.Reapers.gcListGuards =
      [("nodeclaimutils.ListManaged", "err != nil"), ("c.cloudProvider.List", "err != nil")] := by decide

/-! ## Expiration -/

/-- **C16_expiration** — a Delete is issued only when expiry is enabled and the clock has reached
    creation + expireAfter. -/
theorem C16_expiration (i : ExpIn) (h : 0 < (expiration i).deletes) :
    expirationMayDelete i.expireAfter i.created i.now = true := by
  unfold expiration at h
  unfold expirationMayDelete
  cases hm : i.managed <;> cases hd : i.deleting <;> cases he : i.expireAfter <;> simp [hm, hd, he] at h ⊢
  split at h
  · simp at h
  · omega

/-- never when expiry is disabled -/
theorem C16_expiration_never_when_disabled (i : ExpIn) (h : i.expireAfter = none) :
    (expiration i).deletes = 0 := by
  unfold expiration
  repeat' split
  all_goals simp_all

/-- the exact trigger (both directions), and at most one Delete per pass -/
theorem C16_expiration_exact (i : ExpIn) :
    (expiration i).deletes =
      if i.managed = true ∧ i.deleting = false ∧ expirationMayDelete i.expireAfter i.created i.now = true then 1 else 0 := by
  unfold expiration expirationMayDelete
  cases i.managed <;> cases i.deleting <;> cases i.expireAfter <;> simp
  split <;> split <;> first | rfl | omega

/-- while waiting, the requeue delay is exactly the time left -/
theorem C16_expiration_requeue (i : ExpIn) (d : Int) (hm : i.managed = true) (hd : i.deleting = false)
    (he : i.expireAfter = some d) (hlt : i.now < i.created + d) :
    (expiration i).requeue = i.created + d - i.now ∧ (expiration i).deletes = 0 := by
  unfold expiration
  simp [hm, hd, he, hlt]

/-- **C16_expiration_frame** — nothing but the documented trigger decides: whatever else the NodeClaim and its
    surroundings carry (`spec.terminationGracePeriod`, the NodePool's own expireAfter / terminationGracePeriod,
    condition transition times, the termination-timestamp annotation, the Node, its pods, do-not-disrupt, …)
    leaves the whole outcome (Delete, requeue delay, error) unchanged. -/
theorem C16_expiration_frame (i : ExpIn) (f : ExpFrame) :
    expiration { i with frame := f } = expiration i := by
  unfold expiration
  rfl

/-- two NodeClaims that agree on the trigger (and on the Delete outcome) are treated alike, whatever their frames -/
theorem C16_expiration_frame_ext (i j : ExpIn) (hm : i.managed = j.managed) (hd : i.deleting = j.deleting)
    (he : i.expireAfter = j.expireAfter) (hc : i.created = j.created) (hn : i.now = j.now)
    (hf : i.deleteFault = j.deleteFault) :
    expiration i = expiration j := by
  unfold expiration
  rw [hm, hd, he, hc, hn, hf]

/-- **C16_expiration_grace_period_window** — the terminationGracePeriod does not pull the Delete forward: a
    NodeClaim with terminationGracePeriod `g` (any `g`, also `g ≥ expireAfter`) that is reconciled inside
    `[creation + expireAfter − g, creation + expireAfter)` is kept, and requeued for creation + expireAfter —
    not for an earlier instant. (The same holds for every other duration / instant of the frame: it is the
    instance of `C16_expiration_requeue` the frame theorem gives.) -/
theorem C16_expiration_grace_period_window (i : ExpIn) (d g : Int) (hm : i.managed = true) (hd : i.deleting = false)
    (he : i.expireAfter = some d) (_hg : i.frame.terminationGracePeriod = some g)
    (_hwin : i.created + d - g ≤ i.now) (hlt : i.now < i.created + d) :
    (expiration i).deletes = 0 ∧ (expiration i).requeue = i.created + d - i.now ∧
      expirationMayDelete i.expireAfter i.created i.now = false := by
  refine ⟨(C16_expiration_requeue i d hm hd he hlt).2, (C16_expiration_requeue i d hm hd he hlt).1, ?_⟩
  unfold expirationMayDelete
  simp [he]
  omega

/-! ## Garbage collection

Full statement (what the property demands):

    theorem C16_gc (i : GCIn) (d : String) (h : d ∈ (gc i).1) :
        ∃ c ∈ i.claims, c.name = d ∧ gcMayDelete i c = true

It FAILED for the code in two ways (both replayed on the real controller, see the negation witnesses below
and `corpus/c16.gc_lookup/`; way 1 has since been repaired in the tree — the regenerated control-flow fact
`gcReturnsOnNodeLookupError` says which collector is checked — way 2 is open):
 1. a failed Node lookup is recorded in `errs[i]` but the closure does not `return`: the NodeClaim is deleted
    although "Node absent or not Ready" was not established (its Node may be Ready);
 2. a *duplicate* Node error is deliberately ignored, so a NodeClaim with two Nodes, one of them Ready, is
    deleted.
Proved instead: the statement with exactly these two escape clauses (`C16_gc_partial`), the full statement
for a collector that returns on a lookup error when no provider id is shared by two Nodes
(`C16_gc_full_when_repaired`), and that nothing is deleted when either list call fails. -/

/-- **C16_gc_partial** — for the collector as written (either value of the control-flow fact): a deleted
    NodeClaim is Registered, both lists were obtained, the provider lists no live instance for it, and its
    Node was established absent / not Ready — *unless* the Node lookup failed (and the closure does not
    return) or the lookup found duplicate Nodes. -/
theorem C16_gc_partial (flag : Bool) (i : GCIn) (d : String) (h : d ∈ (gcWith flag i).1) :
    ∃ c ∈ i.claims, c.name = d ∧ c.registered = .true_ ∧ i.listClaimsFault = false ∧ providerLacks i c = true ∧
      (nodeAbsentOrNotReady i c = true ∨ (flag = false ∧ lookup i c = .failed) ∨ lookup i c = .duplicate) := by
  obtain ⟨hl, hp, c, hc, hname, hcand, hdel⟩ := mem_gcWith flag i d h
  obtain ⟨hreg, hlacks⟩ := candidate_providerLacks i c hp hcand
  refine ⟨c, hc, hname, hreg, hl, hlacks, ?_⟩
  unfold gcOne at hdel
  cases hlk : lookup i c with
  | failed =>
    rw [hlk] at hdel
    cases flag with
    | true => simp at hdel
    | false => exact Or.inr (Or.inl ⟨rfl, rfl⟩)
  | notFound => exact Or.inl (lookup_established i c (Or.inl hlk))
  | duplicate => exact Or.inr (Or.inr rfl)
  | one r =>
    cases r with
    | true => rw [hlk] at hdel; simp at hdel
    | false => exact Or.inl (lookup_established i c (Or.inr hlk))

/-- the same about `gc`, the collector with the control-flow fact regenerated from the source -/
theorem C16_gc_as_is (i : GCIn) (d : String) (h : d ∈ (gc i).1) :
    ∃ c ∈ i.claims, c.name = d ∧ c.registered = .true_ ∧ i.listClaimsFault = false ∧ providerLacks i c = true ∧
      (nodeAbsentOrNotReady i c = true ∨
        (Karp.Gen.Reapers.gcReturnsOnNodeLookupError = false ∧ lookup i c = .failed) ∨ lookup i c = .duplicate) :=
  C16_gc_partial _ i d h

/-- **C16_gc_full_when_established** — the full statement holds of the collector as written on every run in
    which no Node lookup of a NodeClaim fails and none finds duplicate Nodes (i.e. with a healthy API server
    and a consistent cluster: exactly the runs the example-based tests exercise). -/
theorem C16_gc_full_when_established (flag : Bool) (i : GCIn) (d : String)
    (hok : ∀ c ∈ i.claims, lookup i c ≠ .failed ∧ lookup i c ≠ .duplicate) (h : d ∈ (gcWith flag i).1) :
    ∃ c ∈ i.claims, c.name = d ∧ gcMayDelete i c = true := by
  obtain ⟨c, hc, hname, hreg, hl, hlacks, hrest⟩ := C16_gc_partial flag i d h
  refine ⟨c, hc, hname, ?_⟩
  have hest : nodeAbsentOrNotReady i c = true := by
    rcases hrest with h1 | ⟨_, h2⟩ | h3
    · exact h1
    · exact absurd h2 (hok c hc).1
    · exact absurd h3 (hok c hc).2
  unfold gcMayDelete
  simp [hreg, hl, hlacks, hest]

/-- **C16_gc_full_when_repaired** — once the closure returns on a failed lookup (the proposed repair;
    `gcReturnsOnNodeLookupError = true`) and no two Nodes share a provider id, the full statement holds. -/
theorem C16_gc_full_when_repaired (i : GCIn) (d : String)
    (huniq : ∀ pid, (nodesOf i pid).length ≤ 1) (h : d ∈ (gcWith true i).1) :
    ∃ c ∈ i.claims, c.name = d ∧ gcMayDelete i c = true := by
  obtain ⟨c, hc, hname, hreg, hl, hlacks, hrest⟩ := C16_gc_partial true i d h
  refine ⟨c, hc, hname, ?_⟩
  have hest : nodeAbsentOrNotReady i c = true := by
    rcases hrest with h1 | ⟨h2, _⟩ | h3
    · exact h1
    · exact absurd h2 (by decide)
    · exact absurd h3 (lookup_not_duplicate i c huniq)
  unfold gcMayDelete
  simp [hreg, hl, hlacks, hest]

/-- neither list may fail: a failed NodeClaim list or provider list deletes nothing -/
theorem C16_gc_list_guards (flag : Bool) (i : GCIn)
    (h : i.listClaimsFault = true ∨ i.providerListFault = true) : (gcWith flag i).1 = [] := by
  unfold gcWith
  rcases h with h | h <;> simp [h]

/-- **C16_gc_error_class_frame** — WHICH error a failing guarding read returned (kube API NotFound / Conflict /
    Timeout / …, the provider's typed NodeClaimNotFoundError / InsufficientCapacityError / NodeClassNotReadyError,
    bare, wrapped or joined, …) and whether a failing `cloudProvider.List` handed back a partial result next to
    its error decides nothing: neither what the collector does nor what the specification permits. -/
theorem C16_gc_error_class_frame (flag : Bool) (i : GCIn) (e : GCErrFrame) :
    gcWith flag { i with errs := e } = gcWith flag i ∧
    ∀ c, gcMayDelete { i with errs := e } c = gcMayDelete i c :=
  ⟨rfl, fun _ => rfl⟩

/-- **C16_gc_failed_list_is_not_an_empty_list** — for every error class (`i.errs` is arbitrary) and whatever the
    provider would have listed: when `cloudProvider.List` (or the NodeClaim list) fails, the collector issues no
    Delete and the specification permits none — "the provider no longer lists its instance" has not been
    established. -/
theorem C16_gc_failed_list_is_not_an_empty_list (flag : Bool) (i : GCIn)
    (h : i.listClaimsFault = true ∨ i.providerListFault = true) :
    (gcWith flag i).1 = [] ∧ (gcWith flag i).2 = true ∧ ∀ c, gcMayDelete i c = false := by
  refine ⟨C16_gc_list_guards flag i h, ?_, ?_⟩
  · unfold gcWith
    rcases h with h | h <;> simp [h]
  · intro c
    unfold gcMayDelete providerLacks
    rcases h with h | h <;> simp [h]

/-- the specification is *tight* about it: with a failed provider List no set of Deletes but the empty one is
    acceptable (so the driver's oracle rejects any Delete the real collector issues after such a failure) -/
theorem C16_gc_spec_rejects_deletes_after_failed_list (i : GCIn) (d : String) (ds : List String)
    (h : i.listClaimsFault = true ∨ i.providerListFault = true) : gcDeletesOk i (d :: ds) = false := by
  have hno := (C16_gc_failed_list_is_not_an_empty_list true i h).2.2
  unfold gcDeletesOk
  simp [hno]

/-- a NodeClaim whose only Node is Ready is never deleted when the lookup succeeds -/
theorem C16_gc_ready_guard (flag : Bool) (i : GCIn) (c : Claim) (h : lookup i c = .one true) :
    (gcOne flag i c).1 = false := by
  unfold gcOne; rw [h]

/-- **C16_gc_terminating_node_is_present** — a Node that carries a deletion timestamp but still exists (it is
    draining under the termination finalizer) is a *present* Node: rewriting the Nodes' deletion timestamps in
    any way changes neither what the collector does (deleted NodeClaims, error) nor what the specification
    permits. "Node absent" means absent. -/
theorem C16_gc_terminating_node_is_present (flag : Bool) (i : GCIn) (f : GNode → Bool) :
    gcWith flag (i.withTerminating f) = gcWith flag i ∧
    ∀ c, gcMayDelete (i.withTerminating f) c = gcMayDelete i c :=
  ⟨gcWith_withTerminating flag i f, gcMayDelete_withTerminating i f⟩

/-- **C16_gc_ready_terminating_node_kept** — the NodeClaim of a Ready Node is kept whatever the Node's deletion
    timestamp says: if the lookup works and finds exactly the Node `n`, and `n` is Ready, no Delete is issued
    (for `n.terminating = true` as for `false`). -/
theorem C16_gc_ready_terminating_node_kept (flag : Bool) (i : GCIn) (c : Claim) (n : GNode)
    (hpid : (c.pid == "") = false) (hlk : i.lookupFault.contains c.pid = false)
    (hn : nodesOf i c.pid = [n]) (hr : n.ready = true) :
    (gcOne flag i c).1 = false ∧ gcMayDelete i c = false := by
  have hl : lookup i c = .one true := by
    unfold lookup
    rw [hpid, hlk, hn]
    simp [hr]
  refine ⟨C16_gc_ready_guard flag i c hl, ?_⟩
  have hmem : n ∈ i.nodes ∧ (n.pid == c.pid) = true := by
    have : n ∈ nodesOf i c.pid := by rw [hn]; simp
    unfold nodesOf at this
    simpa [List.mem_filter] using this
  unfold gcMayDelete nodeAbsentOrNotReady
  have hall : (i.nodes.all (fun n => n.pid != c.pid || !n.ready)) = false := by
    rw [Bool.eq_false_iff]
    intro hall
    have := (List.all_eq_true.mp hall) n hmem.1
    have hp : n.pid = c.pid := by simpa using hmem.2
    simp [hp, hr] at this
  simp [hpid, hall]

/-! ### The two defects, as machine-checked negations of the full statement on concrete witnesses -/

/-- one Registered NodeClaim, instance gone, its single Node is Ready, the Node lookup fails -/
def gcWitnessLookup : GCIn :=
  { claims := [{ name := "nc-00", pid := "fake://i-00", registered := .true_, deleting := false, managed := true }],
    provider := [], nodes := [{ name := "node-00", pid := "fake://i-00", ready := true }],
    listClaimsFault := false, providerListFault := false, lookupFault := ["fake://i-00"], deleteFaults := [] }

/-- the code as written (`returnsOnLookupErr = false`) deletes it; the specification forbids it; the repaired
    collector does not -/
theorem C16_gc_violated_by_lookup_error :
    (gcWith false gcWitnessLookup).1 = ["nc-00"] ∧
    gcDeletesOk gcWitnessLookup (gcWith false gcWitnessLookup).1 = false ∧
    (gcWith true gcWitnessLookup).1 = [] := by
  refine ⟨?_, ?_, ?_⟩ <;> simp [gcWith, gcWitnessLookup, candidate, livePids, gcOne, lookup, deleteFaultOf,
    gcDeletesOk, gcMayDelete, providerLacks, nodeAbsentOrNotReady, nodesOf]

/-- one Registered NodeClaim, instance gone, two Nodes carry its provider id and both are Ready -/
def gcWitnessDuplicate : GCIn :=
  { claims := [{ name := "nc-00", pid := "fake://i-00", registered := .true_, deleting := false, managed := true }],
    provider := [], nodes := [{ name := "node-00", pid := "fake://i-00", ready := true },
                              { name := "node-01", pid := "fake://i-00", ready := true }],
    listClaimsFault := false, providerListFault := false, lookupFault := [], deleteFaults := [] }

theorem C16_gc_violated_by_duplicate_nodes (flag : Bool) :
    (gcWith flag gcWitnessDuplicate).1 = ["nc-00"] ∧
    gcDeletesOk gcWitnessDuplicate (gcWith flag gcWitnessDuplicate).1 = false := by
  refine ⟨?_, ?_⟩ <;> simp [gcWith, gcWitnessDuplicate, candidate, livePids, gcOne, lookup, deleteFaultOf,
    gcDeletesOk, gcMayDelete, providerLacks, nodeAbsentOrNotReady, nodesOf]

/-! ## Liveness -/

/-- **C16_liveness** — the lifecycle pass issues a Delete only for a NodeClaim that failed to launch within
    `LaunchTimeout` or failed to register within `registrationTimeout` (measured from the condition's last
    transition; for a never-set condition that is the creation time). -/
theorem C16_liveness (i : LiveIn) (h : 0 < (lifecycle i).deletes) :
    livenessMayDelete launchTimeout registrationTimeout i.launched i.launchedAt i.registered i.registeredAt i.now = true := by
  unfold lifecycle at h
  by_cases hm : i.managed = true
  · by_cases hd : i.deleting = true
    · simp [hm, hd] at h
    · simp only [hm, hd, Bool.not_true, Bool.false_eq_true, if_false] at h
      have hs : (initState i).dels = 0 := rfl
      have := liveness_dels i (launchStep i).1 (launchStep i).2.1 (initState i) (by rw [hs]; exact h)
      obtain ⟨hreg, hor⟩ := this
      unfold livenessMayDelete
      simp only [Bool.or_eq_true, Bool.and_eq_true, bne_iff_ne, ne_eq, decide_eq_true_eq]
      rcases hor with ⟨hl, hto⟩ | hto
      · left
        unfold launchStep at hl hto
        by_cases hu : (i.launched == Tri.unknown) = true
        · by_cases hc : i.createOk = true
          · simp [hu, hc] at hl
          · simp only [hu, hc, if_true, Bool.false_eq_true, if_false] at hto
            have : i.launched = Tri.unknown := by simpa using hu
            exact ⟨by rw [this]; decide, hto⟩
        · simp only [hu, Bool.false_eq_true, if_false] at hl hto
          exact ⟨hl, hto⟩
      · right; exact ⟨hreg, hto⟩
  · simp [hm] at h

/-- **C16_liveness_documented** — the same against the documented timeouts (5 min / 15 min), through the
    fact expectations; this is the predicate the driver evaluates on the real controller's Deletes. -/
theorem C16_liveness_documented (i : LiveIn) (h : 0 < (lifecycle i).deletes) :
    livenessMayDelete documentedLaunchTimeout documentedRegistrationTimeout
      i.launched i.launchedAt i.registered i.registeredAt i.now = true := by
  have hl : launchTimeout = documentedLaunchTimeout := by
    unfold launchTimeout documentedLaunchTimeout; rw [fact_launch_timeout]; rfl
  have hr : registrationTimeout = documentedRegistrationTimeout := by
    unfold registrationTimeout documentedRegistrationTimeout; rw [fact_registration_timeout]; rfl
  rw [← hl, ← hr]
  exact C16_liveness i h

/-- at most one Delete per pass (the launch-timeout branch returns after its Delete; before the repair recorded in
    known_findings.json a claim whose launch failed and that was reconciled after BOTH timeouts was deleted twice) -/
theorem C16_liveness_at_most_one (i : LiveIn) : (lifecycle i).deletes ≤ 1 := by
  unfold lifecycle
  split
  · simp
  · split
    · simp
    · have := liveness_dels_le i (launchStep i).1 (launchStep i).2.1 (initState i)
      have hs : (initState i).dels = 0 := rfl
      simp only
      omega

/-- **C16_liveness_read_guard** — when the NodePool read that precedes the Delete fails (any failure other than
    NotFound), no Delete is issued in that pass. -/
theorem C16_liveness_read_guard (i : LiveIn) (hp : i.pool ≠ .none)
    (hf : faultAt i.getFaults 0 = .err ∨ faultAt i.getFaults 0 = .conflict) :
    (lifecycle i).deletes = 0 := by
  have hu : (updateHealth i (initState i)).1 ≠ .ok := by
    unfold updateHealth
    have hg : (initState i).gets = 0 := rfl
    cases hpool : i.pool with
    | none => exact absurd hpool hp
    | missing => rcases hf with hf | hf <;> simp [hg, hf]
    | owned => rcases hf with hf | hf <;> simp [hg, hf]
    | foreign => rcases hf with hf | hf <;> simp [hg, hf]
  have hg := timeoutBranch_guard i (initState i) hu
  have hc : (timeoutBranch i (initState i)).1 ≠ .continue := by
    intro hcont
    have := timeoutBranch_continue i (initState i) hcont
    omega
  have hs : (initState i).dels = 0 := rfl
  have hlp : ∀ (l : Tri) (lAt : Int), (launchPart i l lAt (initState i)).2.dels = 0 := by
    intro l lAt
    unfold launchPart
    by_cases hl : (l != Tri.true_) = true
    · by_cases hto : i.now - lAt < launchTimeout
      · simp [hl, hto, hs]
      · simp only [hl, hto, if_true, if_false]
        rcases hb : timeoutBranch i (initState i) with ⟨r, s⟩
        rw [hb] at hg hc
        simp only at hg hc
        cases r with
        | stop e => simp only; omega
        | «continue» => exact absurd rfl hc
    · simp [hl, hs]
  have hps := launchPart_spec i (launchStep i).1 (launchStep i).2.1 (initState i)
  have h0 := hlp (launchStep i).1 (launchStep i).2.1
  unfold lifecycle
  split
  · rfl
  · split
    · rfl
    · simp only
      unfold liveness
      split
      · exact hs
      · rcases hb : launchPart i (launchStep i).1 (launchStep i).2.1 (initState i) with ⟨r, s⟩
        rw [hb] at h0 hps
        simp only at h0 hps
        cases r with
        | stop e => simp only; exact h0
        | «continue» =>
          have hse : s = initState i := hps.2.2.1 rfl
          subst hse
          simp only
          split
          · exact hs
          · rcases hb2 : timeoutBranch i (initState i) with ⟨r2, s2⟩
            rw [hb2] at hg hc
            simp only at hg hc
            cases r2 with
            | stop e => simp only; omega
            | «continue» => exact absurd rfl hc

/-! ## Node repair -/

/-- **C16_repair** — node repair issues a Delete only when some condition of the node has matched a provider
    repair policy for at least that policy's toleration, the pool's (cluster's, for a standalone claim) nodes
    could be listed, and at most 20% of them, rounded up, are unhealthy. -/
theorem C16_repair (i : RepairIn) (h : 0 < (repair i).deletes) :
    repairMayDelete Karp.Gen.Reapers.allowedUnhealthyPercent i = true := by
  unfold repair repairB at h
  by_cases h1 : i.claimListFault = true
  · simp [h1] at h
  · simp only [h1, Bool.false_eq_true, if_false] at h
    by_cases h2 : (i.claims != 1) = true
    · simp [h2] at h
    · simp only [h2, Bool.false_eq_true, if_false] at h
      cases hf : findUnhealthy i.policies i.node.conds with
      | none => simp [hf] at h
      | some r =>
        obtain ⟨c, tol⟩ := r
        simp only [hf] at h
        by_cases h3 : i.now < c.since + tol
        · simp [h3] at h
        · simp only [h3, if_false] at h
          obtain ⟨p, hp, hmatch, htol⟩ := findUnhealthy_sound _ _ _ _ hf
          obtain ⟨hfind, hstatus⟩ := policyMatch_spec p _ c hmatch
          have hlasted : tolerationLasted i.policies i.node.conds i.now = true := by
            unfold tolerationLasted
            simp only [List.any_eq_true]
            refine ⟨p, hp, ?_⟩
            rw [hfind]
            simp only [Bool.and_eq_true, beq_iff_eq, decide_eq_true_eq]
            exact ⟨hstatus, by omega⟩
          cases hn : i.nodeListFault with
          | notFound => simp [hn] at h
          | err => simp [hn] at h
          | conflict => simp [hn] at h
          | none =>
            simp only [hn] at h
            by_cases h4 : nodesHealthy i = true
            · unfold repairMayDelete breakerClosed
              simp only [hlasted, hn, Bool.true_and, beq_self_eq_true]
              exact (nodesHealthy_iff i).mp h4
            · simp [h4] at h

/-- **C16_repair_documented** — against the documented 20% (through `fact_breaker_percent`); the predicate the
    driver evaluates on the real controller's Deletes. -/
theorem C16_repair_documented (i : RepairIn) (h : 0 < (repair i).deletes) :
    repairMayDelete documentedUnhealthyPercent i = true := by
  have : Karp.Gen.Reapers.allowedUnhealthyPercent = documentedUnhealthyPercent := fact_breaker_percent.1
  rw [← this]
  exact C16_repair i h

/-- **C16_repair_terminating_nodes_count** — a Node of the pool that carries a deletion timestamp but still
    exists (e.g. draining after an earlier repair) is still one of "the pool's nodes", and still unhealthy if
    its condition says so: rewriting the Nodes' deletion timestamps in any way changes neither what node repair
    does nor what the specification permits.  (Otherwise every repaired node would free budget for the next
    one and repair would cascade through a pool that is far above 20% unhealthy.) -/
theorem C16_repair_terminating_nodes_count (i : RepairIn) (f : RNode → Bool) :
    repair (i.withTerminating f) = repair i ∧
    ∀ pct, repairMayDelete pct (i.withTerminating f) = repairMayDelete pct i := by
  refine ⟨?_, fun pct => repairMayDelete_withTerminating pct i f⟩
  unfold repair
  rw [repairB_withTerminating]

/-- at most one Delete per pass -/
theorem C16_repair_at_most_one (i : RepairIn) : (repair i).deletes ≤ 1 := by
  unfold repair repairB
  dsimp only
  repeat' split
  all_goals simp

/-- **C16_repair_read_guards** — no Delete when the NodeClaim lookup or the node listing that guards the
    decision fails -/
theorem C16_repair_read_guards (i : RepairIn)
    (h : i.claimListFault = true ∨ i.nodeListFault ≠ .none) : (repair i).deletes = 0 := by
  have := C16_repair_at_most_one i
  by_cases hz : (repair i).deletes = 0
  · exact hz
  · exfalso
    have hpos : 0 < (repair i).deletes := by omega
    have hm := C16_repair i hpos
    rcases h with h | h
    · unfold repair repairB at hpos
      simp [h] at hpos
    · unfold repairMayDelete breakerClosed at hm
      simp only [Bool.and_eq_true, beq_iff_eq] at hm
      exact h hm.2.1

/-! ### Node repair acts on the Node's own NodeClaim (clusters with launching NodeClaims and Nodes without a
    provider id) -/

/-- `nodeutils.GetNodeClaims` returns "no NodeClaim" for a Node without `spec.providerID` *before* it lists the
    NodeClaims by provider id (the `status.providerID` index lists every NodeClaim that is still launching under
    the empty provider id). `repairT` is the guarded lookup exactly as long as this holds. -/
theorem fact_nodeclaim_lookup_skips_empty_provider_id :
    Karp.Gen.Reapers.nodeClaimLookupSkipsEmptyProviderID = true := by decide

/-- **C16_repair_target** — in a cluster with any number of NodeClaims (the Node's own, other Nodes', NodeClaims
    still launching without a provider id), every NodeClaim node repair issues a Delete for is the reconciled
    Node's own (same, non-empty provider id) and the repair trigger holds for that Node: its unhealthy condition
    lasted the toleration and the breaker of that NodeClaim's pool is closed. -/
theorem C16_repair_target (i : RepairTIn) (d : String) (h : d ∈ (repairT i).deleted) :
    repairTargetMayDelete Karp.Gen.Reapers.allowedUnhealthyPercent i d = true := by
  rw [repairT_eq_guarded fact_nodeclaim_lookup_skips_empty_provider_id] at h
  obtain ⟨c, hc, hn, hp, hpid, _, hdel⟩ := repairTWith_deleted i d h
  unfold repairTargetMayDelete
  simp only [List.any_eq_true, Bool.and_eq_true, beq_iff_eq]
  refine ⟨c, hc, ⟨hn, ?_⟩, C16_repair _ hdel⟩
  unfold claimIsOfNode
  simp [hpid, hp]

/-- against the documented 20% — the predicate the driver evaluates on the real controller's Deletes -/
theorem C16_repair_target_documented (i : RepairTIn) (d : String) (h : d ∈ (repairT i).deleted) :
    repairTargetMayDelete documentedUnhealthyPercent i d = true := by
  have : Karp.Gen.Reapers.allowedUnhealthyPercent = documentedUnhealthyPercent := fact_breaker_percent.1
  rw [← this]
  exact C16_repair_target i d h

/-- **C16_repair_target_no_provider_id** — reconciling a Node that has no provider id does nothing (no Delete, no
    termination timestamp, no error — the NodeClaim LIST is not even issued, so its outcome is irrelevant),
    whichever NodeClaims exist — in particular however many are still launching with an equally empty provider
    id — and the specification permits no Delete at all. -/
theorem C16_repair_target_no_provider_id (i : RepairTIn) (h : i.nodePid = "") :
    repairT i = {} ∧ ∀ pct d, repairTargetMayDelete pct i d = false := by
  constructor
  · rw [repairT_eq_guarded fact_nodeclaim_lookup_skips_empty_provider_id]
    unfold repairTWith nodeClaimsForWith; simp [h]
  · intro pct d
    unfold repairTargetMayDelete claimIsOfNode
    simp [h]

/-- **C16_repair_target_launching_claims_untouched** — a NodeClaim that is still launching (no provider id) is
    never deleted by node repair, whichever Node is reconciled, and the specification never permits it. -/
theorem C16_repair_target_launching_claims_untouched (i : RepairTIn) (c : TClaim) (hc : c ∈ i.claims)
    (hp : c.pid = "") (huniq : ∀ c' ∈ i.claims, c'.name = c.name → c' = c) :
    c.name ∉ (repairT i).deleted ∧ ∀ pct, repairTargetMayDelete pct i c.name = false := by
  constructor
  · intro hd
    rw [repairT_eq_guarded fact_nodeclaim_lookup_skips_empty_provider_id] at hd
    obtain ⟨c', hc', hn, hne, hpid, _, _⟩ := repairTWith_deleted i c.name hd
    have := huniq c' hc' hn
    subst this
    exact hne (hpid ▸ hp)
  · intro pct
    unfold repairTargetMayDelete
    rw [Bool.eq_false_iff]
    intro h
    simp only [List.any_eq_true, Bool.and_eq_true, beq_iff_eq] at h
    obtain ⟨c', hc', ⟨hn, hof⟩, _⟩ := h
    have := huniq c' hc' hn
    subst this
    unfold claimIsOfNode at hof
    simp [hp] at hof

/-- **C16_repair_target_frame** — NodeClaims that do not carry the Node's provider id decide nothing (with or
    without the early return of the lookup). -/
theorem C16_repair_target_frame (flag : Bool) (i : RepairTIn) (extra : List TClaim) (h : ∀ c ∈ extra, c.pid ≠ i.nodePid) :
    repairTWith flag { i with claims := i.claims ++ extra } = repairTWith flag i := by
  have hf : nodeClaimsForWith flag { i with claims := i.claims ++ extra } = nodeClaimsForWith flag i := by
    unfold nodeClaimsForWith
    simp only
    split
    · rfl
    · rw [List.filter_append]
      have : extra.filter (fun c => c.pid == i.nodePid) = [] := by
        rw [List.filter_eq_nil_iff]
        intro c hc
        simpa using h c hc
      rw [this, List.append_nil]
  unfold repairTWith
  rw [hf]
  rfl

/-- at most one NodeClaim is deleted per reconcile -/
theorem C16_repair_target_at_most_one (flag : Bool) (i : RepairTIn) : (repairTWith flag i).deleted.length ≤ 1 := by
  unfold repairTWith
  split
  · simp
  · split
    · simp only
      split <;> simp
    · simp

/-- an unhealthy Node (toleration lasted, it is the pool's only Node) without provider id, next to one NodeClaim
    that is still launching -/
def repairTargetWitnessUnguarded : RepairTIn :=
  { policies := [{ type := "BadNode", status := "False", toleration := 1800 }],
    node := { pool := "a", conds := [{ type := "BadNode", status := "False", since := 1000 }] }, nodePid := "",
    claims := [{ name := "nc-launching", pid := "", pool := some "a" }], others := [], now := 2800,
    claimListFault := false, nodeListFault := .none, patchFault := .none, deleteFault := .none }

/-- **C16_repair_target_needs_the_guard** — the early return is what the property rests on: a lookup that lists
    by the Node's provider id without it resolves a Node that has no provider id to the launching NodeClaim and
    node repair deletes it, which the specification forbids (machine-checked negation on a concrete witness;
    corpus/c16.repair_target/001). -/
theorem C16_repair_target_needs_the_guard :
    (repairTWith false repairTargetWitnessUnguarded).deleted = ["nc-launching"] ∧
    repairTargetDeletesOk documentedUnhealthyPercent repairTargetWitnessUnguarded
      (repairTWith false repairTargetWitnessUnguarded).deleted = false ∧
    (repairTWith true repairTargetWitnessUnguarded).deleted = [] := by decide

/-! ### Node repair over an evolving cluster (one controller, many reconciles, Nodes terminating in between) -/

/-- **C16_repair_seq** — in any run (any cluster, any interleaving of reconciles — with any Node-list / Delete
    outcomes —, condition changes, Nodes starting to terminate and Nodes disappearing), every reconcile that
    issues a Delete was permitted to by the cluster as it was at that moment: toleration lasted, pool listed,
    at most 20% (rounded up) of the pool's nodes — terminating ones included — unhealthy. -/
theorem C16_repair_seq (ps : List Policy) (st : List SNode) (evs : List REvent)
    (i : RepairIn) (o : Out) (b : RBranch) (h : some (i, o, b) ∈ runSeq ps st evs) (hd : 0 < o.deletes) :
    repairMayDelete documentedUnhealthyPercent i = true := by
  have ho := runSeq_entries ps evs st i o b h
  subst ho
  exact C16_repair_documented i hd

/-- **C16_repair_no_cascade** — a pool whose nodes keep their conditions: however often and in whatever order
    its Nodes are reconciled, and whichever of them start terminating in between (after an earlier repair or
    for any other reason), node repair issues at most ⌈20%·n⌉ Deletes in total.  Repaired nodes that are
    draining do not free budget for further repairs. -/
theorem C16_repair_no_cascade (ps : List Policy) (p : String) (st : List SNode) (evs : List REvent)
    (hu : Uniform p st) (hq : ∀ ev ∈ evs, Quiet ev) :
    atMostPercentRoundedUp documentedUnhealthyPercent (totalDeletes (runSeq ps st evs)) st.length = true := by
  obtain ⟨h1, h2⟩ := runSeq_quiet ps p evs st hu hq
  by_cases hz : totalDeletes (runSeq ps st evs) = 0
  · unfold atMostPercentRoundedUp; simp [hz]
  · have h3 := h2 (by omega)
    have h4 := pending_le_unh ps st
    have : totalDeletes (runSeq ps st evs) ≤ scaled documentedUnhealthyPercent st.length true := by
      have hthr : threshold st.length = scaled documentedUnhealthyPercent st.length true := by
        rw [threshold_eq, fact_breaker_percent.1]; rfl
      omega
    exact (scaled_roundUp_iff _ _ _).mp this

/-! ## Non-vacuity: concrete inputs on which each reaper does issue a Delete (hypotheses satisfiable),
    and boundary behaviour at threshold ± 1 ns -/

example : (expiration { managed := true, deleting := false, expireAfter := some 3600, created := 10, now := 3610, deleteFault := .none }).deletes = 1 := by decide
example : (expiration { managed := true, deleting := false, expireAfter := some 3600, created := 10, now := 3609, deleteFault := .none }) = { deletes := 0, requeue := 1, err := false } := by decide
example : (expiration { managed := true, deleting := false, expireAfter := none, created := 10, now := 99999999, deleteFault := .none }).deletes = 0 := by decide
-- expireAfter = 1h, terminationGracePeriod = 10m, clock at creation + 55m (inside the grace-period window): kept,
-- requeued for the remaining 5m; terminationGracePeriod = 2h > expireAfter, one minute after creation: kept
example : (expiration { managed := true, deleting := false, expireAfter := some 3600, created := 10, now := 3310, deleteFault := .none, frame := { terminationGracePeriod := some 600, durations := [("nodepool.expireAfter", 1800)], instants := [("Drifted", 2000)] } }) = { deletes := 0, requeue := 300, err := false } := by decide
example : (expiration { managed := true, deleting := false, expireAfter := some 3600, created := 10, now := 70, deleteFault := .none, frame := { terminationGracePeriod := some 7200 } }) = { deletes := 0, requeue := 3540, err := false } := by decide
example : (expiration { managed := true, deleting := false, expireAfter := some 3600, created := 10, now := 3610, deleteFault := .none, frame := { terminationGracePeriod := some 7200 } }).deletes = 1 := by decide

def liveWitness (now : Int) : LiveIn :=
  { managed := true, deleting := false, launched := .unknown, launchedAt := 0, registered := .unknown, registeredAt := 0,
    now := now, createOk := false, pool := .owned, poolCondFalse := false, prior := [false],
    getFaults := [], patchFaults := [], deleteFaults := [] }

example : (lifecycle (liveWitness 299999999999)).deletes = 0 := by decide
example : (lifecycle (liveWitness 300000000000)).deletes = 1 := by decide
-- both timeouts passed: ONE Delete (the launch-timeout branch returns; before the repair this was 2)
example : (lifecycle (liveWitness 900000000000)).deletes = 1 := by decide
example : (lifecycle { liveWitness 900000000000 with getFaults := [.err] }).deletes = 0 := by decide
example : (lifecycle { liveWitness 900000000000 with launched := .true_, createOk := true }).deletes = 1 := by decide

/-- the witness cluster without the fault and with the Node gone: a legitimate collection -/
example : (gcWith true { gcWitnessLookup with lookupFault := [], nodes := [] }).1 = ["nc-00"] := by decide
example : gcDeletesOk { gcWitnessLookup with lookupFault := [], nodes := [] } ["nc-00"] = true := by decide
/-- … and with the Node Ready and the lookup working: kept -/
example : (gcWith false { gcWitnessLookup with lookupFault := [] }).1 = [] := by decide
-- error classes: the provider List fails with a (wrapped) NodeClaimNotFoundError next to a partial result while
-- the claim's Node is absent - nothing is deleted, the pass reports the error, the spec permits no Delete
def gcWitnessListNotFound : GCIn :=
  { gcWitnessLookup with
    lookupFault := [], nodes := [], providerListFault := true,
    errs := { providerList := "nodeclaim-notfound-wrapped", providerListPartial := true } }
example : gcWith true gcWitnessListNotFound = ([], true) := by decide
example : gcDeletesOk gcWitnessListNotFound ["nc-00"] = false := by decide
example : (gcWith true { gcWitnessListNotFound with providerListFault := false }).1 = ["nc-00"] := by decide

/-- the witness cluster with the lookup working and the Ready Node terminating (deletion timestamp set, still
    present): kept, and the specification forbids the Delete -/
def gcWitnessTerminating : GCIn :=
  { gcWitnessLookup with lookupFault := [], nodes := [{ name := "node-00", pid := "fake://i-00", ready := true, terminating := true }] }
example : (gcWith false gcWitnessTerminating).1 = [] ∧ (gcWith true gcWitnessTerminating).1 = [] := by decide
example : gcDeletesOk gcWitnessTerminating ["nc-00"] = false := by decide
/-- … a NotReady terminating Node does not keep it -/
example : (gc { gcWitnessTerminating with nodes := [{ name := "node-00", pid := "fake://i-00", ready := false, terminating := true }] }).1 = ["nc-00"] := by decide

/-- pool "a": the target and one more node unhealthy, `healthyOthers` healthy ones; toleration 1800 since 1000 -/
def repairWitness (now : Int) (healthyOthers : Nat) : RepairIn :=
  { policies := [{ type := "BadNode", status := "False", toleration := 1800 }],
    node := { pool := "a", conds := [{ type := "BadNode", status := "False", since := 1000 }] },
    claims := 1, claimPool := some "a", claimDeleting := false, annot := .none,
    others := { pool := "a", conds := [{ type := "BadNode", status := "False", since := 1000 }] } ::
              List.replicate healthyOthers { pool := "a", conds := [] },
    now := now, claimListFault := false, nodeListFault := .none, patchFault := .none, deleteFault := .none }

example : (repair (repairWitness 2800 4)).deletes = 1 := by decide          -- 2 of 6 = ⌈20%⌉, toleration reached
example : (repair (repairWitness 2799 4)) = { deletes := 0, requeue := 1, err := false } := by decide
example : (repair (repairWitness 2800 3)).deletes = 0 := by decide          -- 2 of 5 > ⌈20%⌉ = 1: breaker open
example : (repair { repairWitness 2800 4 with nodeListFault := .err }).deletes = 0 := by decide

/-- pool "a" of 10: the target and one more node unhealthy, two further unhealthy nodes already terminating
    (draining after an earlier repair): 4 of 10 unhealthy > ⌈20%⌉ = 2, the breaker is open … -/
def repairWitnessTerminating (terminatingToo : List RNode) : RepairIn :=
  { repairWitness 2800 (8 - terminatingToo.length) with
    others := (repairWitness 2800 (8 - terminatingToo.length)).others ++ terminatingToo }
def badTerminating : RNode :=
  { pool := "a", conds := [{ type := "BadNode", status := "False", since := 1000 }], terminating := true }
example : (repair (repairWitnessTerminating [badTerminating, badTerminating])).deletes = 0 := by decide
example : repairMayDelete documentedUnhealthyPercent (repairWitnessTerminating [badTerminating, badTerminating]) = false := by decide
/-- … while without them (2 of 10) the same node is repaired -/
example : (repair (repairWitnessTerminating [])).deletes = 1 := by decide

/-- a pool of 10 in which 4 nodes are unhealthy past the toleration is not touched, in whatever order it is
    reconciled and whichever nodes terminate; with 2 unhealthy both are repaired, and no third Delete follows
    (the hypotheses of `C16_repair_no_cascade` hold of these runs, and its bound is attained) -/
def seqPool (unhealthy : Nat) : List SNode :=
  List.replicate unhealthy { node := { pool := "a", conds := [{ type := "BadNode", status := "False", since := 1000 }] }, claimPool := some "a" } ++
  List.replicate (10 - unhealthy) { node := { pool := "a", conds := [] }, claimPool := some "a" }
def seqPolicies : List Policy := [{ type := "BadNode", status := "False", toleration := 1800 }]
def seqEvents : List REvent :=
  [.reconcile 0 2800 .none .none, .terminate 0, .reconcile 1 2801 .none .none, .terminate 1,
   .reconcile 0 2802 .none .none, .reconcile 2 2803 .none .none, .reconcile 3 2804 .none .none, .reconcile 9 2805 .none .none]
example : totalDeletes (runSeq seqPolicies (seqPool 2) seqEvents) = 2 := by decide
example : totalDeletes (runSeq seqPolicies (seqPool 4) seqEvents) = 0 := by decide
example : ∀ ev ∈ seqEvents, Quiet ev := by simp [seqEvents, Quiet]
example : Uniform "a" (seqPool 2) := by
  intro s hs
  simp only [seqPool, List.mem_append, List.mem_replicate] at hs
  rcases hs with ⟨_, rfl⟩ | ⟨_, rfl⟩ <;> simp
/-- a node that turns unhealthy while two repaired nodes are still draining (3 of 10 unhealthy) is left alone … -/
example : totalDeletes (runSeq seqPolicies (seqPool 2)
    (seqEvents ++ [.setCond 5 { type := "BadNode", status := "False", since := 2900 }, .reconcile 5 9000 .none .none])) = 2 := by decide
/-- … and is repaired once they are gone (1 of 8) -/
example : totalDeletes (runSeq seqPolicies (seqPool 2)
    (seqEvents ++ [.setCond 5 { type := "BadNode", status := "False", since := 2900 }, .gone 0, .gone 1, .reconcile 5 9000 .none .none])) = 3 := by decide

/-- the cluster of `repairWitness 2800 4` with NodeClaims: the Node's own ("nc-own", provider id "i-1"), another
    Node's, and one still launching (no provider id) -/
def repairTargetWitness (nodePid : String) : RepairTIn :=
  { policies := (repairWitness 2800 4).policies, node := (repairWitness 2800 4).node, nodePid := nodePid,
    claims := [{ name := "nc-launching", pid := "", pool := some "a" }, { name := "nc-own", pid := "i-1", pool := some "a" },
               { name := "nc-other", pid := "i-2", pool := some "a" }],
    others := (repairWitness 2800 4).others, now := 2800, claimListFault := false, nodeListFault := .none,
    patchFault := .none, deleteFault := .none }
example : (repairT (repairTargetWitness "i-1")).deleted = ["nc-own"] ∧ (repairT (repairTargetWitness "i-1")).patched = ["nc-own"] := by decide
example : repairTargetDeletesOk documentedUnhealthyPercent (repairTargetWitness "i-1") ["nc-own"] = true := by decide
/-- the same unhealthy Node without a provider id: nothing is touched, and the oracle rejects a Delete of the
    launching NodeClaim (what a lookup by the empty provider id would resolve the Node to) -/
example : repairT (repairTargetWitness "") = {} := by decide
example : repairTargetDeletesOk documentedUnhealthyPercent (repairTargetWitness "") ["nc-launching"] = false := by decide
example : repairTargetDeletesOk documentedUnhealthyPercent (repairTargetWitness "i-1") ["nc-other"] = false := by decide

end Karp.C16
