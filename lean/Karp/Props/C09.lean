/-
C09 — Nodes and instances are finalized in order and never leaked.

Property theorems only (helper lemmas: `Karp/Proofs/TermLemmas.lean`, `Karp/Proofs/TermWorldLemmas.lean`).
Model: `Karp/Model/Term.lean` (one pass of the node termination controller and of the NodeClaim lifecycle controller,
every API / provider call an outcome parameter) and `Karp/Model/TermWorld.lean` (the protocol as a transition system:
reconciles in any order, faults, crashes, restarts, environment events).
Spec:  `Karp/Spec/Finalize.lean` (judged on ground-truth snapshots; shares no code with the model).

Shape of the result
* single pass, ALL observations x ALL fault vectors x ALL provider answers:
  `C09_node_finalizer`, `C09_instance_delete_in_order`, `C09_min_drain_time`, `C09_claim_finalizer_partial`,
  `C09_attachment_state_irrelevant`, `C09_existing_attachment_blocks` (volume attachments in transitional states),
  `C09_node_needs_provider_confirmation`, `C09_claim_needs_provider_confirmation` (no finalizer removal on a provider
  call that fails, however the failure looks);
* ALL histories of the transition system from ANY world (any order of reconciles, any faults / crashes / restarts, pods
  and volumes leaving at any time): `C09_step_ordered`, `C09_histories_ordered`;
* leak-freedom as an invariant over ALL histories, under "a launch persists its provider id":
  `C09_no_orphan_partial`, `C09_claim_finalizer_truth`;
* the full statements fail on the code as it is; machine-checked witnesses (replayed on the real controllers, see
  corpus/c09.*): `C09_no_orphan_fails`, `C09_relaunch_orphans`, `C09_duplicate_claims_skip_instance`.
-/
import Karp.Proofs.TermSpecBridge

namespace Karp.C09
open Karp.Term Karp.Gen
open Karp.Spec.Finalize (NodeSnap ClaimSnap nodeRemovalOk claimRemovalOk instanceDeleteOk orphaned)

/-! ## Fact expectations over the regenerated constants -/

theorem fact_stages : Finalize.terminationStages = ["awaitDrain", "awaitVolumeDetachment", "awaitInstanceTermination"] := by decide
theorem fact_stuck_terminating : Finalize.stuckTerminatingNs = 60 * 1000000000 ∧ Finalize.stuckTerminatingStrict = true := by decide

/-- the three stages, drain first, instance last (property: "finalized in order") -/
theorem fact_stage_order : stageOrder = [.drain, .volumes, .instance] := stageOrder_eq
/-- `MinDrainTime` is what `awaitDrain` compares with, strictly -/
theorem fact_min_drain : Finalize.minDrainCmpNs = Finalize.minDrainTimeNs ∧ Finalize.minDrainCmpStrict = true := by decide
/-- inside the node's `finalize`: claim lookup, claim delete, instance-gone shortcut (Get, removeFinalizer), deadline,
    taint, status patch, finalizer removal — the finalizer removal of the ordered path is the last call -/
theorem fact_node_call_order :
    Finalize.nodeFinalizeCalls = ["nodeutils.NodeClaimForNode", "kubeClient.Delete", "cloudProvider.Get", "c.removeFinalizer",
      "c.nodeTerminationTime", "terminator.Taint", "Status().Patch", "c.removeFinalizer"] := by decide
/-- inside the claim's `finalize`: annotation, Node lookup, Node delete, provider Delete, status patch, and only then the
    finalizer removal and its patch -/
theorem fact_claim_call_order :
    Finalize.claimFinalizeCalls = ["c.ensureTerminationGracePeriodTerminationTimeAnnotation", "nodeclaimutils.AllNodesForNodeClaim",
      "kubeClient.Delete", "cloudProvider.Delete", "Status().Patch", "controllerutil.RemoveFinalizer", "kubeClient.Patch"] := by decide
/-- lifecycle `Reconcile`: the finalizer is added (and patched) before the sub-reconcilers (launch) run -/
theorem fact_claim_reconcile_order :
    Finalize.claimReconcileCalls = ["c.finalize", "controllerutil.AddFinalizer", "kubeClient.Patch", "reconciler.Reconcile",
      "kubeClient.Patch", "Status().Patch"] := by decide
/-- `awaitInstanceTermination`: provider Delete; any error but not-found returns; the condition is set; anything but
    not-found requeues -/
theorem fact_instance_stage :
    Finalize.instanceStageCalls = ["cloudProvider.Delete", "cloudprovider.IgnoreNodeClaimNotFoundError", "SetTrue",
      "cloudprovider.IsNodeClaimNotFoundError"] := by decide
/-- every waiting stage requeues with a positive interval (it never falls through by way of a zero `RequeueAfter`) -/
theorem fact_requeues_positive :
    (Finalize.requeueDrainNs ++ Finalize.requeueVolumesNs ++ Finalize.requeueInstanceNs ++ Finalize.requeueClaimInstanceNs).all (· > 0) = true ∧
    Finalize.requeueDrainNs.length = 2 ∧ Finalize.requeueVolumesNs.length = 1 ∧ Finalize.requeueInstanceNs.length = 1 ∧
    Finalize.requeueClaimInstanceNs.length = 1 := by decide

/-- the volume-detachment stage decides on a VolumeAttachment by its persistent volume name alone: neither a
    deletionTimestamp (an attachment that is deleted but still held by the external-attacher's finalizer is not "gone"),
    nor finalizers, nor `status.attached` make an attachment stop blocking (property: "blocking volume attachments are
    gone or the termination grace period has expired") -/
theorem fact_va_filter_reads : Finalize.vaFilterReads = ["Spec.Source.PersistentVolumeName"] := by decide

/-- a provider error says "the instance is gone" only by being (or wrapping) a `*NodeClaimNotFoundError`: the classifier
    both controllers use consults nothing else — in particular not `apierrors.IsNotFound` (an API NotFound for another
    object, e.g. a deleted NodeClass, is not a confirmation) and not the message (property: "the cloud provider confirms
    the instance no longer exists" / "the provider reports the instance not found") -/
theorem fact_not_found_classifier :
    Finalize.isNotFoundReturns = ["false", "errors.As(err, &ncnfErr)"] ∧ Finalize.ignoreNotFoundReturns = ["nil", "err"] := by decide

/-! ## Single pass: the node termination controller -/

/-- **C09_node_finalizer** — for every observation (node, any list of NodeClaims, pods, volume attachments, clock), every
    fault vector and every pair of provider answers: if a pass of the node termination controller removes the Node's
    termination finalizer and exactly one NodeClaim carries the Node's provider id, then the specification's verdict
    on the ground truth of that instant is positive — the node is not Ready and the provider reported the instance
    gone, or the node is (by then) cordoned, no pod Karpenter can drain holds it, no blocking volume attachment
    remains or the deadline passed, and the provider reported the instance gone.  (`instanceGone` is the truth about
    the instance; the provider is honest: it answers not-found only if the instance is gone.) -/
theorem C09_node_finalizer (now : Int) (n : NodeObs) (claims : List ClaimObs) (pods : List Pod) (vas : List VA)
    (f : NodeFaults) (getOut delOut : ProvOut) (instanceGone : Bool)
    (honestGet : getOut = .notFound → instanceGone = true) (honestDelete : delOut = .notFound → instanceGone = true)
    (single : (nodeClaimOf n claims).isSome = true)
    (h : (nodeReconcile now n claims pods vas f getOut delOut).removed = true) :
    nodeRemovalOk (nodeSnap now (n.tainted || (nodeReconcile now n claims pods vas f getOut delOut).taintPatched) n.ready 1
      (termOf (nodeClaimOf n claims)) pods vas instanceGone) = true := by
  obtain ⟨_, hpath⟩ := nodeReconcile_removed _ _ _ _ _ _ _ _ h
  unfold nodeRemovalOk
  rcases hpath with ⟨hr, hg⟩ | hp
  · have := honestGet hg
    simp [nodeSnap, hr, this]
  · have hgone := honestDelete (hp.instance_ single)
    have hd := snap_drained now (n.tainted || (nodeReconcile now n claims pods vas f getOut delOut).taintPatched) n.ready 1
      (termOf (nodeClaimOf n claims)) pods vas instanceGone hp.drained
    have hv := snap_volumes now (n.tainted || (nodeReconcile now n claims pods vas f getOut delOut).taintPatched) n.ready 1
      (termOf (nodeClaimOf n claims)) pods vas instanceGone (hp.volumes.imp (pendingVAs_mono _ _ _ _) id)
    have ht : (n.tainted || (nodeReconcile now n claims pods vas f getOut delOut).taintPatched) = true := by
      rcases hp.tainted with h | h
      · simp only [Bool.and_eq_true] at h; simp [h.1]
      · simp [h]
    unfold NodeSnap.orderly
    rw [hd, hv]
    simp [nodeSnap, ht, hgone]

/-- **C09_instance_delete_in_order** — "finalized in order": in every pass in which the node termination controller asks
    the provider to terminate the instance, the node is (by then) cordoned, drained, and its volumes are detached or
    the deadline has passed. -/
theorem C09_instance_delete_in_order (now : Int) (n : NodeObs) (claims : List ClaimObs) (pods : List Pod) (vas : List VA)
    (f : NodeFaults) (getOut delOut : ProvOut) (k : Nat) (instanceGone : Bool)
    (h : Act.providerDelete ∈ (nodeReconcile now n claims pods vas f getOut delOut).calls) :
    instanceDeleteOk (nodeSnap now (n.tainted || (nodeReconcile now n claims pods vas f getOut delOut).taintPatched) n.ready k
      (termOf (nodeClaimOf n claims)) pods vas instanceGone) = true := by
  obtain ⟨ht, hd, hv⟩ := nodeReconcile_providerDelete _ _ _ _ _ _ _ _ h
  have hd' := snap_drained now (n.tainted || (nodeReconcile now n claims pods vas f getOut delOut).taintPatched) n.ready k
    (termOf (nodeClaimOf n claims)) pods vas instanceGone hd
  have hv' := snap_volumes now (n.tainted || (nodeReconcile now n claims pods vas f getOut delOut).taintPatched) n.ready k
    (termOf (nodeClaimOf n claims)) pods vas instanceGone (hv.imp (pendingVAs_mono _ _ _ _) id)
  have ht' : (n.tainted || (nodeReconcile now n claims pods vas f getOut delOut).taintPatched) = true := by
    rcases ht with h | h
    · simp only [Bool.and_eq_true] at h; simp [h.1]
    · simp [h]
  unfold instanceDeleteOk NodeSnap.orderly
  rw [hd', hv']
  simp [nodeSnap, ht']

/-- **C09_attachment_state_irrelevant** — the whole pass (calls, result, conditions written, finalizer removal) is the
    same whatever deletion marks and attached statuses the node's VolumeAttachments carry: an attachment that the
    attach-detach controller has deleted but that still exists (detach in progress) is treated like any other. -/
theorem C09_attachment_state_irrelevant (g : VA → Bool × Bool) (now : Int) (n : NodeObs) (claims : List ClaimObs) (pods : List Pod)
    (vas : List VA) (f : NodeFaults) (getOut delOut : ProvOut) :
    nodeReconcile now n claims pods (vas.map (VA.remark g)) f getOut delOut = nodeReconcile now n claims pods vas f getOut delOut := by
  unfold nodeReconcile nodeFromReady nodeFromTaint
  simp only [runStages_remark]

/-- **C09_existing_attachment_blocks** — for every observation, fault vector and provider answers: while some
    VolumeAttachment object of the node exists for a persistent volume that no undrainable pod mounts — terminating or
    not, attached or not — and the termination deadline has not passed, the node termination controller does not ask
    the provider to terminate the instance, and does not remove the finalizer of a Ready node. -/
theorem C09_existing_attachment_blocks (now : Int) (n : NodeObs) (claims : List ClaimObs) (pods : List Pod) (vas : List VA)
    (f : NodeFaults) (getOut delOut : ProvOut) (v : VA) (k : Nat)
    (hv : v ∈ vas) (hon : v.onNode = true) (hk : v.pv = some k) (hns : (shieldedPVs now .ok pods).contains k = false)
    (hdl : elapsed now (termOf (nodeClaimOf n claims)) = false) :
    Act.providerDelete ∉ (nodeReconcile now n claims pods vas f getOut delOut).calls ∧
    (n.ready = true → (nodeReconcile now n claims pods vas f getOut delOut).removed = false) := by
  have hmem := mem_pendingVAs now f.getPVC pods vas v k hv hon hk hns
  have hne : ¬ (pendingVAs now f.getPVC pods vas = [] ∨ elapsed now (termOf (nodeClaimOf n claims)) = true) := by
    intro h
    rcases h with h | h
    · rw [h] at hmem; cases hmem
    · rw [hdl] at h; cases h
  constructor
  · intro h
    exact hne (nodeReconcile_providerDelete _ _ _ _ _ _ _ _ h).2.2
  · intro hready
    cases hr : (nodeReconcile now n claims pods vas f getOut delOut).removed
    · rfl
    · obtain ⟨_, hpath⟩ := nodeReconcile_removed _ _ _ _ _ _ _ _ hr
      rcases hpath with ⟨hnr, _⟩ | hp
      · rw [hready] at hnr; cases hnr
      · exact absurd hp.volumes hne

/-- **C09_node_needs_provider_confirmation** — for every observation and fault vector: a pass of the node termination
    controller in which neither provider call answers not-found (it succeeds, fails in whatever way, or is not made)
    does not remove the finalizer of a Node that has its NodeClaim.  Every failure of a provider call — including the
    near misses of "not found" the harness injects — is the answer `.err`. -/
theorem C09_node_needs_provider_confirmation (now : Int) (n : NodeObs) (claims : List ClaimObs) (pods : List Pod) (vas : List VA)
    (f : NodeFaults) (getOut delOut : ProvOut) (single : (nodeClaimOf n claims).isSome = true)
    (hg : getOut ≠ .notFound) (hd : delOut ≠ .notFound) :
    (nodeReconcile now n claims pods vas f getOut delOut).removed = false := by
  cases hr : (nodeReconcile now n claims pods vas f getOut delOut).removed
  · rfl
  · obtain ⟨_, hpath⟩ := nodeReconcile_removed _ _ _ _ _ _ _ _ hr
    rcases hpath with ⟨_, h⟩ | hp
    · exact absurd h hg
    · exact absurd (hp.instance_ single) hd

/-- **C09_claim_needs_provider_confirmation** — a pass of the lifecycle controller over a NodeClaim that records a
    provider id does not remove its finalizer unless the provider answered `Delete` with not-found. -/
theorem C09_claim_needs_provider_confirmation (c : ClaimState) (nodes : List NodeRef) (cache : Bool) (f : ClaimFaults) (delOut : ProvOut)
    (createOut : CreateOut) (hpid : c.pid = true) (hd : delOut ≠ .notFound) :
    (claimReconcile c nodes cache f delOut createOut).removed = false := by
  cases hr : (claimReconcile c nodes cache f delOut createOut).removed
  · rfl
  · rcases claimReconcile_cases c nodes cache f delOut createOut with ⟨_, he⟩ | ⟨_, _, he⟩ | ⟨_, _, he⟩
    · rw [he] at hr; simp at hr
    · rw [he] at hr
      obtain ⟨_, _, hp⟩ := (claimFinalize_spec c nodes f delOut).removed hr
      exact absurd (hp hpid) hd
    · rw [he, (claimLaunch_spec c cache f createOut).removed] at hr
      simp at hr

/-- the code also waits `MinDrainTime` after the drain started (more than the property asks): a pass that removes the
    finalizer of a Ready node found a Drained condition on the claim, and if that condition was still Unknown, at
    least `MinDrainTime` had passed since it was set. -/
theorem C09_min_drain_time (now : Int) (n : NodeObs) (claims : List ClaimObs) (pods : List Pod) (vas : List VA)
    (f : NodeFaults) (getOut delOut : ProvOut) (c : ClaimObs) (hc : nodeClaimOf n claims = some c) (hready : n.ready = true)
    (h : (nodeReconcile now n claims pods vas f getOut delOut).removed = true) :
    c.conds.drained ≠ .absent ∧ (c.conds.drained = .unknown → (Finalize.minDrainTimeNs : Int) ≤ now - c.conds.drainedAt) := by
  obtain ⟨_, hpath⟩ := nodeReconcile_removed _ _ _ _ _ _ _ _ h
  rcases hpath with ⟨hr, _⟩ | hp
  · rw [hready] at hr; simp at hr
  · have := hp.minDrain (by rw [hc]; rfl)
    rw [hc] at this
    simp only [Option.isSome_some, storedConds] at this
    unfold minDrainPending drainInit at this
    have hs : Finalize.minDrainCmpStrict = true := by decide
    have he : Finalize.minDrainCmpNs = Finalize.minDrainTimeNs := by decide
    have hm : (Finalize.minDrainTimeNs : Int) > 0 := by decide
    cases hd : c.conds.drained
    · simp [hd, cmpLt, hs, he] at this
      omega
    · simp
    · simp
    · simp [hd, cmpLt, hs, he] at this
      simp [this]


/-! ## Single pass: the NodeClaim lifecycle controller -/

/-- **C09_claim_finalizer_partial** — for every claim state, Node list, fault vector and provider answer: if a pass of
    the lifecycle controller removes the NodeClaim's termination finalizer then no Node carrying the provider id of a
    registered claim is left, and, if the claim *records* a provider id, the provider answered `Delete` with not-found
    (so, the provider being honest, the instance is gone).
    Partial: the property says "if it was ever launched"; the code keys on the *persisted* `status.providerID`.  The
    full statement fails (`C09_no_orphan_fails` below). -/
theorem C09_claim_finalizer_partial (c : ClaimState) (nodes : List NodeRef) (cache : Bool) (f : ClaimFaults) (delOut : ProvOut)
    (createOut : CreateOut) (instanceGone : Bool) (honestDelete : delOut = .notFound → instanceGone = true)
    (hmine : c.pid = false → nodes.filter (·.mine) = [])
    (h : (claimReconcile c nodes cache f delOut createOut).removed = true) :
    claimRemovalOk { registered := c.registered = .true_, nodes := (nodes.filter (·.mine)).length, launched := c.pid,
                     instanceGone := instanceGone } = true := by
  rcases claimReconcile_cases c nodes cache f delOut createOut with ⟨_, he⟩ | ⟨_, _, he⟩ | ⟨_, _, he⟩
  · rw [he] at h; simp at h
  · rw [he] at h
    obtain ⟨_, hn, hp⟩ := (claimFinalize_spec c nodes f delOut).removed h
    unfold claimRemovalOk
    simp only [Bool.and_eq_true, Bool.or_eq_true, Bool.not_eq_true', decide_eq_false_iff_not, beq_iff_eq, List.length_eq_zero_iff]
    constructor
    · by_cases hr : c.registered = .true_
      · right
        cases hpid : c.pid
        · exact hmine hpid
        · simpa [nodesOfClaim, hr, hpid] using hn
      · left; exact hr
    · cases hpid : c.pid
      · left; rfl
      · right; exact honestDelete (hp hpid)
  · rw [he, (claimLaunch_spec c cache f createOut).removed] at h
    simp at h


/-! ## All histories: every step of the transition system, from any world

(`stepOk` / `historyOk`, the snapshots `nodeSnapAt`, `claimSnapRecorded`, `claimSnapTruth`: `Karp/Proofs/TermSpecBridge.lean`) -/

/-- **C09_step_ordered** — in EVERY world (reachable or not), for EVERY event: if the step removes the Node's finalizer,
    the specification accepts the ground truth of that instant; if the node termination controller asks the provider to
    terminate the instance, the node is cordoned, drained and detached; if the step removes the NodeClaim's finalizer,
    its Nodes are gone (if registered) and the instance is gone (if the claim records a provider id). -/
theorem C09_step_ordered (w : World) (e : Event) : stepOk w e = true := by
  cases e with
  | reconcileNode f p =>
    unfold stepOk
    cases hn : w.node with
    | none => rfl
    | some n =>
      simp only [Bool.and_eq_true, Bool.or_eq_true, Bool.not_eq_true']
      constructor
      · cases hr : (w.nodePass n f p).removed
        · left; rfl
        · right
          cases hs : (nodeClaimOf n w.claimObs).isSome
          · unfold nodeRemovalOk nodeSnapAt
            simp [nodeSnap, world_single_claim w n hs]
          · unfold nodeSnapAt
            have := C09_node_finalizer w.now n w.claimObs w.pods w.vas f (provAnswer w.inst p.get) (provAnswer w.inst p.delete)
              (decide (w.inst = .gone)) (fun h => by simp [provAnswer_notFound _ _ h]) (fun h => by simp [provAnswer_notFound _ _ h]) hs hr
            unfold World.nodePass
            revert this
            unfold nodeRemovalOk
            simp only [nodeSnap]
            intro this
            simp only [Bool.or_eq_true] at this ⊢
            right
            rcases this with h | h
            · simp at h
            · exact h
      · cases hm : (w.nodePass n f p).calls.contains Act.providerDelete
        · left; rfl
        · right
          unfold nodeSnapAt World.nodePass
          exact C09_instance_delete_in_order w.now n w.claimObs w.pods w.vas f (provAnswer w.inst p.get) (provAnswer w.inst p.delete) _ _
            (by rw [← List.contains_iff_mem]; exact hm)
  | reconcileClaim f p =>
    unfold stepOk
    cases hc : w.claim with
    | none => rfl
    | some c =>
      simp only [Bool.or_eq_true, Bool.not_eq_true']
      cases hr : (w.claimPass c f p).removed
      · left; rfl
      · right
        unfold claimSnapRecorded
        exact C09_claim_finalizer_partial c.st w.nodeRefs w.cache f (provAnswer w.inst p.delete) p.create (decide (w.inst = .gone))
          (fun h => by simp [provAnswer_notFound _ _ h]) (fun h => world_nodes_of_claim w c h hc) hr
  | _ => rfl

/-- **C09_histories_ordered** — along EVERY history (any length; any order of Node and NodeClaim reconciles; any fault,
    crash or restart at any call; pods and volumes leaving, pods arriving, the clock advancing and the instance
    disappearing at arbitrary times) from ANY starting world, every finalizer removal and every provider `Delete` of
    the node termination controller satisfies the specification. -/
theorem C09_histories_ordered (es : List Event) : ∀ w : World, historyOk w es = true := by
  induction es with
  | nil => intro _; rfl
  | cons e es ih => intro w; simp only [historyOk, Bool.and_eq_true]; exact ⟨C09_step_ordered w e, ih _⟩

/-! ## Leak-freedom -/

/-- **C09_no_orphan_partial** — from any world that satisfies the invariant (e.g. a launched, registered claim with its
    instance, or a claim that was never reconciled), along EVERY history in which every launch persists its provider
    id in the pass that created the instance: in every state visited, if the NodeClaim is gone then no instance launched
    for it exists.  ("A completed deletion never orphans a cloud instance".)
    Partial: the hypothesis `launchesPersist` is exactly what the code does not guarantee — see `C09_no_orphan_fails`. -/
theorem C09_no_orphan_partial (w : World) (es : List Event) (h : Inv w) (hp : launchesPersist w es = true) :
    ∀ w' ∈ trace w es, orphaned w'.claim.isSome w'.instanceExists = false := by
  intro w' hw'
  have hinv := inv_trace es w h hp w' hw'
  unfold orphaned
  cases hc : w'.claim with
  | some c => simp
  | none => simp [inv_no_orphan w' hinv hc]

/-- **C09_claim_finalizer_truth** — in a world that satisfies the invariant, a pass that removes the NodeClaim's finalizer
    satisfies the second sentence of the property with "launched" read as the ground truth. -/
theorem C09_claim_finalizer_truth (w : World) (c : ClaimW) (f : ClaimFaults) (p : ProvFaults) (h : Inv w) (hc : w.claim = some c)
    (hr : (w.claimPass c f p).removed = true) : claimRemovalOk (claimSnapTruth w c) = true := by
  have hrec := C09_step_ordered w (.reconcileClaim f p)
  unfold stepOk at hrec
  simp only [hc, hr, Bool.not_true, Bool.false_or] at hrec
  unfold claimRemovalOk claimSnapRecorded at hrec
  unfold claimRemovalOk claimSnapTruth World.instanceExists
  simp only [Bool.and_eq_true, Bool.or_eq_true, Bool.not_eq_true', decide_eq_true_eq, decide_eq_false_iff_not] at hrec ⊢
  refine ⟨hrec.1, ?_⟩
  rw [h.notLost]
  cases hi : w.inst with
  | gone => right; simp
  | running =>
    obtain ⟨c', hc', _, hp'⟩ := h.backed (by rw [hi]; simp)
    rw [hc] at hc'; cases hc'
    rcases hrec.2 with h2 | h2
    · rw [hp'] at h2; simp at h2
    · rw [hi] at h2; simp at h2
  | terminating =>
    obtain ⟨c', hc', _, hp'⟩ := h.backed (by rw [hi]; simp)
    rw [hc] at hc'; cases hc'
    rcases hrec.2 with h2 | h2
    · rw [hp'] at h2; simp at h2
    · rw [hi] at h2; simp at h2

/-! ## Where the code violates the full statement (machine-checked witnesses; each is replayed on the real controllers)

FULL STATEMENT (fails): `∀ w es, Inv w → ∀ w' ∈ trace w es, orphaned w'.claim.isSome w'.instanceExists = false`. -/

/-- a claim that was just created: no finalizer, no conditions, nothing launched -/
def freshClaim : ClaimW :=
  { st := { managed := true, deleting := false, deletedAt := 0, finalizer := false, pid := false, fresh := true,
            launched := .absent, registered := .absent, inst := .absent, term := .absent, tgp := none } }

def freshWorld : World := { now := 0, node := none, claim := some freshClaim, pods := [], vas := [], inst := .gone }

theorem freshWorld_inv : Inv freshWorld :=
  ⟨rfl, fun h => absurd rfl h, fun c hc _ => by cases hc; rfl⟩

/-- the status patch after provider `Create` fails -/
def launchPersistFails : Event := .reconcileClaim { patchStatus := .err } {}
/-- the process dies at the status patch after provider `Create` -/
def launchCrashes : Event := .reconcileClaim { patchStatus := .crash } {}
def reconcileClaimOk : Event := .reconcileClaim {} {}

/-- **C09_no_orphan_fails** — provider `Create` succeeds, the status patch fails, the claim is deleted: `finalize` sees an
    empty provider id, never calls the provider and removes the finalizer; the instance runs on, unowned.
    (corpus/c09.protocol/001-unpersisted-provider-id.json; finding C09-unpersisted-provider-id) -/
theorem C09_no_orphan_fails :
    let w := run freshWorld [launchPersistFails, .deleteClaim, reconcileClaimOk]
    Inv freshWorld ∧ w.claim = none ∧ w.inst = .running ∧ orphaned w.claim.isSome w.instanceExists = true :=
  ⟨freshWorld_inv, by decide, by decide, by decide⟩

/-- **C09_relaunch_orphans** — the process dies between provider `Create` and the status patch; after the restart the
    launch cache is empty, `Create` runs again, and the first instance is referenced by nothing: it survives the
    (otherwise orderly) deletion of the claim.
    (corpus/c09.protocol/002-relaunch-after-crash.json; finding C09-instance-lost-by-relaunch) -/
theorem C09_relaunch_orphans :
    let w := run freshWorld [launchCrashes, reconcileClaimOk, .deleteClaim, reconcileClaimOk, .instanceGone, reconcileClaimOk]
    w.claim = none ∧ w.inst = .gone ∧ w.lost = true ∧ orphaned w.claim.isSome w.instanceExists = true := by decide

/-- **C09_duplicate_claims_skip_instance** — two NodeClaims carry the Node's provider id: the node termination controller
    treats the Node as having none, never asks the provider, and removes the finalizer while the instance runs.
    FULL STATEMENT of `C09_node_finalizer` without the hypothesis `single` (fails).
    (corpus/c09.node/001-duplicate-claims.json; finding C09-node-duplicate-claims; deliberate per the code comment) -/
theorem C09_duplicate_claims_skip_instance :
    let n : NodeObs := { deleting := true, finalizer := true, managed := true, ready := true, tainted := true, lb := true, hasPid := true }
    let c : ClaimObs := { deleting := true, conds := default, term := .absent, mine := true }
    let o := nodeReconcile 0 n [c, c] [] [] {} .ok .ok
    o.removed = true ∧ Act.providerDelete ∉ o.calls ∧
    nodeRemovalOk (nodeSnap 0 true true 2 none [] [] false) = false := by decide

/-! ## Non-vacuity -/

/-- a registered claim with its Node, a pod that holds the drain, a blocking volume attachment and a running instance -/
def runningWorld : World :=
  { now := 100000000000,
    node := some { deleting := false, finalizer := true, managed := true, ready := true, tainted := false, lb := false, hasPid := true },
    claim := some { st := { managed := true, deleting := false, deletedAt := 0, finalizer := true, pid := true, fresh := false,
                            launched := .true_, registered := .true_, inst := .absent, term := .absent, tgp := none } },
    pods := [{ name := "pod-0", tolerates := false, mirror := false, terminal := false, deletedAt := none, hasVol := true, pv := some 1, onNode := true }],
    vas := [{ name := "va-0", pv := some 1, onNode := true }],
    inst := .running }

example : Inv runningWorld :=
  ⟨rfl, fun _ => ⟨_, rfl, rfl, rfl⟩, fun c hc hf => by cases hc; simp at hf⟩

def rn : Event := .reconcileNode {} {}
def happyPath : List Event :=
  [.deleteClaim, reconcileClaimOk, rn, .podGone "pod-0", rn, .tick 5000000000, rn, .vaGone "va-0", rn, .instanceGone, rn, reconcileClaimOk]

/-- the happy path runs to completion: both objects gone, the instance gone, and both finalizers were removed by
    reconciles (so the hypotheses of the step theorems are met by concrete passes) -/
example : (run runningWorld happyPath).node = none ∧ (run runningWorld happyPath).claim = none ∧
    (run runningWorld happyPath).inst = .gone ∧ launchesPersist runningWorld happyPath = true := by decide

/-- the attach-detach controller deletes the attachment, the detach lingers: the node keeps its finalizer and the
    instance runs on over any number of reconciles; once the object is gone the history completes
    (hypotheses of `C09_existing_attachment_blocks` are met by the terminating attachment in the middle) -/
def lingeringDetach : List Event :=
  [.deleteClaim, reconcileClaimOk, rn, .podGone "pod-0", rn, .tick 5000000000, rn, .vaTerminating "va-0", rn, .tick 60000000000, rn]

example :
    let w := run runningWorld lingeringDetach
    (w.vas.map (·.terminating)) = [true] ∧ (w.node.map (·.finalizer)) = some true ∧ w.inst = .running ∧
    (w.claim.map (·.vol)) = some .unknown ∧
    (run w [.vaGone "va-0", rn, .instanceGone, rn, reconcileClaimOk]).node = none ∧
    (run w [.vaGone "va-0", rn, .instanceGone, rn, reconcileClaimOk]).claim = none := by decide

/-- an attachment appears after `VolumesDetached` was recorded True and the instance was asked to terminate: the stage
    goes back to waiting (Unknown) and the finalizer stays although the instance then disappears -/
example :
    let w0 : World := { runningWorld with pods := [], vas := [] }
    let w1 := run w0 [.deleteNode, rn, rn, .tick 6000000000, rn, rn]
    let w2 := run w1 [.vaAdd { name := "va-late", pv := some 3, onNode := true }, rn, .instanceGone, rn]
    (w1.claim.map (·.vol)) = some .true_ ∧ w1.inst = .terminating ∧
    (w2.claim.map (·.vol)) = some .unknown ∧ (w2.node.map (·.finalizer)) = some true ∧ w2.inst = .gone ∧
    (run w2 [.vaGone "va-late", rn, rn]).node = none := by decide

/-- a pass that removes the Node's finalizer through the ordered path (hypotheses of `C09_node_finalizer`) -/
example :
    let n : NodeObs := { deleting := true, finalizer := true, managed := true, ready := true, tainted := true, lb := true, hasPid := true }
    let c : ClaimObs := { deleting := true, conds := { drained := .true_, drainedAt := 0, vol := .true_, inst := .true_ }, term := .absent, mine := true }
    (nodeClaimOf n [c]).isSome = true ∧ (nodeReconcile 10 n [c] [] [] {} .ok .notFound).removed = true := by decide

/-- a pass in which the provider is asked to terminate the instance (hypothesis of `C09_instance_delete_in_order`) -/
example :
    let n : NodeObs := { deleting := true, finalizer := true, managed := true, ready := true, tainted := false, lb := false, hasPid := true }
    let c : ClaimObs := { deleting := true, conds := { drained := .unknown, drainedAt := 0, vol := .absent, inst := .absent }, term := .absent, mine := true }
    Act.providerDelete ∈ (nodeReconcile 6000000000 n [c] [] [] {} .ok .ok).calls := by decide

/-- a not-ready node whose instance is gone: the shortcut -/
example :
    let n : NodeObs := { deleting := true, finalizer := true, managed := true, ready := false, tainted := false, lb := false, hasPid := true }
    let c : ClaimObs := { deleting := true, conds := default, term := .absent, mine := true }
    (nodeReconcile 0 n [c] [{ name := "p", tolerates := false, mirror := false, terminal := false, deletedAt := none, hasVol := false, pv := none, onNode := true }] [] {} .notFound .notFound).removed = true := by decide

/-- a pass that removes the NodeClaim's finalizer (hypothesis of `C09_claim_finalizer_partial`) -/
example :
    let c : ClaimState := { managed := true, deleting := true, deletedAt := 0, finalizer := true, pid := true, fresh := false,
                            launched := .true_, registered := .true_, inst := .true_, term := .absent, tgp := none }
    (claimReconcile c [] false {} .notFound .ok).removed = true := by decide

/-- the specification is not trivially true: a waiting pod, a blocking attachment, a missing taint and a running
    instance are each rejected -/
example :
    let pod : Karp.Spec.Finalize.Pod := { tolerations := [], static := false, phase := "Running", deletedAt := none, pvs := [1] }
    nodeRemovalOk { now := 0, tainted := true, ready := true, claims := 1, deadline := none, pods := [pod], vas := [], instanceGone := true } = false ∧
    nodeRemovalOk { now := 0, tainted := true, ready := true, claims := 1, deadline := none, pods := [], vas := [some 1], instanceGone := true } = false ∧
    nodeRemovalOk { now := 0, tainted := false, ready := true, claims := 1, deadline := none, pods := [], vas := [], instanceGone := true } = false ∧
    nodeRemovalOk { now := 0, tainted := true, ready := true, claims := 1, deadline := none, pods := [], vas := [], instanceGone := false } = false ∧
    nodeRemovalOk { now := 0, tainted := true, ready := true, claims := 1, deadline := none, pods := [], vas := [], instanceGone := true } = true ∧
    claimRemovalOk { registered := true, nodes := 1, launched := true, instanceGone := true } = false ∧
    claimRemovalOk { registered := true, nodes := 0, launched := true, instanceGone := false } = false := by decide

end Karp.C09
