/- C09: property theorems (stub, not yet built) -/
namespace Karp.C09
end Karp.C09
