/- C01: property theorems (stub, not yet built) -/
namespace Karp.C01
end Karp.C01
