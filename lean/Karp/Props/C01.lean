/-
C01 — Simulated placements are feasible on every launch option.

Property theorems only; lemmas in `Karp/Proofs/Sched.lean` (and the C12 algebra).
Model: `Karp/Model/Sched.lean` (pod requirements, relaxation, ExistingNode.CanAdd/Add, instance-type filtering).
Spec:  `Karp/Spec/K8sSelector.lean` (Kubernetes selector semantics) and `Karp/Spec/Admissible.lean` (whole-pass
       admissibility, evaluated on every real scheduling pass by the `c01.pass` op).
-/
import Karp.Proofs.Sched

namespace Karp.C01
open Karp.Req Karp.Scn Karp.Sched Karp.Spec.K8s

/-! ## Relaxation never drops the last required term -/

/-- **C01_relax_sound** — one relaxation step removes either the FIRST of at least two OR-ed required terms or the
    heaviest preferred term: the remaining required terms are a non-empty suffix of the old ones (so any node that
    satisfies a remaining term satisfies one of the pod's original terms), and a single required term is never removed. -/
theorem C01_relax_sound (a a' : PodAffinitySpec) (h : relaxStep a = some a') :
    (∃ dropped, a.required = dropped ++ a'.required) ∧
    (a.required ≠ [] → a'.required ≠ []) ∧
    (a.required.length ≤ 1 → a'.required = a.required) := by
  unfold relaxStep removeRequiredTerm removePreferredTerm at h
  cases hr : a.required with
  | nil =>
    rw [hr] at h
    simp only at h
    cases hp : a.preferred with
    | nil => rw [hp] at h; simp at h
    | cons x xs => rw [hp] at h; simp at h; subst h; exact ⟨⟨[], by simp [hr]⟩, by simp, by intro _; simp [hr]⟩
  | cons t1 rest =>
    cases rest with
    | nil =>
      rw [hr] at h
      simp only at h
      cases hp : a.preferred with
      | nil => rw [hp] at h; simp at h
      | cons x xs => rw [hp] at h; simp at h; subst h; exact ⟨⟨[], by simp [hr]⟩, by simp [hr], by intro _; simp [hr]⟩
    | cons t2 rest2 =>
      rw [hr] at h
      simp at h; subst h
      exact ⟨⟨[t1], by simp⟩, by simp, by intro hl; simp at hl⟩

/-- `n` relaxation steps (`none` once nothing is left to relax) -/
def relaxN : Nat → PodAffinitySpec → Option PodAffinitySpec
  | 0, a => some a
  | n + 1, a => (relaxStep a).bind (relaxN n)

/-- lifted to any number of relaxation steps -/
theorem C01_relax_star (n : Nat) : ∀ (a a' : PodAffinitySpec), relaxN n a = some a' →
    (∃ dropped, a.required = dropped ++ a'.required) ∧ (a.required ≠ [] → a'.required ≠ []) := by
  induction n with
  | zero => intro a a' h; simp [relaxN] at h; subst h; exact ⟨⟨[], by simp⟩, id⟩
  | succ n ih =>
    intro a a' h
    simp only [relaxN] at h
    cases hs : relaxStep a with
    | none => rw [hs] at h; simp at h
    | some a1 =>
      rw [hs] at h
      simp only [Option.bind_some] at h
      obtain ⟨⟨d1, hd1⟩, hne1, _⟩ := C01_relax_sound a a1 hs
      obtain ⟨⟨d2, hd2⟩, hne2⟩ := ih a1 a' h
      exact ⟨⟨d1 ++ d2, by rw [hd1, hd2, List.append_assoc]⟩, fun hne => hne2 (hne1 hne)⟩

/-! ## Existing nodes -/

/-- the requirement Karpenter derives for a key tolerates the label's absence only if every expression of the pod on
    that key does.  This is what the requirement REPRESENTATION cannot guarantee: it fails exactly for the two recorded
    findings (an empty intersection read as `DoesNotExist`; `Exists`/`Gt`/`Lt` lost next to `NotIn`) — see the negation
    witnesses below. -/
def Faithful (es : List KExpr) : Prop :=
  ∀ k r, (podReqs es).lookup k = some r → r.absentOk = true →
    ∀ e ∈ es, normalizeKey e.key = k → k8sMatch e.op e.vals none = true

/-- Full statement (what the property demands), WITHOUT the `Faithful` hypothesis:

      existingCanAdd n p = true → ∀ e ∈ p.exprs, k8sMatch e.op e.vals (n.labels.lookup (normalizeKey e.key)) = true

    It is false for the code as it is (`C01_existing_violated_*` below; both replayed on the real scheduler and
    recorded in known_findings.json).  Proved: the statement under `Faithful`.

    **C01_existing_sound_partial** — if `ExistingNode.CanAdd` accepts the pod, then every taint of the node is
    tolerated, no host port conflicts with a port in use, the requests fit the remaining resources, and the node's
    actual labels satisfy, under Kubernetes semantics, EVERY expression the pod's requirements were built from (node
    selector and the chosen required term), for all nodes, pods and validated expression lists. -/
theorem C01_existing_sound_partial (n : ExNode) (p : PodD)
    (hvalid : ∀ e ∈ p.exprs, validExpr e = true) (hf : Faithful p.exprs)
    (h : existingCanAdd n p = true) :
    (∀ t ∈ n.taints, ∃ tol ∈ p.tolerations, tolerates tol t = true) ∧
    portsFree n.ports p.ports = true ∧
    (p.cpu ≤ n.remCPU ∧ p.mem ≤ n.remMem ∧ 1 ≤ n.remPods) ∧
    ∀ e ∈ p.exprs, k8sMatch e.op e.vals (n.labels.lookup (normalizeKey e.key)) = true := by
  unfold existingCanAdd at h
  simp only [Bool.and_eq_true] at h
  obtain ⟨⟨⟨ht, hp⟩, hfit⟩, hc⟩ := h
  refine ⟨?_, hp, ?_, ?_⟩
  · intro t htm
    have := List.all_eq_true.mp ht t htm
    obtain ⟨tol, htol, hx⟩ := List.any_eq_true.mp this
    exact ⟨tol, htol, hx⟩
  · simp only [fits, Bool.and_eq_true, decide_eq_true_eq] at hfit; exact ⟨hfit.1.1, hfit.1.2, hfit.2⟩
  · -- labels
    have hrsWF : ∀ r ∈ p.exprs.map newReq, r.WF := by
      intro r hr
      obtain ⟨e, he, rfl⟩ := List.mem_map.mp hr
      exact (newReq_spec e (hvalid e he)).1
    have hWF : ∀ q ∈ podReqs p.exprs, q.2.WF := wf_add _ [] (by intro q hq; cases hq) hrsWF
    have hadm := compatible_labels n.labels (podReqs p.exprs) hWF hc
    intro e he
    obtain ⟨_, hkey, hhas⟩ := newReq_spec e (hvalid e he)
    have hmem : newReq e ∈ p.exprs.map newReq := List.mem_map.mpr ⟨e, he, rfl⟩
    have hsome := lookup_add_isSome (p.exprs.map newReq) [] (newReq e) hmem
    rw [hkey] at hsome
    cases hl : (podReqs p.exprs).lookup (normalizeKey e.key) with
    | none => unfold podReqs at hl; rw [hl] at hsome; simp at hsome
    | some r =>
      have hin := lookup_mem _ _ _ hl
      have ha := hadm _ hin
      simp only at ha
      cases hlab : n.labels.lookup (normalizeKey e.key) with
      | none =>
        rw [hlab] at ha
        exact hf _ r hl (by simpa [Req.admits] using ha) e he rfl
      | some v =>
        rw [hlab] at ha
        -- r admits v, and r's admitted values are the conjunction over all added requirements on the key
        have hg := has_add (p.exprs.map newReq) [] (normalizeKey e.key) v
        have hget : (Reqs.add [] (p.exprs.map newReq)).get (normalizeKey e.key) = r := by
          rw [get_eq]; unfold podReqs at hl; rw [hl]
        rw [hget] at hg
        have hrv : r.has v = true := by simpa [Req.admits] using ha
        rw [hrv] at hg
        have hall := (Bool.and_eq_true _ _).mp hg.symm
        have := List.all_eq_true.mp hall.2 (newReq e) (List.mem_filter.mpr ⟨hmem, by rw [hkey]; simp⟩)
        rw [← hhas v]; exact this

/-- `Faithful` holds whenever the pod has at most one expression per key (the overwhelmingly common case):
    a single validated expression is represented exactly (`Gt`/`Lt` excepted: `Gt MaxInt` / `Lt MinInt` "match
    nothing" and are stored as `DoesNotExist`, another instance of the empty-set finding). -/
theorem C01_faithful_single (e : KExpr) (hv : validExpr e = true) (hgt : e.op ≠ .gt) (hlt : e.op ≠ .lt) : Faithful [e] := by
  intro k r hl habs e' he' hk
  simp only [List.mem_singleton] at he'
  subst he'
  have hspec := newReq_spec e' hv
  -- podReqs [e'] = [(key, newReq e')]
  have hl' : (podReqs [e']).lookup k = some (newReq e') := by
    unfold podReqs
    simp only [List.map_cons, List.map_nil, Reqs.add, List.foldl_cons, List.foldl_nil, lookup_add1, hspec.2.1, hk]
    simp
  rw [hl'] at hl
  have hr : r = newReq e' := by simpa using hl.symm
  subst hr
  -- case analysis on the operator
  unfold validExpr at hv
  rw [Bool.and_eq_true] at hv
  unfold newReq at habs
  cases hop : e'.op <;> rw [hop] at hv <;> simp only [Req.new, hop] at habs
  case notIn => simp [k8sMatch]
  case doesNotExist => simp [k8sMatch]
  case other => simp [validOperands] at hv
  case in_ =>
    exfalso
    cases hvals : e'.vals with
    | nil => rw [hvals] at hv; simp at hv
    | cons x xs =>
      rw [hvals] at habs
      simp [pure, Except.pure, Req.absentOk, Req.operator, Req.len, card, normalizeValue, List.eraseDups_cons] at habs
      try omega
  case exists_ =>
    exfalso
    simp [pure, Except.pure, Req.absentOk, Req.operator, Req.len, card, maxInt] at habs
  case gt => exact absurd hop hgt
  case lt => exact absurd hop hlt
  all_goals
    exfalso
    cases hvals : e'.vals with
    | nil => rw [hvals] at hv; simp [validOperands] at hv
    | cons x xs =>
      rw [hvals] at habs
      simp only [List.map_cons] at habs
      first
        | (split at habs <;> simp [pure, Except.pure, Req.absentOk, Req.operator, Req.len, card, maxInt, doesNotExist] at habs; done)
        | (simp [pure, Except.pure, Req.absentOk, Req.operator, Req.len, card, maxInt] at habs; done)

/-- **C01_existing_capacity** — over any sequence of pods accepted and added one after the other, the remaining
    resources never go negative: the sum of the accepted requests stays within what was available. -/
theorem C01_existing_capacity (ps : List PodD) : ∀ (n : ExNode),
    0 ≤ n.remCPU → 0 ≤ n.remMem → 0 ≤ n.remPods →
    (ps.foldl (fun (acc : Option ExNode) p => acc.bind (fun m => if existingCanAdd m p then some (existingAdd m p) else none)) (some n)
      = some m') → 0 ≤ m'.remCPU ∧ 0 ≤ m'.remMem ∧ 0 ≤ m'.remPods := by
  induction ps with
  | nil => intro n h1 h2 h3 h; simp at h; subst h; exact ⟨h1, h2, h3⟩
  | cons p rest ih =>
    intro n h1 h2 h3 h
    simp only [List.foldl_cons, Option.bind_some] at h
    by_cases hc : existingCanAdd n p = true
    · simp only [hc, if_true] at h
      have hfit : (p.cpu ≤ n.remCPU ∧ p.mem ≤ n.remMem) ∧ 1 ≤ n.remPods := by
        unfold existingCanAdd at hc
        simp only [Bool.and_eq_true] at hc
        have := hc.1.2
        simpa only [fits, Bool.and_eq_true, decide_eq_true_eq] using this
      exact ih (existingAdd n p) (by simp [existingAdd]; omega) (by simp [existingAdd]; omega) (by simp [existingAdd]; omega) h
    · simp only [hc, Bool.false_eq_true, if_false] at h
      have : ∀ (l : List PodD), l.foldl (fun (acc : Option ExNode) p => acc.bind (fun m => if existingCanAdd m p then some (existingAdd m p) else none)) none = none := by
        intro l; induction l with
        | nil => rfl
        | cons x xs ihx => simpa using ihx
      rw [this] at h; cases h

/-! ## New NodeClaims: the instance types that survive filtering -/

/-- **C01_filter_sound** — every instance type that survives `filterInstanceTypesByRequirements` was one of the options,
    is compatible with the requirements, belongs to a daemon-overhead group whose host ports do not clash with the
    pod's, fits the summed requests PLUS that group's daemon overhead, and has an available offering compatible with
    the requirements. -/
theorem C01_filter_sound (options : List ITM) (groups : List Group) (R : Reqs) (pp : List HostPort)
    (cpu mem pods : Int) (wk : List String) (it : ITM)
    (h : it ∈ filterITs options groups R pp cpu mem pods wk) :
    it ∈ options ∧ itCompatible it R = true ∧
    ∃ g ∈ groups, g.its.contains it.name = true ∧ portsFree g.ports pp = true ∧
      ((cpu + g.dCPU ≤ it.allocCPU ∧ mem + g.dMem ≤ it.allocMem) ∧ pods + g.dPods ≤ it.allocPods) ∧
      ∃ o ∈ it.offerings, o.available = true ∧ R.compatible o.reqs wk = true := by
  unfold filterITs at h
  obtain ⟨g, hg, hin⟩ := List.mem_flatMap.mp h
  by_cases hp : portsFree g.ports pp = true
  · simp only [hp, Bool.not_true, Bool.false_eq_true, if_false] at hin
    obtain ⟨hin1, hcond⟩ := List.mem_filter.mp hin
    obtain ⟨hopt, hname⟩ := List.mem_filter.mp hin1
    rw [Bool.and_eq_true] at hcond
    obtain ⟨hcompat, hfits⟩ := hcond
    unfold itFits at hfits
    simp only [Bool.and_eq_true] at hfits
    obtain ⟨hoff, hres⟩ := hfits
    obtain ⟨o, ho, hoc⟩ := List.any_eq_true.mp hoff
    obtain ⟨ho1, ho2⟩ := List.mem_filter.mp ho
    exact ⟨hopt, hcompat, g, hg, hname, hp, by simpa only [fits, Bool.and_eq_true, decide_eq_true_eq] using hres, o, ho1, ho2, hoc⟩
  · simp [hp] at hin

/-! ## The recorded findings: the full statement is false for the code as it is -/

def nodeNoTeam : ExNode := { labels := [("kubernetes.io/hostname", "n1")], taints := [], remCPU := 4000, remMem := 4096, remPods := 10, ports := [] }

/-- F1 `empty-set-read-as-absent`: nodeSelector `team=blue` together with a required `team In [red]` — no node can
    satisfy both, yet the node WITHOUT a `team` label is accepted -/
def podContradictory : PodD :=
  { cpu := 100, mem := 64, tolerations := [], ports := [],
    exprs := [{ key := "team", op := .in_, vals := ["blue"] }, { key := "team", op := .in_, vals := ["red"] }] }

theorem C01_existing_violated_empty_set :
    existingCanAdd nodeNoTeam podContradictory = true ∧
    k8sMatch .in_ ["blue"] (nodeNoTeam.labels.lookup "team") = false := by decide

/-- F2 `presence-lost-with-notin`: `tier Exists` together with `tier NotIn [gold]` — the node has no `tier` label -/
def podExistsNotIn : PodD :=
  { cpu := 100, mem := 64, tolerations := [], ports := [],
    exprs := [{ key := "tier", op := .exists_, vals := [] }, { key := "tier", op := .notIn, vals := ["gold"] }] }

theorem C01_existing_violated_presence_lost :
    existingCanAdd nodeNoTeam podExistsNotIn = true ∧
    k8sMatch .exists_ [] (nodeNoTeam.labels.lookup "tier") = false := by decide

/-! ## Non-vacuity -/

def nodeZ : ExNode :=
  { labels := [("topology.kubernetes.io/zone", "z1"), ("team", "red"), ("kubernetes.io/hostname", "n1")],
    taints := [{ key := "dedicated", value := "x", effect := "NoSchedule" }], remCPU := 1000, remMem := 1024, remPods := 2,
    ports := [{ port := 8080, proto := "TCP", ip := "" }] }
def podOK : PodD :=
  { cpu := 500, mem := 512, tolerations := [{ key := "dedicated", operator := "Exists", value := "", effect := "" }],
    ports := [{ port := 8081, proto := "TCP", ip := "" }],
    exprs := [{ key := "failure-domain.beta.kubernetes.io/zone", op := .in_, vals := ["z1", "z2"] }, { key := "team", op := .notIn, vals := ["blue"] }] }

example : existingCanAdd nodeZ podOK = true := by decide
example : existingCanAdd nodeZ { podOK with cpu := 1001 } = false := by decide
example : existingCanAdd nodeZ { podOK with ports := [{ port := 8080, proto := "TCP", ip := "10.0.0.1" }] } = false := by decide
example : existingCanAdd nodeZ { podOK with tolerations := [] } = false := by decide
example : (∀ e ∈ podOK.exprs, validExpr e = true) := by decide

end Karp.C01
