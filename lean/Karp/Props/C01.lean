/-
C01 — Simulated placements are feasible on every launch option.

Property theorems only; lemmas in `Karp/Proofs/Sched.lean` (and the C12 algebra).
Model: `Karp/Model/Sched.lean` (pod requirements, relaxation, ExistingNode.CanAdd/Add; for new NodeClaims: resource lists,
       allocatable groups per offering override, `fits`, `compatible`, `filterInstanceTypesByRequirements` with its minValues tail).
Spec:  `Karp/Spec/K8sSelector.lean` (Kubernetes selector semantics) and `Karp/Spec/Admissible.lean` (whole-pass
       admissibility, evaluated on every real scheduling pass by the `c01.pass` op).
-/
import Karp.Proofs.Sched

namespace Karp.C01
open Karp.Req Karp.Scn Karp.Sched Karp.Spec.K8s

/-! ## Relaxation never drops the last required term -/

/-- **C01_relax_sound** — one relaxation step removes either the FIRST of at least two OR-ed required terms or the
    heaviest preferred term: the remaining required terms are a non-empty suffix of the old ones (so any node that
    satisfies a remaining term satisfies one of the pod's original terms), and a single required term is never removed. -/
theorem C01_relax_sound (a a' : PodAffinitySpec) (h : relaxStep a = some a') :
    (∃ dropped, a.required = dropped ++ a'.required) ∧
    (a.required ≠ [] → a'.required ≠ []) ∧
    (a.required.length ≤ 1 → a'.required = a.required) := by
  unfold relaxStep removeRequiredTerm removePreferredTerm at h
  cases hr : a.required with
  | nil =>
    rw [hr] at h
    simp only at h
    cases hp : a.preferred with
    | nil => rw [hp] at h; simp at h
    | cons x xs => rw [hp] at h; simp at h; subst h; exact ⟨⟨[], by simp [hr]⟩, by simp, by intro _; simp [hr]⟩
  | cons t1 rest =>
    cases rest with
    | nil =>
      rw [hr] at h
      simp only at h
      cases hp : a.preferred with
      | nil => rw [hp] at h; simp at h
      | cons x xs => rw [hp] at h; simp at h; subst h; exact ⟨⟨[], by simp [hr]⟩, by simp [hr], by intro _; simp [hr]⟩
    | cons t2 rest2 =>
      rw [hr] at h
      simp at h; subst h
      exact ⟨⟨[t1], by simp⟩, by simp, by intro hl; simp at hl⟩

/-- `n` relaxation steps (`none` once nothing is left to relax) -/
def relaxN : Nat → PodAffinitySpec → Option PodAffinitySpec
  | 0, a => some a
  | n + 1, a => (relaxStep a).bind (relaxN n)

/-- lifted to any number of relaxation steps -/
theorem C01_relax_star (n : Nat) : ∀ (a a' : PodAffinitySpec), relaxN n a = some a' →
    (∃ dropped, a.required = dropped ++ a'.required) ∧ (a.required ≠ [] → a'.required ≠ []) := by
  induction n with
  | zero => intro a a' h; simp [relaxN] at h; subst h; exact ⟨⟨[], by simp⟩, id⟩
  | succ n ih =>
    intro a a' h
    simp only [relaxN] at h
    cases hs : relaxStep a with
    | none => rw [hs] at h; simp at h
    | some a1 =>
      rw [hs] at h
      simp only [Option.bind_some] at h
      obtain ⟨⟨d1, hd1⟩, hne1, _⟩ := C01_relax_sound a a1 hs
      obtain ⟨⟨d2, hd2⟩, hne2⟩ := ih a1 a' h
      exact ⟨⟨d1 ++ d2, by rw [hd1, hd2, List.append_assoc]⟩, fun hne => hne2 (hne1 hne)⟩

/-! ## Existing nodes -/

/-- the requirement Karpenter derives for a key tolerates the label's absence only if every expression of the pod on
    that key does.  This is what the requirement REPRESENTATION cannot guarantee: it fails exactly for the two recorded
    findings (an empty intersection read as `DoesNotExist`; `Exists`/`Gt`/`Lt` lost next to `NotIn`) — see the negation
    witnesses below. -/
def Faithful (es : List KExpr) : Prop :=
  ∀ k r, (podReqs es).lookup k = some r → r.absentOk = true →
    ∀ e ∈ es, normalizeKey e.key = k → k8sMatch e.op e.vals none = true

/-- Full statement (what the property demands), WITHOUT the `Faithful` hypothesis:

      existingCanAdd n p = true → ∀ e ∈ p.exprs, k8sMatch e.op e.vals (n.labels.lookup (normalizeKey e.key)) = true

    It is false for the code as it is (`C01_existing_violated_*` below; both replayed on the real scheduler and
    recorded in known_findings.json).  Proved: the statement under `Faithful`.

    **C01_existing_sound_partial** — if `ExistingNode.CanAdd` accepts the pod, then every taint of the node is
    tolerated, no host port conflicts with a port in use, the requests fit the remaining resources, and the node's
    actual labels satisfy, under Kubernetes semantics, EVERY expression the pod's requirements were built from (node
    selector and the chosen required term), for all nodes, pods and validated expression lists. -/
theorem C01_existing_sound_partial (n : ExNode) (p : PodD)
    (hvalid : ∀ e ∈ p.exprs, validExpr e = true) (hf : Faithful p.exprs)
    (h : existingCanAdd n p = true) :
    (∀ t ∈ n.taints, ∃ tol ∈ p.tolerations, tolerates tol t = true) ∧
    portsFree n.ports p.ports = true ∧
    (p.cpu ≤ n.remCPU ∧ p.mem ≤ n.remMem ∧ 1 ≤ n.remPods) ∧
    ∀ e ∈ p.exprs, k8sMatch e.op e.vals (n.labels.lookup (normalizeKey e.key)) = true := by
  unfold existingCanAdd at h
  simp only [Bool.and_eq_true] at h
  obtain ⟨⟨⟨ht, hp⟩, hfit⟩, hc⟩ := h
  refine ⟨?_, hp, ?_, ?_⟩
  · intro t htm
    have := List.all_eq_true.mp ht t htm
    obtain ⟨tol, htol, hx⟩ := List.any_eq_true.mp this
    exact ⟨tol, htol, hx⟩
  · simp only [fits, Bool.and_eq_true, decide_eq_true_eq] at hfit; exact ⟨hfit.1.1, hfit.1.2, hfit.2⟩
  · -- labels
    have hrsWF : ∀ r ∈ p.exprs.map newReq, r.WF := by
      intro r hr
      obtain ⟨e, he, rfl⟩ := List.mem_map.mp hr
      exact (newReq_spec e (hvalid e he)).1
    have hWF : ∀ q ∈ podReqs p.exprs, q.2.WF := wf_add _ [] (by intro q hq; cases hq) hrsWF
    have hadm := compatible_labels n.labels (podReqs p.exprs) hWF hc
    intro e he
    obtain ⟨_, hkey, hhas⟩ := newReq_spec e (hvalid e he)
    have hmem : newReq e ∈ p.exprs.map newReq := List.mem_map.mpr ⟨e, he, rfl⟩
    have hsome := lookup_add_isSome (p.exprs.map newReq) [] (newReq e) hmem
    rw [hkey] at hsome
    cases hl : (podReqs p.exprs).lookup (normalizeKey e.key) with
    | none => unfold podReqs at hl; rw [hl] at hsome; simp at hsome
    | some r =>
      have hin := lookup_mem _ _ _ hl
      have ha := hadm _ hin
      simp only at ha
      cases hlab : n.labels.lookup (normalizeKey e.key) with
      | none =>
        rw [hlab] at ha
        exact hf _ r hl (by simpa [Req.admits] using ha) e he rfl
      | some v =>
        rw [hlab] at ha
        -- r admits v, and r's admitted values are the conjunction over all added requirements on the key
        have hg := has_add (p.exprs.map newReq) [] (normalizeKey e.key) v
        have hget : (Reqs.add [] (p.exprs.map newReq)).get (normalizeKey e.key) = r := by
          rw [get_eq]; unfold podReqs at hl; rw [hl]
        rw [hget] at hg
        have hrv : r.has v = true := by simpa [Req.admits] using ha
        rw [hrv] at hg
        have hall := (Bool.and_eq_true _ _).mp hg.symm
        have := List.all_eq_true.mp hall.2 (newReq e) (List.mem_filter.mpr ⟨hmem, by rw [hkey]; simp⟩)
        rw [← hhas v]; exact this

/-- `Faithful` holds whenever the pod has at most one expression per key (the overwhelmingly common case):
    a single validated expression is represented exactly (`Gt`/`Lt` excepted: `Gt MaxInt` / `Lt MinInt` "match
    nothing" and are stored as `DoesNotExist`, another instance of the empty-set finding). -/
theorem C01_faithful_single (e : KExpr) (hv : validExpr e = true) (hgt : e.op ≠ .gt) (hlt : e.op ≠ .lt) : Faithful [e] := by
  intro k r hl habs e' he' hk
  simp only [List.mem_singleton] at he'
  subst he'
  have hspec := newReq_spec e' hv
  -- podReqs [e'] = [(key, newReq e')]
  have hl' : (podReqs [e']).lookup k = some (newReq e') := by
    unfold podReqs
    simp only [List.map_cons, List.map_nil, Reqs.add, List.foldl_cons, List.foldl_nil, lookup_add1, hspec.2.1, hk]
    simp
  rw [hl'] at hl
  have hr : r = newReq e' := by simpa using hl.symm
  subst hr
  -- case analysis on the operator
  unfold validExpr at hv
  rw [Bool.and_eq_true] at hv
  unfold newReq at habs
  cases hop : e'.op <;> rw [hop] at hv <;> simp only [Req.new, hop] at habs
  case notIn => simp [k8sMatch]
  case doesNotExist => simp [k8sMatch]
  case other => simp [validOperands] at hv
  case in_ =>
    exfalso
    cases hvals : e'.vals with
    | nil => rw [hvals] at hv; simp at hv
    | cons x xs =>
      rw [hvals] at habs
      simp [pure, Except.pure, Req.absentOk, Req.operator, Req.len, card, normalizeValue, List.eraseDups_cons] at habs
      try omega
  case exists_ =>
    exfalso
    simp [pure, Except.pure, Req.absentOk, Req.operator, Req.len, card, maxInt] at habs
  case gt => exact absurd hop hgt
  case lt => exact absurd hop hlt
  all_goals
    exfalso
    cases hvals : e'.vals with
    | nil => rw [hvals] at hv; simp [validOperands] at hv
    | cons x xs =>
      rw [hvals] at habs
      simp only [List.map_cons] at habs
      first
        | (split at habs <;> simp [pure, Except.pure, Req.absentOk, Req.operator, Req.len, card, maxInt, doesNotExist] at habs; done)
        | (simp [pure, Except.pure, Req.absentOk, Req.operator, Req.len, card, maxInt] at habs; done)

/-- **C01_existing_capacity** — over any sequence of pods accepted and added one after the other, the remaining
    resources never go negative: the sum of the accepted requests stays within what was available. -/
theorem C01_existing_capacity (ps : List PodD) : ∀ (n : ExNode),
    0 ≤ n.remCPU → 0 ≤ n.remMem → 0 ≤ n.remPods →
    (ps.foldl (fun (acc : Option ExNode) p => acc.bind (fun m => if existingCanAdd m p then some (existingAdd m p) else none)) (some n)
      = some m') → 0 ≤ m'.remCPU ∧ 0 ≤ m'.remMem ∧ 0 ≤ m'.remPods := by
  induction ps with
  | nil => intro n h1 h2 h3 h; simp at h; subst h; exact ⟨h1, h2, h3⟩
  | cons p rest ih =>
    intro n h1 h2 h3 h
    simp only [List.foldl_cons, Option.bind_some] at h
    by_cases hc : existingCanAdd n p = true
    · simp only [hc, if_true] at h
      have hfit : (p.cpu ≤ n.remCPU ∧ p.mem ≤ n.remMem) ∧ 1 ≤ n.remPods := by
        unfold existingCanAdd at hc
        simp only [Bool.and_eq_true] at hc
        have := hc.1.2
        simpa only [fits, Bool.and_eq_true, decide_eq_true_eq] using this
      exact ih (existingAdd n p) (by simp [existingAdd]; omega) (by simp [existingAdd]; omega) (by simp [existingAdd]; omega) h
    · simp only [hc, Bool.false_eq_true, if_false] at h
      have : ∀ (l : List PodD), l.foldl (fun (acc : Option ExNode) p => acc.bind (fun m => if existingCanAdd m p then some (existingAdd m p) else none)) none = none := by
        intro l; induction l with
        | nil => rfl
        | cons x xs ihx => simpa using ihx
      rw [this] at h; cases h

/-! ## New NodeClaims: the instance types that survive filtering -/

/-- **C01_fits_pair** — what the two results of `fits` mean, for every list of allocatable groups: `itFits` holds iff
    ONE group both holds the requests and has an offering compatible with the requirements; `hasOffering` holds iff
    some group has a compatible offering; hence `itFits` implies `hasOffering`. -/
theorem C01_fits_pair (it : ITM) (req : ResList) (R : Reqs) (wk : List String) :
    ((itFits it req R wk).1 = true ↔
      ∃ ag ∈ it.groups, resFits req ag.alloc = true ∧ ∃ o ∈ ag.offerings, R.compatible o.reqs wk = true) ∧
    ((itFits it req R wk).2 = true ↔ ∃ ag ∈ it.groups, ∃ o ∈ ag.offerings, R.compatible o.reqs wk = true) ∧
    ((itFits it req R wk).1 = true → (itFits it req R wk).2 = true) := by
  have h1 : (itFits it req R wk).1 = true ↔
      ∃ ag ∈ it.groups, resFits req ag.alloc = true ∧ ∃ o ∈ ag.offerings, R.compatible o.reqs wk = true := by
    unfold itFits
    rw [fitsLoop_fst, List.any_eq_true]
    constructor
    · rintro ⟨ag, hag, hc⟩
      rw [Bool.and_eq_true] at hc
      obtain ⟨o, ho, hoc⟩ := List.any_eq_true.mp hc.1
      exact ⟨ag, hag, hc.2, o, ho, hoc⟩
    · rintro ⟨ag, hag, hf, o, ho, hoc⟩
      exact ⟨ag, hag, by rw [Bool.and_eq_true]; exact ⟨List.any_eq_true.mpr ⟨o, ho, hoc⟩, hf⟩⟩
  have h2 : (itFits it req R wk).2 = true ↔ ∃ ag ∈ it.groups, ∃ o ∈ ag.offerings, R.compatible o.reqs wk = true := by
    unfold itFits
    rw [fitsLoop_snd, Bool.false_or, List.any_eq_true]
    constructor
    · rintro ⟨ag, hag, hc⟩
      obtain ⟨o, ho, hoc⟩ := List.any_eq_true.mp hc
      exact ⟨ag, hag, o, ho, hoc⟩
    · rintro ⟨ag, hag, o, ho, hoc⟩
      exact ⟨ag, hag, List.any_eq_true.mpr ⟨o, ho, hoc⟩⟩
  refine ⟨h1, h2, fun h => ?_⟩
  obtain ⟨ag, hag, _, o, ho, hoc⟩ := h1.mp h
  exact h2.mpr ⟨ag, hag, o, ho, hoc⟩

/-- **C01_filter_sound** — every instance type that survives `filterInstanceTypesByRequirements` (for ANY options,
    daemon-overhead groups, requirements, pod, requests and ANY allocatable groups per instance type)
    (a) is one of the options and its requirements intersect the claim's,
    (b) belongs to a daemon-overhead group whose host ports (reserved by other pods) do not conflict with the pod's, and
    (c) has ONE allocatable group that contains an offering compatible with the requirements AND holds the summed
        requests plus that daemon group's overhead: `resources.Fits` holds, in particular every resource satisfies
        `total + daemon overhead ≤ allocatable` in that group. -/
theorem C01_filter_sound (options : List ITM) (groups : List Group) (R : Reqs) (podKey : String) (pp : List HostPort)
    (total : ResList) (wk : List String) (it : ITM)
    (h : it ∈ filterITs options groups R podKey pp total wk) :
    it ∈ options ∧ itCompatible it R = true ∧
    ∃ g ∈ groups, g.its.contains it.name = true ∧ portsFree (g.portsOfOthers podKey) pp = true ∧
      ∃ ag ∈ it.groups,
        (∃ o ∈ ag.offerings, R.compatible o.reqs wk = true) ∧
        resFits (resMerge total g.overhead) ag.alloc = true ∧
        ∀ k, total.get k + g.overhead.get k ≤ ag.alloc.get k := by
  unfold filterITs at h
  obtain ⟨c, hc, rfl⟩ := List.mem_map.mp h
  obtain ⟨hcand, hmeets⟩ := List.mem_filter.mp hc
  obtain ⟨hg, hp, n, hn, hf⟩ := (mem_filterCandidates options groups podKey pp c).mp hcand
  have hmem : c.2 ∈ options := List.mem_of_find?_eq_some hf
  have hname : c.2.name = n := by simpa using List.find?_some hf
  unfold meetsAll criteria at hmeets
  simp only [Bool.and_eq_true] at hmeets
  obtain ⟨⟨hcompat, hfits⟩, _⟩ := hmeets
  obtain ⟨ag, hag, hres, o, ho, hoc⟩ := (C01_fits_pair c.2 _ R wk).1.mp hfits
  refine ⟨hmem, hcompat, c.1, hg, ?_, hp, ag, hag, ⟨o, ho, hoc⟩, hres, resFits_merge_le _ _ _ hres⟩
  rw [hname]; simpa using hn

/-- **C01_filter_complete** — the converse: an option (the only one of its name) that belongs to a daemon-overhead
    group without a host-port conflict, whose requirements intersect the claim's, and that has one allocatable group
    with a compatible offering in which the requests plus the group's overhead fit, survives. -/
theorem C01_filter_complete (options : List ITM) (groups : List Group) (R : Reqs) (podKey : String) (pp : List HostPort)
    (total : ResList) (wk : List String) (it : ITM)
    (hmem : it ∈ options) (huniq : ∀ a ∈ options, a.name = it.name → a = it)
    (hcompat : itCompatible it R = true)
    (g : Group) (hg : g ∈ groups) (hin : g.its.contains it.name = true)
    (hp : portsFree (g.portsOfOthers podKey) pp = true)
    (ag : AllocGroup) (hag : ag ∈ it.groups)
    (o : OfferingM) (ho : o ∈ ag.offerings) (hoc : R.compatible o.reqs wk = true)
    (hres : resFits (resMerge total g.overhead) ag.alloc = true) :
    it ∈ filterITs options groups R podKey pp total wk := by
  have hfind : options.find? (fun a => a.name == it.name) = some it := by
    cases hf : options.find? (fun a => a.name == it.name) with
    | none =>
      have := List.find?_eq_none.mp hf it hmem
      simp at this
    | some a =>
      have ha : a ∈ options := List.mem_of_find?_eq_some hf
      have hn : a.name = it.name := by simpa using List.find?_some hf
      rw [huniq a ha hn]
  unfold filterITs
  refine List.mem_map.mpr ⟨(g, it), List.mem_filter.mpr ⟨?_, ?_⟩, rfl⟩
  · exact (mem_filterCandidates options groups podKey pp (g, it)).mpr ⟨hg, hp, it.name, by simpa using hin, hfind⟩
  · have hpair := C01_fits_pair it (resMerge total g.overhead) R wk
    have h1 : (itFits it (resMerge total g.overhead) R wk).1 = true := hpair.1.mpr ⟨ag, hag, hres, o, ho, hoc⟩
    have h2 := hpair.2.2 h1
    simp only [meetsAll, criteria, Bool.and_eq_true]
    exact ⟨⟨hcompat, h1⟩, h2⟩

/-- **C01_groups_exact** — `precompute` / `groupOfferingsByOverride`: every offering of every allocatable group is an
    AVAILABLE offering of the instance type and the group's allocatable is exactly what a launch through that offering
    gets (capacity and overhead with that offering's overrides); conversely every available offering sits in such a
    group; and the first group is the base allocatable. -/
theorem C01_groups_exact (raw : ITRaw) :
    (∀ ag ∈ allocGroups raw, ∀ om ∈ ag.offerings,
      ∃ o ∈ raw.offerings, o.available = true ∧ o.toM = om ∧ ag.alloc = allocFor raw o) ∧
    (∀ o ∈ raw.offerings, o.available = true → ∃ ag ∈ allocGroups raw, o.toM ∈ ag.offerings ∧ ag.alloc = allocFor raw o) ∧
    (∃ g0 rest, allocGroups raw = g0 :: rest ∧ g0.alloc = computeAlloc raw [] none) := by
  refine ⟨fun ag hag om hom => allocGroups_sound raw ag hag om hom, fun o ho hav => allocGroups_complete raw o ho hav, ?_⟩
  obtain ⟨rest, h⟩ := allocGroups_base_first raw
  exact ⟨_, rest, h, rfl⟩

/-- **C01_launch_sound** — the property for a new NodeClaim, over instance types as the cloud provider describes them
    (capacity, overhead, offerings with per-offering capacity / overhead overrides): every instance type that survives
    the filter can be launched through an AVAILABLE offering that is compatible with the claim's requirements and whose
    OWN allocatable holds, resource by resource, the summed requests plus the daemon overhead of a daemon group the
    instance type belongs to and whose host ports do not conflict with the pod's. -/
theorem C01_launch_sound (raws : List ITRaw) (groups : List Group) (R : Reqs) (podKey : String) (pp : List HostPort)
    (total : ResList) (wk : List String) (it : ITM)
    (h : it ∈ filterITs (raws.map ITRaw.toITM) groups R podKey pp total wk) :
    ∃ raw ∈ raws, it = raw.toITM ∧ raw.reqs.intersects R = true ∧
    ∃ g ∈ groups, g.its.contains raw.name = true ∧ portsFree (g.portsOfOthers podKey) pp = true ∧
      ∃ o ∈ raw.offerings, o.available = true ∧ R.compatible o.reqs wk = true ∧
        ∀ k, total.get k + g.overhead.get k ≤ (allocFor raw o).get k := by
  obtain ⟨hopt, hcompat, g, hg, hin, hp, ag, hag, ⟨om, hom, hoc⟩, _, hle⟩ :=
    C01_filter_sound _ groups R podKey pp total wk it h
  obtain ⟨raw, hraw, rfl⟩ := List.mem_map.mp hopt
  obtain ⟨o, ho, hav, rfl, halloc⟩ := allocGroups_sound raw ag hag om hom
  exact ⟨raw, hraw, rfl, hcompat, g, hg, hin, hp, o, ho, hav, hoc, by rw [← halloc]; exact hle⟩

/-- **C01_launch_complete** — conversely, an instance type (the only one of its name) with an available compatible
    offering whose own allocatable passes `resources.Fits` for the requests plus the overhead of a conflict-free daemon
    group it belongs to, and whose requirements intersect the claim's, survives the filter. -/
theorem C01_launch_complete (raws : List ITRaw) (groups : List Group) (R : Reqs) (podKey : String) (pp : List HostPort)
    (total : ResList) (wk : List String) (raw : ITRaw)
    (hmem : raw ∈ raws) (huniq : ∀ a ∈ raws, a.name = raw.name → a = raw)
    (hcompat : raw.reqs.intersects R = true)
    (g : Group) (hg : g ∈ groups) (hin : g.its.contains raw.name = true)
    (hp : portsFree (g.portsOfOthers podKey) pp = true)
    (o : OfferingRaw) (ho : o ∈ raw.offerings) (hav : o.available = true) (hoc : R.compatible o.reqs wk = true)
    (hres : resFits (resMerge total g.overhead) (allocFor raw o) = true) :
    raw.toITM ∈ filterITs (raws.map ITRaw.toITM) groups R podKey pp total wk := by
  obtain ⟨ag, hag, hom, halloc⟩ := allocGroups_complete raw o ho hav
  refine C01_filter_complete _ groups R podKey pp total wk raw.toITM (List.mem_map.mpr ⟨raw, hmem, rfl⟩) ?_ hcompat
    g hg hin hp ag hag o.toM hom hoc (by rw [halloc]; exact hres)
  intro a ha hn
  obtain ⟨r, hr, rfl⟩ := List.mem_map.mp ha
  rw [huniq r hr hn]

/-- **C01_filter_result** — the minValues tail only ever shrinks the result: what `filterInstanceTypesByRequirements`
    returns is the filtered list or nothing; an error is returned exactly when nothing remains; under the strict policy
    a violated minValues leaves nothing; under the relaxing policy the filtered list is returned unchanged. -/
theorem C01_filter_result (options : List ITM) (groups : List Group) (R : Reqs) (podKey : String) (pp : List HostPort)
    (total : ResList) (wk : List String) (relax : Bool) :
    ((filterResult options groups R podKey pp total wk relax).remaining = filterITs options groups R podKey pp total wk ∨
      (filterResult options groups R podKey pp total wk relax).remaining = []) ∧
    ((filterResult options groups R podKey pp total wk relax).err.isSome = true ↔
      (filterResult options groups R podKey pp total wk relax).remaining = []) ∧
    (relax = false → (filterResult options groups R podKey pp total wk relax).unsat ≠ [] →
      (filterResult options groups R podKey pp total wk relax).remaining = []) ∧
    (relax = true →
      (filterResult options groups R podKey pp total wk relax).remaining = filterITs options groups R podKey pp total wk) := by
  simp only [filterResult]
  generalize filterITs options groups R podKey pp total wk = rem
  generalize (if hasMinValues R = true then minValuesUnsat rem R else []) = unsat
  cases unsat <;> cases relax <;> cases rem <;> simp

/-! ## The recorded findings: the full statement is false for the code as it is -/

def nodeNoTeam : ExNode := { labels := [("kubernetes.io/hostname", "n1")], taints := [], remCPU := 4000, remMem := 4096, remPods := 10, ports := [] }

/-- F1 `empty-set-read-as-absent`: nodeSelector `team=blue` together with a required `team In [red]` — no node can
    satisfy both, yet the node WITHOUT a `team` label is accepted -/
def podContradictory : PodD :=
  { cpu := 100, mem := 64, tolerations := [], ports := [],
    exprs := [{ key := "team", op := .in_, vals := ["blue"] }, { key := "team", op := .in_, vals := ["red"] }] }

theorem C01_existing_violated_empty_set :
    existingCanAdd nodeNoTeam podContradictory = true ∧
    k8sMatch .in_ ["blue"] (nodeNoTeam.labels.lookup "team") = false := by decide

/-- F2 `presence-lost-with-notin`: `tier Exists` together with `tier NotIn [gold]` — the node has no `tier` label -/
def podExistsNotIn : PodD :=
  { cpu := 100, mem := 64, tolerations := [], ports := [],
    exprs := [{ key := "tier", op := .exists_, vals := [] }, { key := "tier", op := .notIn, vals := ["gold"] }] }

theorem C01_existing_violated_presence_lost :
    existingCanAdd nodeNoTeam podExistsNotIn = true ∧
    k8sMatch .exists_ [] (nodeNoTeam.labels.lookup "tier") = false := by decide

/-! ## Non-vacuity -/

def nodeZ : ExNode :=
  { labels := [("topology.kubernetes.io/zone", "z1"), ("team", "red"), ("kubernetes.io/hostname", "n1")],
    taints := [{ key := "dedicated", value := "x", effect := "NoSchedule" }], remCPU := 1000, remMem := 1024, remPods := 2,
    ports := [{ port := 8080, proto := "TCP", ip := "" }] }
def podOK : PodD :=
  { cpu := 500, mem := 512, tolerations := [{ key := "dedicated", operator := "Exists", value := "", effect := "" }],
    ports := [{ port := 8081, proto := "TCP", ip := "" }],
    exprs := [{ key := "failure-domain.beta.kubernetes.io/zone", op := .in_, vals := ["z1", "z2"] }, { key := "team", op := .notIn, vals := ["blue"] }] }

example : existingCanAdd nodeZ podOK = true := by decide
example : existingCanAdd nodeZ { podOK with cpu := 1001 } = false := by decide
example : existingCanAdd nodeZ { podOK with ports := [{ port := 8080, proto := "TCP", ip := "10.0.0.1" }] } = false := by decide
example : existingCanAdd nodeZ { podOK with tolerations := [] } = false := by decide
example : (∀ e ∈ podOK.exprs, validExpr e = true) := by decide

/-! ### Non-vacuity for the NodeClaim filter: a two-group instance type -/

def zoneKey := "topology.kubernetes.io/zone"
def itKey := "node.kubernetes.io/instance-type"
def inReq (k : String) (vs : List String) : String × Req := (k, { key := k, complement := false, values := vs })
def offeringIn (z : String) (capOverride : ResList := []) (available := true) : OfferingRaw :=
  { reqs := [inReq zoneKey [z], inReq Karp.Gen.Labels.capacityTypeLabelKey ["on-demand"]], available := available,
    capOverride := capOverride }

/-- 4 vCPU sold as such in z1, but in z2 only with a CapacityOverride of 2 vCPU: two allocatable groups -/
def flexIT : ITRaw :=
  { name := "flex", reqs := [inReq itKey ["flex"], inReq zoneKey ["z1", "z2"]],
    capacity := [("cpu", 4000), ("memory", 8192), ("pods", 10)], overhead := [("cpu", 100)],
    offerings := [offeringIn "z1", offeringIn "z2" [("cpu", 2000)]] }
def bigIT : ITRaw :=
  { name := "big", reqs := [inReq itKey ["big"], inReq zoneKey ["z1", "z2"]],
    capacity := [("cpu", 8000), ("memory", 16384), ("pods", 10)], overhead := [("cpu", 100)],
    offerings := [offeringIn "z1", offeringIn "z2"] }
def dsGroup : Group :=
  { its := ["flex", "big"], overhead := [("cpu", 200), ("pods", 1)],
    usage := [("ds-exporter", [{ port := 9100, proto := "TCP", ip := "" }])] }
def wantZ (z : String) : Reqs := [inReq zoneKey [z]]
def req3cpu : ResList := [("cpu", 3000), ("pods", 1)]
def wk := Karp.Gen.Labels.wellKnownLabels

/-- the two groups of `flex`: base (3900m) with the z1 offering, override (1900m) with the z2 offering -/
example : (allocGroups flexIT).map (fun g => (g.alloc.get "cpu", g.offerings.length)) = [(3900, 1), (1900, 1)] := by decide
/-- the roomy group is incompatible with "zone z2", the compatible group is too small: `flex` is filtered out,
    `big` survives (`fits` = (false, true) for `flex`) -/
example : (filterITs [flexIT.toITM, bigIT.toITM] [dsGroup] (wantZ "z2") "pod-a" [] req3cpu wk).map (·.name) = ["big"] := by decide
example : itFits flexIT.toITM (resMerge req3cpu dsGroup.overhead) (wantZ "z2") wk = (false, true) := by decide
/-- the same request aimed at z1 keeps both -/
example : (filterITs [flexIT.toITM, bigIT.toITM] [dsGroup] (wantZ "z1") "pod-a" [] req3cpu wk).map (·.name) = ["flex", "big"] := by decide
/-- a smaller request fits the override group as well -/
example : (filterITs [flexIT.toITM, bigIT.toITM] [dsGroup] (wantZ "z2") "pod-a" [] [("cpu", 1700), ("pods", 1)] wk).map (·.name) = ["flex", "big"] := by decide
/-- the daemon overhead counts: 1800m + 200m of daemons do not fit 1900m -/
example : (filterITs [flexIT.toITM, bigIT.toITM] [dsGroup] (wantZ "z2") "pod-a" [] [("cpu", 1800), ("pods", 1)] wk).map (·.name) = ["big"] := by decide
/-- a host port of the pod that a daemon of the group already uses skips the whole group; the same entry owned by
    the pod itself does not -/
example : filterITs [flexIT.toITM, bigIT.toITM] [dsGroup] (wantZ "z1") "pod-a" [{ port := 9100, proto := "TCP", ip := "10.0.0.1" }] req3cpu wk = [] := by decide
example : (filterITs [flexIT.toITM, bigIT.toITM] [dsGroup] (wantZ "z1") "ds-exporter" [{ port := 9100, proto := "TCP", ip := "10.0.0.1" }] req3cpu wk).map (·.name) = ["flex", "big"] := by decide
/-- an unavailable offering is in no group; requirements nothing offers leave nothing and set the error -/
example : (allocGroups { flexIT with offerings := [offeringIn "z1" [] false, offeringIn "z2" [("cpu", 2000)]] }).map (·.offerings.length) = [0, 1] := by decide
example : (filterResult [flexIT.toITM, bigIT.toITM] [dsGroup] (wantZ "z3") "pod-a" [] req3cpu wk false).err.isSome = true := by decide
/-- the hypotheses of `C01_launch_complete` are met by `big` through its z2 offering -/
example : bigIT.reqs.intersects (wantZ "z2") = true ∧ (wantZ "z2").compatible (offeringIn "z2").reqs wk = true ∧
    resFits (resMerge req3cpu dsGroup.overhead) (allocFor bigIT (offeringIn "z2")) = true := by decide

end Karp.C01
