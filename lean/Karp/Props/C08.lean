/- C08: property theorems (stub, not yet built) -/
namespace Karp.C08
end Karp.C08
