/-
C08 — Replacements are ready before removal; failed actions roll back.

Property theorems only (helper lemmas: `Karp/Proofs/OrchQueue.lean`).
Model: `Karp/Model/OrchQueue.lean` — `Queue.StartCommand / Reconcile / waitOrTerminate / CompleteCommand`, the
       disruption controller's cleanup, the cluster marks; every API call is a call site whose occurrences
       fail according to a fault plan that is part of the world.
Spec:  `Karp/Spec/OrchQueue.lean` — the observer's clauses (evaluated by the driver on what the real code did).

Every theorem below quantifies over ALL worlds `w` (hence all fault plans, all call counters, all clock
values, all numbers of candidates / commands / replacements, all retry budgets) or over all histories
(`List Step`, incl. restarts and environment steps) from an initial world.
-/
import Karp.Proofs.OrchQueue
import Karp.Spec.OrchQueue

namespace Karp.C08
open Karp.OrchQueue

/-! ## Fact expectations over the regenerated source facts -/

/-- `StartCommand`: refuse queued candidates → taint / mark candidates → create the replacements →
    `MarkForDeletion` → enter the queue (`Lock` guards the map insertion and the channel send) -/
theorem fact_startCommand_order :
    Karp.Gen.OrchQueue.startCommandOrder =
      ["HasAny", "markDisrupted", "createReplacementNodeClaims", "MarkForDeletion", "Lock"] := by decide

/-- `waitOrTerminate`: the replacements are read (and the cluster state consulted) before any Delete is issued -/
theorem fact_waitOrTerminate_order :
    Karp.Gen.OrchQueue.waitOrTerminateOrder = ["kubeClient.Get", "NodeClaimExists", "kubeClient.Delete"] := by decide

/-- `Reconcile`: on an unrecoverable error the taint and the condition are removed, then the command is completed -/
theorem fact_reconcile_order :
    Karp.Gen.OrchQueue.reconcileOrder =
      ["waitOrTerminate", "IsUnrecoverableError", "RequireNoScheduleTaint", "ClearNodeClaimsCondition", "CompleteCommand"] := by
  decide

/-- `CompleteCommand` unmarks (for a failed command) before it drops the queue entries -/
theorem fact_completeCommand_order :
    Karp.Gen.OrchQueue.completeCommandOrder = ["UnmarkForDeletion", "delete"] := by decide

/-- the controller's cleanup: sync gate, skip queued / marked nodes, untaint, clear the condition, only then disrupt -/
theorem fact_controller_order :
    Karp.Gen.OrchQueue.controllerOrder =
      ["Synced", "HasAny", "MarkedForDeletion", "RequireNoScheduleTaint", "ClearNodeClaimsCondition", "disrupt"] := by decide

/-- the cluster marks and the queue entries are set / removed for EVERY candidate of a command: `MarkForDeletion`,
    `UnmarkForDeletion` and `CompleteCommand` each consist of one loop over the listed provider ids / candidates that no
    statement leaves early (an id the cluster state does not know is skipped, the remaining ids are still visited) — the
    model folds over all live candidates (`startCommand`, `failCommand`, `succeedCommand`) -/
theorem fact_mark_loops_total :
    Karp.Gen.OrchQueue.markForDeletionLoops = 1 ∧ Karp.Gen.OrchQueue.markForDeletionLoopExits = 0 ∧
    Karp.Gen.OrchQueue.unmarkForDeletionLoops = 1 ∧ Karp.Gen.OrchQueue.unmarkForDeletionLoopExits = 0 ∧
    Karp.Gen.OrchQueue.completeCommandLoops = 1 ∧ Karp.Gen.OrchQueue.completeCommandLoopExits = 0 := by decide

/-- `NewCandidate` consults the queue before anything else -/
theorem fact_newCandidate_order :
    Karp.Gen.OrchQueue.newCandidateOrder = ["HasAny", "ValidateNodeDisruptable", "ValidatePodsDisruptable"] := by decide

/-- the retry window is a proper clamp -/
theorem fact_retry_window :
    0 < Karp.Gen.OrchQueue.minRetryDurationNs ∧
    Karp.Gen.OrchQueue.minRetryDurationNs ≤ Karp.Gen.OrchQueue.maxRetryDurationNs ∧
    0 < Karp.Gen.OrchQueue.retryDurationScaleNs := by decide

/-- the shape of the timeout handling is one the model knows: the one at the pinned commit (0: a deferred wrapper
    turns EVERY result of a late pass into an unrecoverable error — finding F1) or the repaired one (2: the window is
    only consulted while waiting) -/
theorem fact_timeout_mode :
    Karp.Gen.OrchQueue.timeoutMode = 0 ∨ Karp.Gen.OrchQueue.timeoutMode = 2 := by decide

/-- the mode the code is in, as the driver instantiates the model -/
def codeMode : TimeoutMode := TimeoutMode.ofCode Karp.Gen.OrchQueue.timeoutMode

/-! ## Invariant of reachable worlds -/

/-- bookkeeping of the commands (`CmdsOK`: a latch is only set for a replacement that reported Initialized, a command with
    Deletes on its record has every replacement latched) and every queue entry names an existing command -/
def Inv (w : World) : Prop :=
  CmdsOK w ∧ ∀ i K, (candAt w i).owner = some K → K < w.cmds.length

theorem inv_init (ncands : Nat) (cmds : List (List Nat × Nat)) (faults : List Fault) (missing : List Nat)
    (retrySteps : Nat) (mode : TimeoutMode) : Inv (initWorld ncands cmds faults missing retrySteps mode) := by
  constructor
  · intro c hc
    simp only [initWorld, List.mem_map] at hc
    obtain ⟨⟨cs, n⟩, _, e⟩ := hc
    subst e
    refine ⟨fun r hr => ?_, fun h => by cases h⟩
    simp only [List.mem_replicate] at hr
    rw [hr.2]
    exact ⟨(fun h => by cases h), (fun h => by cases h), (fun h => by cases h), (fun h => absurd rfl h)⟩
  · intro i K h
    simp only [candAt, initWorld] at h
    cases hg : (List.replicate ncands ({} : Cand))[i]? with
    | none => rw [hg] at h; cases h
    | some c =>
      rw [hg] at h
      have := List.mem_of_getElem? hg
      simp only [List.mem_replicate] at this
      rw [this.2] at h
      cases h

/-- queue entries after a step: unchanged, or released, or set by an accepted start of an existing command -/
theorem step_owner (w : World) (s : Step) (j : Nat) :
    (candAt (step w s).2.2 j).owner = (candAt w j).owner ∨ (candAt (step w s).2.2 j).owner = none ∨
    ∃ k via, s = .start k via ∧ (step w s).1 = .ok ∧ k < w.cmds.length ∧ j ∈ (cmdAt w k).cands ∧
      (candAt w j).owner = none ∧ (candAt (step w s).2.2 j).owner = some k := by
  cases s with
  | start k via =>
    rcases startCommand_owner_mark k via (reset w) with ⟨_, hk⟩ | ⟨hok, hlt, hfree, _, hall⟩
    · exact Or.inl (hk.owner j)
    · rcases hall j with ⟨ho, _⟩ | ⟨hm, ho, _⟩
      · exact Or.inl ho
      · exact Or.inr (Or.inr ⟨k, via, rfl, hok, hlt, hm, (hfree j hm).1, ho⟩)
  | reconcile k on =>
    rw [step_reconcile]
    rcases reconcile_cases k on (reset w) with e | ⟨ci, hc⟩
    · rw [e]; exact Or.inl rfl
    · rcases course_owner_mark hc j with ⟨_, _, ho, _⟩ | ⟨K, _, ho, _⟩
      · exact Or.inl ho
      · rw [ho]
        by_cases hj : j ∈ (cmdAt (reset w) K).live ∧ j < (reset w).cands.length
        · rw [if_pos hj]; exact Or.inr (Or.inl rfl)
        · rw [if_neg hj]; exact Or.inl rfl
  | advance ns =>
    left
    simp only [step]
    split <;> rfl
  | env op k i =>
    left
    show (candAt (envStep op k i (reset w)).2 j).owner = _
    unfold envStep
    split
    · rfl
    · split <;> rfl
  | candGone i => exact Or.inl (candGone_cand i (reset w) j).1
  | sync => exact Or.inl rfl
  | restart =>
    right; left
    exact (restart_cand (reset w) j).1
  | cleanup =>
    left
    exact (keep_eff ((eff_cleanup (reset w)).mono tc_api)).owner j

theorem inv_step {w : World} (h : Inv w) (s : Step) : Inv (step w s).2.2 := by
  obtain ⟨hc, ho⟩ := h
  have hcar := carried_step w s
  refine ⟨hcar.1 hc, fun j K hK => ?_⟩
  rw [hcar.2.1]
  rcases step_owner w s j with e | e | ⟨k, via, _, _, hlt, _, _, e⟩
  · rw [e] at hK; exact ho j K hK
  · rw [e] at hK; cases hK
  · rw [e] at hK; cases hK; exact hlt

theorem inv_run {w : World} (h : Inv w) : ∀ ss : List Step, Inv (run w ss) := by
  intro ss
  induction ss generalizing w with
  | nil => exact h
  | cons s ss ih => exact ih (inv_step h s)

/-! ## 1. Replacements are ready before removal -/

/-- **C08_delete_only_by_owning_pass** — in every world, under every fault plan: a Delete on a candidate NodeClaim is
    issued only by a queue pass, for a live candidate of the command the queue resolves the item to, and only in a pass
    in which every replacement of that command is latched-ready or reports Initialized right now; the replacements are
    read before the first Delete (the recorded snapshot is their API state). -/
theorem C08_delete_only_by_owning_pass (w : World) (s : Step) (e : DelEvent) (he : e ∈ (step w s).2.1) :
    ∃ k on ci K, s = .reconcile k on ∧ (candAt w ci).owner = some K ∧ e.cand ∈ (cmdAt w K).live ∧
      e.repls = (cmdAt w K).repls.map (·.api) ∧
      ∀ r ∈ (cmdAt w K).repls, r.latched = true ∨ r.api = .init := by
  cases s with
  | reconcile k on =>
    rw [step_reconcile] at he
    rcases reconcile_cases k on (reset w) with e0 | ⟨ci, hc⟩
    · rw [e0] at he; simp at he
    · obtain ⟨K, hK, h1, h2, h3⟩ := course_events hc e he
      exact ⟨k, on, ci, K, rfl, hK, h1, h2, h3⟩
  | start k via => simp [step] at he
  | advance ns => simp [step] at he
  | env op k i => simp [step] at he
  | candGone i => simp [step] at he
  | sync => simp [step] at he
  | restart => simp [step] at he
  | cleanup => simp [step] at he

/-- **C08_delete_after_ready** — in every reachable world: when a Delete on a candidate NodeClaim is issued, EVERY
    replacement of the acting command has been created and has reported Initialized (at that instant or, latched, at an
    earlier pass). -/
theorem C08_delete_after_ready {w : World} (hinv : Inv w) (s : Step) (e : DelEvent) (he : e ∈ (step w s).2.1) :
    ∃ ci K, (candAt w ci).owner = some K ∧ e.cand ∈ (cmdAt w K).live ∧
      e.repls.length = (cmdAt w K).repls.length ∧
      ∀ r ∈ (cmdAt w K).repls, r.created = true ∧ r.everInit = true := by
  obtain ⟨_, _, ci, K, _, hK, h1, h2, h3⟩ := C08_delete_only_by_owning_pass w s e he
  have hlt := hinv.2 ci K hK
  have hok := hinv.1 _ (cmdAt_mem hlt)
  refine ⟨ci, K, hK, h1, by rw [h2]; simp, fun r hr => ?_⟩
  have hro := hok.1 r hr
  rcases h3 r hr with hl | hi
  · exact ⟨hro.ever (hro.latch hl), hro.latch hl⟩
  · exact ⟨hro.ever (hro.init hi), hro.init hi⟩

/-- … over all histories from any initial configuration -/
theorem C08_delete_after_ready_hist (ncands : Nat) (cmds : List (List Nat × Nat)) (faults : List Fault)
    (missing : List Nat) (retrySteps : Nat) (mode : TimeoutMode) (ss : List Step) (s : Step) (e : DelEvent)
    (he : e ∈ (step (run (initWorld ncands cmds faults missing retrySteps mode) ss) s).2.1) :
    let w := run (initWorld ncands cmds faults missing retrySteps mode) ss
    ∃ ci K, (candAt w ci).owner = some K ∧ e.cand ∈ (cmdAt w K).live ∧
      e.repls.length = (cmdAt w K).repls.length ∧
      ∀ r ∈ (cmdAt w K).repls, r.created = true ∧ r.everInit = true :=
  C08_delete_after_ready (inv_run (inv_init ..) ss) s e he

/-
Full-strength ("strict") statement, as the property text reads literally:

    theorem C08_delete_after_ready_strict … : ∀ a ∈ e.repls, a = .init
      -- at the instant of the Delete every replacement exists and reports Initialized

The code violates it (finding F2, replayed on the real queue: corpus/c08.findings/002): `Replacement.Initialized`
latches readiness, a latched replacement is never looked at again, so one that vanishes after it was latched does
not stop the Deletes.  Proved instead: the statement under exactly the excluded guard, and its negation on the witness.
-/

/-- **C08_delete_after_ready_strict_partial** — if no latched replacement of the acting command has since vanished or
    regressed (every latched replacement still reports Initialized), then at the instant of the Delete every replacement
    exists and reports Initialized. -/
theorem C08_delete_after_ready_strict_partial (w : World) (s : Step) (e : DelEvent) (he : e ∈ (step w s).2.1)
    (hfresh : ∀ c ∈ w.cmds, ∀ r ∈ c.repls, r.latched = true → r.api = .init)
    (hvalid : ∀ i K, (candAt w i).owner = some K → K < w.cmds.length) :
    ∀ a ∈ e.repls, a = .init := by
  obtain ⟨_, _, ci, K, _, hK, _, h2, h3⟩ := C08_delete_only_by_owning_pass w s e he
  have hmem := cmdAt_mem (hvalid ci K hK)
  intro a ha
  rw [h2, List.mem_map] at ha
  obtain ⟨r, hr, e⟩ := ha
  subst e
  rcases h3 r hr with hl | hi
  · exact hfresh _ hmem r hr hl
  · exact hi

def f2World : World := initWorld 1 [([0], 2)] [] [] 4 .wrapAll
def f2History : List Step :=
  [.start 0 false, .env .init 0 0, .reconcile 0 0, .env .vanish 0 0, .env .init 0 1]

/-- **C08_delete_after_ready_strict_fails** — the witness of F2: replacement 0 is latched by a first pass, vanishes,
    replacement 1 initializes; the next pass issues the Delete while replacement 0 does not exist. -/
theorem C08_delete_after_ready_strict_fails :
    (step (run f2World f2History) (.reconcile 0 0)).2.1 = [{ cand := 0, repls := [.absent, .init], ok := true }] ∧
    (step (run f2World f2History) (.reconcile 0 0)).1 = .succeeded := by decide

/-! ## 2. Failed actions roll back -/

/-- the ghost flag `issued` is complete: a pass that issues a Delete for command `K` sets it … -/
theorem C08_issued_complete {w : World} (hinv : Inv w) (k on : Nat) (hne : (step w (.reconcile k on)).2.1 ≠ []) :
    ∃ ci K, (candAt w ci).owner = some K ∧ (cmdAt (step w (.reconcile k on)).2.2 K).issued = true := by
  rw [step_reconcile] at hne ⊢
  rcases reconcile_cases k on (reset w) with e0 | ⟨ci, hc⟩
  · rw [e0] at hne; exact absurd rfl hne
  · obtain ⟨e, he⟩ := List.exists_mem_of_ne_nil _ hne
    obtain ⟨K, hK, _⟩ := course_events hc e he
    refine ⟨ci, K, hK, ?_⟩
    rw [course_issued hc K hK (hinv.2 _ K hK)]
    cases hemp : (reconcile k on (reset w)).2.1 with
    | nil => exact absurd hemp hne
    | cons a t => simp

/-- … and is never reset, by any step -/
theorem C08_issued_monotone (w : World) (s : Step) (K : Nat) (h : (cmdAt w K).issued = true) :
    (cmdAt (step w s).2.2 K).issued = true := (carried_step w s).2.2 K h

/-
Full-strength statement: an action the queue gives up has issued no Delete —

    theorem C08_rollback_no_delete … (hfail : (step w (.reconcile k on)).1 = .failed) :
        (cmdAt (step w (.reconcile k on)).2.2 K).issued = false

The code at the pinned commit violates it (finding F1, replayed on the real queue: corpus/c08.findings/001): the
deferred timeout wrapper of `waitOrTerminate` also wraps the result of a pass that DID issue the Deletes.
-/

/-- **C08_rollback_no_delete_partial** — in every reachable world, whatever the faults: if the queue gives a command up
    although Deletes are on its record, then that pass was later than the retry window, every replacement was ready in
    it (it reached the delete phase) and the code applies the window to the delete phase.  Equivalently: a replacement
    that disappears, or a timeout while replacements are still being waited for, ends an action that has deleted
    nothing. -/
theorem C08_rollback_no_delete_partial {w : World} (hinv : Inv w) (k on : Nat)
    (hfail : (step w (.reconcile k on)).1 = .failed) :
    ∃ ci K, (candAt w ci).owner = some K ∧
      ((cmdAt (step w (.reconcile k on)).2.2 K).issued = true →
        w.mode ≠ .waitOnly ∧ timedOut w (cmdAt w K) = true ∧
          ∀ r ∈ (cmdAt w K).repls, r.latched = true ∨ r.api = .init) := by
  rw [step_reconcile] at hfail ⊢
  rcases reconcile_cases k on (reset w) with e0 | ⟨ci, hc⟩
  · rw [e0] at hfail; cases hfail
  · obtain ⟨K, hK⟩ := course_failed_acting hc hfail
    have hlt := hinv.2 ci K hK
    refine ⟨ci, K, hK, fun hi => ?_⟩
    exact course_failed_issued hc hfail K hK hlt (hinv.1 _ (cmdAt_mem hlt)) hi

/-- **C08_rollback_no_delete_fixed** — with the retry window consulted only while waiting (`fixes/C08-…patch`; the
    regenerated fact `timeoutMode = 2`) the full statement holds: a command the queue gives up has no Delete on its record. -/
theorem C08_rollback_no_delete_fixed {w : World} (hinv : Inv w) (hmode : w.mode = .waitOnly) (k on : Nat)
    (hfail : (step w (.reconcile k on)).1 = .failed) :
    ∃ ci K, (candAt w ci).owner = some K ∧ (cmdAt (step w (.reconcile k on)).2.2 K).issued = false := by
  obtain ⟨ci, K, hK, h⟩ := C08_rollback_no_delete_partial hinv k on hfail
  refine ⟨ci, K, hK, ?_⟩
  cases hi : (cmdAt (step w (.reconcile k on)).2.2 K).issued with
  | false => rfl
  | true => exact absurd hmode (h hi).1

/-- **C08_rollback_no_delete_in_window** — in every mode: a command given up before its retry window has passed
    (a replacement disappeared) has no Delete on its record. -/
theorem C08_rollback_no_delete_in_window {w : World} (hinv : Inv w) (k on : Nat)
    (hfail : (step w (.reconcile k on)).1 = .failed)
    (hwin : ∀ K, timedOut w (cmdAt w K) = false) :
    ∃ ci K, (candAt w ci).owner = some K ∧ (cmdAt (step w (.reconcile k on)).2.2 K).issued = false := by
  obtain ⟨ci, K, hK, h⟩ := C08_rollback_no_delete_partial hinv k on hfail
  refine ⟨ci, K, hK, ?_⟩
  cases hi : (cmdAt (step w (.reconcile k on)).2.2 K).issued with
  | false => rfl
  | true =>
    have := (h hi).2.1
    rw [hwin K] at this
    cases this

def f1World : World := initWorld 1 [([0], 1)] [] [] 4 .wrapAll
def f1History : List Step := [.start 0 false, .advance 600000000001, .env .init 0 0]

/-- **C08_rollback_no_delete_fails** — the witness of F1 (mode of the pinned commit): the replacement reports
    Initialized 1 ns after the 10-minute window; the pass issues the Delete, is reported failed, and the candidate is
    unmarked, untainted and its condition cleared although its NodeClaim is being deleted. -/
theorem C08_rollback_no_delete_fails :
    (step (run f1World f1History) (.reconcile 0 0)).1 = .failed ∧
    (step (run f1World f1History) (.reconcile 0 0)).2.1 = [{ cand := 0, repls := [.init], ok := true }] ∧
    (step (run f1World f1History) (.reconcile 0 0)).2.2.cands =
      [{ taint := false, cond := false, deleting := true, mark := false, owner := none }] := by decide

/-- the same history in the repaired mode succeeds -/
theorem C08_rollback_witness_fixed :
    (step (run { f1World with mode := .waitOnly } f1History) (.reconcile 0 0)).1 = .succeeded := by decide

/-- **C08_failed_releases** — in every world: when the queue gives a command up, each of its live candidates leaves the
    queue and is unmarked at once (it counts as schedulable capacity again); no other node's queue entry or mark changes. -/
theorem C08_failed_releases (w : World) (k on : Nat) (hfail : (step w (.reconcile k on)).1 = .failed) :
    ∃ ci K, (candAt w ci).owner = some K ∧ ∀ j,
      ((j ∈ (cmdAt w K).live ∧ j < w.cands.length) →
        (candAt (step w (.reconcile k on)).2.2 j).owner = none ∧ (candAt (step w (.reconcile k on)).2.2 j).mark = false) ∧
      (¬ (j ∈ (cmdAt w K).live ∧ j < w.cands.length) →
        (candAt (step w (.reconcile k on)).2.2 j).owner = (candAt w j).owner ∧
        (candAt (step w (.reconcile k on)).2.2 j).mark = (candAt w j).mark) := by
  rw [step_reconcile] at hfail ⊢
  rcases reconcile_cases k on (reset w) with e0 | ⟨ci, hc⟩
  · rw [e0] at hfail; cases hfail
  · obtain ⟨K, hK⟩ := course_failed_acting hc hfail
    refine ⟨ci, K, hK, fun j => ?_⟩
    rcases course_owner_mark hc j with ⟨hnf, _⟩ | ⟨K', hK', ho, hm⟩
    · exact absurd hfail hnf
    · rw [hK] at hK'; cases hK'
      simp only [candAt_reset, cmdAt_reset, reset_cands] at ho hm
      rcases hm with ⟨_, hm⟩ | ⟨hs, _⟩
      · constructor
        · intro hj; rw [ho, hm]; simp [hj]
        · intro hj; rw [ho, hm]; simp [hj]
      · rw [hfail] at hs; cases hs

/-- **C08_failed_rolls_back_at_once** — if no fault interferes with the failing pass (quiet plan), the disruption taint
    and the DisruptionReason condition of every live candidate that still exists are removed by that very pass — also
    when other candidates of the command have meanwhile gone away (their NotFound is not an error and stops nothing).
    (Under faults the removal is left to the next cleanup pass: `C08_cleanup_returns_to_service`.) -/
theorem C08_failed_rolls_back_at_once {w : World} (hq : Quiet w) (hr : 0 < w.retrySteps) (k on : Nat)
    (hfail : (step w (.reconcile k on)).1 = .failed) :
    ∃ ci K, (candAt w ci).owner = some K ∧ ∀ j ∈ (cmdAt w K).live, (candAt w j).gone = false →
      (candAt (step w (.reconcile k on)).2.2 j).taint = false ∧ (candAt (step w (.reconcile k on)).2.2 j).cond = false := by
  rw [step_reconcile] at hfail ⊢
  rcases reconcile_cases k on (reset w) with e0 | ⟨ci, hc⟩
  · rw [e0] at hfail; cases hfail
  · obtain ⟨K, hK, h⟩ := course_failed_quiet hc hfail (quiet_reset hq) hr
    exact ⟨ci, K, hK, h⟩

/-- **C08_rejected_start_inert** — in every world: a start that is not accepted (candidate already queued or not
    disruptable, a candidate could not be tainted / marked, a replacement could not be created) changes no queue entry
    and no deletion mark: nothing is in the queue for it, so it can delete nothing, and the nodes stay schedulable capacity. -/
theorem C08_rejected_start_inert (w : World) (k : Nat) (via : Bool) (hrej : (step w (.start k via)).1 ≠ .ok) :
    ∀ j, (candAt (step w (.start k via)).2.2 j).owner = (candAt w j).owner ∧
         (candAt (step w (.start k via)).2.2 j).mark = (candAt w j).mark := by
  rcases startCommand_owner_mark k via (reset w) with ⟨_, hk⟩ | ⟨hok, _⟩
  · exact fun j => ⟨hk.owner j, hk.mark j⟩
  · exact absurd hok hrej

/-- **C08_cleanup_returns_to_service** — once the faults have stopped (no fault of the plan applies to any later call),
    a cleanup pass on a synced cluster state succeeds and afterwards every node that still exists and is neither in the
    queue, nor marked for deletion, nor going away carries no disruption taint and no DisruptionReason condition. -/
theorem C08_cleanup_returns_to_service {w : World} (hq : Quiet w) (hr : 0 < w.retrySteps) (hs : synced w = true) :
    (step w .cleanup).1 = .ok ∧
    ∀ i, i < w.cands.length → (candAt w i).owner = none → (candAt w i).mark = false → (candAt w i).deleting = false →
      (candAt w i).gone = false →
      (candAt (step w .cleanup).2.2 i).taint = false ∧ (candAt (step w .cleanup).2.2 i).cond = false :=
  cleanup_quiet (w := (reset w)) hq hr hs

/-- **C08_cleanup_keeps_actions** — under every fault plan the cleanup pass writes nothing but taints and conditions:
    queue entries, deletion marks, deletions and the commands are untouched. -/
theorem C08_cleanup_keeps_actions (w : World) :
    (step w .cleanup).2.2.cmds = w.cmds ∧
    ∀ j, (candAt (step w .cleanup).2.2 j).owner = (candAt w j).owner ∧
         (candAt (step w .cleanup).2.2 j).mark = (candAt w j).mark ∧
         (candAt (step w .cleanup).2.2 j).deleting = (candAt w j).deleting := by
  have he := eff_cleanup (reset w)
  have hk := keep_eff (he.mono tc_api)
  exact ⟨he.frame.1, fun j => ⟨hk.owner j, hk.mark j, he.field (·.deleting) tcUpd_deleting j⟩⟩

/-- **C08_restart_forgets** — a restart leaves no queue entry and no in-memory mark behind -/
theorem C08_restart_forgets (w : World) (j : Nat) :
    (candAt (step w .restart).2.2 j).owner = none ∧ (candAt (step w .restart).2.2 j).mark = false := by
  exact restart_cand (reset w) j

/-! ## 3. A node is never the subject of two concurrent actions -/

/-- **C08_exclusive** — in every world, for every step and every node `j`:
    * a node that is in the queue for command `K` stays there, or is released (by a completing pass or a restart);
      no step hands it to another command;
    * a node enters the queue only through an accepted start of a command that lists it, and only if it was in the
      queue for nobody. -/
theorem C08_exclusive (w : World) (s : Step) (j K : Nat) (h : (candAt w j).owner = some K) :
    (candAt (step w s).2.2 j).owner = some K ∨
    ((candAt (step w s).2.2 j).owner = none ∧
      (s = .restart ∨ ∃ k on, s = .reconcile k on ∧ ((step w s).1 = .failed ∨ (step w s).1 = .succeeded))) := by
  rcases step_owner w s j with e | e | ⟨k, via, _, _, _, _, hnone, _⟩
  · left; rw [e]; exact h
  · right
    refine ⟨e, ?_⟩
    cases s with
    | restart => exact Or.inl rfl
    | reconcile k on =>
      right
      refine ⟨k, on, rfl, ?_⟩
      rw [step_reconcile] at e ⊢
      rcases reconcile_cases k on (reset w) with e0 | ⟨ci, hc⟩
      · rw [e0] at e; rw [candAt_reset, h] at e; cases e
      · rcases course_owner_mark hc j with ⟨_, _, ho, _⟩ | ⟨_, _, _, hm⟩
        · rw [ho, candAt_reset, h] at e; cases e
        · rcases hm with ⟨hf, _⟩ | ⟨hs, _⟩
          · exact Or.inl hf
          · exact Or.inr hs
    | start k via =>
      exfalso
      rcases startCommand_owner_mark k via (reset w) with ⟨_, hk⟩ | ⟨_, _, _, _, hall⟩
      · have := hk.owner j
        rw [show (startCommand k via (reset w)).2 = (step w (.start k via)).2.2 from rfl, e,
          candAt_reset, h] at this
        cases this
      · rcases hall j with ⟨ho, _⟩ | ⟨_, ho, _⟩
        · rw [show (startCommand k via (reset w)).2 = (step w (.start k via)).2.2 from rfl, e,
            candAt_reset, h] at ho
          cases ho
        · rw [show (startCommand k via (reset w)).2 = (step w (.start k via)).2.2 from rfl, e] at ho
          cases ho
    | advance ns =>
      exfalso
      have : (candAt (step w (.advance ns)).2.2 j).owner = (candAt w j).owner := by
        simp only [step]; split <;> rfl
      rw [this, h] at e; cases e
    | env op k i =>
      exfalso
      have : (candAt (step w (.env op k i)).2.2 j).owner = (candAt w j).owner := by
        show (candAt (envStep op k i (reset w)).2 j).owner = _
        unfold envStep
        split
        · rfl
        · split <;> rfl
      rw [this, h] at e; cases e
    | candGone i =>
      exfalso
      have : (candAt (step w (.candGone i)).2.2 j).owner = (candAt w j).owner := (candGone_cand i (reset w) j).1
      rw [this, h] at e; cases e
    | sync =>
      exfalso
      have : (candAt (step w .sync).2.2 j).owner = (candAt w j).owner := rfl
      rw [this, h] at e; cases e
    | cleanup =>
      exfalso
      have := (keep_eff ((eff_cleanup (reset w)).mono tc_api)).owner j
      rw [show (cleanup (reset w)).2 = (step w .cleanup).2.2 from rfl, e,
        candAt_reset, h] at this
      cases this
  · rw [hnone] at h; cases h

/-- **C08_enter_only_by_start** — the second half of exclusivity -/
theorem C08_enter_only_by_start (w : World) (s : Step) (j k : Nat) (h0 : (candAt w j).owner = none)
    (h1 : (candAt (step w s).2.2 j).owner = some k) :
    ∃ via, s = .start k via ∧ (step w s).1 = .ok ∧ j ∈ (cmdAt w k).cands := by
  rcases step_owner w s j with e | e | ⟨k', via, hs, hok, _, hm, _, e⟩
  · rw [e, h0] at h1; cases h1
  · rw [e] at h1; cases h1
  · rw [e] at h1; cases h1
    exact ⟨via, hs, hok, hm⟩

/-- **C08_start_refuses_queued** — a start whose command lists a node that is in the queue is rejected -/
theorem C08_start_refuses_queued (w : World) (k : Nat) (via : Bool) (j K : Nat)
    (hj : j ∈ (cmdAt w k).cands) (h : (candAt w j).owner = some K) : (step w (.start k via)).1 ≠ .ok := by
  intro hok
  rcases startCommand_owner_mark k via (reset w) with ⟨hne, _⟩ | ⟨_, _, hfree, _⟩
  · exact hne hok
  · have := (hfree j hj).1
    rw [candAt_reset, h] at this
    cases this

/-! ## 4. Candidates that go away while an action is in flight -/

/-- **C08_gone_keeps_actions** — a candidate that goes away on its own (Node and NodeClaim removed, cluster state
    informed) issues no Delete, changes no command and no queue entry (the queue is not told: the completing pass of the
    owning action releases the entry like every other), and touches no other candidate. -/
theorem C08_gone_keeps_actions (w : World) (i : Nat) :
    (step w (.candGone i)).2.1 = [] ∧ (step w (.candGone i)).2.2.cmds = w.cmds ∧
    ∀ j, (candAt (step w (.candGone i)).2.2 j).owner = (candAt w j).owner ∧
         (j ≠ i → candAt (step w (.candGone i)).2.2 j = candAt w j) :=
  ⟨rfl, candGone_cmds i (reset w), fun j => ⟨(candGone_cand i (reset w) j).1, (candGone_cand i (reset w) j).2.1⟩⟩

/-- **C08_gone_leaves_nothing** — what is left of a candidate that went away carries no taint, no condition and no
    deletion mark: there is nothing to roll back for it and nothing that could keep it out of (or in) the capacity. -/
theorem C08_gone_leaves_nothing (w : World) (i : Nat) (h : (step w (.candGone i)).1 = .ok) :
    (candAt (step w (.candGone i)).2.2 i).gone = true ∧ (candAt (step w (.candGone i)).2.2 i).taint = false ∧
    (candAt (step w (.candGone i)).2.2 i).cond = false ∧ (candAt (step w (.candGone i)).2.2 i).mark = false ∧
    (candAt (step w (.candGone i)).2.2 i).deleting = false ∧
    (candAt (step w (.candGone i)).2.2 i).owner = (candAt w i).owner := by
  have := (candGone_self i (reset w) h).2
  rw [show (step w (.candGone i)).2.2 = (candGone i (reset w)).2 from rfl, this]
  exact ⟨rfl, rfl, rfl, rfl, rfl, rfl⟩

/-- **C08_start_refuses_gone** — a node the cluster state no longer knows is nobody's candidate: a start whose command
    lists it is rejected (and is inert by `C08_rejected_start_inert`). -/
theorem C08_start_refuses_gone (w : World) (k : Nat) (via : Bool) (j : Nat)
    (hj : j ∈ (cmdAt w k).cands) (h : (candAt w j).gone = true) : (step w (.start k via)).1 ≠ .ok := by
  intro hok
  rcases startCommand_owner_mark k via (reset w) with ⟨hne, _⟩ | ⟨_, _, hfree, _⟩
  · exact hne hok
  · have := (hfree j hj).2
    rw [candAt_reset, h] at this
    cases this

/-- **C08_rollback_complete_for_survivors** — when the queue gives a command up and no fault interferes with that pass,
    EVERY live candidate that still exists is back in service at once — out of the queue, unmarked (schedulable capacity
    again), untainted, condition cleared — no matter which other candidates of the command have gone away meanwhile and
    where they stand in the command's candidate list (`UnmarkForDeletion` skips an id the cluster state does not know
    and moves on to the next; a NotFound from the API is not an error). -/
theorem C08_rollback_complete_for_survivors {w : World} (hq : Quiet w) (hr : 0 < w.retrySteps) (k on : Nat)
    (hfail : (step w (.reconcile k on)).1 = .failed) :
    ∃ ci K, (candAt w ci).owner = some K ∧
      ∀ j ∈ (cmdAt w K).live, j < w.cands.length → (candAt w j).gone = false →
        (candAt (step w (.reconcile k on)).2.2 j).owner = none ∧ (candAt (step w (.reconcile k on)).2.2 j).mark = false ∧
        (candAt (step w (.reconcile k on)).2.2 j).taint = false ∧ (candAt (step w (.reconcile k on)).2.2 j).cond = false := by
  rw [step_reconcile] at hfail ⊢
  rcases reconcile_cases k on (reset w) with e0 | ⟨ci, hc⟩
  · rw [e0] at hfail; cases hfail
  · obtain ⟨K, hK, h⟩ := course_failed_quiet hc hfail (quiet_reset hq) hr
    refine ⟨ci, K, hK, fun j hj hlt hg => ?_⟩
    rcases course_owner_mark hc j with ⟨hnf, _⟩ | ⟨K', hK', ho, hm⟩
    · exact absurd hfail hnf
    · rw [hK] at hK'; cases hK'
      simp only [candAt_reset, cmdAt_reset, reset_cands] at ho hm
      rcases hm with ⟨_, hm⟩ | ⟨hs, _⟩
      · have ht := h j hj hg
        exact ⟨by rw [ho]; simp [hj, hlt], by rw [hm]; simp [hj, hlt], ht.1, ht.2⟩
      · rw [hfail] at hs; cases hs

/-! ## The retry window -/

/-! ## 5. Commands computed by a method in one disruption pass (`Controller.disrupt` → `StartCommand` for each) -/

/-- **C08_replacements_not_shared** — whatever happens to a replacement of ANOTHER command (it launches, initializes,
    vanishes), the replacements command `K` waits for - their names, latches and API states - are untouched -/
theorem C08_replacements_not_shared (w : World) (op : EnvOp) (k i K : Nat) (h : k ≠ K) :
    cmdAt (step w (.env op k i)).2.2 K = cmdAt w K := by
  show cmdAt (envStep op k i { w with fired := 0 }).2 K = cmdAt w K
  unfold envStep
  split
  · rfl
  · split
    · rfl
    · show cmdAt (setCmd _ k _) K = _
      rw [cmdAt_setCmd]
      rw [if_neg (fun hh => h hh.1.symm)]
      rfl

/-- … hence a queue pass for command `K` right after such an event issues a Delete only if `K`'s OWN replacements were
    all ready before the event: readiness of a replacement launched for another command never releases a candidate -/
theorem C08_other_commands_replacement_releases_nothing (w : World) (op : EnvOp) (k i : Nat) (s : Step) (e : DelEvent)
    (he : e ∈ (step (step w (.env op k i)).2.2 s).2.1) :
    ∃ ci K, (candAt (step w (.env op k i)).2.2 ci).owner = some K ∧
      (k ≠ K → ∀ r ∈ (cmdAt w K).repls, r.latched = true ∨ r.api = .init) := by
  obtain ⟨_, _, ci, K, _, hK, _, _, h3⟩ := C08_delete_only_by_owning_pass _ s e he
  exact ⟨ci, K, hK, fun hne => by rw [C08_replacements_not_shared w op k i K hne] at h3; exact h3⟩

/-- **C08_pass_delete_after_ready_hist** — over all histories WITH DISRUPTION PASSES (every pass starting the commands a
    method computed, however many), from any initial configuration: a Delete is issued only with every replacement of the
    owning command created and Initialized -/
theorem C08_pass_delete_after_ready_hist (ncands : Nat) (cmds : List (List Nat × Nat)) (faults : List Fault)
    (missing : List Nat) (retrySteps : Nat) (mode : TimeoutMode) (ns : List Nat) (ps : List PStep) (s : Step) (e : DelEvent)
    (he : e ∈ (step (run (initWorld ncands cmds faults missing retrySteps mode) (expand 0 ns ps)) s).2.1) :
    let w := run (initWorld ncands cmds faults missing retrySteps mode) (expand 0 ns ps)
    ∃ ci K, (candAt w ci).owner = some K ∧ e.cand ∈ (cmdAt w K).live ∧
      e.repls.length = (cmdAt w K).repls.length ∧
      ∀ r ∈ (cmdAt w K).repls, r.created = true ∧ r.everInit = true :=
  C08_delete_after_ready_hist ncands cmds faults missing retrySteps mode (expand 0 ns ps) s e he

/-- a pass only ever starts commands: it issues no Delete itself and hands no queued node to another command -/
theorem C08_pass_only_starts (first n : Nat) (s : Step) (hs : s ∈ passSteps first n) :
    ∃ j, j < n ∧ s = .start (first + j) true := by
  unfold passSteps at hs
  simp only [List.mem_map, List.mem_range] at hs
  obtain ⟨j, hj, rfl⟩ := hs
  exact ⟨j, hj, rfl⟩

/-- the commands of one pass are numbered consecutively and are pairwise distinct -/
theorem C08_pass_commands_distinct (first n a b : Nat) (ha : a < n) (hb : b < n)
    (h : (passSteps first n)[a]? = (passSteps first n)[b]?) : a = b := by
  unfold passSteps at h
  simp [ha, hb] at h
  exact h

/-- `GetMaxRetryDuration` stays within its clamp for every queue size -/
theorem C08_retry_window_bounds (n : Nat) :
    (Karp.Gen.OrchQueue.minRetryDurationNs : Int) ≤ retryDuration n ∧
    retryDuration n ≤ (Karp.Gen.OrchQueue.maxRetryDurationNs : Int) := by
  have hmm : Karp.Gen.OrchQueue.minRetryDurationNs ≤ Karp.Gen.OrchQueue.maxRetryDurationNs := fact_retry_window.2.1
  unfold retryDuration
  simp only
  constructor
  · split <;> split <;> omega
  · split <;> split <;> omega

/-! ## Non-vacuity: concrete reachable worlds meet the hypotheses and exercise the branches -/

def happyWorld : World := initWorld 2 [([0, 1], 2)] [] [] 4 .wrapAll
def happyHistory : List Step := [.start 0 true, .env .init 0 1, .reconcile 0 0, .env .init 0 0]

/-- the invariant holds on a world in the middle of an action (one replacement latched, one just initialized) … -/
example : Inv (run happyWorld happyHistory) := inv_run (inv_init ..) _
example : ((cmdAt (run happyWorld happyHistory) 0).repls.map (·.latched)) = [false, true] ∧
    (candAt (run happyWorld happyHistory) 1).owner = some 0 := by decide
/-- … the next pass issues both Deletes with both replacements Initialized and succeeds (hypothesis of
    `C08_delete_after_ready` is met by a non-empty event list) -/
example : (step (run happyWorld happyHistory) (.reconcile 0 1)).2.1 =
    [{ cand := 0, repls := [.init, .init], ok := true }, { cand := 1, repls := [.init, .init], ok := true }] ∧
    (step (run happyWorld happyHistory) (.reconcile 0 1)).1 = .succeeded := by decide
/-- a pass that fails inside the window (replacement gone): hypotheses of `C08_rollback_no_delete_in_window` and
    `C08_failed_releases` are met; the candidate is released, unmarked, untainted -/
example : (step (run f1World [.start 0 false, .env .vanish 0 0]) (.reconcile 0 0)).1 = .failed ∧
    (step (run f1World [.start 0 false, .env .vanish 0 0]) (.reconcile 0 0)).2.2.cands = [{}] := by decide
/-- a fault plan that makes a start fail (replacement creation fails) and is quiet afterwards; the cleanup pass then
    returns the tainted candidate to service (hypotheses of `C08_rejected_start_inert` / `C08_cleanup_returns_to_service`) -/
def faultyWorld : World := initWorld 1 [([0], 1)] [{ key := .createRepl 0 0, start := 0, count := 1, notFound := false }] [] 4 .wrapAll
example : (step faultyWorld (.start 0 true)).1 = .launch ∧
    (step faultyWorld (.start 0 true)).2.2.cands = [{ taint := true, cond := true }] ∧
    (step (step faultyWorld (.start 0 true)).2.2 .cleanup).1 = .ok ∧
    (step (step faultyWorld (.start 0 true)).2.2 .cleanup).2.2.cands = [{}] := by decide
example : Quiet (initWorld 3 [([0], 1)] [] [] 4 .wrapAll) := fun _ _ _ => rfl
/-- a three-node action [0, 1, 2] whose middle candidate goes away while the replacement is awaited, then the
    replacement disappears: the pass fails, deletes nothing, and candidates 0 AND 2 are released, unmarked, untainted
    (hypotheses of `C08_rollback_complete_for_survivors`, `C08_gone_keeps_actions`, `C08_gone_leaves_nothing` are met) -/
def goneWorld : World := initWorld 3 [([0, 1, 2], 1), ([1], 0)] [] [] 4 .waitOnly
def goneHistory : List Step := [.start 0 true, .reconcile 0 0, .candGone 1, .env .vanish 0 0]
example : (step (run goneWorld [.start 0 true, .reconcile 0 0]) (.candGone 1)).1 = .ok ∧
    (run goneWorld goneHistory).cands =
      [{ taint := true, cond := true, mark := true, owner := some 0 }, { owner := some 0, gone := true },
       { taint := true, cond := true, mark := true, owner := some 0 }] := by decide
example : (step (run goneWorld goneHistory) (.reconcile 0 1)).1 = .failed ∧
    (step (run goneWorld goneHistory) (.reconcile 0 1)).2.1 = [] ∧
    (step (run goneWorld goneHistory) (.reconcile 0 1)).2.2.cands = [{}, { gone := true }, {}] := by decide
example : Quiet (run goneWorld goneHistory) ∧ 0 < (run goneWorld goneHistory).retrySteps := ⟨fun _ _ _ => rfl, by decide⟩
/-- … the same when the action times out instead, and a later action over the gone node is refused -/
example : (step (run goneWorld [.start 0 true, .candGone 0, .advance 600000000001]) (.reconcile 0 2)).1 = .failed ∧
    (step (run goneWorld [.start 0 true, .candGone 0, .advance 600000000001]) (.reconcile 0 2)).2.2.cands =
      [{ gone := true }, {}, {}] ∧
    (step (run goneWorld [.candGone 1]) (.start 1 false)).1 = .notcand := by decide
/-- … and when the replacement becomes ready the pass still issues a Delete for every live candidate (the one for the
    gone NodeClaim is answered NotFound, which is not an error) and succeeds -/
example : (step (run goneWorld [.start 0 true, .candGone 1, .env .init 0 0]) (.reconcile 0 1)).1 = .succeeded ∧
    ((step (run goneWorld [.start 0 true, .candGone 1, .env .init 0 0]) (.reconcile 0 1)).2.1.map (·.cand)) = [0, 1, 2] ∧
    ((step (run goneWorld [.start 0 true, .candGone 1, .env .init 0 0]) (.reconcile 0 1)).2.2.cands.map (·.deleting)) =
      [true, false, true] := by decide
/-- two actions, one node: the second start is refused (hypothesis of `C08_start_refuses_queued`) -/
example : (step (run (initWorld 2 [([0], 1), ([0, 1], 1)] [] [] 4 .wrapAll) [.start 0 true]) (.start 1 false)).1 = .busy := by
  decide

def twoWorld : World := initWorld 2 [([0], 1), ([1], 1)] [] [] 4 .waitOnly
/-- two drifted nodes, one pass computing a command each; only the replacement of the SECOND command becomes ready: the
    pass of the first command waits and deletes nothing, the pass of the second deletes its own candidate only -/
example : expand 0 [2] [.pass, .plain (.env .init 1 0)] = [.start 0 true, .start 1 true, .env .init 1 0] := by decide
example : (step (run twoWorld (expand 0 [2] [.pass, .plain (.env .init 1 0)])) (.reconcile 0 0)).1 = .requeue ∧
    (step (run twoWorld (expand 0 [2] [.pass, .plain (.env .init 1 0)])) (.reconcile 0 0)).2.1 = [] ∧
    (step (run twoWorld (expand 0 [2] [.pass, .plain (.env .init 1 0)])) (.reconcile 1 0)).2.1 =
      [{ cand := 1, repls := [.init], ok := true }] := by decide

end Karp.C08
