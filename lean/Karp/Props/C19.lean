/- C19: property theorems (stub, not yet built) -/
namespace Karp.C19
end Karp.C19
