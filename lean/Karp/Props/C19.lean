/-
C19 — NodePool weight and price ordering are honoured.

Property theorems only.  Helper lemmas: `Karp/Proofs/WeightPriceLemmas.lean`, `Karp/Proofs/FirstSuccessLemmas.lean`,
`Karp/Proofs/PriceSpecLemmas.lean`, `Karp/Proofs/PoolFilterLemmas.lean`.
Model: `Karp/Model/WeightOrder.lean` (OrderByWeight, sort.Slice as a relation),
       `Karp/Model/FirstSuccess.lean` (parallelizeUntil + the publication protocol of addToNewNodeClaim),
       `Karp/Model/PriceOrder.lean` (OrderByPrice, Truncate, Cheapest, ToNodeClaim truncation),
       `Karp/Model/PoolFilter.lean` (the NodePool filter of Provisioner.NewScheduler: dynamic, Ready is True, not deleting),
       `Karp/Model/Relax.lean` (PreferNoSchedule taints: the flag of NewScheduler, trySchedule + Preferences.Relax),
       `Karp/Model/MinValuesFilter.lean` (minValues: NewScheduler's NodePool-level pre-filter and CanAdd's per-pod filter).
Spec:  `Karp/Spec/WeightPrice.lean`.
-/
import Karp.Proofs.WeightPriceLemmas
import Karp.Proofs.FirstSuccessLemmas
import Karp.Proofs.PriceSpecLemmas
import Karp.Proofs.WeightSpecLemmas
import Karp.Proofs.ReservedFallbackLemmas
import Karp.Proofs.PoolFilterLemmas
import Karp.Spec.WeightPrice
import Karp.Spec.PoolPass
import Karp.Model.Relax
import Karp.Model.MinValuesFilter

namespace Karp.C19
open List Karp.WeightOrder Karp.PriceOrder Karp.FirstSuccess Karp.ReservedFallback Karp.Spec.WeightPrice Karp.PoolFilter Karp.Relax Karp.MinValuesFilter

/-! ## Fact expectations over the regenerated source facts -/

/-- truncation to `MaxInstanceTypes` keeps at least one option -/
theorem fact_maxInstanceTypes_pos : 0 < Karp.Gen.C19Facts.maxInstanceTypes := by decide

/-- `Provisioner.NewScheduler` orders the NodePools by weight before it hands them to `scheduler.NewScheduler`
    (the template index order IS the weight order) -/
theorem fact_order_before_templates :
    Karp.Gen.C19Facts.provisionerNewSchedulerCalls = ["OrderByWeight", "NewScheduler"] := by decide

/-- in front of `OrderByWeight`, `Provisioner.NewScheduler` filters the listed NodePools on `IsStatic`, on the root
    condition being TRUE (`ConditionSet.IsTrue` — no `IsFalse` / `IsUnknown` test, under which a pool of unknown or
    unreported readiness would pass) and on the deletionTimestamp: `Model/PoolFilter.eligible` -/
theorem fact_pool_filter_before_order :
    Karp.Gen.C19Facts.provisionerPoolFilterCalls = ["ListManaged", "IsStatic", "IsTrue", "IsZero", "OrderByWeight"] := by decide

/-- `ToNodeClaim` slices the price-ordered options (`lo.Slice(OrderByPrice(..), 0, MaxInstanceTypes)`), once -/
theorem fact_toNodeClaim_slices_ordered :
    Karp.Gen.C19Facts.toNodeClaimCalls = ["Slice", "OrderByPrice"] := by decide

/-- `Truncate` slices the price-ordered options, once -/
theorem fact_truncate_slices_ordered :
    Karp.Gen.C19Facts.truncateCalls = ["Slice", "OrderByPrice"] := by decide

/-- `addToNewNodeClaim` evaluates the templates through `parallelizeUntil` (once) and publishes under the mutex
    (two publication sites: reserved-offering error and success) -/
theorem fact_addToNewNodeClaim_protocol :
    Karp.Gen.C19Facts.addToNewNodeClaimCalls = ["parallelizeUntil", "Lock", "Lock"] := by decide

/-- `NewNodeClaimTemplate` merges the injected labels (`karpenter.sh/nodepool=<name>`, the NodeClass label) into the
    template's labels BEFORE it derives the template's requirements from the labels: the template requires
    `karpenter.sh/nodepool In [<name>]`, which is what keeps a pod that selects or excludes pools by name away from the
    others (the label key is well known, so a template WITHOUT the requirement is compatible with every such pod) -/
theorem fact_template_labels_before_requirements :
    Karp.Gen.C19Facts.newNodeClaimTemplateCalls = ["Assign", "Assign", "NewLabelRequirements"] := by decide

/-- `NewScheduler`: the flag "some NodePool has a `PreferNoSchedule` taint" starts `false` and every later assignment
    only raises it (`= true` or `= flag || …`): it is the disjunction over ALL pools (`Model/Relax.tolerateFlag`), not the
    verdict on whichever pool the loop saw last -/
theorem fact_tolerate_flag_accumulates :
    Karp.Gen.C19Facts.tolerateFlagAssigns.head? = some "false" ∧
    Karp.Gen.C19Facts.tolerateFlagAssigns.tail.all (fun a => a == "true" || a == "or-self") = true ∧
    Karp.Gen.C19Facts.tolerateFlagAssigns.tail ≠ [] := by decide

/-- minValues are relaxed under the same condition — the operator policy is BestEffort — where `NewScheduler` decides
    whether a NodePool becomes a template at all and where `CanAdd` evaluates a pod against a template
    (`Model/MinValuesFilter.poolOffers` uses one flag for both): a pre-filter stricter than the per-pod filter would
    hide a higher-weight pool that is able to host -/
theorem fact_minvalues_relaxed_alike :
    Karp.Gen.C19Facts.prefilterRelaxArg = ["minValuesPolicy == karpopts.MinValuesPolicyBestEffort"] ∧
    Karp.Gen.C19Facts.canAddRelaxArg = Karp.Gen.C19Facts.prefilterRelaxArg := by decide

/-! ## Weight order -/

/-- **C19_order_by_weight_perm** — `OrderByWeight` loses and invents no NodePool. -/
theorem C19_order_by_weight_perm (nps : List Pool) : orderByWeight nps ~ nps := sortBy_perm before nps

/-- **C19_order_by_weight_sorted** — in the result every earlier pool has a larger weight than every later
    one, or the same weight and a name that is not earlier in the alphabet. -/
theorem C19_order_by_weight_sorted (nps : List Pool) :
    (orderByWeight nps).Pairwise (fun a b =>
      b.weight < a.weight ∨ (a.weight = b.weight ∧ lexLt a.name b.name = false)) := by
  have h := sortBy_sorted before_strictWeak nps
  unfold Sorted at h
  refine h.imp ?_
  intro a b hab
  unfold before at hab
  by_cases hw : b.weight = a.weight
  · simp only [hw, if_true] at hab
    right; exact ⟨hw.symm, hab⟩
  · simp only [hw, if_false, decide_eq_false_iff_not] at hab
    left; omega

/-- **C19_order_by_weight_unique** — `sort.Slice` is unstable, but whatever sorted permutation it returns is
    THE ordering: the comparator is a strict total order on (weight, name).  (This is what lets the
    correspondence compare the real output with the model by equality.) -/
theorem C19_order_by_weight_unique (input out : List Pool) (h : allowedSort before input out = true) :
    out = orderByWeight input := by
  simp only [allowedSort, Bool.and_eq_true] at h
  obtain ⟨hp, hs⟩ := h
  have hperm : input ~ out := isPerm_iff.mp hp
  have hs' : Sorted before out := (sortedBy_iff _ _).mp hs
  have hm := sortBy_sorted before_strictWeak input
  apply Perm.eq_of_pairwise (le := fun a b => before b a = false) ?_ hs' hm
  · exact hperm.symm.trans (sortBy_perm before input).symm
  · intro a b _ _ h1 h2
    exact before_antisymm a b h2 h1

/-- **C19_order_by_weight_meets_spec** — every output the model allows satisfies the independent
    weight-order specification. -/
theorem C19_order_by_weight_meets_spec (input out : List Pool) (h : allowedSort before input out = true) :
    weightOrderSpec input out = true := by
  simp only [allowedSort, Bool.and_eq_true] at h
  obtain ⟨hp, hs⟩ := h
  have hperm : input ~ out := isPerm_iff.mp hp
  simp only [weightOrderSpec, sameMultiset, Bool.and_eq_true, all_eq_true, beq_iff_eq]
  exact ⟨⟨fun p _ => hperm.count_eq p, fun p _ => hperm.count_eq p⟩,
    adjacentOk_of_sorted out ((sortedBy_iff _ _).mp hs)⟩

/-! ## First feasible template, for every schedule and every worker count -/

/-- **C19_first_success** (all schedules) — for every outcome vector, every configured degree of parallelism
    (any integer; non-positive values mean 1, as in `NewScheduler`) and every interleaving of the workers'
    steps: once all workers have returned, the published claim is the one of the sequential walk — the least
    template index that does not plainly fail, taken if it succeeded, nothing if it asked to wait for reserved
    capacity. -/
theorem C19_first_success (outs : List Outcome) (n : Int) (sched : List Nat)
    (hdone : allDone (run outs (init (effectiveWorkers n) outs) sched) = true) :
    result (run outs (init (effectiveWorkers n) outs) sched) = sequentialResult outs := by
  have hinv := inv_run outs sched _ (inv_init (effectiveWorkers n) outs)
  have hlen := run_workers_length outs sched (init (effectiveWorkers n) outs)
  generalize run outs (init (effectiveWorkers n) outs) sched = s at hdone hinv hlen
  obtain ⟨_, hBusy, hIdx, hDone, hHeld⟩ := hinv
  simp only [allDone, all_eq_true, beq_iff_eq] at hdone
  unfold result sequentialResult
  cases hfd : firstDecisive outs with
  | none =>
    have hall := firstDecisive_none outs hfd
    cases hidx : s.idx with
    | none => rw [hidx] at hIdx; simpa using hIdx
    | some j => rw [hidx] at hIdx; exact absurd (hall j) hIdx.2.1
  | some mo =>
    obtain ⟨m, o⟩ := mo
    obtain ⟨hm, ho⟩ := firstDecisive_some outs m o hfd
    -- there is a worker, and it has returned
    have hpos : 0 < s.workers.length := by
      rw [hlen]
      have h1 : 0 < effectiveWorkers n := by unfold effectiveWorkers; split <;> omega
      have h2 := hm.1
      simp [init]; omega
    have hw0 : s.workers[0]? = some W.done := by
      rw [getElem?_eq_getElem hpos]
      exact congrArg some (hdone _ (getElem_mem hpos))
    have hlt := hDone m hm ⟨0, hw0⟩
    have hidx : s.idx = some m := by
      rcases hHeld m hm hlt with ⟨w, hw⟩ | h
      · have := hdone _ (mem_of_getElem? hw)
        cases this
      · exact h
    rw [hidx] at hIdx
    rw [hIdx.2.2]
    unfold claimFor
    rw [ho]
    cases o with
    | fail => exact absurd ho hm.2.1
    | ok => simp
    | reserved => simp

/-- **C19_first_success_meets_spec** — the sequential result is what the specification asks for: the chosen
    template is feasible and every earlier (higher-priority) template plainly failed; nothing is chosen only
    if no template qualifies. -/
theorem C19_first_success_meets_spec (outs : List Outcome) : chosenOk outs (sequentialResult outs) = true := by
  unfold sequentialResult
  cases hfd : firstDecisive outs with
  | none =>
    have hall := firstDecisive_none outs hfd
    simp only [chosenOk, all_eq_true, mem_range, Bool.not_eq_eq_eq_not, Bool.not_true]
    intro i _
    cases hq : qualifies outs i with
    | false => rfl
    | true => have := ((qualifies_iff outs i).mp hq).1; rw [hall i] at this; cases this
  | some mo =>
    obtain ⟨m, o⟩ := mo
    obtain ⟨hm, ho⟩ := firstDecisive_some outs m o hfd
    cases o with
    | fail => exact absurd ho hm.2.1
    | ok => exact (qualifies_iff outs m).mpr ⟨ho, hm.2.2⟩
    | reserved =>
      simp only [chosenOk, all_eq_true, mem_range, Bool.not_eq_eq_eq_not, Bool.not_true]
      intro i _
      cases hq : qualifies outs i with
      | false => rfl
      | true =>
        obtain ⟨h1, h2⟩ := (qualifies_iff outs i).mp hq
        have hle := isFirst_le hm (by rw [h1]; decide : outs.getD i .fail ≠ .fail)
        rcases Nat.lt_or_eq_of_le hle with hlt | heq
        · have := h2 m hlt; rw [ho] at this; cases this
        · subst heq; rw [ho] at h1; cases h1

/-- **C19_schedule_terminates** — no interleaving can run forever or deadlock: every step of a worker that has
    not returned strictly decreases a measure bounded by `2·pieces + 3·workers`, and as long as `wg.Wait()`
    has not returned some worker can step. -/
theorem C19_schedule_progress (outs : List Outcome) (s : St) (w : Nat)
    (hw : ∃ x, s.workers[w]? = some x ∧ x ≠ W.done) :
    progressMeasure outs (step outs s w) < progressMeasure outs s := by
  obtain ⟨x, hx, hne⟩ := hw
  have hb := fun v => count_set W.isBusy s.workers w x v hx
  have hd := fun v => count_set W.notDone s.workers w x v hx
  unfold step
  rw [hx]
  cases x with
  | done => exact absurd rfl hne
  | idle =>
    simp only
    split
    · have h1 := hb (.busy s.next); have h2 := hd (.busy s.next)
      simp only [progressMeasure]
      simp [W.isBusy, W.notDone] at h1 h2 ⊢
      omega
    · have h1 := hb .done; have h2 := hd .done
      simp only [progressMeasure]
      simp [W.isBusy, W.notDone] at h1 h2 ⊢
      omega
  | busy i =>
    simp only
    unfold finish
    split
    · have h1 := hb .idle; have h2 := hd .idle
      simp only [progressMeasure]
      simp [W.isBusy, W.notDone] at h1 h2 ⊢
      omega
    · have h1 := hb .done; have h2 := hd .done
      split
      all_goals
        simp only [progressMeasure]
        simp [W.isBusy, W.notDone] at h1 h2 ⊢
        omega
    · have h1 := hb .done; have h2 := hd .done
      split
      all_goals
        simp only [progressMeasure]
        simp [W.isBusy, W.notDone] at h1 h2 ⊢
        omega

theorem C19_schedule_no_deadlock (s : St) (h : allDone s = false) :
    ∃ (w : Nat) (x : W), s.workers[w]? = some x ∧ x ≠ W.done := by
  simp only [allDone, all_eq_false, beq_iff_eq] at h
  obtain ⟨x, hx, hne⟩ := h
  obtain ⟨w, hw, rfl⟩ := mem_iff_getElem.mp hx
  exact ⟨w, _, getElem?_eq_getElem hw, hne⟩

/-- **C19_weight_priority** (first sentence of the property; all pool sets, all feasibility assignments, every
    degree of parallelism, every interleaving) — order the pools as `OrderByWeight` may (any sorted
    permutation), evaluate one template per pool concurrently, wait for the workers.  If the pod opens a node
    from pool `p`, then `p` is feasible and EVERY pool that ranks before `p` — in particular every pool of
    strictly larger weight — is infeasible.  If it opens none, either every pool is infeasible or the
    best-ranked pool that is not infeasible asked to wait for reserved capacity. -/
theorem C19_weight_priority (pools ord : List Pool) (f : Pool → Outcome) (n : Int) (sched : List Nat)
    (hsort : allowedSort before pools ord = true)
    (hdone : allDone (run (ord.map f) (init (effectiveWorkers n) (ord.map f)) sched) = true) :
    match result (run (ord.map f) (init (effectiveWorkers n) (ord.map f)) sched) with
    | some i => ∃ p, ord[i]? = some p ∧ f p = .ok ∧
        ∀ q ∈ pools, (before q p = true ∨ p.weight < q.weight) → f q = .fail
    | none => (∀ q ∈ pools, f q = .fail) ∨
        ∃ p ∈ pools, f p = .reserved ∧ ∀ q ∈ pools, (before q p = true ∨ p.weight < q.weight) → f q = .fail := by
  rw [C19_first_success _ n sched hdone]
  simp only [allowedSort, Bool.and_eq_true] at hsort
  obtain ⟨hp, hs⟩ := hsort
  have hperm : pools ~ ord := isPerm_iff.mp hp
  have hsorted : Sorted before ord := (sortedBy_iff _ _).mp hs
  -- a pool that ranks before `ord[m]` sits at a smaller index
  have hbefore : ∀ (m : Nat) (p : Pool), ord[m]? = some p → ∀ q ∈ pools,
      (before q p = true ∨ p.weight < q.weight) → ∃ j, j < m ∧ ord[j]? = some q := by
    intro m p hmp q hq hrank
    have hrank' : before q p = true := by
      rcases hrank with h | h
      · exact h
      · unfold before
        have : ¬ q.weight = p.weight := by omega
        simp [this, h]
    obtain ⟨j, hj, hjq⟩ := mem_iff_getElem.mp (hperm.mem_iff.mp hq)
    obtain ⟨hm, hmp'⟩ := List.getElem?_eq_some_iff.mp hmp
    refine ⟨j, ?_, by rw [getElem?_eq_getElem hj, hjq]⟩
    rcases Nat.lt_trichotomy j m with h | h | h
    · exact h
    · subst h
      rw [hjq] at hmp'; subst hmp'
      rw [(before_strictWeak.asymm _ _ hrank')] at hrank'; cases hrank'
    · have := (pairwise_iff_getElem.mp hsorted) m j hm hj h
      rw [hmp', hjq, hrank'] at this; cases this
  have hget : ∀ (j : Nat) (q : Pool), ord[j]? = some q → (ord.map f).getD j .fail = f q := by
    intro j q hjq
    simp [getD, getElem?_map, hjq]
  unfold sequentialResult
  cases hfd : firstDecisive (ord.map f) with
  | none =>
    left
    intro q hq
    obtain ⟨j, hj, hjq⟩ := mem_iff_getElem.mp (hperm.mem_iff.mp hq)
    have := firstDecisive_none _ hfd j
    rwa [hget j q (by rw [getElem?_eq_getElem hj, hjq])] at this
  | some mo =>
    obtain ⟨m, o⟩ := mo
    obtain ⟨hm, ho⟩ := firstDecisive_some _ m o hfd
    have hmlt : m < ord.length := by simpa using hm.1
    have hmp : ord[m]? = some ord[m] := getElem?_eq_getElem hmlt
    have hfail : ∀ q ∈ pools, (before q ord[m] = true ∨ ord[m].weight < q.weight) → f q = .fail := by
      intro q hq hrank
      obtain ⟨j, hjm, hjq⟩ := hbefore m _ hmp q hq hrank
      have := hm.2.2 j hjm
      rwa [hget j q hjq] at this
    rw [hget m _ hmp] at ho
    cases o with
    | fail => exact absurd (by rw [hget m _ hmp]; exact ho) hm.2.1
    | ok => exact ⟨ord[m], hmp, ho, hfail⟩
    | reserved =>
      right
      exact ⟨ord[m], hperm.mem_iff.mpr (getElem_mem hmlt), ho, hfail⟩

/-! ## Which pools are candidates: ready, dynamic, not being deleted -/

/-- **C19_eligible_meets_spec** — the filter of `Provisioner.NewScheduler` keeps exactly the pools the specification
    calls usable: dynamic, not being deleted, and READY in the specification's sense — the pool reports the condition
    `Ready` and reports it as `True` (all condition lists that store a type at most once, as the API's list-map does). -/
theorem C19_eligible_meets_spec (m : Meta)
    (huniq : (m.conds.filter (fun c => c.type == readyType)).length ≤ 1) :
    eligible m = (Spec.PoolPass.readyCondition (m.conds.map (fun c => (c.type, c.status))) && !m.static && !m.deleting) := by
  unfold eligible
  rw [isTrue_ready_eq m.conds huniq]
  cases m.static <;> cases m.deleting <;> cases Spec.PoolPass.readyCondition _ <;> rfl

/-- **C19_unready_never_eligible** — a pool whose root condition is `False`, is `Unknown`, or is not stored at all
    never becomes a template, whatever its weight. -/
theorem C19_unready_never_eligible (m : Meta) (h : eligible m = true) :
    ∃ c ∈ m.conds, c.type = readyType ∧ c.status = "True" := by
  unfold eligible at h
  by_cases hs : m.static = true
  · simp [hs] at h
  · by_cases ht : PoolFilter.isTrue m.conds [readyType] = true
    · simp only [PoolFilter.isTrue, PoolFilter.get, all_cons, all_nil, Bool.and_true] at ht
      cases hf : m.conds.find? (fun c => c.type == readyType) with
      | none => rw [hf] at ht; cases ht
      | some c =>
        rw [hf] at ht
        refine ⟨c, mem_of_find?_eq_some hf, ?_, by simpa [condIsTrue] using ht⟩
        simpa using find?_some hf
    · simp [hs, ht] at h

/-- **C19_ready_weight_priority** (first sentence of the property with its word READY; all pool sets, all stored
    conditions, all feasibility assignments, every degree of parallelism, every interleaving) — filter the pools as
    `Provisioner.NewScheduler` does, order the rest as `OrderByWeight` may, evaluate the templates concurrently.  If the
    pod opens a node from pool `p`, then `p` is an eligible pool (ready, dynamic, not being deleted), it is feasible, and
    EVERY eligible pool ranking before it — in particular every ready pool of larger weight — is infeasible.  A pool
    that is not eligible neither receives the pod nor keeps it away from a lower-weight ready pool. -/
theorem C19_ready_weight_priority (pools ord : List Pool) (info : Pool → Meta) (f : Pool → Outcome) (n : Int)
    (sched : List Nat)
    (hsort : allowedSort before (pools.filter (fun p => eligible (info p))) ord = true)
    (hdone : allDone (run (ord.map f) (init (effectiveWorkers n) (ord.map f)) sched) = true) :
    match result (run (ord.map f) (init (effectiveWorkers n) (ord.map f)) sched) with
    | some i => ∃ p, ord[i]? = some p ∧ p ∈ pools ∧ eligible (info p) = true ∧ f p = .ok ∧
        ∀ q ∈ pools, eligible (info q) = true → (before q p = true ∨ p.weight < q.weight) → f q = .fail
    | none => (∀ q ∈ pools, eligible (info q) = true → f q = .fail) ∨
        ∃ p ∈ pools, eligible (info p) = true ∧ f p = .reserved ∧
          ∀ q ∈ pools, eligible (info q) = true → (before q p = true ∨ p.weight < q.weight) → f q = .fail := by
  have h := C19_weight_priority (pools.filter (fun p => eligible (info p))) ord f n sched hsort hdone
  simp only [allowedSort, Bool.and_eq_true] at hsort
  have hperm : (pools.filter (fun p => eligible (info p))) ~ ord := isPerm_iff.mp hsort.1
  generalize result (run (ord.map f) (init (effectiveWorkers n) (ord.map f)) sched) = res at h ⊢
  cases res with
  | some i =>
    obtain ⟨p, hp, hok, hall⟩ := h
    obtain ⟨hpp, hel⟩ := mem_filter.mp (hperm.mem_iff.mpr (mem_of_getElem? hp))
    exact ⟨p, hp, hpp, hel, hok, fun q hq he hr => hall q (mem_filter.mpr ⟨hq, he⟩) hr⟩
  | none =>
    rcases h with h | ⟨p, hp, hres, hall⟩
    · exact Or.inl (fun q hq he => h q (mem_filter.mpr ⟨hq, he⟩))
    · obtain ⟨hpp, hel⟩ := mem_filter.mp hp
      exact Or.inr ⟨p, hpp, hel, hres, fun q hq he hr => hall q (mem_filter.mpr ⟨hq, he⟩) hr⟩

/-! ## PreferNoSchedule taints: a preference steers, it never strands -/

/-- outcome of evaluating a pool's template for the pod in the round that treats the taint preference as a requirement
    (`strict`) or after `Preferences.Relax` dropped it -/
def roundOutcome (host avoid : Pool → Bool) (strict : Bool) (p : Pool) : Outcome :=
  if host p && (!strict || !avoid p) then .ok else .fail

/-- a round over pools that own no capacity reservation never ends waiting for one -/
theorem C19_soft_round_never_waits (host avoid : Pool → Bool) (strict : Bool) (ord : List Pool) :
    waits (ord.map (roundOutcome host avoid strict)) = false := by
  unfold waits
  cases h : firstDecisive (ord.map (roundOutcome host avoid strict)) with
  | none => rfl
  | some mo =>
    obtain ⟨m, o⟩ := mo
    cases o with
    | reserved =>
      obtain ⟨hm, ho⟩ := firstDecisive_some _ m _ h
      have hlt : m < ord.length := by simpa using hm.1
      simp only [getD, getElem?_map, getElem?_eq_getElem hlt, Option.map_some, Option.getD_some, roundOutcome] at ho
      split at ho <;> cases ho
    | ok => rfl
    | fail => rfl

/-- **C19_soft_taint_priority** (first sentence of the property in the presence of `PreferNoSchedule` taints; all pool
    sets, every `host` / `avoid` assignment, every degree of parallelism, every interleaving of BOTH evaluation rounds)
    — `host q`: pool `q` is able to host the pod (taint preferences aside); `avoid q`: `q` carries a `PreferNoSchedule`
    taint the pod does not tolerate; `tainted q`: it carries one at all.  With the flag of `NewScheduler` being the
    disjunction over all pools:
    * the pod is left without a node ONLY IF NO pool is able to host it — a preference never costs the pod its node,
      wherever in the weight order the soft-tainted pools sit;
    * if it opens a node in `p`, then `p` can host it, and either the preferences were honoured (`p` is not avoided and
      every pool ranking before `p` — every higher-weight pool — cannot host the pod without going against one), or
      they could not be honoured by any pool and every pool ranking before `p` cannot host the pod at all. -/
theorem C19_soft_taint_priority (pools ord : List Pool) (host tainted avoid : Pool → Bool)
    (havoid : ∀ q ∈ pools, avoid q = true → tainted q = true)
    (n : Int) (s1 s2 : List Nat)
    (hsort : allowedSort before pools ord = true)
    (hd1 : allDone (run (ord.map (roundOutcome host avoid true)) (init (effectiveWorkers n) (ord.map (roundOutcome host avoid true))) s1) = true)
    (hd2 : allDone (run (ord.map (roundOutcome host avoid false)) (init (effectiveWorkers n) (ord.map (roundOutcome host avoid false))) s2) = true) :
    match place (tolerateFlag (ord.map tainted))
        (result (run (ord.map (roundOutcome host avoid true)) (init (effectiveWorkers n) (ord.map (roundOutcome host avoid true))) s1))
        (waits (ord.map (roundOutcome host avoid true)))
        (result (run (ord.map (roundOutcome host avoid false)) (init (effectiveWorkers n) (ord.map (roundOutcome host avoid false))) s2)) with
    | some i => ∃ p, ord[i]? = some p ∧ p ∈ pools ∧ host p = true ∧
        ((avoid p = false ∧ ∀ q ∈ pools, (before q p = true ∨ p.weight < q.weight) → (host q && !avoid q) = false) ∨
         ((∀ q ∈ pools, (host q && !avoid q) = false) ∧
          ∀ q ∈ pools, (before q p = true ∨ p.weight < q.weight) → host q = false))
    | none => ∀ q ∈ pools, host q = false := by
  have h1 := C19_weight_priority pools ord (roundOutcome host avoid true) n s1 hsort hd1
  have h2 := C19_weight_priority pools ord (roundOutcome host avoid false) n s2 hsort hd2
  rw [C19_soft_round_never_waits]
  simp only [allowedSort, Bool.and_eq_true] at hsort
  have hperm : pools ~ ord := isPerm_iff.mp hsort.1
  -- what an outcome says
  have hokS : ∀ p, roundOutcome host avoid true p = .ok → host p = true ∧ avoid p = false := by
    intro p h; unfold roundOutcome at h; split at h
    · rename_i hc; simpa using hc
    · cases h
  have hfailS : ∀ p, roundOutcome host avoid true p = .fail → (host p && !avoid p) = false := by
    intro p h; unfold roundOutcome at h; split at h
    · cases h
    · rename_i hc; simpa using hc
  have hokR : ∀ p, roundOutcome host avoid false p = .ok → host p = true := by
    intro p h; unfold roundOutcome at h; split at h
    · rename_i hc; simpa using hc
    · cases h
  have hfailR : ∀ p, roundOutcome host avoid false p = .fail → host p = false := by
    intro p h; unfold roundOutcome at h; split at h
    · cases h
    · rename_i hc; simpa using hc
  have hnres : ∀ b p, roundOutcome host avoid b p ≠ .reserved := by
    intro b p h; unfold roundOutcome at h; split at h <;> cases h
  generalize result (run (ord.map (roundOutcome host avoid true)) (init (effectiveWorkers n) (ord.map (roundOutcome host avoid true))) s1) = r1 at h1 ⊢
  generalize result (run (ord.map (roundOutcome host avoid false)) (init (effectiveWorkers n) (ord.map (roundOutcome host avoid false))) s2) = r2 at h2 ⊢
  cases r1 with
  | some i =>
    obtain ⟨p, hp, hok, hall⟩ := h1
    obtain ⟨hh, ha⟩ := hokS p hok
    exact ⟨p, hp, hperm.mem_iff.mpr (mem_of_getElem? hp), hh, Or.inl ⟨ha, fun q hq hr => hfailS q (hall q hq hr)⟩⟩
  | none =>
    have hallS : ∀ q ∈ pools, (host q && !avoid q) = false := by
      rcases h1 with h | ⟨p, _, hres, _⟩
      · exact fun q hq => hfailS q (h q hq)
      · exact absurd hres (hnres _ _)
    simp only [place, Bool.false_eq_true, if_false]
    by_cases hflag : tolerateFlag (ord.map tainted) = true
    · simp only [hflag, if_true]
      cases r2 with
      | some i =>
        obtain ⟨p, hp, hok, hall⟩ := h2
        exact ⟨p, hp, hperm.mem_iff.mpr (mem_of_getElem? hp), hokR p hok,
          Or.inr ⟨hallS, fun q hq hr => hfailR q (hall q hq hr)⟩⟩
      | none =>
        rcases h2 with h | ⟨p, _, hres, _⟩
        · exact fun q hq => hfailR q (h q hq)
        · exact absurd hres (hnres _ _)
    · simp only [hflag]
      intro q hq
      have hs := hallS q hq
      cases hh : host q with
      | false => rfl
      | true =>
        rw [hh] at hs
        have hav : avoid q = true := by simpa using hs
        have ht := havoid q hq hav
        exfalso; apply hflag
        unfold tolerateFlag
        simp only [any_map, any_eq_true, Function.comp]
        exact ⟨q, hperm.mem_iff.mp hq, ht⟩

/-- the flag of `NewScheduler` does not depend on WHERE in the slice the soft-tainted pools sit (weight order included) -/
theorem C19_tolerate_flag_any_position (a b : List Bool) (h : a ~ b) : tolerateFlag a = tolerateFlag b := by
  unfold tolerateFlag
  rw [Bool.eq_iff_iff]
  simp only [any_eq_true]
  exact ⟨fun ⟨x, hx, hx'⟩ => ⟨x, h.mem_iff.mp hx, hx'⟩, fun ⟨x, hx, hx'⟩ => ⟨x, h.mem_iff.mpr hx, hx'⟩⟩

/-- the specification's side: being able to host a pod never depends on a taint preference; honouring the
    preferences only narrows the candidates -/
theorem C19_preference_never_decides_feasibility (p : Spec.PoolPass.PPool) (pod : Spec.PoolPass.PPod) :
    Spec.PoolPass.hostsAt false p pod = Spec.PoolPass.hosts p [pod] ∧
    (Spec.PoolPass.hostsAt true p pod = true → Spec.PoolPass.hosts p [pod] = true) := by
  unfold Spec.PoolPass.hostsAt
  constructor
  · simp
  · intro h; simp only [Bool.and_eq_true] at h; exact h.1

/-! ## minValues: the pre-filter that builds the templates never hides a pool that can host -/

/-- the specification's reading of minValues: the pool offers the pod a node iff some instance type can run it and the
    number of such types meets minValues, unless the BestEffort policy waives it -/
def specOffers (bestEffort : Bool) (minValues nPod : Nat) : Bool :=
  decide (0 < nPod) && (bestEffort || decide (minValues ≤ nPod))

/-- **C19_prefilter_never_drops_a_host** — `NewScheduler`'s NodePool-level pre-filter followed by `CanAdd`'s per-pod
    filter (both relaxing minValues exactly under BestEffort) says "this pool offers the pod a node" iff the
    specification does: what the pod leaves of the catalog (`nPod ≤ nPool`) is non-empty and meets minValues, or the
    policy waives them.  In particular the pre-filter, which knows no pod, never removes a pool that could host one. -/
theorem C19_prefilter_never_drops_a_host (bestEffort : Bool) (minValues nPool nPod : Nat) (h : nPod ≤ nPool) :
    poolOffers bestEffort minValues nPool nPod = specOffers bestEffort minValues nPod := by
  unfold poolOffers templateKept filterKeeps specOffers
  cases bestEffort <;> simp <;> omega

/-- **C19_minvalues_weight_priority** (first sentence of the property with minValues; all pool sets, both policies,
    every minValues / catalog assignment, every degree of parallelism, every interleaving) — only the pools that
    survive the pre-filter become templates, in weight order.  If the pod opens a node in `p`, the specification
    agrees that `p` offers it one, and EVERY pool ranking before `p` — template or not — does not; if it opens none,
    no pool does.  A pool whose own catalog cannot meet its minValues keeps its rank under BestEffort. -/
theorem C19_minvalues_weight_priority (pools ord : List Pool) (bestEffort : Bool) (mv nPool nPod : Pool → Nat)
    (hle : ∀ q ∈ pools, nPod q ≤ nPool q) (n : Int) (sched : List Nat)
    (hsort : allowedSort before (pools.filter (fun p => templateKept bestEffort (mv p) (nPool p))) ord = true)
    (hdone : allDone (run (ord.map (fun p => if filterKeeps bestEffort (mv p) (nPod p) then Outcome.ok else .fail))
      (init (effectiveWorkers n) (ord.map (fun p => if filterKeeps bestEffort (mv p) (nPod p) then Outcome.ok else .fail))) sched) = true) :
    match result (run (ord.map (fun p => if filterKeeps bestEffort (mv p) (nPod p) then Outcome.ok else .fail))
      (init (effectiveWorkers n) (ord.map (fun p => if filterKeeps bestEffort (mv p) (nPod p) then Outcome.ok else .fail))) sched) with
    | some i => ∃ p, ord[i]? = some p ∧ p ∈ pools ∧ specOffers bestEffort (mv p) (nPod p) = true ∧
        ∀ q ∈ pools, (before q p = true ∨ p.weight < q.weight) → specOffers bestEffort (mv q) (nPod q) = false
    | none => ∀ q ∈ pools, specOffers bestEffort (mv q) (nPod q) = false := by
  have h := C19_weight_priority _ ord (fun p => if filterKeeps bestEffort (mv p) (nPod p) then Outcome.ok else .fail) n sched hsort hdone
  simp only [allowedSort, Bool.and_eq_true] at hsort
  have hperm : (pools.filter (fun p => templateKept bestEffort (mv p) (nPool p))) ~ ord := isPerm_iff.mp hsort.1
  -- a pool that is not a template, or whose evaluation fails, does not offer the pod a node
  have hno : ∀ q ∈ pools, (templateKept bestEffort (mv q) (nPool q) = true →
      (if filterKeeps bestEffort (mv q) (nPod q) then Outcome.ok else Outcome.fail) = .fail) →
      specOffers bestEffort (mv q) (nPod q) = false := by
    intro q hq hf
    rw [← C19_prefilter_never_drops_a_host bestEffort (mv q) (nPool q) (nPod q) (hle q hq)]
    unfold poolOffers
    cases hk : templateKept bestEffort (mv q) (nPool q) with
    | false => rfl
    | true =>
      have := hf hk
      cases hfk : filterKeeps bestEffort (mv q) (nPod q) with
      | false => rfl
      | true => rw [hfk] at this; simp at this
  generalize result (run (ord.map (fun p => if filterKeeps bestEffort (mv p) (nPod p) then Outcome.ok else .fail))
      (init (effectiveWorkers n) (ord.map (fun p => if filterKeeps bestEffort (mv p) (nPod p) then Outcome.ok else .fail))) sched) = res at h ⊢
  cases res with
  | some i =>
    obtain ⟨p, hp, hok, hall⟩ := h
    obtain ⟨hpp, hk⟩ := mem_filter.mp (hperm.mem_iff.mpr (mem_of_getElem? hp))
    refine ⟨p, hp, hpp, ?_, fun q hq hr => hno q hq (fun hkq => hall q (mem_filter.mpr ⟨hq, hkq⟩) hr)⟩
    rw [← C19_prefilter_never_drops_a_host bestEffort (mv p) (nPool p) (nPod p) (hle p hpp)]
    unfold poolOffers
    have hfk : filterKeeps bestEffort (mv p) (nPod p) = true := by
      cases hfk : filterKeeps bestEffort (mv p) (nPod p) with
      | true => rfl
      | false => simp [hfk] at hok
    simp [hk, hfk]
  | none =>
    rcases h with h | ⟨p, _, hres, _⟩
    · exact fun q hq => hno q hq (fun hkq => h q (mem_filter.mpr ⟨hq, hkq⟩))
    · split at hres <;> cases hres

/-- the pass specification's "able to host" is the pool being usable, the taints tolerated, and `specOffers` on the
    number of instance types that can run the group -/
theorem C19_hosts_reads_minvalues (p : Spec.PoolPass.PPool) (group : List Spec.PoolPass.PPod) :
    Spec.PoolPass.hosts p group = (Spec.PoolPass.poolUsable p && group.all (Spec.PoolPass.tolerates p) &&
      specOffers p.relaxMin p.minTypes (Spec.PoolPass.optionsFor p group).length) := by
  unfold Spec.PoolPass.hosts Spec.PoolPass.minValuesOk specOffers
  cases h : Spec.PoolPass.optionsFor p group with
  | nil => simp
  | cons a l => simp [Bool.and_assoc]

/-! ## Whole passes with capacity reservations -/

/-- **C19_reserved_pass_priority** (all pool sets, all pod batches; `Model/ReservedFallback.pass` = the pass in which
    every pod needs its own node, pools may own a reservation that earlier claims of the pass use up, and pools
    may have a cpu limit that earlier claims of the pass fill) —
    a pod is placed in pool `q` only if `q` can host it and EVERY pool ranking before `q`, in particular every
    higher-weight pool, either cannot host it or has reached its limit by the claims of this pass; a pod is deferred
    for reserved capacity only if the best-ranked pool that can host it and is not full owns a reservation (never
    sent to a lower-weight pool instead, never blocked by a lower-ranked pool's reservation); it is reported
    unschedulable only if every pool cannot host it or is full. -/
theorem C19_reserved_pass_priority (pools : List RPool) (pods : List RPod) (pn : String) (v : Verdict)
    (h : (pn, v) ∈ pass pools pods) :
    ∃ p ∈ pods, p.name = pn ∧ Justified pools pods p v := by
  unfold pass at h
  have hperm : templates pools ~ pools := sortBy_perm poolBefore pools
  have hsorted : Sorted poolBefore (templates pools) := sortBy_sorted poolBefore_strictWeak pools
  obtain ⟨_, hspec⟩ := runPods_spec (templates pools) (queueOrder pods) (initState (templates pools))
    (by simp [initState])
  obtain ⟨p, hp, hname, hex⟩ := hspec pn v h
  refine ⟨p, mem_queueOrder hp, hname, ?_⟩
  -- the explanation's "full" refers to the final counters, i.e. `finalUsed`
  have hfull : ∀ (j : Nat) (r : RPool), (templates pools)[j]? = some r →
      fullAt (usedAt (runPods (templates pools) (initState (templates pools)) (queueOrder pods)).2 j) r = true →
      FullAtEnd pools pods r := by
    intro j r hj hf
    refine ⟨j, hj, ?_⟩
    have : (finalUsed pools pods).getD j 0
        = usedAt (runPods (templates pools) (initState (templates pools)) (queueOrder pods)).2 j := by
      unfold finalUsed usedAt
      simp only [List.getD, List.getElem?_map]
      cases (runPods (templates pools) (initState (templates pools)) (queueOrder pods)).2[j]? <;> rfl
    rw [this]; exact hf
  -- a pool ranking before `templates[i]` sits at a smaller index
  have hrank : ∀ (i : Nat) (q : RPool), (templates pools)[i]? = some q → ∀ r ∈ pools,
      (poolBefore r q = true ∨ q.weight < r.weight) → ∃ j, j < i ∧ (templates pools)[j]? = some r := by
    intro i q hi r hr hrank
    have hlt : poolBefore r q = true := hrank.elim id poolBefore_of_weight
    obtain ⟨j, hj, hjr⟩ := mem_iff_getElem.mp (hperm.mem_iff.mpr hr)
    have hj' : (templates pools)[j]? = some r := by rw [getElem?_eq_getElem hj, hjr]
    exact ⟨j, index_lt_of_lt poolBefore_strictWeak hsorted hi hj' hlt, hj'⟩
  cases v with
  | placed qn =>
    obtain ⟨i, q, hi, hq, hcan, hb⟩ := hex
    refine ⟨q, hperm.mem_iff.mp (mem_of_getElem? hi), hq, hcan, ?_⟩
    intro r hr hrk
    obtain ⟨j, hji, hj⟩ := hrank i q hi r hr hrk
    exact (hb j r hji hj).imp id (hfull j r hj)
  | deferred =>
    obtain ⟨i, q, hi, hcan, hcap, hb⟩ := hex
    refine ⟨q, hperm.mem_iff.mp (mem_of_getElem? hi), hcan, hcap, ?_⟩
    intro r hr hrk
    obtain ⟨j, hji, hj⟩ := hrank i q hi r hr hrk
    exact (hb j r hji hj).imp id (hfull j r hj)
  | unschedulable =>
    intro r hr
    obtain ⟨j, hj, hjr⟩ := mem_iff_getElem.mp (hperm.mem_iff.mpr hr)
    have hj' : (templates pools)[j]? = some r := by rw [getElem?_eq_getElem hj, hjr]
    exact (hex j r hj').imp id (hfull j r hj')

/-! ## Price order and truncation -/

/-- **C19_cheapest_kept** (second sentence of the property) — whatever sorted permutation the unstable sort
    returns, after truncation to `n` every kept type's cheapest compatible available offering is no dearer
    than every dropped type's: truncation never drops a cheaper type in favour of a dearer one; and nothing
    is lost or invented. -/
theorem C19_cheapest_kept (reqs : List Req) (n : Int) (its sorted : List IType)
    (h : allowedSort (cheaper reqs) its sorted = true) :
    (∀ k ∈ sliceTo n sorted, ∀ d ∈ sorted.drop n.toNat, priceLt (effPrice reqs d) (effPrice reqs k) = false) ∧
    (sliceTo n sorted ++ sorted.drop n.toNat) ~ its ∧
    (sliceTo n sorted).length = min n.toNat its.length := by
  simp only [allowedSort, Bool.and_eq_true] at h
  obtain ⟨hp, hs⟩ := h
  have hperm : its ~ sorted := isPerm_iff.mp hp
  have hsorted : Sorted (cheaper reqs) sorted := (sortedBy_iff _ _).mp hs
  refine ⟨?_, ?_, ?_⟩
  · intro k hk d hd
    unfold Sorted at hsorted
    have := Pairwise.rel_of_mem_take_of_mem_drop (R := fun a b => cheaper reqs b a = false) hsorted hk hd
    exact this
  · simp only [sliceTo, take_append_drop]; exact hperm.symm
  · simp [sliceTo, hperm.length_eq]

/-- the canonical model output is one of the allowed ones (the relation is never empty) -/
theorem C19_order_by_price_allowed (reqs : List Req) (its : List IType) :
    allowedSort (cheaper reqs) its (orderByPrice reqs its) = true := by
  simp only [allowedSort, Bool.and_eq_true]
  exact ⟨isPerm_iff.mpr (sortBy_perm _ _).symm,
    (sortedBy_iff _ _).mpr (sortBy_sorted (cheaper_strictWeak reqs) its)⟩

/-- **C19_less_is_strictly_cheaper** — the `less` closure of `OrderByPrice` (loop over the offerings with a
    running minimum starting at `MaxFloat64`) decides exactly the specification's relation "some usable
    offering of `d` undercuts every usable offering of `k`". -/
theorem C19_less_is_strictly_cheaper (reqs : List Req) (d k : IType) :
    cheaper reqs d k = strictlyCheaper reqs d k := cheaper_eq_strictlyCheaper reqs d k

/-- **C19_cheapest_agrees** — `Offerings.Available().Compatible(reqs).Cheapest()` yields the price
    `OrderByPrice` ranks by. -/
theorem C19_cheapest_agrees (reqs : List Req) (t : IType) :
    cheapestAvailableCompatible reqs t.offerings = effPrice reqs t := by
  unfold cheapestAvailableCompatible effPrice
  exact (minPriceLoop_eq_cheapestLoop reqs t.offerings none).symm

/-- **C19_truncate_meets_spec** (refinement to the independent specification; all catalogs with distinct type
    names, all requirements, all `n`, every allowed sort result) — the names kept by
    `OrderByPrice` + `lo.Slice(…, 0, n)` satisfy `cheapestKeptSpec`. -/
theorem C19_truncate_meets_spec (reqs : List Req) (n : Int) (its sorted kept : List IType)
    (hnd : (its.map (·.name)).Nodup)
    (h : allowedTruncation reqs n its sorted kept = true) :
    cheapestKeptSpec reqs n its (kept.map (·.name)) = true := by
  simp only [allowedTruncation, Bool.and_eq_true, beq_iff_eq] at h
  obtain ⟨hsort, rfl⟩ := h
  obtain ⟨hcheap, hperm, hlen⟩ := C19_cheapest_kept reqs n its sorted hsort
  simp only [allowedSort, Bool.and_eq_true] at hsort
  have hp : its ~ sorted := isPerm_iff.mp hsort.1
  have hnds : (sorted.map (·.name)).Nodup := (hp.map _).nodup hnd
  have hsub : ∀ x ∈ sliceTo n sorted, x ∈ sorted := fun x hx => mem_of_mem_take hx
  simp only [cheapestKeptSpec, Bool.and_eq_true, all_eq_true, any_eq_true, beq_iff_eq,
    Bool.not_eq_eq_eq_not, Bool.not_true, contains_eq_mem, decide_eq_true_eq, decide_eq_false_iff_not,
    mem_map, mem_filter, forall_exists_index, and_imp, forall_apply_eq_imp_iff₂, length_map]
  refine ⟨⟨⟨?_, ?_⟩, ?_⟩, ?_⟩
  · intro x hx
    exact ⟨x, hp.mem_iff.mpr (hsub x hx), rfl⟩
  · rw [noDuplicates_iff]
    have : (sliceTo n sorted).map (·.name) = (sorted.map (·.name)).take n.toNat := by simp [sliceTo, map_take]
    rw [this]
    exact hnds.sublist (take_sublist _ _)
  · simpa using hlen
  · intro k hk a ha hak d hd hdk
    have hks : k ∈ sorted := hp.mem_iff.mp hk
    have : a = k := eq_of_name_eq hnds (hsub a ha) hks hak
    subst this
    have hds : d ∈ sorted := hp.mem_iff.mp hd
    have hdd : d ∈ sorted.drop n.toNat := by
      have : d ∈ sliceTo n sorted ++ sorted.drop n.toNat := by
        simpa [sliceTo, take_append_drop] using hds
      rcases mem_append.mp this with h | h
      · exact absurd ⟨d, h, rfl⟩ hdk
      · exact h
    rw [← cheaper_eq_strictlyCheaper]
    exact hcheap a ha d hdd

/-- **C19_to_nodeclaim_cheapest** — the instance-type requirement `ToNodeClaim` injects for a dynamic pool
    names the `MaxInstanceTypes` cheapest options. -/
theorem C19_to_nodeclaim_cheapest (reqs : List Req) (its : List IType) (names : List String)
    (hnd : (its.map (·.name)).Nodup)
    (h : toNodeClaimTypes false reqs maxInstanceTypes its = some names) :
    cheapestKeptSpec reqs maxInstanceTypes its names = true := by
  simp only [toNodeClaimTypes, Bool.false_eq_true, if_false, Option.some.injEq] at h
  subst h
  apply C19_truncate_meets_spec reqs _ its (orderByPrice reqs its) _ hnd
  simp only [allowedTruncation, Bool.and_eq_true, beq_iff_eq]
  exact ⟨C19_order_by_price_allowed reqs its, trivial⟩

/-! ## Non-vacuity -/

section Examples

def pA : Pool := { name := [97], weight := 10 }         -- "a", weight 10
def pB : Pool := { name := [98], weight := 10 }         -- "b", weight 10
def pC : Pool := { name := [99], weight := 50 }         -- "c", weight 50
def pD : Pool := { name := [100], weight := 0 }         -- "d", no weight

example : orderByWeight [pA, pD, pC, pB] = [pC, pB, pA, pD] := by decide
example : allowedSort before [pA, pD, pC, pB] [pC, pB, pA, pD] = true := by decide
example : weightOrderSpec [pA, pD, pC, pB] [pC, pB, pA, pD] = true := by decide
example : weightOrderSpec [pA, pD, pC, pB] [pC, pA, pB, pD] = false := by decide

/-- three interleavings of two workers over [fail, ok, ok]: worker 1 publishes index 2 first in the second one,
    worker 0 then overrides it with index 1 -/
example : let outs := [Outcome.fail, .ok, .ok]
    allDone (run outs (init 2 outs) [0, 1, 0, 0, 1, 0]) = true ∧
    result (run outs (init 2 outs) [0, 1, 0, 0, 1, 0]) = some 1 := by decide
example : let outs := [Outcome.fail, .ok, .ok]
    (run outs (init 2 outs) [0, 0, 0, 1, 1]).idx = some 2 ∧   -- index 2 is published first …
    result (run outs (init 2 outs) [0, 0, 0, 1, 1, 0]) = some 1 := by decide   -- … and replaced by index 1
example : sequentialResult [Outcome.fail, .reserved, .ok] = none := by decide
example : let outs := [Outcome.fail, .reserved, .ok]
    allDone (run outs (init 8 outs) [2, 2, 1, 0, 0, 0, 1, 2]) = true ∧
    result (run outs (init 8 outs) [2, 2, 1, 0, 0, 0, 1, 2]) = none := by decide
example : chosenOk [Outcome.fail, .ok, .ok] (some 2) = false := by decide

/-- the hypotheses of `C19_weight_priority` are met by a concrete run: four pools (two tie at weight 10), the
    weight-50 pool infeasible, two workers, an interleaving in which both feasible tied pools are evaluated
    concurrently; the theorem then yields that the pod lands in "b" (later name among the tied) and that
    "c" (higher weight) is infeasible -/
def fEx (p : Pool) : Outcome := if p.weight = 50 then .fail else .ok
example : allowedSort before [pA, pD, pC, pB] [pC, pB, pA, pD] = true ∧
    allDone (run ([pC, pB, pA, pD].map fEx) (init (effectiveWorkers 2) ([pC, pB, pA, pD].map fEx)) [0, 1, 0, 1, 0, 0]) = true ∧
    result (run ([pC, pB, pA, pD].map fEx) (init (effectiveWorkers 2) ([pC, pB, pA, pD].map fEx)) [0, 1, 0, 1, 0, 0]) = some 1 := by
  decide
example := C19_weight_priority [pA, pD, pC, pB] [pC, pB, pA, pD] fEx 2 [0, 1, 0, 1, 0, 0] (by decide) (by decide)
/-- a step of a worker that has not returned makes progress -/
example : progressMeasure [Outcome.fail, .ok] (step [Outcome.fail, .ok] (init 2 [Outcome.fail, .ok]) 1)
    < progressMeasure [Outcome.fail, .ok] (init 2 [Outcome.fail, .ok]) :=
  C19_schedule_progress _ _ 1 ⟨W.idle, by decide, by decide⟩

/-- soft taints: the weight-50 pool is the only one able to host the pod and carries a `PreferNoSchedule` taint the
    pod does not tolerate; no other pool has one (the lowest-weight pool in particular).  Round one fails everywhere,
    the flag is raised, round two (two workers) publishes index 0: the pod lands in the soft-tainted top pool. -/
def softEx (p : Pool) : Bool := p.weight = 50
def hostEx (p : Pool) : Bool := decide (p.weight = 50) || decide (p.weight = 0)
def hostOnlyTop (p : Pool) : Bool := p.weight = 50

example : placeSequential [true, false] [.fail, .fail] [.ok, .fail] = some 0 := by decide
example : placeSequential [true, false] [.fail, .ok] [.ok, .ok] = some 1 := by decide
example : placeSequential [false, false] [.fail, .fail] [.fail, .fail] = none := by decide
example : placeSequential [true, false] [.fail, .reserved] [.ok, .ok] = none := by decide

example := C19_soft_taint_priority [pA, pD, pC, pB] [pC, pB, pA, pD] hostOnlyTop softEx softEx (by decide) 2
  [0, 1, 0, 1, 0, 1, 0, 1, 0, 1] [0, 1, 0, 1, 1, 1, 1, 1, 1, 1] (by decide) (by decide) (by decide)
example : place (tolerateFlag ([pC, pB, pA, pD].map softEx))
    (result (run ([pC, pB, pA, pD].map (roundOutcome hostOnlyTop softEx true)) (init (effectiveWorkers 2) ([pC, pB, pA, pD].map (roundOutcome hostOnlyTop softEx true))) [0, 1, 0, 1, 0, 1, 0, 1, 0, 1]))
    (waits ([pC, pB, pA, pD].map (roundOutcome hostOnlyTop softEx true)))
    (result (run ([pC, pB, pA, pD].map (roundOutcome hostOnlyTop softEx false)) (init (effectiveWorkers 2) ([pC, pB, pA, pD].map (roundOutcome hostOnlyTop softEx false))) [0, 1, 0, 1, 1, 1, 1, 1, 1, 1])) = some 0 := by decide

/-- what goes wrong when the two sites disagree: with the pre-filter strict and the per-pod filter relaxed, a pool with
    minValues 3 and two usable types is dropped under BestEffort although the specification says it offers a node -/
example : (templateKept false 3 2 && filterKeeps true 3 2) = false ∧ specOffers true 3 2 = true ∧
    poolOffers true 3 2 2 = true ∧ poolOffers false 3 2 2 = false := by decide

def mvEx (p : Pool) : Nat := if p.weight = 50 then 3 else 0
def nEx (p : Pool) : Nat := if p.weight = 50 then 2 else 1
example := C19_minvalues_weight_priority [pA, pD, pC, pB] [pC, pB, pA, pD] true mvEx nEx nEx (fun _ _ => Nat.le_refl _) 2
  [0, 1, 0, 1] (by decide) (by decide)
example : result (run ([pC, pB, pA, pD].map (fun p => if filterKeeps true (mvEx p) (nEx p) then Outcome.ok else .fail))
    (init (effectiveWorkers 2) ([pC, pB, pA, pD].map (fun p => if filterKeeps true (mvEx p) (nEx p) then Outcome.ok else .fail))) [0, 1, 0, 1]) = some 0 := by decide
/-- the same pools under Strict: the weight-50 pool is no template, the pod lands in "b" -/
example : allowedSort before ([pA, pD, pC, pB].filter (fun p => templateKept false (mvEx p) (nEx p))) [pB, pA, pD] = true := by decide

/-- the pool filter on concrete condition lists: healthy pool; NodeClass not resolved yet (Ready Unknown); nothing
    reported yet; Ready False; failing registrations do not make a pool unready; static and deleting pools -/
def condsReady : List Cond := [⟨"NodeClassReady", "True"⟩, ⟨"NodeRegistrationHealthy", "False"⟩, ⟨"Ready", "True"⟩, ⟨"ValidationSucceeded", "True"⟩]
def condsUnknown : List Cond := [⟨"NodeClassReady", "Unknown"⟩, ⟨"Ready", "Unknown"⟩, ⟨"ValidationSucceeded", "True"⟩]
def condsFalse : List Cond := [⟨"NodeClassReady", "False"⟩, ⟨"Ready", "False"⟩, ⟨"ValidationSucceeded", "True"⟩]
example : eligible ⟨condsReady, false, false⟩ = true ∧ eligible ⟨condsUnknown, false, false⟩ = false ∧
    eligible ⟨[], false, false⟩ = false ∧ eligible ⟨condsFalse, false, false⟩ = false ∧
    eligible ⟨condsReady, true, false⟩ = false ∧ eligible ⟨condsReady, false, true⟩ = false := by decide
example : Spec.PoolPass.readyCondition (condsReady.map (fun c => (c.type, c.status))) = true ∧
    Spec.PoolPass.readyCondition (condsUnknown.map (fun c => (c.type, c.status))) = false ∧
    Spec.PoolPass.readyCondition [] = false := by decide
example := C19_eligible_meets_spec ⟨condsUnknown, false, false⟩ (by decide)
/-- `C19_ready_weight_priority` on a concrete run: the weight-50 pool "c" reports Ready=Unknown, so only a, b, d become
    templates; every one of them is feasible and the pod lands in "b" — "c" neither receives it nor blocks it -/
def infoEx (p : Pool) : Meta := if p.weight = 50 then ⟨condsUnknown, false, false⟩ else ⟨condsReady, false, false⟩
example : templatePools infoEx [pA, pD, pC, pB] = [pB, pA, pD] := by decide
example := C19_ready_weight_priority [pA, pD, pC, pB] [pB, pA, pD] infoEx (fun _ => .ok) 2 [0, 1, 0, 1, 0]
  (by decide) (by decide)
example : result (run ([pB, pA, pD].map (fun _ => Outcome.ok)) (init (effectiveWorkers 2) ([pB, pA, pD].map (fun _ => Outcome.ok))) [0, 1, 0, 1, 0]) = some 0 := by
  decide

def o (z c : String) (p : Nat) (a : Bool := true) : Offering := { zone := z, ct := c, price := p, available := a }
def tA : IType := { name := "a", offerings := [o "z1" "spot" 100, o "z2" "on-demand" 900] }
def tB : IType := { name := "b", offerings := [o "z1" "spot" 50 false, o "z1" "on-demand" 300] }
def tC : IType := { name := "c", offerings := [o "z3" "spot" 10] }
def zoneIn12 : List Req := [{ key := zoneKey, op := .isIn, vals := ["z1", "z2"] }]

example : (orderByPrice zoneIn12 [tC, tB, tA]).map (·.name) = ["a", "b", "c"] := by decide
example : effPrice zoneIn12 tC = none ∧ effPrice zoneIn12 tB = some 300 := by decide
example : toNodeClaimTypes false zoneIn12 2 [tC, tB, tA] = some ["a", "b"] := by decide
example : cheapestKeptSpec zoneIn12 2 [tC, tB, tA] ["b", "a"] = true := by decide
example : cheapestKeptSpec zoneIn12 2 [tC, tB, tA] ["c", "a"] = false := by decide
example : cheapestKeptSpec zoneIn12 1 [tC, tB, tA] ["b"] = false := by decide


def rA : RPool := { name := "a", key := [97], weight := 50, team := "", cpu := 4000, alloc := 3900, cap := 1, limit := none }
def rB : RPool := { name := "b", key := [98], weight := 10, team := "", cpu := 4000, alloc := 3900, cap := 0, limit := none }
def rC : RPool := { name := "c", key := [99], weight := 90, team := "", cpu := 4000, alloc := 3900, cap := 0, limit := some 4500 }
/-- two pods, one reserved unit in the higher-weight pool: the second pod waits, it is not sent to `b` -/
example : pass [rB, rA] [{ name := "p0", cpu := 1000, team := "" }, { name := "p1", cpu := 2000, team := "" }]
    = [("p1", .placed "a"), ("p0", .deferred)] := by decide
/-- the top pool's limit admits one node: the second pod legitimately falls back, and the top pool is full at the end -/
example : pass [rB, rC] [{ name := "p0", cpu := 1000, team := "" }, { name := "p1", cpu := 2000, team := "" }]
    = [("p1", .placed "c"), ("p0", .placed "b")] ∧ finalUsed [rB, rC] [{ name := "p0", cpu := 1000, team := "" }, { name := "p1", cpu := 2000, team := "" }] = [1, 1] := by decide

end Examples

/-! ## Recorded finding (kept as a machine-checked record; replayed on the real code by corpus/c19.pass)

Full-strength statement of the first sentence for whole passes: "every pod that is given a new node gets it in
a NodePool able to host it, and no higher-weight ready NodePool can host it".  The ordering half is proved above
(`C19_weight_priority`) over an arbitrary feasibility function; feasibility itself (C01) is an input there.  On the
real code the "able to host it" half fails for a pod whose own requirements contradict each other on a label the
NodePool does not define: the specification says no pool can host it, the real provisioner opens a NodeClaim. -/

def witnessPool : Spec.PoolPass.PPool :=
  { name := "np-1", weight := 0, ready := true, static := false, deleting := false, reqs := [], labels := [],
    taints := [], types := [{ name := "t00", cpu := 1000, pods := 1, overhead := 0,
                              offerings := [o "z1" "on-demand" 1024] }] }
def witnessPod : Spec.PoolPass.PPod :=
  { name := "pod-04", cpu := 500, tol := [],
    reqs := [{ key := "example.com/team", op := .isIn, vals := ["a"] },
             { key := "example.com/team", op := .doesNotExist, vals := [] }] }

/-- no node of the witness pool satisfies the witness pod (the real code opens one: known finding
    C19-unsatisfiable-pod-gets-node) … -/
theorem C19_witness_unsatisfiable_pod : Spec.PoolPass.hosts witnessPool [witnessPod] = false := by decide
/-- … while each half of the contradiction alone is handled as the specification says -/
theorem C19_witness_control :
    Spec.PoolPass.hosts witnessPool [{ witnessPod with reqs := witnessPod.reqs.drop 1 }] = true ∧
    Spec.PoolPass.hosts witnessPool [{ witnessPod with reqs := witnessPod.reqs.take 1 }] = false := by decide

end Karp.C19
