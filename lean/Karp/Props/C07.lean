/- C07: property theorems (stub, not yet built) -/
namespace Karp.C07
end Karp.C07
