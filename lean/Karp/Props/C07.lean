/-
C07 — Disruption never targets protected or ineligible nodes.

Property theorems only (helper lemmas: `Karp/Proofs/CandidateLemmas.lean`, `Karp/Proofs/CandidateHistory.lean`).
Model: `Karp/Model/Candidate.lean` (the anchored Go code as it is: pod predicates, PDB limits, StateNode validators,
       NewCandidate, the five ShouldDisrupt filters, the Consolidatable sub-controller, the in-memory windows).
Spec:  `Karp/Spec/Protected.lean` (one predicate per blocker of the property text; `allowed w m`).

Every theorem is over ALL worlds: any NodeClaim / Node / NodePool state, any list of pods and PDBs, any clock value.
-/
import Karp.Proofs.CandidateHistory

namespace Karp.C07
open Karp.Candidate Karp.Spec.Protected Karp.Spec.ProtectedHistory Karp.CandidateLemmas Karp.CandidateHistory Karp.Gen

/-! ## Fact expectations over the regenerated facts -/

/-- the controller runs exactly the five methods the model covers -/
theorem fact_method_order :
    CandidateFacts.methodOrder.length = 5 ∧ ∀ m ∈ Method.all, m.name ∈ CandidateFacts.methodOrder := by decide

/-- "only drift may override": Drift and StaticDrift are the only methods of the eventual class, the three
    consolidation methods are graceful, and no other type in the package declares a class -/
theorem fact_method_classes :
    classOf? .emptiness = some .graceful ∧ classOf? .multi = some .graceful ∧ classOf? .single = some .graceful ∧
    classOf? .drift = some .eventual ∧ classOf? .staticDrift = some .eventual ∧
    CandidateFacts.methodClass.length = 5 := by decide

theorem fact_classes_distinct : CandidateFacts.gracefulClass ≠ CandidateFacts.eventualClass := by decide

/-- the protection window after a nomination: max(2 × BatchMaxDuration, 10 s) -/
theorem fact_nomination_window :
    CandidateFacts.nominationBatchFactor = 2 ∧ CandidateFacts.nominationFloorNs = 10 * 1000000000 := by decide

/-- eviction cost = 1 + deletionCost/2^27 + priority/2^25, clamped to an interval that contains 0 in its interior
    (so clamping never changes the sign the emptiness test looks at) -/
theorem fact_eviction_cost :
    CandidateFacts.evictionBase = 1 ∧ CandidateFacts.evictionDelExp = 27 ∧ CandidateFacts.evictionPrioExp = 25 ∧
    CandidateFacts.evictionClampLo < 0 ∧ 0 < CandidateFacts.evictionClampHi := by decide

/-- the per-node base cost that `IsEmpty` compares with is the one `computeRescheduleDisruptionCost` starts from -/
theorem fact_base_cost : CandidateFacts.perNodeBaseCostNum = 1 ∧ CandidateFacts.perNodeBaseCostDen = 1 := by decide

/-- the Drift method reads the condition named like its reason -/
theorem fact_drift_condition : CandidateFacts.reasonDrifted = CandidateFacts.condDrifted := by decide

theorem fact_keys :
    CandidateFacts.doNotDisruptKey = "karpenter.sh/do-not-disrupt" ∧
    CandidateFacts.nodePoolLabelKey = "karpenter.sh/nodepool" ∧
    CandidateFacts.nodeInitializedLabelKey = "karpenter.sh/initialized" ∧
    CandidateFacts.condConsolidatable = "Consolidatable" ∧
    CandidateFacts.policyWhenEmpty = "WhenEmpty" := by decide

/-- every check the model of `ValidateNodeDisruptable` / `ValidatePodsDisruptable` / `NewCandidate` makes is still
    called by the Go function (membership, not order: a reordering is harmless) -/
theorem fact_validator_calls :
    (∀ c ∈ ["Initialized", "MarkedForDeletion", "Nominated", "Annotations", "Labels"], c ∈ CandidateFacts.validateNodeCalls) ∧
    (∀ c ∈ ["Pods", "IsDisruptable", "CanEvictPods"], c ∈ CandidateFacts.validatePodsCalls) ∧
    "Deleted" ∈ CandidateFacts.markedForDeletionCalls ∧
    (∀ c ∈ ["HasAny", "ValidateNodeDisruptable", "ValidatePodsDisruptable", "IgnorePodBlockEvictionError"],
        c ∈ CandidateFacts.newCandidateCalls) ∧
    (∀ c ∈ ["DeepCopyNodes", "NewCandidate", "shouldDisrupt"], c ∈ CandidateFacts.getCandidatesCalls) := by decide

theorem fact_filter_calls :
    (∀ c ∈ ["OwnedByStaticNodePool", "IsEmpty", "IsTrue"], c ∈ CandidateFacts.consolidationFilterCalls) ∧
    (∀ c ∈ ["OwnedByStaticNodePool", "HasBufferPods", "IsEmpty", "IsTrue"], c ∈ CandidateFacts.emptinessFilterCalls) ∧
    (∀ c ∈ ["OwnedByStaticNodePool", "IsTrue"], c ∈ CandidateFacts.driftFilterCalls) ∧
    (∀ c ∈ ["OwnedByStaticNodePool", "IsTrue"], c ∈ CandidateFacts.staticDriftFilterCalls) ∧
    (∀ c ∈ ["IsActive", "ToleratesDisruptedNoScheduleTaint", "IsOwnedByNode", "IsDoNotDisruptActive"],
        c ∈ CandidateFacts.isEvictableCalls) ∧
    (∀ c ∈ ["IsActive", "IsDoNotDisruptActive"], c ∈ CandidateFacts.isDisruptableCalls) ∧
    (∀ c ∈ ["Clear", "IsUnderConsolidateAfter", "SetTrue"], c ∈ CandidateFacts.consolidatableCalls) := by decide

/-- the Consolidation sub-reconciler runs — and what it did is persisted — whatever the Drift sub-reconciler
    returned: `runReconcilers` runs drift then consolidation in a loop without early exit (errors are collected), and
    `Controller.Reconcile` cannot return between `runReconcilers` and the status patch.  `reconcileClaimF` (which
    ignores `RFaults.drift`) rests on this. -/
theorem fact_sub_reconcilers :
    CandidateFacts.subReconcilers = ["drift", "consolidation"] ∧
    CandidateFacts.subReconcilerLoopExits = 0 ∧ CandidateFacts.reconcileReturnsBeforePatch = 0 := by decide

/-- what each method looks at again between the listing of its candidates and its command: Drift simulates
    scheduling for the one candidate of its command; Single/MultiNodeConsolidation go through
    `computeConsolidation` → `SimulateScheduling` and validate; Emptiness only validates; **StaticDrift neither
    simulates nor looks at the deletion state nor validates** (known finding C07-staticdrift-late-deletion — when it
    is repaired this fact and `C07_late_deletion_partial` change).  `SimulateScheduling` derives the deleting nodes
    from the cluster's node list before anything else. -/
theorem fact_final_look :
    simulates .drift = true ∧ simulates .single = true ∧ simulates .multi = true ∧
    simulates .emptiness = false ∧ simulates .staticDrift = false ∧
    CandidateFacts.staticDriftComputeCalls = [] ∧
    CandidateFacts.emptinessComputeCalls.contains "Validate" = true ∧
    CandidateFacts.singleComputeCalls.contains "Validate" = true ∧
    CandidateFacts.multiComputeCalls.contains "Validate" = true ∧
    CandidateFacts.simulateSchedulingCalls.take 2 = ["DeepCopyNodes", "Deleting"] ∧
    (Method.all.all fun m => revalidates m == !isDrift m) = true := by decide

/-! ## The main theorem: all worlds × all five methods -/

/-- **C07_no_protected** — for every world and each of the five methods: if the method selects the node, then the
    node is managed, initialized, not deleting (nor already queued), not recently nominated, not annotated
    do-not-disrupt, hosts no pod with an active do-not-disrupt annotation or a blocking PDB unless the method is a
    drift method and the NodeClaim has a terminationGracePeriod; and consolidation methods additionally had a
    Consolidatable NodeClaim of a dynamic pool with consolidation enabled, a policy other than WhenEmpty unless the
    node is empty (buffer placements count as non-empty), the emptiness method only ever taking empty nodes.
    `wellFormed`: the initialized label is only found on nodes that carry the registered label (lifecycle order). -/
theorem C07_no_protected (w : World) (m : Method) (hwf : wellFormed w = true) (h : selected w m = true) :
    allowed w m = true :=
  selected_allowed hwf h

/-- **C07_blockers** — the conclusion of `C07_no_protected`, one blocker of the property's list at a time; the
    pod-level blockers may only be present for a drift method on a NodeClaim with a terminationGracePeriod -/
theorem C07_blockers (w : World) (m : Method) (hwf : wellFormed w = true) (h : selected w m = true) :
    unmanaged w = false ∧ uninitialized w = false ∧ deleting w = false ∧ recentlyNominated w = false ∧
    nodeDoNotDisrupt w = false ∧
    ((podDoNotDisrupt w = true ∨ pdbBlocks w = true) → isDrift m = true ∧ hasTGP w = true) := by
  obtain ⟨h1, h2, _⟩ := allowed_unfold (selected_allowed hwf h)
  unfold nodeLevelBlocker at h1
  simp only [Bool.or_eq_false_iff] at h1
  obtain ⟨⟨⟨⟨a, b⟩, c⟩, d⟩, e⟩ := h1
  refine ⟨a, b, c, d, e, ?_⟩
  intro hp
  rcases h2 with h2 | h2
  · unfold podLevelBlocker at h2
    simp only [Bool.or_eq_false_iff] at h2
    rcases hp with hp | hp
    · rw [h2.1] at hp; cases hp
    · rw [h2.2] at hp; cases hp
  · unfold mayOverride at h2
    simpa using h2

/-- **C07_graceful_never_overrides** — emptiness and the two consolidation methods never select a node hosting a
    pod with an active do-not-disrupt annotation or a blocking PDB, terminationGracePeriod or not -/
theorem C07_graceful_never_overrides (w : World) (m : Method) (hwf : wellFormed w = true)
    (hm : isDrift m = false) (h : selected w m = true) : podDoNotDisrupt w = false ∧ pdbBlocks w = false := by
  obtain ⟨_, _, _, _, _, hp⟩ := C07_blockers w m hwf h
  constructor
  · cases hd : podDoNotDisrupt w with
    | false => rfl
    | true => have := (hp (Or.inl hd)).1; rw [hm] at this; cases this
  · cases hd : pdbBlocks w with
    | false => rfl
    | true => have := (hp (Or.inr hd)).1; rw [hm] at this; cases this

/-- **C07_consolidation** — what consolidation additionally requires -/
theorem C07_consolidation (w : World) (m : Method) (hwf : wellFormed w = true)
    (hm : isConsolidation m = true) (h : selected w m = true) :
    consolidatable w = true ∧ w.pool.static = false ∧ w.pool.consolidateAfter.isSome = true ∧
    (empty w = false → w.pool.policy ≠ .whenEmpty) ∧ (m = .emptiness → empty w = true ∧ w.buffer = 0) := by
  obtain ⟨_, _, h3⟩ := allowed_unfold (selected_allowed hwf h)
  have hc := h3 hm
  unfold consolidationOk at hc
  simp only [Bool.and_eq_true, Bool.not_eq_true', Bool.or_eq_true, bne_iff_ne, ne_eq] at hc
  obtain ⟨⟨⟨⟨a, b⟩, c⟩, d⟩, e⟩ := hc
  refine ⟨a, b, c, ?_, ?_⟩
  · intro he; rcases d with d | d
    · rw [he] at d; cases d
    · exact d
  · intro hm'
    rcases e with e | e
    · exact absurd hm' e
    · refine ⟨e, ?_⟩
      unfold empty at e
      simp only [Bool.and_eq_true, beq_iff_eq] at e
      exact e.1

/-! ## Time-valued annotations and the nomination window -/

/-- **C07_dnd_duration** — a duration-valued annotation is active iff the duration is positive and, when the pod
    has a start time, `now - start < d` (no start time: active, fail safe) -/
theorem C07_dnd_duration (now d : Int) (p : Pod) (hd : p.dnd = .dur d) :
    dndActive now p = true ↔ (0 < d ∧ ∀ s, p.start = some s → now - s < d) := by
  unfold dndActive
  rw [hd]
  simp only
  by_cases h0 : d ≤ 0
  · simp only [h0, if_true]
    constructor
    · intro h; cases h
    · intro h; omega
  · have hpos : 0 < d := by omega
    simp only [h0, if_false]
    cases hs : p.start with
    | none => simp [hpos]
    | some s => simp [hpos]

/-- **C07_dnd_expiry_monotone** — time only moves forward: an expired duration annotation never becomes active again, and until
    `start + d` it is active at every instant -/
theorem C07_dnd_expiry_monotone (now now' d s : Int) (p : Pod) (hd : p.dnd = .dur d) (hs : p.start = some s)
    (hle : now ≤ now') (hoff : dndActive now p = false) : dndActive now' p = false := by
  unfold dndActive at *
  rw [hd] at *
  simp only [hs] at *
  by_cases h0 : d ≤ 0
  · simp [h0]
  · simp only [h0, if_false, decide_eq_false_iff_not] at *
    omega

/-- **C07_dnd_protects_until** — … and it is active at every instant before `start + d` -/
theorem C07_dnd_protects_until (now d s : Int) (p : Pod) (hd : p.dnd = .dur d) (hs : p.start = some s)
    (hpos : 0 < d) (hlt : now < s + d) : dndActive now p = true := by
  rw [C07_dnd_duration now d p hd]
  refine ⟨hpos, ?_⟩
  intro s' hs'; rw [hs] at hs'; cases hs'; omega

/-- **C07_active_annotation_blocks** — a running pod whose annotation is active blocks every graceful method and every drift method without TGP -/
theorem C07_active_annotation_blocks (w : World) (m : Method) (p : Pod) (hwf : wellFormed w = true)
    (hp : p ∈ w.pods) (hon : p.onNode = true) (hrun : p.terminal = false ∧ p.terminating = false)
    (hact : dndActive w.now p = true) (hno : isDrift m = false ∨ hasTGP w = false) : selected w m = false := by
  cases hsel : selected w m with
  | false => rfl
  | true =>
    exfalso
    obtain ⟨_, _, _, _, _, hpod⟩ := C07_blockers w m hwf hsel
    have hblk : podDoNotDisrupt w = true := by
      unfold podDoNotDisrupt hosted
      rw [List.any_eq_true]
      refine ⟨p, List.mem_filter.mpr ⟨hp, hon⟩, ?_⟩
      rw [← dnd_eq, hact]
      simp [running, hrun.1, hrun.2]
    obtain ⟨h1, h2⟩ := hpod (Or.inl hblk)
    rcases hno with h | h
    · rw [h] at h1; cases h1
    · rw [h] at h2; cases h2

/-- **C07_nomination_window** — a node nominated at instant `t` is not selected by any method before
    `t + max(10 s, 2 × BatchMaxDuration)` -/
theorem C07_nomination_window (w : World) (m : Method) (t : Int) (hwf : wellFormed w = true)
    (hn : w.nominatedAt = some t) (h : selected w m = true) :
    t + 10 * 1000000000 ≤ w.now ∧ t + 2 * w.batchMax ≤ w.now := by
  obtain ⟨_, _, _, hr, _, _⟩ := C07_blockers w m hwf h
  unfold recentlyNominated at hr
  rw [hn] at hr
  simp only [decide_eq_false_iff_not, Int.not_lt] at hr
  unfold window at hr
  have h1 : ((CandidateFacts.nominationFloorNs : Nat) : Int) = 10 * 1000000000 := by decide
  have h2 : ((CandidateFacts.nominationBatchFactor : Nat) : Int) = 2 := by decide
  rw [h1, h2] at hr
  constructor <;> omega

/-! ## The Consolidatable condition -/

/-- **C07_consolidatable** — the sub-reconciler sets Consolidatable exactly when the specification allows it:
    consolidation enabled, NodeClaim initialized, and consolidateAfter elapsed since the last pod event (since the
    Initialized transition when there was none); otherwise it removes the condition. -/
theorem C07_consolidatable (pool : Pool) (c : Claim) (now : Int) (hdyn : pool.static = false) :
    (consolidatableAfter pool c now = .true_ ↔ mayBeConsolidatable pool c now = true) ∧
    (mayBeConsolidatable pool c now = false → consolidatableAfter pool c now = .absent) := by
  rw [consolidatableAfter_eq pool c now hdyn]
  cases mayBeConsolidatable pool c now <;> simp

/-- **C07_consolidatable_elapsed** — what "elapsed" means, in the open -/
theorem C07_consolidatable_elapsed (pool : Pool) (c : Claim) (now : Int)
    (h : mayBeConsolidatable pool c now = true) :
    pool.static = false ∧ c.initialized = .true_ ∧
    ∃ ca, pool.consolidateAfter = some ca ∧ (ca = 0 ∨ c.lastPodEvent.getD c.initAt + ca ≤ now) := by
  unfold mayBeConsolidatable at h
  cases hca : pool.consolidateAfter with
  | none => simp [hca] at h
  | some ca =>
    simp only [hca, Bool.and_eq_true, Bool.not_eq_true', beq_iff_eq] at h
    obtain ⟨hs, hi, he⟩ := h
    refine ⟨hs, hi, ca, rfl, ?_⟩
    unfold elapsedSince at he
    cases hl : c.lastPodEvent <;> simp_all

/-- **C07_reconcile** — the whole controller, under ANY combination of faults of one run (failing drift check,
    failing NodePool read, refused status patch): a NodeClaim it must not or cannot touch keeps its condition; a live
    NodeClaim of an existing, readable dynamic pool whose status write is accepted ends up Consolidatable iff the
    specification allows it — whether or not the drift check of the same run failed. -/
theorem C07_reconcile (f : RFaults) (pool : Pool) (c : Claim) (now : Int) :
    let c' := reconcileClaimF f pool c now
    (c.deleting = true ∨ c.md.pool ≠ .this ∨ pool.present = false ∨ pool.static = true ∨
        f.poolGet = true ∨ f.patch = true → c' = c) ∧
    (c.deleting = false → c.md.pool = .this → pool.present = true → pool.static = false →
      f.poolGet = false → f.patch = false →
      (c'.consolidatable = .true_ ↔ mayBeConsolidatable pool c now = true)) := by
  rw [← afterController_eq]
  unfold afterController controllerActs
  constructor
  · intro h
    rcases h with h | h | h | h | h | h
    · simp [h]
    · have : (c.md.pool == PoolRef.this) = false := by simpa using h
      simp [this]
    · simp [h]
    · simp [h]
    · simp [h]
    · simp [h]
  · intro h1 h2 h3 h4 h5 h6
    simp only [h1, h2, h3, h4, h5, h6]
    cases mayBeConsolidatable pool c now <;> simp

/-- **C07_reconcile_acceptable** — the same in the specification's words (`controllerActs`, `conditionAcceptable`):
    under any faults the persisted condition is acceptable — True only if the window has elapsed when the controller
    has its say, and only as a leftover when it has not. -/
theorem C07_reconcile_acceptable (f : RFaults) (pool : Pool) (c : Claim) (now : Int) :
    conditionAcceptable f pool c now (reconcileClaimF f pool c now).consolidatable = true := by
  rw [← afterController_eq]
  unfold conditionAcceptable afterController
  cases hact : controllerActs f pool c
  · cases hc : c.consolidatable <;> simp [hc]
  · cases hmb : mayBeConsolidatable pool c now <;> simp

/-- **C07_reconcile_withdraws** — a pod event is honoured at the next run even when the drift check of that run
    fails: if the controller has its say and consolidateAfter has not elapsed since the last pod event, the persisted
    NodeClaim is not Consolidatable afterwards, for every value of `f.drift`. -/
theorem C07_reconcile_withdraws (f : RFaults) (pool : Pool) (c : Claim) (now : Int)
    (hact : controllerActs f pool c = true) (h : mayBeConsolidatable pool c now = false) :
    (reconcileClaimF f pool c now).consolidatable = .absent := by
  rw [← afterController_eq]
  unfold afterController
  simp [hact, h]

/-- **C07_drift_fault_irrelevant** — what is persisted does not depend on whether the drift check failed -/
theorem C07_drift_fault_irrelevant (f : RFaults) (d : Bool) (pool : Pool) (c : Claim) (now : Int) :
    reconcileClaimF { f with drift := d } pool c now = reconcileClaimF f pool c now := rfl

/-- **C07_consolidation_pipeline** — when the condition on the NodeClaim is the one the controller has just
    maintained (same instant; the run may have had a failing drift check, but read the pool and wrote the status), a
    consolidation method selecting the node implies that consolidateAfter has elapsed since the last pod event. -/
theorem C07_consolidation_pipeline (w : World) (c : Claim) (m : Method) (f : RFaults)
    (hc : w.claim = some (reconcileClaimF f w.pool c w.now))
    (hlive : c.deleting = false) (hlbl : c.md.pool = .this) (hget : f.poolGet = false) (hpatch : f.patch = false)
    (hwf : wellFormed w = true) (hm : isConsolidation m = true) (h : selected w m = true) :
    mayBeConsolidatable w.pool c w.now = true := by
  obtain ⟨hcons, hdyn, _, _, _⟩ := C07_consolidation w m hwf hm h
  -- the pool exists: the node is managed
  obtain ⟨hun, _, _, _, _, _⟩ := C07_blockers w m hwf h
  have hpres : w.pool.present = true := by
    unfold unmanaged at hun
    simp only [Bool.or_eq_false_iff] at hun
    cases hn : w.node with
    | none => simp [hn] at hun
    | some n =>
      simp only [hn, Bool.or_eq_false_iff, Bool.not_eq_false'] at hun
      exact hun.2.1.2
  have := (C07_reconcile f w.pool c w.now).2 hlive hlbl hpres hdyn hget hpatch
  apply this.mp
  unfold consolidatable at hcons
  rw [hc] at hcons
  simpa using hcons

/-! ## histories -/

/-- **C07_state_refines_log** — after ANY event sequence the cluster-state entry (flags, "until" instant, cached
    objects) is exactly what the log of the history stands for. -/
theorem C07_state_refines_log (b : Int) (pool : Pool) (es : List Ev) (t0 : Int) :
    hrun b pool { now := t0, sn := none } es = absState b (specRun pool { now := t0 } es) := by
  have := (run_abs b pool es { now := t0 } (loginv_init t0)).1
  rwa [abs_init] at this

/-- **C07_history** — for every event history and every method: if the method selects the node after the history,
    the node the log describes is not protected: in particular the last mark/unmark record is not a mark and no
    nomination record is younger than the window. -/
theorem C07_history (env : World) (es : List Ev) (t0 : Int) (m : Method)
    (hwf : wellFormed ((specRun env.pool { now := t0 } es).world env) = true)
    (h : hselected env (hrun env.batchMax env.pool { now := t0, sn := none } es) m = true) :
    allowedAfter env (specRun env.pool { now := t0 } es) m = true :=
  history_allowed env es t0 m hwf h

theorem C07_history_windows (env : World) (es : List Ev) (t0 : Int) (m : Method)
    (hwf : wellFormed ((specRun env.pool { now := t0 } es).world env) = true)
    (h : hselected env (hrun env.batchMax env.pool { now := t0, sn := none } es) m = true) :
    (specRun env.pool { now := t0 } es).marks.getLast? ≠ some true ∧
    (∀ t ∈ (specRun env.pool { now := t0 } es).noms,
      t + 10 * 1000000000 ≤ (specRun env.pool { now := t0 } es).now ∧
      t + 2 * env.batchMax ≤ (specRun env.pool { now := t0 } es).now) := by
  have ha := C07_history env es t0 m hwf h
  generalize specRun env.pool { now := t0 } es = l at *
  unfold allowedAfter at ha
  simp only [Bool.and_eq_true, Bool.not_eq_true'] at ha
  obtain ⟨⟨_, hall⟩, hrec⟩ := ha
  obtain ⟨hnl, _, _⟩ := allowed_unfold hall
  constructor
  · unfold nodeLevelBlocker at hnl
    simp only [Bool.or_eq_false_iff] at hnl
    have hd := hnl.1.1.2
    unfold deleting at hd
    simp only [Bool.or_eq_false_iff] at hd
    have hm : l.marked = false := hd.1.1
    unfold Log.marked at hm
    intro hc; rw [hc] at hm; simp at hm
  · intro t ht
    unfold Log.recentlyNominated at hrec
    have := List.any_eq_false.mp hrec t ht
    simp only [decide_eq_true_eq, Int.not_lt] at this
    unfold window at this
    have h1 : ((CandidateFacts.nominationFloorNs : Nat) : Int) = 10 * 1000000000 := by decide
    have h2 : ((CandidateFacts.nominationBatchFactor : Nat) : Int) = 2 := by decide
    rw [h1, h2] at this
    constructor <;> omega

/-- **C07_history_consolidatable** — along any history: if the last thing that happened to the NodeClaim was a run
    of the nodeclaim.disruption controller (at the instant the prefix `es₁` ends, on the live, labelled NodeClaim `c`;
    the run may have had a failing drift check, but read the pool and wrote the status),
    and a consolidation method selects the node after any number of later clock ticks, nominations, marks and Node
    events, then at that run consolidateAfter had elapsed since the last pod event and `c` was initialized. -/
theorem C07_history_consolidatable (env : World) (es₁ es₂ : List Ev) (t0 : Int) (m : Method) (c : Claim) (f : RFaults)
    (hc : (specRun env.pool { now := t0 } es₁).claim = some c)
    (hlive : c.deleting = false) (hlbl : c.md.pool = .this) (hget : f.poolGet = false) (hpatch : f.patch = false)
    (hq : ∀ e ∈ es₂, quiet e = true)
    (hwf : wellFormed ((specRun env.pool { now := t0 } (es₁ ++ [Ev.reconcile f] ++ es₂)).world env) = true)
    (hm : isConsolidation m = true)
    (h : hselected env (hrun env.batchMax env.pool { now := t0, sn := none } (es₁ ++ [Ev.reconcile f] ++ es₂)) m = true) :
    mayBeConsolidatable env.pool c (specRun env.pool { now := t0 } es₁).now = true := by
  have ha := C07_history env _ t0 m hwf h
  unfold allowedAfter at ha
  simp only [Bool.and_eq_true, Bool.not_eq_true'] at ha
  obtain ⟨⟨_, hall⟩, _⟩ := ha
  obtain ⟨hnl, _, hcons⟩ := allowed_unfold hall
  have hok := hcons hm
  -- the final claim is what the controller left
  rw [List.append_assoc, specRun_append] at hok hnl
  generalize hl₁ : specRun env.pool { now := t0 } es₁ = l₁ at *
  have hfinal : (specRun env.pool l₁ ([Ev.reconcile f] ++ es₂)).claim = some (afterController f env.pool c l₁.now) := by
    simp only [List.singleton_append, specRun]
    apply quiet_run_keeps_claim env.pool es₂ _ _ hq
    simp [specStep, hc]
  generalize specRun env.pool l₁ ([Ev.reconcile f] ++ es₂) = lf at *
  unfold consolidationOk at hok
  simp only [Bool.and_eq_true, Bool.not_eq_true'] at hok
  obtain ⟨⟨⟨⟨hcd, hdyn⟩, _⟩, _⟩, _⟩ := hok
  have hdyn' : env.pool.static = false := hdyn
  -- managed ⇒ the pool exists
  have hpres : env.pool.present = true := by
    unfold nodeLevelBlocker at hnl
    simp only [Bool.or_eq_false_iff] at hnl
    have hun := hnl.1.1.1.1
    unfold unmanaged at hun
    simp only [Bool.or_eq_false_iff] at hun
    have h2 := hun.2
    simp only [Log.world] at h2
    cases hn : lf.node with
    | none => simp [hn] at h2
    | some n =>
      simp only [hn, Bool.or_eq_false_iff, Bool.not_eq_false'] at h2
      exact h2.1.2
  unfold consolidatable at hcd
  simp only [Log.world, hfinal] at hcd
  unfold afterController controllerActs at hcd
  have hp : (c.md.pool == PoolRef.this) = true := by simp [hlbl]
  simp only [hlive, hp, hpres, hdyn', hget, hpatch, Bool.not_false, Bool.and_self, Bool.not_true,
    Bool.false_eq_true, if_false] at hcd
  cases hmb : mayBeConsolidatable env.pool c l₁.now with
  | true => rfl
  | false => simp [hmb] at hcd

/-- **C07_new_candidate** — `NewCandidate` per disruption class: graceful never overrides a pod-level blocker,
    eventual only with a terminationGracePeriod; no class overrides a node-level blocker -/
theorem C07_new_candidate (w : World) (cls : Class) (hwf : wellFormed w = true)
    (h : newCandidate w cls = .ok) : candidateAllowed w (cls == .eventual) = true := by
  unfold newCandidate at h
  cases hs : stateNode w with
  | none => simp [hs] at h
  | some s =>
    simp only [hs] at h
    obtain ⟨hq, hv, md, hmd, hp, hpods⟩ := newCandidate_ok h
    obtain ⟨hnl, hnode, _, _, _⟩ := node_ok hwf hs hq hv hmd hp
    obtain ⟨hcl, _, _, _⟩ := stateNode_some hs
    unfold candidateAllowed
    rw [hnl]
    rcases hpods with hvp | ⟨htgp, hcls⟩
    · rw [validatePods_eq s w hnode] at hvp
      simp [hvp]
    · rw [← tgp_eq hcl, htgp, hcls]
      simp

/-- **C07_empty_literal** — with Kubernetes' default costs (no negative deletion cost, no negative priority) "empty" is literal: the node
    hosts no pod that would have to move, and holds no capacity-buffer placement -/
theorem C07_empty_literal (w : World)
    (hdef : ∀ p ∈ w.pods, 0 ≤ p.delCost.getD 0 ∧ 0 ≤ p.prio.getD 0) :
    empty w = true ↔ (w.buffer = 0 ∧ ∀ p ∈ w.pods, p.onNode = true → mustMove p = false) := by
  unfold empty hosted
  simp only [Bool.and_eq_true, beq_iff_eq, List.all_eq_true, List.mem_filter, Bool.not_eq_true', and_imp]
  constructor
  · rintro ⟨hb, hall⟩
    refine ⟨hb, ?_⟩
    intro p hp hon
    have := hall p hp hon
    have hcontrib : contributes p = true := by
      unfold contributes
      have ⟨h1, h2⟩ := hdef p hp
      have e1 : CandidateFacts.evictionBase = 1 := by decide
      have e3 : CandidateFacts.evictionDelExp = 27 := by decide
      have e4 : CandidateFacts.evictionPrioExp = 25 := by decide
      rw [e1, e3, e4]
      show decide (0 < 1 * (2:Int) ^ (max 27 25) + p.delCost.getD 0 * (2:Int) ^ (max 27 25 - 27) + p.prio.getD 0 * (2:Int) ^ (max 27 25 - 25)) = true
      have p0 : (2:Int) ^ (max 27 25 - 27) = 1 := by decide
      have p1 : (2:Int) ^ (max 27 25 - 25) = 4 := by decide
      have p2 : (2:Int) ^ (max 27 25) = 134217728 := by decide
      rw [p0, p1, p2]
      simp only [decide_eq_true_eq]
      omega
    rw [hcontrib] at this
    simpa using this
  · rintro ⟨hb, hall⟩
    refine ⟨hb, ?_⟩
    intro p hp hon
    rw [hall p hp hon]
    rfl

/-! ## Non-vacuity -/

def okMeta : Meta := { dnd := .none, pool := .this, it := .known, ct := true, zone := true }

def okClaim : Claim :=
  { md := okMeta, deleting := false, terminating := .absent, tgp := false, drifted := .true_, consolidatable := .true_,
    initialized := .true_, initAt := 10000000000, lastPodEvent := none }

def okNode : Node := { md := okMeta, init := .true_, reg := .true_, deleting := false }

def okPool : Pool :=
  { present := true, managed := true, static := false, consolidateAfter := some 30000000000,
    policy := .whenEmptyOrUnderutilized, hasITs := true }

def plainPod : Pod :=
  { onNode := true, ns := 0, app := none, terminal := false, terminating := false, daemon := false, mirror := false,
    sts := false, tol := .none, dnd := .none, start := some 3600000000000, notReady := false, delCost := none, prio := none }

def busy : World :=
  { now := 7200000000000, batchMax := 10000000000, claim := some okClaim, node := some okNode, marked := false,
    nominatedAt := none, inQueue := false, buffer := 0, pool := okPool, pods := [plainPod], pdbs := [] }

def okStatic : World := { busy with pool := { okPool with static := true } }
def emptyNode : World := { busy with pods := [{ plainPod with daemon := true }] }
def dndPod : Pod := { plainPod with dnd := .true_ }
def blockedTGP : World := { busy with claim := some { okClaim with tgp := true }, pods := [dndPod] }
def blockedNoTGP : World := { busy with pods := [dndPod] }

/-! ## The pass is not atomic: a node that starts deleting after the candidates were listed -/

/-- a selected node is tracked, has a NodeClaim and is not deleting as far as the state node knows -/
theorem selected_tracked {w : World} {m : Method} (h : selected w m = true) :
    ∃ s c, stateNode w = some s ∧ w.claim = some c ∧ s.markedForDeletion = false ∧ w.inQueue = false := by
  obtain ⟨s, md, hs, hc, _, _⟩ := selected_unfold h
  obtain ⟨hq, hv, _⟩ := newCandidate_ok hc
  obtain ⟨hcl, _, _, _⟩ := stateNode_some hs
  unfold StateNode.validateNode at hv
  cases hcm : w.claim with
  | none => simp [hcl, hcm] at hv
  | some c =>
    refine ⟨s, c, hs, rfl, ?_, hq⟩
    cases hm : s.markedForDeletion with
    | false => rfl
    | true =>
      exfalso
      revert hv
      simp only [hm]
      repeat' split
      all_goals simp_all

/-- after a late deletion event the state node of a node that has a NodeClaim is marked for deletion -/
theorem late_marks (w : World) (e : LateDeletion) (c : Claim) (hc : w.claim = some c) :
    ∃ s, stateNode (e.apply w) = some s ∧ s.markedForDeletion = true := by
  cases e <;>
    simp [LateDeletion.apply, stateNode, hc, StateNode.markedForDeletion, StateNode.deleted, Cond.isTrue]

theorem late_finalLook (w : World) (e : LateDeletion) (c : Claim) (hc : w.claim = some c) :
    finalLook (e.apply w) = false := by
  obtain ⟨s, hs, hm⟩ := late_marks w e c hc
  simp [finalLook, hs, hm]

theorem late_not_selected (w : World) (e : LateDeletion) (m : Method) (c : Claim) (hc : w.claim = some c) :
    selected (e.apply w) m = false := by
  cases h : selected (e.apply w) m with
  | false => rfl
  | true =>
    obtain ⟨s, _, hs, _, hm, _⟩ := selected_tracked h
    obtain ⟨s', hs', hm'⟩ := late_marks w e c hc
    rw [hs] at hs'
    cases hs'
    rw [hm] at hm'
    cases hm'

/- FULL STATEMENT (fails for StaticDrift, see `C07_late_deletion_staticdrift`):
     ∀ w0 e m, mayCommand m w0 (e.apply w0) = false
   "a node that starts deleting — MarkForDeletion, NodeClaim deleted, InstanceTerminating — after the controller listed
   the candidates of a method and before the method computes its commands is in no command of that method". -/
/-- **C07_late_deletion_partial** — the full statement for every method but StaticDrift: Drift and Single/MultiNode
    consolidation through the final look of `SimulateScheduling`, Emptiness (and consolidation again) through
    validation. -/
theorem C07_late_deletion_partial (w0 : World) (e : LateDeletion) (m : Method) (hm : m ≠ .staticDrift) :
    mayCommand m w0 (e.apply w0) = false := by
  cases hsel : selected w0 m with
  | false => simp [mayCommand, hsel]
  | true =>
    obtain ⟨_, c, _, hc, _⟩ := selected_tracked hsel
    have h1 := late_finalLook w0 e c hc
    have h2 := late_not_selected w0 e m c hc
    cases m with
    | staticDrift => exact absurd rfl hm
    | drift => simp [mayCommand, show simulates .drift = true by decide, h1]
    | multi => simp [mayCommand, show simulates .multi = true by decide, h1]
    | single => simp [mayCommand, show simulates .single = true by decide, h1]
    | emptiness =>
      have hr : revalidates .emptiness = true := by decide
      simp [mayCommand, hr, h2]

/-- the negation of the full statement on a witness (replayed on the real code: corpus/c07.controller/
    k-staticdrift-late-deletion.json): StaticDrift puts a node whose NodeClaim was deleted meanwhile in a command -/
theorem C07_late_deletion_staticdrift :
    mayCommand .staticDrift okStatic (LateDeletion.claimDelete.apply okStatic) = true ∧
    wellFormed (LateDeletion.claimDelete.apply okStatic) = true ∧
    deleting (LateDeletion.claimDelete.apply okStatic) = true ∧
    allowed (LateDeletion.claimDelete.apply okStatic) .staticDrift = false := by decide

/-- **C07_command_not_deleting** — whatever happened between the listing (`w0`) and the computation (`w1`, ANY world):
    a node the cluster state still tracks that is in a command of a method other than StaticDrift is not
    "already deleting" in `w1` (not marked, NodeClaim neither deleting nor terminating; the queue is the
    controller's own and cannot change during its pass) -/
theorem C07_command_not_deleting (w0 w1 : World) (m : Method) (hm : m ≠ .staticDrift)
    (htr : (stateNode w1).isSome = true) (hq : w1.inQueue = false) (h : mayCommand m w0 w1 = true) :
    deleting w1 = false := by
  have key : ∃ s, stateNode w1 = some s ∧ s.markedForDeletion = false := by
    unfold mayCommand at h
    simp only [Bool.and_eq_true, Bool.or_eq_true, Bool.not_eq_true'] at h
    obtain ⟨⟨_, hsim⟩, hrev⟩ := h
    cases hs1 : stateNode w1 with
    | none => simp [hs1] at htr
    | some s =>
      refine ⟨s, rfl, ?_⟩
      cases m with
      | staticDrift => exact absurd rfl hm
      | drift =>
        have : finalLook w1 = true := by simpa [show simulates .drift = true by decide] using hsim
        simpa [finalLook, hs1] using this
      | multi =>
        have : finalLook w1 = true := by simpa [show simulates .multi = true by decide] using hsim
        simpa [finalLook, hs1] using this
      | single =>
        have : finalLook w1 = true := by simpa [show simulates .single = true by decide] using hsim
        simpa [finalLook, hs1] using this
      | emptiness =>
        have hsel : selected w1 .emptiness = true := by
          simpa [show revalidates .emptiness = true by decide] using hrev
        obtain ⟨s', _, hs', _, hm', _⟩ := selected_tracked hsel
        rw [hs1] at hs'
        cases hs'
        exact hm'
  obtain ⟨s, hs, hmd⟩ := key
  obtain ⟨hcl, _, hmk, _⟩ := stateNode_some hs
  unfold StateNode.markedForDeletion StateNode.deleted at hmd
  rw [hcl, hmk] at hmd
  unfold deleting
  rw [hq]
  cases hc : w1.claim with
  | none => simp_all
  | some c => cases ht : c.terminating <;> simp_all [Cond.isTrue]

/-- **C07_command_revalidated** — a method that validates: whatever changed meanwhile, the node of a command is
    allowed by the specification in the later world too -/
theorem C07_command_revalidated (w0 w1 : World) (m : Method) (hr : revalidates m = true)
    (hwf : wellFormed w1 = true) (h : mayCommand m w0 w1 = true) : allowed w1 m = true := by
  unfold mayCommand at h
  simp only [Bool.and_eq_true, Bool.or_eq_true, Bool.not_eq_true', hr] at h
  exact C07_no_protected w1 m hwf (by simpa using h.2)

/-- the lifecycle hypothesis `wellFormed` of `C07_no_protected` cannot be dropped: a Node that carries
    `karpenter.sh/initialized=true` but has LOST `karpenter.sh/registered` (only possible by tampering with
    Karpenter's own labels: registration sets the label before initialization can happen and nothing removes it) is
    read through its NodeClaim's annotations, so a do-not-disrupt annotation on the Node object is not seen.  The
    real code behaves the same (modifier `reg-absent` of `c07.candidate`, model equality). -/
theorem C07_wellFormed_needed :
    let w := { busy with node := some { okNode with reg := .absent, md := { okMeta with dnd := .true_ } } }
    wellFormed w = false ∧ nodeDoNotDisrupt w = true ∧ selected w .drift = true := by decide

-- every method selects some node (the hypotheses of C07_no_protected are satisfiable for each method) …
example : wellFormed busy = true ∧ selected busy .drift = true ∧ selected busy .multi = true ∧
    selected busy .single = true ∧ selected busy .emptiness = false := by decide
example : selected emptyNode .emptiness = true ∧ selected emptyNode .multi = false := by decide
example : selected okStatic .staticDrift = true ∧ selected okStatic .drift = false := by decide
-- … the override exception is real and is the only one …
example : podDoNotDisrupt blockedTGP = true ∧ selected blockedTGP .drift = true ∧ selected blockedTGP .multi = false ∧
    selected blockedNoTGP .drift = false := by decide
-- … each node-level blocker alone flips every selection …
example : selected { busy with marked := true } .drift = false ∧
    selected { busy with inQueue := true } .drift = false ∧
    selected { busy with nominatedAt := some (7200000000000 - 20000000000 + 1) } .drift = false ∧
    selected { busy with nominatedAt := some (7200000000000 - 20000000000) } .drift = true ∧
    selected { busy with node := some { okNode with md := { okMeta with dnd := .true_ } } } .drift = false ∧
    selected { busy with node := some { okNode with init := .other } } .drift = false ∧
    selected { busy with claim := none } .drift = false := by decide
-- … duration-valued annotations at the clock edge (start 3600 s, now 7200 s: age exactly 3600 s) …
example : dndActive 7200000000000 { plainPod with dnd := .dur 3600000000001 } = true ∧
    dndActive 7200000000000 { plainPod with dnd := .dur 3600000000000 } = false ∧
    dndActive 7200000000000 { plainPod with dnd := .dur 60, start := none } = true ∧
    dndActive 7200000000000 { plainPod with dnd := .dur (-5) , start := none } = false := by decide
-- … a pod that declared itself free to disrupt leaves the node "empty" (designs/balanced-consolidation.md) …
example : empty { busy with pods := [{ plainPod with delCost := some (-134217728) }] } = true ∧
    empty { busy with pods := [{ plainPod with delCost := some (-134217727) }] } = false ∧
    empty { emptyNode with buffer := 1 } = false := by decide
-- … the Consolidatable condition at the consolidateAfter edge (last pod event at 7170 s, consolidateAfter 30 s) …
example : consolidatableAfter okPool { okClaim with lastPodEvent := some 7170000000000 } 7200000000000 = .true_ ∧
    consolidatableAfter okPool { okClaim with lastPodEvent := some 7170000000000 } 7199999999999 = .absent ∧
    mayBeConsolidatable okPool { okClaim with lastPodEvent := some 7170000000000 } 7199999999999 = false := by decide
-- … a pod event is honoured by the next run of the controller although the drift check of that run fails; a refused
-- status patch leaves the stale condition (the controller has no say then) …
def podEventClaim : Claim := { okClaim with lastPodEvent := some 7190000000000 }
example : controllerActs { drift := true } okPool podEventClaim = true ∧
    mayBeConsolidatable okPool podEventClaim 7200000000000 = false ∧
    (reconcileClaimF { drift := true } okPool podEventClaim 7200000000000).consolidatable = .absent ∧
    selected { busy with claim := some (reconcileClaimF { drift := true } okPool podEventClaim 7200000000000) } .multi = false ∧
    controllerActs { patch := true } okPool podEventClaim = false ∧
    (reconcileClaimF { patch := true } okPool podEventClaim 7200000000000).consolidatable = .true_ := by decide
def podEventHistory : List Ev :=
  [.claim (some okClaim), .node (some okNode), .tick 60000000000, .podEvent, .tick 1000000000,
   .reconcile { drift := true }, .tick 28999999999, .reconcile { drift := true }, .tick 1, .reconcile { drift := true }]
example : (hobserve busy { now := 0, sn := none } podEventHistory).map (fun r => r.getD 3 false)
    = [false, true, true, true, true, false, false, false, false, true] := by decide
-- … and a history: nominate, wait out the window, mark, unmark; Drift's verdict after every event
def demoHistory : List Ev :=
  [.claim (some okClaim), .node (some okNode), .nominate, .tick 19999999999, .tick 1, .mark, .node (some okNode), .unmark]
example : (hobserve busy { now := 0, sn := none } demoHistory).map (fun r => r.getD 2 false)
    = [false, true, false, false, true, false, false, true] := by decide
example : wellFormed ((specRun busy.pool { now := 0 } demoHistory).world busy) = true ∧
    hselected busy (hrun busy.batchMax busy.pool { now := 0, sn := none } demoHistory) .drift = true := by decide
-- … the pass is not atomic: nothing changed -> commandable; a late deletion -> not (every method but StaticDrift)
example : mayCommand .drift busy busy = true ∧ mayCommand .single busy busy = true ∧
    mayCommand .emptiness emptyNode emptyNode = true ∧
    mayCommand .drift busy (LateDeletion.mark.apply busy) = false ∧
    (stateNode busy).isSome = true ∧ deleting (LateDeletion.claimTerminating.apply busy) = true := by decide


/-! ## The callers of the marks and nominations: Results.Record and the orchestration queue (c07.commands) -/

/-- the two writers of the in-memory protections, as the source has them now: `Results.Record` nominates (one call)
    and no `return` of it precedes that call — an early exit ("nothing to report") cannot skip the nominations, the
    model's `.record` nominates whatever the rest of the result looks like; `Queue.StartCommand` marks;
    `Queue.CompleteCommand` releases the candidates only under the guard `!cmd.Succeeded` — the model's `.queue`
    unmarks for a failed command only. -/
theorem fact_protection_writers :
    CandidateFacts.recordNominateCalls = 1 ∧ CandidateFacts.recordReturnsBeforeNominate = 0 ∧
    CandidateFacts.startCommandMarks = 1 ∧
    CandidateFacts.completeCommandUnmarkGuards = ["!cmd.Succeeded"] := by decide

/-- **C07_commands_refine** — every command-level event (a recorded scheduling result, StartCommand, a run of the
    queue on the command, an informer delivery) is exactly the list of writes `lower` gives: the histories of
    commands are histories in the sense of `C07_history`. -/
theorem C07_commands_refine (env : World) (st : QState) (e : QEv) :
    (qstep env st e).h = hrun env.batchMax env.pool st.h (lower env st e) := qstep_h env st e

/-- **C07_commands_history** — for every history of recorded scheduling results, commands, queue runs (succeeding,
    requeued, failing), informer deliveries and the events of `C07_history`, and every method: if the method selects
    the node afterwards then no command naming the node is in the queue and the node the LOG of the corresponding
    writes describes is not protected (last mark/unmark record is not a mark, no nomination younger than the window,
    …).  (`env.inQueue` is not used: the queue is part of the state.) -/
theorem C07_commands_history (env : World) (es : List QEv) (t0 : Int) (m : Method) (henv : env.inQueue = false)
    (hwf : wellFormed ((specRun env.pool { now := t0 }
      (lowerRun env { h := { now := t0, sn := none } } es)).world env) = true)
    (h : qselected env (qrun env { h := { now := t0, sn := none } } es) m = true) :
    (qrun env { h := { now := t0, sn := none } } es).inQueue = false ∧
    allowedAfter env (specRun env.pool { now := t0 } (lowerRun env { h := { now := t0, sn := none } } es)) m = true := by
  constructor
  · cases hq : (qrun env { h := { now := t0, sn := none } } es).inQueue with
    | false => rfl
    | true => rw [queued_not_selected env _ m hq] at h; cases h
  · apply C07_history env _ t0 m hwf
    have := qselected_hselected env _ m henv h
    rw [qrun_h] at this
    exact this

/-- **C07_command_protects** — "already deleting" at the level where it is decided: once the queue has accepted a
    command for the node (`StartCommand`), NO method selects the node after ANY continuation that contains no failing
    command, no raw unmark and no removal of the objects — while the command is queued, after it was requeued, after
    it was carried out (`.queue .none`: the NodeClaim is deleted through the API and the cluster state has NOT seen
    the deletionTimestamp), before and after the informer delivers it, whatever scheduling results are recorded and
    however far the clock advances. -/
theorem C07_command_protects (env : World) (st : QState) (m m' : Method) (es : List QEv)
    (hacc : startAccepted env st m = true) (hk : ∀ e ∈ es, qkeepsMark e = true) :
    qselected env (qrun env (qstep env st (.start m)) es) m' = false := by
  apply qmarked_not_selected
  apply qrun_keeps_mark env es _ hk
  rw [qstep_h]
  have hsel : qselected env st m = true := by
    unfold startAccepted at hacc; simp only [Bool.and_eq_true] at hacc; exact hacc.2
  simp only [lower, hacc, if_true, hrun, hstep]
  unfold qselected hselected at hsel
  unfold hmarked
  cases hs : st.h.sn with
  | none => simp [hs] at hsel
  | some s => simp

/-- **C07_completed_command_stays_protected** — the instance that matters most: right after the queue carried the
    command out, the node is out of the queue, its API copy is deleting, the cluster state's copy is not — and no
    method selects it. -/
theorem C07_completed_command_stays_protected (env : World) (st : QState) (m m' : Method)
    (hacc : startAccepted env st m = true) :
    let st' := qstep env (qstep env st (.start m)) (.queue .none)
    st'.inQueue = false ∧ st'.apiDeleting = true ∧ qselected env st' m' = false := by
  have hsel := C07_command_protects env st m m' [.queue .none] hacc (by intro e he; simp at he; subst he; rfl)
  refine ⟨?_, ?_, hsel⟩
  · simp [qstep, hacc]
  · simp [qstep, hacc]

/-- **C07_record_nominates** — "recently nominated for pending pods" at the level where it is decided: after a
    recorded scheduling result that places at least one real pending pod on the node — whatever else the result
    contains: virtual buffer pods, new NodeClaims with or without pods, or NO new NodeClaim at all — no method selects
    the node before the nomination window has passed. -/
theorem C07_record_nominates (env : World) (st : QState) (real virt newPods d : Nat) (m : Method)
    (hr : 0 < real) (hd : (d : Int) < nominationWindow env.batchMax) :
    qselected env (qstep env (qstep env st (.record real virt newPods)) (.base (.tick d))) m = false := by
  unfold qselected hselected
  rw [qstep_h]
  simp only [lower, hrun, hstep]
  simp only [qstep, lower, hr, if_true, hrun, hstep]
  cases hs : st.h.sn with
  | none => simp
  | some s =>
    have hlt : st.h.now + (d : Int) < st.h.now + nominationWindow env.batchMax := by omega
    simp [selectedOn, newCandidateOn, StateNode.validateNode, StateNode.nominated, envAt, qenv, hlt]

-- … a recorded result nominates (existing nodes only: no new NodeClaim), a carried-out command keeps protecting
def cmdStart : QState := qrun busy { h := { now := 0, sn := none } } [.base (.claim (some okClaim)), .base (.node (some okNode))]
example : startAccepted busy cmdStart .drift = true ∧
    qselected busy (qstep busy cmdStart (.record 1 0 0)) .drift = false ∧
    qselected busy (qstep busy cmdStart (.record 0 1 2)) .drift = true ∧
    qselected busy (qrun busy cmdStart [.record 1 0 0, .base (.tick 19999999999)]) .drift = false ∧
    qselected busy (qrun busy cmdStart [.record 1 0 0, .base (.tick 20000000000)]) .drift = true ∧
    qselected busy (qrun busy cmdStart [.start .drift, .queue .none]) .drift = false ∧
    qselected busy (qrun busy cmdStart [.start .drift, .queue .none, .sync, .base .podEvent]) .drift = false ∧
    qselected busy (qrun busy cmdStart [.start .drift, .queue .deleteError]) .drift = false ∧
    qselected busy (qrun busy cmdStart [.start .drift, .queue .replacementLost]) .drift = true := by decide
example : wellFormed ((specRun busy.pool { now := 0 } (lowerRun busy { h := { now := 0, sn := none } }
      [.base (.claim (some okClaim)), .base (.node (some okNode)), .start .drift, .queue .replacementLost])).world busy) = true ∧
    busy.inQueue = false := by decide

end Karp.C07
