/-
C20 — NodePool registration health reflects the recent launch window.

Property theorems only (helper lemmas live in `Karp/Proofs/RingLemmas.lean`).
Model: `Karp/Model/Ring.lean` (ring buffer, tracker, what-if, condition update).
Spec:  `Karp/Spec/Window.lean` (log of outcomes since the last reset; last 4 entries).
-/
import Karp.Proofs.RingLemmas
import Karp.Spec.HealthHistory

namespace Karp.C20
open Karp.Ring Karp.Spec.Window Karp.Spec.HealthHistory

/-! ## Fact expectations over the regenerated constants -/

/-- the window has four slots (property text: "four most recent launch attempts") -/
theorem fact_bufferSize : Karp.Gen.Health.bufferSize = 4 := by decide
/-- "at least half of the window" -/
theorem fact_threshold : Karp.Gen.Health.thresholdFalseNum * 2 = Karp.Gen.Health.thresholdFalseDen := by decide
theorem fact_status_codes :
    Karp.Gen.Health.statusUnknown = 0 ∧ Karp.Gen.Health.statusHealthy = 1 ∧ Karp.Gen.Health.statusUnhealthy = 2 := by decide

theorem bufferSize_pos : 0 < bufferSize := by decide

/-- `SetStatus(Unhealthy)` seeds `int(BufferSize*ThresholdFalse)` failures; the specification asks for the
    least number that makes the window unhealthy (`⌈·⌉`).  They coincide for the constants in the source. -/
theorem fact_seed : unhealthySeed = seedFailures := by decide

/-! ## Refinement invariant -/

/-- the tracker refines the log: oldest-first content = last `bufferSize` log entries -/
structure Refines (t : Tracker) (log : List Bool) : Prop where
  wf : WF t
  cap : t.cap = bufferSize
  content : t.logical = lastN bufferSize log

theorem refines_new : Refines Tracker.new [] :=
  ⟨wf_new _ bufferSize_pos, rfl, by simp [Tracker.new, Ring.new, Ring.logical, lastN]⟩

theorem refines_reset (t : Tracker) (log : List Bool) (h : Refines t log) : Refines t.reset [] :=
  ⟨wf_reset t h.wf, by simpa using h.cap, by simp [Ring.reset, Ring.logical, lastN]⟩

theorem refines_insert (t : Tracker) (log : List Bool) (v : Bool) (h : Refines t log) :
    Refines (t.insert v) (log ++ [v]) := by
  refine ⟨wf_insert t v h.wf, by simpa using h.cap, ?_⟩
  rw [logical_insert t v h.wf, h.cap, h.content, lastN_append_lastN]

theorem refines_insertMany (n : Nat) : ∀ (t : Tracker) (log : List Bool) (v : Bool), Refines t log →
    Refines (insertMany t v n) (log ++ List.replicate n v) := by
  induction n with
  | zero => intro t log v h; simpa [insertMany] using h
  | succ n ih =>
    intro t log v h
    have := ih (t.insert v) (log ++ [v]) v (refines_insert t log v h)
    simpa [insertMany, List.replicate_succ] using this

theorem refines_step (t : Tracker) (log : List Bool) (op : Op) (h : Refines t log) :
    Refines (step t op) (specStep log op) := by
  cases op with
  | update ok => exact refines_insert t log ok h
  | reset => exact refines_reset t log h
  | set s =>
    cases s with
    | unknown => exact refines_reset t log h
    | healthy => simpa [step, Tracker.setStatus, specStep] using refines_insert _ _ true (refines_reset t log h)
    | unhealthy =>
      simpa [step, Tracker.setStatus, specStep, fact_seed] using refines_insertMany unhealthySeed _ _ false (refines_reset t log h)
  | restart => exact refines_new
  | dry ok => exact h
  | status => exact h

/-- **C20_ring_window** — after any history (any length, any mix of records, resets, re-hydrations and
    restarts) the buffer holds exactly the last `min 4 n` outcomes recorded since the last reset,
    oldest first from `head`. -/
theorem C20_ring_window (ops : List Op) :
    ∀ (t : Tracker) (log : List Bool), Refines t log → Refines (run t ops) (specRun log ops) := by
  induction ops with
  | nil => intro t log h; exact h
  | cons op ops ih => intro t log h; exact ih _ _ (refines_step t log op h)

theorem failures_logical (t : Tracker) : Karp.Ring.failures t.logical = Karp.Ring.failures t.values := by
  unfold Karp.Ring.failures Ring.logical
  rw [List.filter_append, List.length_append, Nat.add_comm, ← List.length_append, ← List.filter_append,
    List.take_append_drop]

theorem length_logical (t : Tracker) : t.logical.length = t.values.length := by
  unfold Ring.logical
  rw [List.length_append, Nat.add_comm, ← List.length_append, List.take_append_drop]

/-- **C20_status** — the reported status is Unknown on an empty window, Unhealthy exactly when the failures
    in the window fill at least half of the four slots, Healthy otherwise. -/
theorem C20_status (t : Tracker) (log : List Bool) (h : Refines t log) :
    t.status = specHealth log := by
  unfold Tracker.status statusOf specHealth health Ring.items
  rw [← failures_logical, ← length_logical, h.content]
  by_cases hw : lastN bufferSize log = []
  · simp [hw, toStatus]
  · have : (lastN bufferSize log).length ≠ 0 := by
      intro hl; exact hw (List.length_eq_zero_iff.mp hl)
    simp only [this, hw, if_false]
    unfold Karp.Ring.failures Karp.Spec.Window.failures
    split <;> simp [toStatus]

/-- **C20_dryrun_agrees** — the what-if evaluation of the next outcome equals the state reached after
    that outcome is recorded (for every tracker state, in particular after the window has wrapped). -/
theorem C20_dryrun_agrees (t : Tracker) (ok : Bool) :
    (t.dryRun ok).status = (t.update ok).status := rfl

/-- **C20_observations** (refinement, all histories): every status and every what-if verdict observed
    along any history equals what the sliding-window specification prescribes. -/
theorem C20_observations (ops : List Op) :
    ∀ (t : Tracker) (log : List Bool), Refines t log →
      observations t ops = specObservations log ops := by
  induction ops with
  | nil => intro t log _; rfl
  | cons op ops ih =>
    intro t log h
    have hstep := refines_step t log op h
    simp only [observations, specObservations]
    rw [ih _ _ hstep]
    congr 1
    cases op with
    | dry ok =>
      simp only [observe, specObserve]
      rw [C20_dryrun_agrees]
      exact C20_status _ _ (refines_insert t log ok h)
    | update ok => exact C20_status _ _ hstep
    | reset => exact C20_status _ _ hstep
    | set s => exact C20_status _ _ hstep
    | restart => exact C20_status _ _ hstep
    | status => exact C20_status _ _ hstep

theorem C20_observations_from_start (ops : List Op) :
    observations Tracker.new ops = specObservations [] ops :=
  C20_observations ops _ _ refines_new

/-! ## The NodePool condition -/

/-- **C20_condition_failure** — recording a failure sets the condition False exactly when failures then
    fill at least half of the window (and leaves it unchanged otherwise). -/
theorem C20_condition_failure (c : Cond) (t : Tracker) (log : List Bool) (h : Refines t log) :
    ((recordFailure c t).1 = Cond.false_ ↔ (c = Cond.false_ ∨ specHealth (log ++ [false]) = .unhealthy))
    ∧ (specHealth (log ++ [false]) ≠ .unhealthy → (recordFailure c t).1 = c)
    ∧ Refines (recordFailure c t).2 (log ++ [false]) := by
  have hs : (t.dryRun false).status = specHealth (log ++ [false]) := by
    rw [C20_dryrun_agrees]; exact C20_status _ _ (refines_insert t log false h)
  refine ⟨?_, ?_, refines_insert t log false h⟩
  · simp only [recordFailure, hs]
    by_cases h1 : specHealth (log ++ [false]) = .unhealthy <;> by_cases h2 : c = Cond.false_ <;> simp [h1, h2]
  · intro hne; simp [recordFailure, hs, hne]

/-- **C20_condition_success** — recording a success sets the condition True exactly when failures then
    fill less than half of the window (the window is non-empty after a record, so "less than half" is
    `healthy`). -/
theorem C20_condition_success (c : Cond) (t : Tracker) (log : List Bool) (h : Refines t log) :
    ((recordSuccess c t).1 = Cond.true_ ↔ (c = Cond.true_ ∨ specHealth (log ++ [true]) = .healthy))
    ∧ (specHealth (log ++ [true]) ≠ .healthy → (recordSuccess c t).1 = c)
    ∧ Refines (recordSuccess c t).2 (log ++ [true]) := by
  have hs : (t.dryRun true).status = specHealth (log ++ [true]) := by
    rw [C20_dryrun_agrees]; exact C20_status _ _ (refines_insert t log true h)
  refine ⟨?_, ?_, refines_insert t log true h⟩
  · simp only [recordSuccess, hs]
    by_cases h1 : specHealth (log ++ [true]) = .healthy <;> by_cases h2 : c = Cond.true_ <;> simp [h1, h2]
  · intro hne; simp [recordSuccess, hs, hne]

/-! ## The defect that was repaired (kept as a machine-checked record)

At the pinned commit `DryRun` copied `Items()` (physical order) into a fresh buffer with head 0.
After the window wraps the copy overwrites the wrong slot: history F,F,T,T,T then what-if(false). -/

def witnessTracker : Tracker := run Tracker.new [.update false, .update false, .update true, .update true, .update true]

theorem C20_dryrun_physical_diverges :
    (witnessTracker.dryRunPhysical false).status = .unhealthy ∧
    (witnessTracker.update false).status = .healthy := by decide

/-! ## Non-vacuity: a concrete wrapped history meets the hypotheses and exercises every branch -/

example : Refines witnessTracker (specRun [] [.update false, .update false, .update true, .update true, .update true]) :=
  C20_ring_window _ _ _ refines_new
example : witnessTracker.head = 1 ∧ witnessTracker.values = [true, false, true, true] := by decide
example : observations Tracker.new [.update false, .update false, .dry true, .update true, .update true, .update true, .dry false, .reset]
    = [.healthy, .unhealthy, .unhealthy, .unhealthy, .unhealthy, .healthy, .healthy, .unknown] := by decide

end Karp.C20
