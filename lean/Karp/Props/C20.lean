/-
C20 — NodePool registration health reflects the recent launch window.

Property theorems only (helper lemmas live in `Karp/Proofs/RingLemmas.lean`).
Model: `Karp/Model/Ring.lean` (ring buffer, tracker, what-if, condition update),
       `Karp/Model/PoolHealth.lean` (the registrationhealth controller and the nodeclaim lifecycle
       controller acting on one NodePool: hydration, reset guard, generations; one pass of
       `Controller.Reconcile` over a NodeClaim — registration and liveness in the order of the source —,
       the controller looking in time / late / repeatedly, one failed NodePool call per event + retry).
Spec:  `Karp/Spec/Window.lean` (log of outcomes since the last reset; last 4 entries),
       `Karp/Spec/PoolHealth.lean` (the condition an operator reads along the pool's life).
-/
import Karp.Proofs.RingLemmas
import Karp.Spec.HealthHistory
import Karp.Model.PoolHealth
import Karp.Spec.PoolHealth

namespace Karp.C20
open Karp.Ring Karp.Spec.Window Karp.Spec.HealthHistory

/-! ## Fact expectations over the regenerated constants -/

/-- the window has four slots (property text: "four most recent launch attempts") -/
theorem fact_bufferSize : Karp.Gen.Health.bufferSize = 4 := by decide
/-- "at least half of the window" -/
theorem fact_threshold : Karp.Gen.Health.thresholdFalseNum * 2 = Karp.Gen.Health.thresholdFalseDen := by decide
theorem fact_status_codes :
    Karp.Gen.Health.statusUnknown = 0 ∧ Karp.Gen.Health.statusHealthy = 1 ∧ Karp.Gen.Health.statusUnhealthy = 2 := by decide

theorem bufferSize_pos : 0 < bufferSize := by decide

/-- `SetStatus(Unhealthy)` seeds `int(BufferSize*ThresholdFalse)` failures; the specification asks for the
    least number that makes the window unhealthy (`⌈·⌉`).  They coincide for the constants in the source. -/
theorem fact_seed : unhealthySeed = seedFailures := by decide

/-! ## Refinement invariant -/

/-- the tracker refines the log: oldest-first content = last `bufferSize` log entries -/
structure Refines (t : Tracker) (log : List Bool) : Prop where
  wf : WF t
  cap : t.cap = bufferSize
  content : t.logical = lastN bufferSize log

theorem refines_new : Refines Tracker.new [] :=
  ⟨wf_new _ bufferSize_pos, rfl, by simp [Tracker.new, Ring.new, Ring.logical, lastN]⟩

theorem refines_reset (t : Tracker) (log : List Bool) (h : Refines t log) : Refines t.reset [] :=
  ⟨wf_reset t h.wf, by simpa using h.cap, by simp [Ring.reset, Ring.logical, lastN]⟩

theorem refines_insert (t : Tracker) (log : List Bool) (v : Bool) (h : Refines t log) :
    Refines (t.insert v) (log ++ [v]) := by
  refine ⟨wf_insert t v h.wf, by simpa using h.cap, ?_⟩
  rw [logical_insert t v h.wf, h.cap, h.content, lastN_append_lastN]

theorem refines_insertMany (n : Nat) : ∀ (t : Tracker) (log : List Bool) (v : Bool), Refines t log →
    Refines (insertMany t v n) (log ++ List.replicate n v) := by
  induction n with
  | zero => intro t log v h; simpa [insertMany] using h
  | succ n ih =>
    intro t log v h
    have := ih (t.insert v) (log ++ [v]) v (refines_insert t log v h)
    simpa [insertMany, List.replicate_succ] using this

theorem refines_step (t : Tracker) (log : List Bool) (op : Op) (h : Refines t log) :
    Refines (step t op) (specStep log op) := by
  cases op with
  | update ok => exact refines_insert t log ok h
  | reset => exact refines_reset t log h
  | set s =>
    cases s with
    | unknown => exact refines_reset t log h
    | healthy => simpa [step, Tracker.setStatus, specStep] using refines_insert _ _ true (refines_reset t log h)
    | unhealthy =>
      simpa [step, Tracker.setStatus, specStep, fact_seed] using refines_insertMany unhealthySeed _ _ false (refines_reset t log h)
  | restart => exact refines_new
  | dry ok => exact h
  | status => exact h

/-- **C20_ring_window** — after any history (any length, any mix of records, resets, re-hydrations and
    restarts) the buffer holds exactly the last `min 4 n` outcomes recorded since the last reset,
    oldest first from `head`. -/
theorem C20_ring_window (ops : List Op) :
    ∀ (t : Tracker) (log : List Bool), Refines t log → Refines (run t ops) (specRun log ops) := by
  induction ops with
  | nil => intro t log h; exact h
  | cons op ops ih => intro t log h; exact ih _ _ (refines_step t log op h)

theorem failures_logical (t : Tracker) : Karp.Ring.failures t.logical = Karp.Ring.failures t.values := by
  unfold Karp.Ring.failures Ring.logical
  rw [List.filter_append, List.length_append, Nat.add_comm, ← List.length_append, ← List.filter_append,
    List.take_append_drop]

theorem length_logical (t : Tracker) : t.logical.length = t.values.length := by
  unfold Ring.logical
  rw [List.length_append, Nat.add_comm, ← List.length_append, List.take_append_drop]

/-- **C20_status** — the reported status is Unknown on an empty window, Unhealthy exactly when the failures
    in the window fill at least half of the four slots, Healthy otherwise. -/
theorem C20_status (t : Tracker) (log : List Bool) (h : Refines t log) :
    t.status = specHealth log := by
  unfold Tracker.status statusOf specHealth health Ring.items
  rw [← failures_logical, ← length_logical, h.content]
  by_cases hw : lastN bufferSize log = []
  · simp [hw, toStatus]
  · have : (lastN bufferSize log).length ≠ 0 := by
      intro hl; exact hw (List.length_eq_zero_iff.mp hl)
    simp only [this, hw, if_false]
    unfold Karp.Ring.failures Karp.Spec.Window.failures
    split <;> simp [toStatus]

/-- **C20_dryrun_agrees** — the what-if evaluation of the next outcome equals the state reached after
    that outcome is recorded (for every tracker state, in particular after the window has wrapped). -/
theorem C20_dryrun_agrees (t : Tracker) (ok : Bool) :
    (t.dryRun ok).status = (t.update ok).status := rfl

/-- **C20_observations** (refinement, all histories): every status and every what-if verdict observed
    along any history equals what the sliding-window specification prescribes. -/
theorem C20_observations (ops : List Op) :
    ∀ (t : Tracker) (log : List Bool), Refines t log →
      observations t ops = specObservations log ops := by
  induction ops with
  | nil => intro t log _; rfl
  | cons op ops ih =>
    intro t log h
    have hstep := refines_step t log op h
    simp only [observations, specObservations]
    rw [ih _ _ hstep]
    congr 1
    cases op with
    | dry ok =>
      simp only [observe, specObserve]
      rw [C20_dryrun_agrees]
      exact C20_status _ _ (refines_insert t log ok h)
    | update ok => exact C20_status _ _ hstep
    | reset => exact C20_status _ _ hstep
    | set s => exact C20_status _ _ hstep
    | restart => exact C20_status _ _ hstep
    | status => exact C20_status _ _ hstep

theorem C20_observations_from_start (ops : List Op) :
    observations Tracker.new ops = specObservations [] ops :=
  C20_observations ops _ _ refines_new

/-! ## The NodePool condition -/

/-- **C20_condition_failure** — recording a failure sets the condition False exactly when failures then
    fill at least half of the window (and leaves it unchanged otherwise). -/
theorem C20_condition_failure (c : Cond) (t : Tracker) (log : List Bool) (h : Refines t log) :
    ((recordFailure c t).1 = Cond.false_ ↔ (c = Cond.false_ ∨ specHealth (log ++ [false]) = .unhealthy))
    ∧ (specHealth (log ++ [false]) ≠ .unhealthy → (recordFailure c t).1 = c)
    ∧ Refines (recordFailure c t).2 (log ++ [false]) := by
  have hs : (t.dryRun false).status = specHealth (log ++ [false]) := by
    rw [C20_dryrun_agrees]; exact C20_status _ _ (refines_insert t log false h)
  refine ⟨?_, ?_, refines_insert t log false h⟩
  · simp only [recordFailure, hs]
    by_cases h1 : specHealth (log ++ [false]) = .unhealthy <;> by_cases h2 : c = Cond.false_ <;> simp [h1, h2]
  · intro hne; simp [recordFailure, hs, hne]

/-- **C20_condition_success** — recording a success sets the condition True exactly when failures then
    fill less than half of the window (the window is non-empty after a record, so "less than half" is
    `healthy`). -/
theorem C20_condition_success (c : Cond) (t : Tracker) (log : List Bool) (h : Refines t log) :
    ((recordSuccess c t).1 = Cond.true_ ↔ (c = Cond.true_ ∨ specHealth (log ++ [true]) = .healthy))
    ∧ (specHealth (log ++ [true]) ≠ .healthy → (recordSuccess c t).1 = c)
    ∧ Refines (recordSuccess c t).2 (log ++ [true]) := by
  have hs : (t.dryRun true).status = specHealth (log ++ [true]) := by
    rw [C20_dryrun_agrees]; exact C20_status _ _ (refines_insert t log true h)
  refine ⟨?_, ?_, refines_insert t log true h⟩
  · simp only [recordSuccess, hs]
    by_cases h1 : specHealth (log ++ [true]) = .healthy <;> by_cases h2 : c = Cond.true_ <;> simp [h1, h2]
  · intro hne; simp [recordSuccess, hs, hne]

/-! ## The defect that was repaired (kept as a machine-checked record)

At the pinned commit `DryRun` copied `Items()` (physical order) into a fresh buffer with head 0.
After the window wraps the copy overwrites the wrong slot: history F,F,T,T,T then what-if(false). -/

def witnessTracker : Tracker := run Tracker.new [.update false, .update false, .update true, .update true, .update true]

theorem C20_dryrun_physical_diverges :
    (witnessTracker.dryRunPhysical false).status = .unhealthy ∧
    (witnessTracker.update false).status = .healthy := by decide

/-! ## Non-vacuity: a concrete wrapped history meets the hypotheses and exercises every branch -/

example : Refines witnessTracker (specRun [] [.update false, .update false, .update true, .update true, .update true]) :=
  C20_ring_window _ _ _ refines_new
example : witnessTracker.head = 1 ∧ witnessTracker.values = [true, false, true, true] := by decide
example : observations Tracker.new [.update false, .update false, .dry true, .update true, .update true, .update true, .dry false, .reset]
    = [.healthy, .unhealthy, .unhealthy, .unhealthy, .unhealthy, .healthy, .healthy, .unknown] := by decide

/-! ## The controllers: one NodePool's life (registrations, timeouts, edits, restarts, resyncs)

`Karp.PoolHealth` models `registrationhealth.Controller.Reconcile` and the two
`updateNodePoolRegistrationHealth` call sites on one pool; `Karp.Spec.PoolHealth` is the operator-level
specification (log since the last reset + condition).  The theorems below are the refinement over
ALL event sequences. -/

open Karp.PoolHealth

abbrev SP := Karp.Spec.PoolHealth.S
abbrev SC := Karp.Spec.PoolHealth.C

def condSpec : Cond → SC
  | .unknown => .unknown
  | .true_ => .true_
  | .false_ => .false_

theorem healthCode_toStatus (h : Health) : Karp.Spec.PoolHealth.healthCode h = (toStatus h).toNat := by
  cases h <;> rfl

theorem specHealth_eq (log : List Bool) : specHealth log = toStatus (Karp.Spec.PoolHealth.healthOf log) := rfl

/-- the window of a log is empty only for the empty log -/
theorem specHealth_unknown_iff (log : List Bool) : specHealth log = .unknown ↔ log = [] := by
  unfold specHealth health
  constructor
  · intro h
    by_cases hw : lastN bufferSize log = []
    · have := congrArg List.length hw
      rw [lastN_length] at this
      have hb : 0 < bufferSize := bufferSize_pos
      simp at this
      rcases this with h0 | h0
      · omega
      · exact h0
    · simp only [hw, if_false] at h
      split at h <;> simp [toStatus] at h
  · intro h; subst h; simp [lastN, toStatus]

theorem status_unknown_iff (t : Tracker) (log : List Bool) (h : Refines t log) :
    t.status = .unknown ↔ log = [] := by
  rw [C20_status t log h]; exact specHealth_unknown_iff log


/-- the refinement invariant between the controllers' view of a pool and the operator-level spec -/
structure PoolRefines (p : Pool) (s : SP) : Prop where
  tr : Refines p.t s.log
  present : p.present = true
  cond : condSpec p.cond = s.cond
  condGen : p.condGen = p.gen
  classObs : p.classObs = p.classGen
  /-- the NodeClass generation the specification speaks about is the one of the NodeClass object -/
  classGen : p.classGen = s.classGen
  nonempty : s.cond ≠ .unknown → s.log ≠ []

theorem dry_status (t : Tracker) (log : List Bool) (ok : Bool) (h : Refines t log) :
    (t.dryRun ok).status = specHealth (log ++ [ok]) := by
  rw [C20_dryrun_agrees]; exact C20_status _ _ (refines_insert t log ok h)

theorem hydrate_idle (p : Pool) (s : SP) (h : PoolRefines p s) : hydrate p = p.t := by
  unfold hydrate
  by_cases hs : p.t.status = .unknown
  · have hl : s.log = [] := (status_unknown_iff _ _ h.tr).mp hs
    have hc : s.cond = .unknown := by
      by_cases hc : s.cond = .unknown
      · exact hc
      · exact absurd hl (h.nonempty hc)
    have hpc : p.cond = .unknown := by
      have := h.cond; rw [hc] at this
      cases hp : p.cond <;> simp [hp, condSpec] at this ⊢
    simp [hs, hpc]
  · simp [hs]

theorem hydrate_refines (p : Pool) (log : List Bool) (h : Refines p.t log) : ∃ log', Refines (hydrate p) log' := by
  unfold hydrate
  split
  · split
    · exact ⟨_, refines_step p.t log (.set .healthy) h⟩
    · split
      · exact ⟨_, refines_step p.t log (.set .unhealthy) h⟩
      · exact ⟨_, h⟩
  · exact ⟨_, h⟩

theorem needsReset_idle (p : Pool) (s : SP) (h : PoolRefines p s) : needsReset p = false := by
  simp [needsReset, h.present, h.condGen, h.classObs]

/-- an idle reconcile changes nothing -/
theorem reconcile_idle (p : Pool) (s : SP) (h : PoolRefines p s) : reconcile p = p := by
  unfold reconcile
  simp only [needsReset_idle p s h, hydrate_idle p s h]
  have := h.classObs
  cases p
  simp_all

theorem reconcile_reset (p : Pool) (log : List Bool) (h : Refines p.t log) (hr : needsReset p = true) :
    PoolRefines (reconcile p) (Karp.Spec.PoolHealth.S.forget p.classGen) := by
  unfold reconcile
  simp only [hr, if_true]
  obtain ⟨log', hl⟩ := hydrate_refines p log h
  exact ⟨refines_reset _ _ hl, rfl, rfl, rfl, rfl, rfl, by simp [Karp.Spec.PoolHealth.S.forget]⟩


theorem tracker_new_unknown : Tracker.new.status = .unknown := by decide

theorem started_refines : PoolRefines Pool.started Karp.Spec.PoolHealth.S.init :=
  reconcile_reset Pool.created [] refines_new (by decide)

/-! ### The lifecycle controller looking at one NodeClaim: what an attempt leaves of the pool

`Karp.PoolHealth.step` plays every attempt through `Controller.Reconcile` (sub-reconcilers in the
order of the source, `Karp.Gen.Health.lifecycleOrder`), once per look and once more after a failed
NodePool call.  The lemmas below compute it. -/

set_option linter.unusedSimpArgs false

/-- the sub-reconcilers run in an order in which registration sees the Node before liveness judges the
    timeouts (a NodeClaim whose Node has joined is a success however late the controller looks) -/
theorem fact_registration_before_liveness :
    Karp.Gen.Health.lifecycleOrder.idxOf "registration" < Karp.Gen.Health.lifecycleOrder.idxOf "liveness" ∧
    Karp.Gen.Health.lifecycleOrder.idxOf "liveness" < Karp.Gen.Health.lifecycleOrder.length := by decide

/-- `Liveness.updateNodePoolRegistrationHealth` records the failure after the status patch went through, in
    place (not deferred): a failed patch returns before it, and the retry records the attempt — once -/
theorem fact_liveness_records_after_patch :
    Karp.Gen.Health.livenessHealthCalls = ["kubeClient.Get", "DryRun", "Patch", "Update"] := by decide

theorem fact_registration_records_after_patch :
    Karp.Gen.Health.registrationHealthCalls = ["kubeClient.Get", "DryRun", "SetTrue", "Patch", "Update"] := by decide

/-- each timeout branch of `Liveness.Reconcile` records, then deletes -/
theorem fact_liveness_branches :
    Karp.Gen.Health.livenessCalls = ["updateNodePoolRegistrationHealth", "deleteNodeClaimForTimeout",
      "updateNodePoolRegistrationHealth", "deleteNodeClaimForTimeout"] := by decide

/-- `Registration.Reconcile` marks the NodeClaim Registered BEFORE it updates the NodePool — the order
    behind finding `C20-success-lost-on-nodepool-api-failure` (the model's `registrationStep` follows it) -/
theorem fact_registered_before_counted :
    Karp.Gen.Health.registrationCalls = ["SetTrue", "updateNodePoolRegistrationHealth"] := by decide

/-- every controller that writes a NodePool's `status.conditions` (nodepool.readiness, nodepool.registrationhealth,
    nodepool.validation, and the two `updateNodePoolRegistrationHealth` of the lifecycle controller) issues exactly one
    status patch and builds it with the optimistic lock: a JSON merge patch replaces the condition list as a whole, so
    a writer working from an out-of-date NodePool must be answered 409 instead of writing an old
    `NodeRegistrationHealthy` back (the model treats those writers as `Ev.noise`; c20.pool's Y events replay
    nodepool.readiness from lagging copies on the real controller) -/
theorem fact_condition_writers_optimistic_lock :
    Karp.Gen.Health.conditionWriters.length = 5 ∧
    Karp.Gen.Health.conditionWriters.all (fun w => w.2 == ["optimistic-lock"]) = true := by decide

theorem step_success (p : Pool) (f : Fault) : Karp.PoolHealth.step p (.success f) = registeredF p f := by
  cases f
  · simp [Karp.PoolHealth.step, attempt, looks, look, pass, Karp.Gen.Health.lifecycleOrder, subStep,
      registrationStep, livenessStep, Claim.fresh, Look.joined, registeredF]
  · simp [Karp.PoolHealth.step, attempt, looks, look, pass, Karp.Gen.Health.lifecycleOrder, subStep,
      registrationStep, livenessStep, Claim.fresh, Look.joined, registeredF]
  · by_cases h : patchTrue p <;>
    simp [Karp.PoolHealth.step, attempt, looks, look, pass, Karp.Gen.Health.lifecycleOrder, subStep,
      registrationStep, livenessStep, Claim.fresh, Look.joined, registeredF, h]

/-- **C20_pool_late_success_once** — a NodeClaim whose Node has joined counts as ONE success also when the
    controller looks at it only after the registration (and launch) timeout: registration runs before
    liveness, and liveness leaves a Registered NodeClaim alone. -/
theorem C20_pool_late_success_once (p : Pool) (f : Fault) :
    Karp.PoolHealth.step p (.lateSuccess f) = Karp.PoolHealth.step p (.success f) := by
  rw [step_success]
  cases f
  · simp [Karp.PoolHealth.step, attempt, looks, look, pass, Karp.Gen.Health.lifecycleOrder, subStep,
      registrationStep, livenessStep, Claim.fresh, Look.joinedLate, registeredF]
  · simp [Karp.PoolHealth.step, attempt, looks, look, pass, Karp.Gen.Health.lifecycleOrder, subStep,
      registrationStep, livenessStep, Claim.fresh, Look.joinedLate, registeredF]
  · by_cases h : patchTrue p <;>
    simp [Karp.PoolHealth.step, attempt, looks, look, pass, Karp.Gen.Health.lifecycleOrder, subStep,
      registrationStep, livenessStep, Claim.fresh, Look.joinedLate, registeredF, h]

/-- **C20_pool_slow_success_once** — looking at the NodeClaim before its Node joins and again after it is
    Registered records nothing: the attempt counts once. -/
theorem C20_pool_slow_success_once (p : Pool) (f : Fault) :
    Karp.PoolHealth.step p (.slowSuccess f) = Karp.PoolHealth.step p (.success f) := by
  rw [step_success]
  cases f
  · simp [Karp.PoolHealth.step, attempt, looks, look, pass, Karp.Gen.Health.lifecycleOrder, subStep,
      registrationStep, livenessStep, Claim.fresh, Look.joined, Look.waiting, registeredF]
  · simp [Karp.PoolHealth.step, attempt, looks, look, pass, Karp.Gen.Health.lifecycleOrder, subStep,
      registrationStep, livenessStep, Claim.fresh, Look.joined, Look.waiting, registeredF]
  · by_cases h : patchTrue p <;>
    simp [Karp.PoolHealth.step, attempt, looks, look, pass, Karp.Gen.Health.lifecycleOrder, subStep,
      registrationStep, livenessStep, Claim.fresh, Look.joined, Look.waiting, registeredF, h]

theorem step_failure (p : Pool) (f : Fault) : Karp.PoolHealth.step p (.failure f) = timedOut p := by
  cases f
  · simp [Karp.PoolHealth.step, attempt, looks, look, pass, Karp.Gen.Health.lifecycleOrder, subStep,
      registrationStep, livenessStep, Claim.fresh, Look.allTimeouts, Look.waiting]
  · simp [Karp.PoolHealth.step, attempt, looks, look, pass, Karp.Gen.Health.lifecycleOrder, subStep,
      registrationStep, livenessStep, Claim.fresh, Look.allTimeouts, Look.waiting]
  · by_cases h : patchFalse p <;>
    simp [Karp.PoolHealth.step, attempt, looks, look, pass, Karp.Gen.Health.lifecycleOrder, subStep,
      registrationStep, livenessStep, Claim.fresh, Look.allTimeouts, Look.waiting, h]

theorem step_launchFailure (p : Pool) (f : Fault) : Karp.PoolHealth.step p (.launchFailure f) = timedOut p := by
  cases f
  · simp [Karp.PoolHealth.step, attempt, looks, look, pass, Karp.Gen.Health.lifecycleOrder, subStep,
      registrationStep, livenessStep, Claim.fresh, Look.launchTimeout, Look.waiting]
  · simp [Karp.PoolHealth.step, attempt, looks, look, pass, Karp.Gen.Health.lifecycleOrder, subStep,
      registrationStep, livenessStep, Claim.fresh, Look.launchTimeout, Look.waiting]
  · by_cases h : patchFalse p <;>
    simp [Karp.PoolHealth.step, attempt, looks, look, pass, Karp.Gen.Health.lifecycleOrder, subStep,
      registrationStep, livenessStep, Claim.fresh, Look.launchTimeout, Look.waiting, h]

theorem step_lateFailure (p : Pool) (f : Fault) : Karp.PoolHealth.step p (.lateFailure f) = timedOut p := by
  cases f
  · simp [Karp.PoolHealth.step, attempt, looks, look, pass, Karp.Gen.Health.lifecycleOrder, subStep,
      registrationStep, livenessStep, Claim.fresh, Look.allTimeouts, Look.waiting]
  · simp [Karp.PoolHealth.step, attempt, looks, look, pass, Karp.Gen.Health.lifecycleOrder, subStep,
      registrationStep, livenessStep, Claim.fresh, Look.allTimeouts, Look.waiting]
  · by_cases h : patchFalse p <;>
    simp [Karp.PoolHealth.step, attempt, looks, look, pass, Karp.Gen.Health.lifecycleOrder, subStep,
      registrationStep, livenessStep, Claim.fresh, Look.allTimeouts, Look.waiting, h]

/-- **C20_pool_failure_fault_invisible** — a failed launch occupies exactly one slot of the window whatever
    NodePool call failed while it was being recorded: the failing pass returns before `Update` and before
    the NodeClaim is deleted, the retry records it, and nothing records it a second time.  Holds for every
    pool state (no invariant needed) and for the three ways a launch fails. -/
theorem C20_pool_failure_fault_invisible (p : Pool) (f : Fault) :
    Karp.PoolHealth.step p (.failure f) = Karp.PoolHealth.step p (.failure .none) ∧
    Karp.PoolHealth.step p (.launchFailure f) = Karp.PoolHealth.step p (.launchFailure .none) ∧
    Karp.PoolHealth.step p (.lateFailure f) = Karp.PoolHealth.step p (.lateFailure .none) := by
  simp only [step_failure, step_launchFailure, step_lateFailure, and_self]

/-! ### One event -/

theorem registered_refines (p : Pool) (s : SP) (h : PoolRefines p s) :
    PoolRefines (registered p) (Karp.Spec.PoolHealth.recordSuccess s) := by
  have hd := dry_status p.t s.log true h.tr
  simp only [Karp.Spec.PoolHealth.recordSuccess, registered, recordSuccess, hd, specHealth_eq]
  refine ⟨refines_insert _ _ _ h.tr, by simp [h.present], ?_, ?_, h.classObs, h.classGen, by simp⟩
  · have hc := h.cond
    cases hh : Karp.Spec.PoolHealth.healthOf (s.log ++ [true]) <;> simp [toStatus, hc] <;> rfl
  · cases hh : Karp.Spec.PoolHealth.healthOf (s.log ++ [true]) <;> simp [toStatus, h.condGen]

theorem timedOut_refines (p : Pool) (s : SP) (h : PoolRefines p s) :
    PoolRefines (timedOut p) (Karp.Spec.PoolHealth.recordFailure s) := by
  have hd := dry_status p.t s.log false h.tr
  simp only [Karp.Spec.PoolHealth.recordFailure, timedOut, recordFailure, hd, specHealth_eq]
  refine ⟨refines_insert _ _ _ h.tr, by simp [h.present], ?_, ?_, h.classObs, h.classGen, by simp⟩
  · have hc := h.cond
    cases hh : Karp.Spec.PoolHealth.healthOf (s.log ++ [false]) <;> simp [toStatus, h.cond]
    by_cases hf : p.cond = Cond.false_
    · rw [hf] at hc; simp [hf, condSpec] at hc ⊢
    · simp [hf, condSpec]
  · cases hh : Karp.Spec.PoolHealth.healthOf (s.log ++ [false]) <;> simp [toStatus, h.condGen]

/-- the status patch of a registration is issued exactly when the specification's window turns healthy
    while the condition is not True yet -/
theorem patchTrue_iff (p : Pool) (s : SP) (h : PoolRefines p s) :
    patchTrue p = true ↔ (Karp.Spec.PoolHealth.healthOf (s.log ++ [true]) = .healthy ∧ s.cond ≠ .true_) := by
  have hd := dry_status p.t s.log true h.tr
  have hc := h.cond
  simp only [patchTrue, hd, specHealth_eq, h.present, h.condGen]
  cases hh : Karp.Spec.PoolHealth.healthOf (s.log ++ [true]) <;>
    cases hp : p.cond <;> rw [hp] at hc <;> simp only [condSpec] at hc <;> rw [← hc] <;> simp [toStatus]

/-- a registration under fault `f`: either counted as the specification says, or — the known deviation —
    not at all -/
theorem registeredF_refines (p : Pool) (s : SP) (f : Fault) (h : PoolRefines p s) :
    PoolRefines (registeredF p f)
      (if Karp.Spec.PoolHealth.lostSuccess s f then s else Karp.Spec.PoolHealth.recordSuccess s) := by
  cases f with
  | none => simpa [registeredF, Karp.Spec.PoolHealth.lostSuccess] using registered_refines p s h
  | get => simpa [registeredF, Karp.Spec.PoolHealth.lostSuccess] using h
  | patch =>
    have hi := patchTrue_iff p s h
    by_cases hp : patchTrue p = true
    · have := hi.mp hp
      simpa [registeredF, Karp.Spec.PoolHealth.lostSuccess, hp, this.1, this.2] using h
    · have hn : ¬ (Karp.Spec.PoolHealth.healthOf (s.log ++ [true]) = .healthy ∧ s.cond ≠ .true_) :=
        fun hx => hp (hi.mpr hx)
      have hl : Karp.Spec.PoolHealth.lostSuccess s .patch = false := by
        simp only [Karp.Spec.PoolHealth.lostSuccess]
        by_cases h1 : Karp.Spec.PoolHealth.healthOf (s.log ++ [true]) = .healthy
        · have : s.cond = .true_ := by
            by_cases h2 : s.cond = .true_
            · exact h2
            · exact absurd ⟨h1, h2⟩ hn
          simp [this]
        · simp [h1]
      simpa [registeredF, hp, hl] using registered_refines p s h

theorem reconcileF_refines (p : Pool) (log : List Bool) (f : Fault) (h : Refines p.t log) (hr : needsReset p = true) :
    PoolRefines (reconcileF p f) (Karp.Spec.PoolHealth.S.forget p.classGen) := by
  unfold reconcileF
  by_cases hf : f = .patch
  · simp only [hf, hr, and_self, if_true]
    obtain ⟨log', hl⟩ := hydrate_refines p log h
    exact reconcile_reset _ [] (refines_reset _ _ hl) (by simpa [needsReset] using hr)
  · simp only [hf, false_and, if_false]
    exact reconcile_reset p log h hr

/-- a NodeClass object that carries the generation observed before: the reconcile it triggers changes nothing,
    whatever fault is armed (no patch is issued) -/
theorem step_classReplace_same (p : Pool) (s : SP) (f : Fault) (h : PoolRefines p s) :
    Karp.PoolHealth.step p (.classReplace p.classGen f) = p := by
  have hp : ({ p with classGen := p.classGen } : Pool) = p := rfl
  simp only [Karp.PoolHealth.step, hp, reconcileF, needsReset_idle p s h, reconcile_idle p s h]
  simp

/-- **C20_pool_step_known** — every event (any timing of the controller's looks, any failed NodePool call
    followed by its retry) keeps the controllers' view in step with the operator-level specification,
    except that a registration whose NodePool call failed is not counted (`Spec.PoolHealth.stepKnown`).

    The property asks for more, and that FAILS (finding `C20-success-lost-on-nodepool-api-failure`,
    witness `C20_pool_success_lost` below, replayed on the real controllers by corpus/c20.pool):

      theorem C20_pool_step (p : Pool) (s : SP) (e : Ev) (h : PoolRefines p s) :
          PoolRefines (Karp.PoolHealth.step p e) (Karp.Spec.PoolHealth.step s e)

    `C20_pool_step_partial` is that statement for every event the deviation does not concern. -/
theorem C20_pool_step_known (p : Pool) (s : SP) (e : Ev) (h : PoolRefines p s) :
    PoolRefines (Karp.PoolHealth.step p e) (Karp.Spec.PoolHealth.stepKnown s e) := by
  cases e with
  | success f =>
    rw [step_success]
    have hr := registeredF_refines p s f h
    cases hl : Karp.Spec.PoolHealth.lostSuccess s f <;>
      simp only [Karp.Spec.PoolHealth.stepKnown, Karp.Spec.PoolHealth.lost, Karp.Spec.PoolHealth.step, hl,
        Bool.false_eq_true, if_false, if_true] at hr ⊢ <;> exact hr
  | lateSuccess f =>
    rw [C20_pool_late_success_once, step_success]
    have hr := registeredF_refines p s f h
    cases hl : Karp.Spec.PoolHealth.lostSuccess s f <;>
      simp only [Karp.Spec.PoolHealth.stepKnown, Karp.Spec.PoolHealth.lost, Karp.Spec.PoolHealth.step, hl,
        Bool.false_eq_true, if_false, if_true] at hr ⊢ <;> exact hr
  | slowSuccess f =>
    rw [C20_pool_slow_success_once, step_success]
    have hr := registeredF_refines p s f h
    cases hl : Karp.Spec.PoolHealth.lostSuccess s f <;>
      simp only [Karp.Spec.PoolHealth.stepKnown, Karp.Spec.PoolHealth.lost, Karp.Spec.PoolHealth.step, hl,
        Bool.false_eq_true, if_false, if_true] at hr ⊢ <;> exact hr
  | failure f =>
    rw [step_failure]
    simpa [Karp.Spec.PoolHealth.stepKnown, Karp.Spec.PoolHealth.lost, Karp.Spec.PoolHealth.step]
      using timedOut_refines p s h
  | launchFailure f =>
    rw [step_launchFailure]
    simpa [Karp.Spec.PoolHealth.stepKnown, Karp.Spec.PoolHealth.lost, Karp.Spec.PoolHealth.step]
      using timedOut_refines p s h
  | lateFailure f =>
    rw [step_lateFailure]
    simpa [Karp.Spec.PoolHealth.stepKnown, Karp.Spec.PoolHealth.lost, Karp.Spec.PoolHealth.step]
      using timedOut_refines p s h
  | noise => exact h
  | resync =>
    simpa [Karp.PoolHealth.step, Karp.Spec.PoolHealth.stepKnown, Karp.Spec.PoolHealth.lost,
      Karp.Spec.PoolHealth.step, reconcile_idle p s h] using h
  | poolEdit f =>
    have := reconcileF_refines { p with gen := p.gen + 1 } s.log f h.tr (by simp [needsReset, h.condGen])
    simpa [Karp.PoolHealth.step, Karp.Spec.PoolHealth.stepKnown, Karp.Spec.PoolHealth.lost,
      Karp.Spec.PoolHealth.step, h.classGen] using this
  | classEdit f =>
    have := reconcileF_refines { p with classGen := p.classGen + 1 } s.log f h.tr (by simp [needsReset, h.classObs])
    simpa [Karp.PoolHealth.step, Karp.Spec.PoolHealth.stepKnown, Karp.Spec.PoolHealth.lost,
      Karp.Spec.PoolHealth.step, h.classGen] using this
  | classReplace g f =>
    by_cases hg : g = s.classGen
    · -- a NodeClass object with the generation observed before: nothing to see, whatever fault is armed
      have hgp : g = p.classGen := by rw [h.classGen]; exact hg
      subst hgp
      rw [step_classReplace_same p s f h]
      simpa [Karp.Spec.PoolHealth.stepKnown, Karp.Spec.PoolHealth.lost, Karp.Spec.PoolHealth.step, hg] using h
    · have hne : g ≠ p.classGen := by rw [h.classGen]; exact hg
      have := reconcileF_refines { p with classGen := g } s.log f h.tr
        (by simp [needsReset, h.classObs, Ne.symm hne])
      simpa [Karp.PoolHealth.step, Karp.Spec.PoolHealth.stepKnown, Karp.Spec.PoolHealth.lost,
        Karp.Spec.PoolHealth.step, hg] using this
  | restart =>
    have hn : needsReset { p with t := Tracker.new } = false := by
      simp [needsReset, h.present, h.condGen, h.classObs]
    simp only [Karp.PoolHealth.step, Karp.Spec.PoolHealth.stepKnown, Karp.Spec.PoolHealth.lost,
      Karp.Spec.PoolHealth.step, reconcile, hn]
    have hc := h.cond
    refine ⟨?_, h.present, h.cond, h.condGen, rfl, h.classGen, ?_⟩
    · simp only [hydrate, tracker_new_unknown, h.present, if_true, true_and]
      cases hp : p.cond <;> rw [hp] at hc <;> simp only [condSpec] at hc <;> rw [← hc]
      · simpa using refines_new
      · exact refines_step Tracker.new [] (.set .healthy) refines_new
      · exact refines_step Tracker.new [] (.set .unhealthy) refines_new
    · intro hne
      cases hs : s.cond <;> simp_all
      decide

/-- **C20_pool_step_partial** — the refinement to the specification as the property states it, for every
    event that is not a registration whose NodePool call failed. -/
theorem C20_pool_step_partial (p : Pool) (s : SP) (e : Ev) (h : PoolRefines p s)
    (hl : Karp.Spec.PoolHealth.lost s e = false) :
    PoolRefines (Karp.PoolHealth.step p e) (Karp.Spec.PoolHealth.step s e) := by
  have := C20_pool_step_known p s e h
  simpa [Karp.Spec.PoolHealth.stepKnown, hl] using this

/-- **C20_pool_success_lost** — the negation of the full statement on concrete witnesses: a pool that saw
    two failed launches and two registrations (condition False, window F,F,T,T) and then a third
    registration whose status patch (the one that would set the condition True) conflicts: the window must be
    F,T,T,T and the condition True; the controllers leave F,F,T,T and False.  And a fresh pool whose first
    registration meets a failing `Get`: nothing is recorded at all. -/
theorem C20_pool_success_lost :
    Karp.PoolHealth.observations Pool.started
        [.failure .none, .failure .none, .success .none, .success .none, .success .patch]
      ≠ Karp.Spec.PoolHealth.observations .init
        [.failure .none, .failure .none, .success .none, .success .none, .success .patch]
    ∧ Karp.PoolHealth.observations Pool.started [.success .get] = [[0, 0, 1, 1]]
    ∧ Karp.Spec.PoolHealth.observations .init [.success .get] = [[1, 1, 1, 1]] := by decide

theorem pool_observe_eq (p : Pool) (s : SP) (h : PoolRefines p s) :
    Karp.PoolHealth.observe p = Karp.Spec.PoolHealth.observe s := by
  have hc := h.cond
  simp only [Karp.PoolHealth.observe, Karp.Spec.PoolHealth.observe, condCode, h.present,
    C20_status _ _ h.tr, dry_status _ _ _ h.tr, specHealth_eq, healthCode_toStatus]
  congr 1
  cases hp : p.cond <;> rw [hp] at hc <;> simp only [condSpec] at hc <;> rw [← hc] <;> rfl

/-! ### All event sequences -/

/-- **C20_pool_observations_known** (refinement, all event sequences of any length): the persisted
    condition, the tracker status and both what-if verdicts observed after every event equal what the
    operator-level specification prescribes once the registrations that met a failing NodePool call are
    taken out of the script — the controllers deviate from the property in this one way and in no other. -/
theorem C20_pool_observations_known (es : List Ev) :
    ∀ (p : Pool) (s : SP), PoolRefines p s →
      Karp.PoolHealth.observations p es = Karp.Spec.PoolHealth.observationsKnown s es := by
  induction es with
  | nil => intro p s _; rfl
  | cons e es ih =>
    intro p s h
    have hstep := C20_pool_step_known p s e h
    simp only [Karp.PoolHealth.observations, Karp.Spec.PoolHealth.observationsKnown]
    rw [ih _ _ hstep, pool_observe_eq _ _ hstep]

theorem observationsKnown_noLoss (es : List Ev) :
    ∀ s : SP, Karp.Spec.PoolHealth.noLoss s es = true →
      Karp.Spec.PoolHealth.observationsKnown s es = Karp.Spec.PoolHealth.observations s es := by
  induction es with
  | nil => intro s _; rfl
  | cons e es ih =>
    intro s h
    simp only [Karp.Spec.PoolHealth.noLoss, Bool.and_eq_true, Bool.not_eq_true'] at h
    simp only [Karp.Spec.PoolHealth.observationsKnown, Karp.Spec.PoolHealth.observations,
      Karp.Spec.PoolHealth.stepKnown, h.1, Bool.false_eq_true, if_false]
    rw [ih _ h.2]

/-- **C20_pool_observations_partial** — the property as stated (full statement: the same without `hl`; it
    fails, see `C20_pool_success_lost`): along every script in which no registration meets a failing
    NodePool call — whatever the timing of the controller's looks, whatever faults the failed launches and
    the edits meet — every observation equals what the specification prescribes. -/
theorem C20_pool_observations_partial (es : List Ev) (p : Pool) (s : SP) (h : PoolRefines p s)
    (hl : Karp.Spec.PoolHealth.noLoss s es = true) :
    Karp.PoolHealth.observations p es = Karp.Spec.PoolHealth.observations s es := by
  rw [C20_pool_observations_known es p s h, observationsKnown_noLoss es s hl]

theorem C20_pool_observations_from_start_partial (es : List Ev)
    (hl : Karp.Spec.PoolHealth.noLoss .init es = true) :
    Karp.PoolHealth.observations Pool.started es = Karp.Spec.PoolHealth.observations .init es :=
  C20_pool_observations_partial es _ _ started_refines hl

theorem C20_pool_run_known (es : List Ev) :
    ∀ (p : Pool) (s : SP), PoolRefines p s →
      PoolRefines (Karp.PoolHealth.run p es) (Karp.Spec.PoolHealth.runKnown s es) := by
  induction es with
  | nil => intro p s h; exact h
  | cons e es ih => intro p s h; exact ih _ _ (C20_pool_step_known p s e h)

theorem spec_run_edit (es : List Ev) (e : Ev) (he : (∃ f, e = .poolEdit f) ∨ (∃ f, e = .classEdit f)) :
    ∀ s0 : SP, (Karp.Spec.PoolHealth.runKnown s0 (es ++ [e])).cond = .unknown ∧
      (Karp.Spec.PoolHealth.runKnown s0 (es ++ [e])).log = [] := by
  induction es with
  | nil => intro s0; rcases he with ⟨f, he⟩ | ⟨f, he⟩ <;> subst he <;> exact ⟨rfl, rfl⟩
  | cons x xs ih => intro s0; exact ih _

/-- **C20_pool_edit_forgets** — whatever happened before (any events, in particular outcomes recorded
    while the condition was still Unknown, lost registrations, faults), after a NodePool or NodeClass edit —
    also one whose status patch failed and was retried — the window is empty and the condition Unknown. -/
theorem C20_pool_edit_forgets (es : List Ev) (e : Ev) (he : (∃ f, e = .poolEdit f) ∨ (∃ f, e = .classEdit f)) :
    let p := Karp.PoolHealth.run Pool.started (es ++ [e])
    p.t.status = .unknown ∧ condCode p = 0 := by
  intro p
  have h : PoolRefines p (Karp.Spec.PoolHealth.runKnown .init (es ++ [e])) := C20_pool_run_known _ _ _ started_refines
  obtain ⟨hcu, hlog⟩ := spec_run_edit es e he .init
  refine ⟨(status_unknown_iff _ _ h.tr).mpr hlog, ?_⟩
  have hc := h.cond
  rw [hcu] at hc
  simp only [condCode, h.present]
  cases hp : p.cond <;> rw [hp] at hc <;> simp [condSpec] at hc ⊢

/-- **C20_pool_replace_forgets** — the NodeClass a pool launches with is replaced by an object of ANY other
    generation — higher or LOWER than the one observed (deleted and re-created under its name: generation 1
    again), with or without a failing status patch — : the window is empty and the condition Unknown
    afterwards, and the launches that follow are judged on their own (`C20_pool_observations_known` from the
    state reached).  A replacement carrying the observed generation changes nothing. -/
theorem C20_pool_replace_forgets (p : Pool) (s : SP) (g : Nat) (f : Fault) (h : PoolRefines p s) :
    let q := Karp.PoolHealth.step p (.classReplace g f)
    (g ≠ s.classGen → q.t.status = .unknown ∧ condCode q = 0 ∧ q.classObs = g ∧
        PoolRefines q (Karp.Spec.PoolHealth.S.forget g)) ∧
    (g = s.classGen → q = p) := by
  intro q
  have hk : PoolRefines q (Karp.Spec.PoolHealth.stepKnown s (.classReplace g f)) := C20_pool_step_known p s _ h
  constructor
  · intro hg
    have hq : PoolRefines q (Karp.Spec.PoolHealth.S.forget g) := by
      simpa [Karp.Spec.PoolHealth.stepKnown, Karp.Spec.PoolHealth.lost, Karp.Spec.PoolHealth.step, hg] using hk
    refine ⟨(status_unknown_iff _ _ hq.tr).mpr rfl, ?_, ?_, hq⟩
    · have hc := hq.cond
      simp only [condCode, hq.present]
      cases hp : q.cond <;> rw [hp] at hc <;> simp [condSpec, Karp.Spec.PoolHealth.S.forget] at hc ⊢
    · rw [hq.classObs, hq.classGen]; rfl
  · intro hg
    have hgp : g = p.classGen := by rw [h.classGen]; exact hg
    subst hgp
    exact step_classReplace_same p s f h

/-- the reset guard compares for INEQUALITY: a NodeClass generation below the observed one resets as well
    (`needsReset` is the model of the guard; c20.pool's D events replay it on the real controller) -/
theorem C20_pool_guard_lower_generation (p : Pool) (h : p.classGen < p.classObs) : needsReset p = true := by
  simp only [needsReset, Bool.or_eq_true, bne_iff_ne, ne_eq]
  exact Or.inl (Or.inr (by omega))

/-- **C20_pool_outcome_enters_window** — a success or a failure is recorded whatever the condition says
    (in particular a success while it is already True), however late the controller looks and whatever
    NodePool call fails while a FAILURE is recorded: the window afterwards is the old log plus that
    outcome. -/
theorem C20_pool_outcome_enters_window (p : Pool) (s : SP) (f : Fault) (h : PoolRefines p s) :
    Refines (Karp.PoolHealth.step p (.success .none)).t (s.log ++ [true]) ∧
    Refines (Karp.PoolHealth.step p (.lateSuccess .none)).t (s.log ++ [true]) ∧
    Refines (Karp.PoolHealth.step p (.failure f)).t (s.log ++ [false]) ∧
    Refines (Karp.PoolHealth.step p (.launchFailure f)).t (s.log ++ [false]) ∧
    Refines (Karp.PoolHealth.step p (.lateFailure f)).t (s.log ++ [false]) :=
  ⟨(C20_pool_step_partial p s _ h rfl).tr, (C20_pool_step_partial p s _ h rfl).tr,
   (C20_pool_step_partial p s _ h rfl).tr, (C20_pool_step_partial p s _ h rfl).tr,
   (C20_pool_step_partial p s _ h rfl).tr⟩

/-! non-vacuity: concrete scripts through every branch -/
example : Karp.PoolHealth.observations Pool.started
    [.success .none, .failure .none, .success .none, .success .none, .success .none, .failure .none]
    = [[1,1,1,1],[1,1,1,2],[1,1,1,2],[1,1,1,2],[1,1,1,1],[1,1,1,2]] := by decide
example : Karp.PoolHealth.observations Pool.started
    [.failure .none, .classEdit .none, .failure .none, .failure .none, .restart, .success .none, .poolEdit .none]
    = [[0,1,1,2],[0,0,1,1],[0,1,1,2],[2,2,2,2],[2,2,2,2],[2,2,2,2],[0,0,1,1]] := by decide
example : Karp.PoolHealth.observe Pool.created = [3,0,1,1] := by decide
/-- the repaired defect (fix: Liveness.Reconcile returns after its launch-timeout branch): one late launch
    failure is one failure -/
example : Karp.PoolHealth.observations Pool.started [.lateFailure .none] = [[0, 1, 1, 2]] := by decide
/-- the failure that turns the pool False meets a conflicting status patch (F,T,F! then T,T): one slot, the
    pool recovers after two registrations; late and repeatedly seen registrations; an edit whose patch fails -/
example : Karp.PoolHealth.observations Pool.started
    [.failure .none, .success .none, .failure .patch, .success .none, .success .none]
    = [[0,1,1,2],[1,1,1,2],[2,2,2,2],[2,2,1,2],[1,1,1,2]] := by decide
example : Karp.PoolHealth.observations Pool.started
    [.failure .get, .lateSuccess .none, .slowSuccess .none, .slowSuccess .none, .launchFailure .patch, .classEdit .patch, .lateSuccess .none]
    = [[0,1,1,2],[1,1,1,2],[1,1,1,2],[1,1,1,1],[1,1,1,2],[0,0,1,1],[1,1,1,1]] := by decide
/-- a NodeClass that was edited twice (generation 3) is deleted and re-created (generation 1) while the pool is
    False: Unknown, empty window; the next launches are judged on their own; a second replacement with the same
    generation changes nothing -/
example : Karp.PoolHealth.observations Pool.started
    [.classEdit .none, .classEdit .none, .failure .none, .failure .none, .classReplace 1 .patch, .success .none,
     .classReplace 1 .none, .failure .none]
    = [[0,0,1,1],[0,0,1,1],[0,1,1,2],[2,2,2,2],[0,0,1,1],[1,1,1,1],[1,1,1,1],[1,1,1,2]] := by decide
example : PoolRefines (Karp.PoolHealth.run Pool.started [.classEdit .none, .failure .none, .failure .none])
    (Karp.Spec.PoolHealth.runKnown .init [.classEdit .none, .failure .none, .failure .none]) ∧
    (1 : Nat) ≠ (Karp.Spec.PoolHealth.runKnown .init [.classEdit .none, .failure .none, .failure .none]).classGen :=
  ⟨C20_pool_run_known _ _ _ started_refines, by decide⟩
/-- the hypothesis of the `_partial` theorems is met by scripts with faults and odd timing -/
example : Karp.Spec.PoolHealth.noLoss .init
    [.failure .patch, .lateSuccess .none, .failure .get, .success .patch, .slowSuccess .none, .poolEdit .patch] = true := by decide

end Karp.C20
