/-
C20 — NodePool registration health reflects the recent launch window.

Property theorems only (helper lemmas live in `Karp/Proofs/RingLemmas.lean`).
Model: `Karp/Model/Ring.lean` (ring buffer, tracker, what-if, condition update),
       `Karp/Model/PoolHealth.lean` (the registrationhealth controller and the two lifecycle call sites
       acting on one NodePool: hydration, reset guard, generations).
Spec:  `Karp/Spec/Window.lean` (log of outcomes since the last reset; last 4 entries),
       `Karp/Spec/PoolHealth.lean` (the condition an operator reads along the pool's life).
-/
import Karp.Proofs.RingLemmas
import Karp.Spec.HealthHistory
import Karp.Model.PoolHealth
import Karp.Spec.PoolHealth

namespace Karp.C20
open Karp.Ring Karp.Spec.Window Karp.Spec.HealthHistory

/-! ## Fact expectations over the regenerated constants -/

/-- the window has four slots (property text: "four most recent launch attempts") -/
theorem fact_bufferSize : Karp.Gen.Health.bufferSize = 4 := by decide
/-- "at least half of the window" -/
theorem fact_threshold : Karp.Gen.Health.thresholdFalseNum * 2 = Karp.Gen.Health.thresholdFalseDen := by decide
theorem fact_status_codes :
    Karp.Gen.Health.statusUnknown = 0 ∧ Karp.Gen.Health.statusHealthy = 1 ∧ Karp.Gen.Health.statusUnhealthy = 2 := by decide

theorem bufferSize_pos : 0 < bufferSize := by decide

/-- `SetStatus(Unhealthy)` seeds `int(BufferSize*ThresholdFalse)` failures; the specification asks for the
    least number that makes the window unhealthy (`⌈·⌉`).  They coincide for the constants in the source. -/
theorem fact_seed : unhealthySeed = seedFailures := by decide

/-! ## Refinement invariant -/

/-- the tracker refines the log: oldest-first content = last `bufferSize` log entries -/
structure Refines (t : Tracker) (log : List Bool) : Prop where
  wf : WF t
  cap : t.cap = bufferSize
  content : t.logical = lastN bufferSize log

theorem refines_new : Refines Tracker.new [] :=
  ⟨wf_new _ bufferSize_pos, rfl, by simp [Tracker.new, Ring.new, Ring.logical, lastN]⟩

theorem refines_reset (t : Tracker) (log : List Bool) (h : Refines t log) : Refines t.reset [] :=
  ⟨wf_reset t h.wf, by simpa using h.cap, by simp [Ring.reset, Ring.logical, lastN]⟩

theorem refines_insert (t : Tracker) (log : List Bool) (v : Bool) (h : Refines t log) :
    Refines (t.insert v) (log ++ [v]) := by
  refine ⟨wf_insert t v h.wf, by simpa using h.cap, ?_⟩
  rw [logical_insert t v h.wf, h.cap, h.content, lastN_append_lastN]

theorem refines_insertMany (n : Nat) : ∀ (t : Tracker) (log : List Bool) (v : Bool), Refines t log →
    Refines (insertMany t v n) (log ++ List.replicate n v) := by
  induction n with
  | zero => intro t log v h; simpa [insertMany] using h
  | succ n ih =>
    intro t log v h
    have := ih (t.insert v) (log ++ [v]) v (refines_insert t log v h)
    simpa [insertMany, List.replicate_succ] using this

theorem refines_step (t : Tracker) (log : List Bool) (op : Op) (h : Refines t log) :
    Refines (step t op) (specStep log op) := by
  cases op with
  | update ok => exact refines_insert t log ok h
  | reset => exact refines_reset t log h
  | set s =>
    cases s with
    | unknown => exact refines_reset t log h
    | healthy => simpa [step, Tracker.setStatus, specStep] using refines_insert _ _ true (refines_reset t log h)
    | unhealthy =>
      simpa [step, Tracker.setStatus, specStep, fact_seed] using refines_insertMany unhealthySeed _ _ false (refines_reset t log h)
  | restart => exact refines_new
  | dry ok => exact h
  | status => exact h

/-- **C20_ring_window** — after any history (any length, any mix of records, resets, re-hydrations and
    restarts) the buffer holds exactly the last `min 4 n` outcomes recorded since the last reset,
    oldest first from `head`. -/
theorem C20_ring_window (ops : List Op) :
    ∀ (t : Tracker) (log : List Bool), Refines t log → Refines (run t ops) (specRun log ops) := by
  induction ops with
  | nil => intro t log h; exact h
  | cons op ops ih => intro t log h; exact ih _ _ (refines_step t log op h)

theorem failures_logical (t : Tracker) : Karp.Ring.failures t.logical = Karp.Ring.failures t.values := by
  unfold Karp.Ring.failures Ring.logical
  rw [List.filter_append, List.length_append, Nat.add_comm, ← List.length_append, ← List.filter_append,
    List.take_append_drop]

theorem length_logical (t : Tracker) : t.logical.length = t.values.length := by
  unfold Ring.logical
  rw [List.length_append, Nat.add_comm, ← List.length_append, List.take_append_drop]

/-- **C20_status** — the reported status is Unknown on an empty window, Unhealthy exactly when the failures
    in the window fill at least half of the four slots, Healthy otherwise. -/
theorem C20_status (t : Tracker) (log : List Bool) (h : Refines t log) :
    t.status = specHealth log := by
  unfold Tracker.status statusOf specHealth health Ring.items
  rw [← failures_logical, ← length_logical, h.content]
  by_cases hw : lastN bufferSize log = []
  · simp [hw, toStatus]
  · have : (lastN bufferSize log).length ≠ 0 := by
      intro hl; exact hw (List.length_eq_zero_iff.mp hl)
    simp only [this, hw, if_false]
    unfold Karp.Ring.failures Karp.Spec.Window.failures
    split <;> simp [toStatus]

/-- **C20_dryrun_agrees** — the what-if evaluation of the next outcome equals the state reached after
    that outcome is recorded (for every tracker state, in particular after the window has wrapped). -/
theorem C20_dryrun_agrees (t : Tracker) (ok : Bool) :
    (t.dryRun ok).status = (t.update ok).status := rfl

/-- **C20_observations** (refinement, all histories): every status and every what-if verdict observed
    along any history equals what the sliding-window specification prescribes. -/
theorem C20_observations (ops : List Op) :
    ∀ (t : Tracker) (log : List Bool), Refines t log →
      observations t ops = specObservations log ops := by
  induction ops with
  | nil => intro t log _; rfl
  | cons op ops ih =>
    intro t log h
    have hstep := refines_step t log op h
    simp only [observations, specObservations]
    rw [ih _ _ hstep]
    congr 1
    cases op with
    | dry ok =>
      simp only [observe, specObserve]
      rw [C20_dryrun_agrees]
      exact C20_status _ _ (refines_insert t log ok h)
    | update ok => exact C20_status _ _ hstep
    | reset => exact C20_status _ _ hstep
    | set s => exact C20_status _ _ hstep
    | restart => exact C20_status _ _ hstep
    | status => exact C20_status _ _ hstep

theorem C20_observations_from_start (ops : List Op) :
    observations Tracker.new ops = specObservations [] ops :=
  C20_observations ops _ _ refines_new

/-! ## The NodePool condition -/

/-- **C20_condition_failure** — recording a failure sets the condition False exactly when failures then
    fill at least half of the window (and leaves it unchanged otherwise). -/
theorem C20_condition_failure (c : Cond) (t : Tracker) (log : List Bool) (h : Refines t log) :
    ((recordFailure c t).1 = Cond.false_ ↔ (c = Cond.false_ ∨ specHealth (log ++ [false]) = .unhealthy))
    ∧ (specHealth (log ++ [false]) ≠ .unhealthy → (recordFailure c t).1 = c)
    ∧ Refines (recordFailure c t).2 (log ++ [false]) := by
  have hs : (t.dryRun false).status = specHealth (log ++ [false]) := by
    rw [C20_dryrun_agrees]; exact C20_status _ _ (refines_insert t log false h)
  refine ⟨?_, ?_, refines_insert t log false h⟩
  · simp only [recordFailure, hs]
    by_cases h1 : specHealth (log ++ [false]) = .unhealthy <;> by_cases h2 : c = Cond.false_ <;> simp [h1, h2]
  · intro hne; simp [recordFailure, hs, hne]

/-- **C20_condition_success** — recording a success sets the condition True exactly when failures then
    fill less than half of the window (the window is non-empty after a record, so "less than half" is
    `healthy`). -/
theorem C20_condition_success (c : Cond) (t : Tracker) (log : List Bool) (h : Refines t log) :
    ((recordSuccess c t).1 = Cond.true_ ↔ (c = Cond.true_ ∨ specHealth (log ++ [true]) = .healthy))
    ∧ (specHealth (log ++ [true]) ≠ .healthy → (recordSuccess c t).1 = c)
    ∧ Refines (recordSuccess c t).2 (log ++ [true]) := by
  have hs : (t.dryRun true).status = specHealth (log ++ [true]) := by
    rw [C20_dryrun_agrees]; exact C20_status _ _ (refines_insert t log true h)
  refine ⟨?_, ?_, refines_insert t log true h⟩
  · simp only [recordSuccess, hs]
    by_cases h1 : specHealth (log ++ [true]) = .healthy <;> by_cases h2 : c = Cond.true_ <;> simp [h1, h2]
  · intro hne; simp [recordSuccess, hs, hne]

/-! ## The defect that was repaired (kept as a machine-checked record)

At the pinned commit `DryRun` copied `Items()` (physical order) into a fresh buffer with head 0.
After the window wraps the copy overwrites the wrong slot: history F,F,T,T,T then what-if(false). -/

def witnessTracker : Tracker := run Tracker.new [.update false, .update false, .update true, .update true, .update true]

theorem C20_dryrun_physical_diverges :
    (witnessTracker.dryRunPhysical false).status = .unhealthy ∧
    (witnessTracker.update false).status = .healthy := by decide

/-! ## Non-vacuity: a concrete wrapped history meets the hypotheses and exercises every branch -/

example : Refines witnessTracker (specRun [] [.update false, .update false, .update true, .update true, .update true]) :=
  C20_ring_window _ _ _ refines_new
example : witnessTracker.head = 1 ∧ witnessTracker.values = [true, false, true, true] := by decide
example : observations Tracker.new [.update false, .update false, .dry true, .update true, .update true, .update true, .dry false, .reset]
    = [.healthy, .unhealthy, .unhealthy, .unhealthy, .unhealthy, .healthy, .healthy, .unknown] := by decide

/-! ## The controllers: one NodePool's life (registrations, timeouts, edits, restarts, resyncs)

`Karp.PoolHealth` models `registrationhealth.Controller.Reconcile` and the two
`updateNodePoolRegistrationHealth` call sites on one pool; `Karp.Spec.PoolHealth` is the operator-level
specification (log since the last reset + condition).  The theorems below are the refinement over
ALL event sequences. -/

open Karp.PoolHealth

abbrev SP := Karp.Spec.PoolHealth.S
abbrev SC := Karp.Spec.PoolHealth.C

def condSpec : Cond → SC
  | .unknown => .unknown
  | .true_ => .true_
  | .false_ => .false_

theorem healthCode_toStatus (h : Health) : Karp.Spec.PoolHealth.healthCode h = (toStatus h).toNat := by
  cases h <;> rfl

theorem specHealth_eq (log : List Bool) : specHealth log = toStatus (Karp.Spec.PoolHealth.healthOf log) := rfl

/-- the window of a log is empty only for the empty log -/
theorem specHealth_unknown_iff (log : List Bool) : specHealth log = .unknown ↔ log = [] := by
  unfold specHealth health
  constructor
  · intro h
    by_cases hw : lastN bufferSize log = []
    · have := congrArg List.length hw
      rw [lastN_length] at this
      have hb : 0 < bufferSize := bufferSize_pos
      simp at this
      rcases this with h0 | h0
      · omega
      · exact h0
    · simp only [hw, if_false] at h
      split at h <;> simp [toStatus] at h
  · intro h; subst h; simp [lastN, toStatus]

theorem status_unknown_iff (t : Tracker) (log : List Bool) (h : Refines t log) :
    t.status = .unknown ↔ log = [] := by
  rw [C20_status t log h]; exact specHealth_unknown_iff log


/-- the refinement invariant between the controllers' view of a pool and the operator-level spec -/
structure PoolRefines (p : Pool) (s : SP) : Prop where
  tr : Refines p.t s.log
  present : p.present = true
  cond : condSpec p.cond = s.cond
  condGen : p.condGen = p.gen
  classObs : p.classObs = p.classGen
  nonempty : s.cond ≠ .unknown → s.log ≠ []

theorem dry_status (t : Tracker) (log : List Bool) (ok : Bool) (h : Refines t log) :
    (t.dryRun ok).status = specHealth (log ++ [ok]) := by
  rw [C20_dryrun_agrees]; exact C20_status _ _ (refines_insert t log ok h)

theorem hydrate_idle (p : Pool) (s : SP) (h : PoolRefines p s) : hydrate p = p.t := by
  unfold hydrate
  by_cases hs : p.t.status = .unknown
  · have hl : s.log = [] := (status_unknown_iff _ _ h.tr).mp hs
    have hc : s.cond = .unknown := by
      by_cases hc : s.cond = .unknown
      · exact hc
      · exact absurd hl (h.nonempty hc)
    have hpc : p.cond = .unknown := by
      have := h.cond; rw [hc] at this
      cases hp : p.cond <;> simp [hp, condSpec] at this ⊢
    simp [hs, hpc]
  · simp [hs]

theorem hydrate_refines (p : Pool) (log : List Bool) (h : Refines p.t log) : ∃ log', Refines (hydrate p) log' := by
  unfold hydrate
  split
  · split
    · exact ⟨_, refines_step p.t log (.set .healthy) h⟩
    · split
      · exact ⟨_, refines_step p.t log (.set .unhealthy) h⟩
      · exact ⟨_, h⟩
  · exact ⟨_, h⟩

theorem needsReset_idle (p : Pool) (s : SP) (h : PoolRefines p s) : needsReset p = false := by
  simp [needsReset, h.present, h.condGen, h.classObs]

/-- an idle reconcile changes nothing -/
theorem reconcile_idle (p : Pool) (s : SP) (h : PoolRefines p s) : reconcile p = p := by
  unfold reconcile
  simp only [needsReset_idle p s h, hydrate_idle p s h]
  have := h.classObs
  cases p
  simp_all

theorem reconcile_reset (p : Pool) (log : List Bool) (h : Refines p.t log) (hr : needsReset p = true) :
    PoolRefines (reconcile p) { cond := .unknown, log := [] } := by
  unfold reconcile
  simp only [hr, if_true]
  obtain ⟨log', hl⟩ := hydrate_refines p log h
  exact ⟨refines_reset _ _ hl, rfl, rfl, rfl, rfl, by simp⟩


theorem tracker_new_unknown : Tracker.new.status = .unknown := by decide

theorem started_refines : PoolRefines Pool.started Karp.Spec.PoolHealth.S.init :=
  reconcile_reset Pool.created [] refines_new (by decide)

/-! ### One event -/

/-- **C20_pool_step** — every event keeps the controllers' view and the operator-level specification
    in step. -/
theorem C20_pool_step (p : Pool) (s : SP) (e : Ev) (h : PoolRefines p s) :
    PoolRefines (Karp.PoolHealth.step p e) (Karp.Spec.PoolHealth.step s e) := by
  cases e with
  | lateFailure =>
    have hd := dry_status p.t s.log false h.tr
    simp only [Karp.PoolHealth.step, Karp.Spec.PoolHealth.step, Karp.Spec.PoolHealth.recordFailure, timedOut,
      recordFailure, hd, specHealth_eq]
    refine ⟨refines_insert _ _ _ h.tr, by simp [h.present], ?_, ?_, h.classObs, by simp⟩
    · have hc := h.cond
      cases hh : Karp.Spec.PoolHealth.healthOf (s.log ++ [false]) <;> simp [toStatus, h.cond]
      by_cases hf : p.cond = Cond.false_
      · rw [hf] at hc; simp [hf, condSpec] at hc ⊢
      · simp [hf, condSpec]
    · cases hh : Karp.Spec.PoolHealth.healthOf (s.log ++ [false]) <;> simp [toStatus, h.condGen]
  | noise => exact h
  | resync => simpa [Karp.PoolHealth.step, Karp.Spec.PoolHealth.step, reconcile_idle p s h] using h
  | poolEdit =>
    exact reconcile_reset _ s.log h.tr (by simp [needsReset, h.condGen])
  | classEdit =>
    exact reconcile_reset _ s.log h.tr (by simp [needsReset, h.classObs])
  | restart =>
    have hn : needsReset { p with t := Tracker.new } = false := by
      simp [needsReset, h.present, h.condGen, h.classObs]
    simp only [Karp.PoolHealth.step, Karp.Spec.PoolHealth.step, reconcile, hn]
    have hc := h.cond
    refine ⟨?_, h.present, h.cond, h.condGen, rfl, ?_⟩
    · simp only [hydrate, tracker_new_unknown, h.present, if_true, true_and]
      cases hp : p.cond <;> rw [hp] at hc <;> simp only [condSpec] at hc <;> rw [← hc]
      · simpa using refines_new
      · exact refines_step Tracker.new [] (.set .healthy) refines_new
      · exact refines_step Tracker.new [] (.set .unhealthy) refines_new
    · intro hne
      cases hs : s.cond <;> simp_all
      decide
  | success =>
    have hd := dry_status p.t s.log true h.tr
    simp only [Karp.PoolHealth.step, Karp.Spec.PoolHealth.step, registered, recordSuccess, hd, specHealth_eq]
    refine ⟨refines_insert _ _ _ h.tr, by simp [h.present], ?_, ?_, h.classObs, by simp⟩
    · have hc := h.cond
      cases hh : Karp.Spec.PoolHealth.healthOf (s.log ++ [true]) <;> simp [toStatus, hc] <;> rfl
    · cases hh : Karp.Spec.PoolHealth.healthOf (s.log ++ [true]) <;> simp [toStatus, h.condGen]
  | failure =>
    have hd := dry_status p.t s.log false h.tr
    simp only [Karp.PoolHealth.step, Karp.Spec.PoolHealth.step, Karp.Spec.PoolHealth.recordFailure, timedOut,
      recordFailure, hd, specHealth_eq]
    refine ⟨refines_insert _ _ _ h.tr, by simp [h.present], ?_, ?_, h.classObs, by simp⟩
    · have hc := h.cond
      cases hh : Karp.Spec.PoolHealth.healthOf (s.log ++ [false]) <;> simp [toStatus, h.cond]
      by_cases hf : p.cond = Cond.false_
      · rw [hf] at hc; simp [hf, condSpec] at hc ⊢
      · simp [hf, condSpec]
    · cases hh : Karp.Spec.PoolHealth.healthOf (s.log ++ [false]) <;> simp [toStatus, h.condGen]

theorem pool_observe_eq (p : Pool) (s : SP) (h : PoolRefines p s) :
    Karp.PoolHealth.observe p = Karp.Spec.PoolHealth.observe s := by
  have hc := h.cond
  simp only [Karp.PoolHealth.observe, Karp.Spec.PoolHealth.observe, condCode, h.present,
    C20_status _ _ h.tr, dry_status _ _ _ h.tr, specHealth_eq, healthCode_toStatus]
  congr 1
  cases hp : p.cond <;> rw [hp] at hc <;> simp only [condSpec] at hc <;> rw [← hc] <;> rfl

/-! ### All event sequences -/

/-- **C20_pool_observations** (refinement, all event sequences of any length): the persisted condition,
    the tracker status and both what-if verdicts observed after every event equal what the
    operator-level specification prescribes. -/
theorem C20_pool_observations (es : List Ev) :
    ∀ (p : Pool) (s : SP), PoolRefines p s →
      Karp.PoolHealth.observations p es = Karp.Spec.PoolHealth.observations s es := by
  induction es with
  | nil => intro p s _; rfl
  | cons e es ih =>
    intro p s h
    have hstep := C20_pool_step p s e h
    simp only [Karp.PoolHealth.observations, Karp.Spec.PoolHealth.observations]
    rw [ih _ _ hstep, pool_observe_eq _ _ hstep]

theorem C20_pool_observations_from_start (es : List Ev) :
    Karp.PoolHealth.observations Pool.started es = Karp.Spec.PoolHealth.observations .init es :=
  C20_pool_observations es _ _ started_refines

theorem C20_pool_run (es : List Ev) :
    ∀ (p : Pool) (s : SP), PoolRefines p s →
      PoolRefines (Karp.PoolHealth.run p es) (Karp.Spec.PoolHealth.run s es) := by
  induction es with
  | nil => intro p s h; exact h
  | cons e es ih => intro p s h; exact ih _ _ (C20_pool_step p s e h)

theorem spec_run_edit (es : List Ev) (e : Ev) (he : e = .poolEdit ∨ e = .classEdit) :
    ∀ s0 : SP, Karp.Spec.PoolHealth.run s0 (es ++ [e]) = { cond := .unknown, log := [] } := by
  induction es with
  | nil => intro s0; rcases he with he | he <;> subst he <;> rfl
  | cons x xs ih => intro s0; exact ih _

/-- **C20_pool_edit_forgets** — whatever happened before (any events, in particular outcomes recorded
    while the condition was still Unknown), after a NodePool or NodeClass edit the window is empty and
    the condition Unknown. -/
theorem C20_pool_edit_forgets (es : List Ev) (e : Ev) (he : e = .poolEdit ∨ e = .classEdit) :
    let p := Karp.PoolHealth.run Pool.started (es ++ [e])
    p.t.status = .unknown ∧ condCode p = 0 := by
  intro p
  have h : PoolRefines p (Karp.Spec.PoolHealth.run .init (es ++ [e])) := C20_pool_run _ _ _ started_refines
  rw [spec_run_edit _ e he] at h
  refine ⟨(status_unknown_iff _ _ h.tr).mpr rfl, ?_⟩
  have hc := h.cond
  simp only [condCode, h.present]
  cases hp : p.cond <;> rw [hp] at hc <;> simp [condSpec] at hc ⊢

/-- **C20_pool_outcome_enters_window** — a success or a failure is recorded whatever the condition says
    (in particular a success while it is already True): the window afterwards is the old log plus that
    outcome. -/
theorem C20_pool_outcome_enters_window (p : Pool) (s : SP) (h : PoolRefines p s) :
    Refines (Karp.PoolHealth.step p .success).t (s.log ++ [true]) ∧
    Refines (Karp.PoolHealth.step p .failure).t (s.log ++ [false]) :=
  ⟨(C20_pool_step p s .success h).tr, (C20_pool_step p s .failure h).tr⟩

/-! non-vacuity: concrete scripts through every branch -/
example : Karp.PoolHealth.observations Pool.started [.success, .failure, .success, .success, .success, .failure]
    = [[1,1,1,1],[1,1,1,2],[1,1,1,2],[1,1,1,2],[1,1,1,1],[1,1,1,2]] := by decide
example : Karp.PoolHealth.observations Pool.started [.failure, .classEdit, .failure, .failure, .restart, .success, .poolEdit]
    = [[0,1,1,2],[0,0,1,1],[0,1,1,2],[2,2,2,2],[2,2,2,2],[2,2,2,2],[0,0,1,1]] := by decide
example : Karp.PoolHealth.observe Pool.created = [3,0,1,1] := by decide
/-- the repaired defect (fix: Liveness.Reconcile returns after its launch-timeout branch): one late launch
    failure is one failure -/
example : Karp.PoolHealth.observations Pool.started [.lateFailure] = [[0, 1, 1, 2]] := by decide

end Karp.C20
