/- C13: property theorems (stub, not yet built) -/
namespace Karp.C13
end Karp.C13
