/-
C13 — The launch request carries the scheduler's decision faithfully.

Property theorems only; lemmas are in `Karp/Proofs/ReqSerial.lean`.
Model: `Karp/Model/Req.lean` (`toSelectors` = Requirements.NodeSelectorRequirements, `fromSelectors` =
NewNodeSelectorRequirementsWithMinValues, `anyAllowed` = the relation of Requirement.Any), and
`Karp/Model/Template.lean` (what ToNodeClaim copies from the NodePool template).
-/
import Karp.Proofs.ReqSerial
import Karp.Model.Template

namespace Karp.C13
open Karp.Req Karp.Spec.K8s

/-! ## Requirements: what is written to the API admits exactly what the scheduler holds -/

/-- **C13_roundtrip** — for every well-formed in-memory requirement (every operator combination per key:
    value sets, exclusions, one or two numeric bounds, exclusions together with bounds, minValues), the entries
    written to `NodeClaim.spec.requirements`, parsed back, give a requirement with the same key, the same
    `minValues` floor and exactly the same admitted values. -/
theorem C13_roundtrip (r : Req) (h : r.WF) (hk : normalizeKey r.key = r.key) :
    ∃ r', fromSelectors r.toSelectors = .ok (some r') ∧ r'.key = r.key ∧ r'.minValues = r.minValues ∧
      ∀ v, r'.has v = r.has v :=
  roundtrip r h hk

/-- the written entries, read with *Kubernetes* semantics (not Karpenter's parser), admit exactly the same values -/
theorem C13_written_semantics (r : Req) (h : r.WF) (v : Val) : selHas r.toSelectors v = r.has v :=
  selHas_toSelectors r h v

/-- every written entry carries the requirement's key and `minValues` and has validated operands -/
theorem C13_written_entries_valid (r : Req) (h : r.WF) : ∀ s ∈ r.toSelectors, s.ok r.key r.minValues :=
  toSelectors_ok r h

/-- **C13_any** — the value materialised for a custom label (`Requirement.Any`) is, for every random choice,
    either empty (no label is set) or a value the requirement itself admits; the relation has no panic outcome
    (a panic of the real code is a correspondence failure). -/
theorem C13_any (r : Req) (h : r.WF) (out : Val) (ha : r.anyAllowed out = true) :
    out = "" ∨ r.has out = true :=
  any_sound r h out ha

/-! ## Template: labels, taints, hash come from the NodePool template -/

open Karp.Template in
/-- **C13_template** — the NodeClaim built from a template keeps every template label (NodePool and NodeClass
    labels are template labels) unless a resolved custom label has the same key, carries every resolved custom
    label, copies taints and startup taints, carries the NodePool hash and hash version, and never serialises
    a scheduling-simulation-only requirement key. -/
theorem C13_template (t : Tmpl) (resolved : List (String × String)) :
    (∀ k v, t.labels.lookup k = some v → resolved.lookup k = none → (toNodeClaim t resolved).labels.lookup k = some v) ∧
    (∀ k v, resolved.lookup k = some v → (toNodeClaim t resolved).labels.lookup k = some v) ∧
    (toNodeClaim t resolved).taints = t.taints ∧ (toNodeClaim t resolved).startupTaints = t.startupTaints ∧
    (toNodeClaim t resolved).hash = t.hash ∧ (toNodeClaim t resolved).hashVersion = t.hashVersion ∧
    (∀ k, simulationKeys.contains k = true → ((toNodeClaim t resolved).requirementKeys.contains k) = false) := by
  refine ⟨?_, ?_, rfl, rfl, rfl, rfl, ?_⟩
  · intro k v h1 h2; exact lookup_assign_left _ _ k v h1 h2
  · intro k v h; exact lookup_assign_right _ _ k v h
  · intro k hk; exact filtered_keys t resolved k hk

open Karp.Template in
/-- **C13_resolved_labels_admitted** — every custom label value materialised at NodeClaim creation is admitted by
    the template's own requirement for that key (so the fresh NodeClaim does not contradict its NodePool). -/
theorem C13_resolved_labels_admitted (t : Tmpl) (resolved : List (String × String))
    (hwf : ∀ p ∈ t.reqs, p.2.WF) (hdist : ∀ k r, t.reqs.lookup k = some r → (k, r) ∈ t.reqs)
    (h : resolvedAllowed t resolved = true) :
    ∀ p ∈ resolved, ∃ r, t.reqs.lookup p.1 = some r ∧ r.has p.2 = true := by
  intro p hp
  simp only [resolvedAllowed, Bool.and_eq_true, List.all_eq_true] at h
  have := h.1 p hp
  obtain ⟨k, v⟩ := p
  simp only [Bool.and_eq_true, bne_iff_ne, ne_eq] at this
  obtain ⟨⟨_, hne⟩, hany⟩ := this
  cases hl : t.reqs.lookup k with
  | none => rw [hl] at hany; simp at hany
  | some r =>
    rw [hl] at hany
    refine ⟨r, rfl, ?_⟩
    rcases C13_any r (hwf _ (hdist k r hl)) v hany with h0 | h1
    · exact absurd h0 hne
    · exact h1

/-- the facts the template model relies on -/
theorem fact_simulation_keys :
    Karp.Gen.Template.simulationKeys = [Karp.Gen.Template.initializedLabelKey, Karp.Gen.Template.registeredLabelKey] := by decide
theorem fact_max_instance_types : Karp.Gen.Template.maxInstanceTypes = 600 := by decide

/-! ## The defects that were repaired (machine-checked record)

Before the repairs (commits 31fcbf8b2, 2c7eed267) `NotIn [5] ∩ Gt 2` was written as `Gte 3` only, and
`Any()` panicked on `Lt 0` / could return an excluded value. -/

def witness : Req := { key := "k", complement := true, values := ["5"], gte := some 3 }

/-- the pre-repair serialisation (bounds only) admits "5", which the requirement excludes -/
theorem C13_old_serialisation_drops_exclusion :
    witness.has "5" = false ∧ selHas [{ key := "k", op := .gte, values := ["3"], minValues := none }] "5" = true := by decide

/-! ## Non-vacuity -/

example : witness.WF :=
  ⟨⟨by intro g h; simp [witness] at h; subst h; decide, by intro g h; simp [witness] at h⟩, rfl, by simp [witness]⟩
example : witness.toSelectors.length = 2 := by decide
example : witness.anyAllowed "4" = true ∧ witness.anyAllowed "5" = false ∧ witness.anyAllowed "2" = false := by decide

end Karp.C13
