/- C14: property theorems (stub, not yet built) -/
namespace Karp.C14
end Karp.C14
