/-
C14 — A NodeClaim launches one instance and its lifecycle moves forward.

Property theorems only.  Model: `Karp/Model/Lifecycle.lean` (`Controller.Reconcile` of
`pkg/controllers/nodeclaim/lifecycle`: finalizer patch, launch with the UID-keyed cache, registration,
initialization, liveness, metadata patch, status patch; every API write / provider call an outcome
parameter; a lagging informer cache).  Spec: `Karp/Spec/LifecycleOrder.lean`.  Helper lemmas and the
invariant: `Karp/Proofs/Lifecycle{Lemmas,Inv,Steps,Refine}.lean`.

Every theorem below is over ALL NodeClaim specs, ALL histories (any interleaving of environment events and
reconciles, any length), ALL outcome vectors (`Faults`, `CreateOutcome`) and ALL cache lags (`lag`), for
one controller process (the launch cache is never cleared except by the code itself).
-/
import Karp.Proofs.LifecycleRefine

set_option linter.unusedSimpArgs false
set_option linter.unusedVariables false
namespace Karp.C14
open Karp.Lifecycle Karp.Spec.LifecycleOrder

/-! ## Fact expectations over the regenerated source facts -/

/-- `Controller.Reconcile` runs launch, registration, initialization, liveness — in that order, over one object -/
theorem fact_sub_reconcilers :
    Karp.Gen.Lifecycle.subReconcilers = ["launch", "registration", "initialization", "liveness"] := by decide

/-- in `Controller.Reconcile`: deletion path first; `AddFinalizer` and its `Patch` precede the sub-reconcilers; the
    metadata `Patch` and the `Status().Patch` follow them; the read-your-writes sleep is last -/
theorem fact_reconcile_call_order :
    Karp.Gen.Lifecycle.reconcileCallOrder =
      ["finalize", "AddFinalizer", "Patch", "Reconcile", "Patch", "Patch", "Status", "Sleep"] := by decide

/-- in `Launch.Reconcile`: the cache is consulted before `launchNodeClaim` (the only caller of provider `Create`),
    the cache is filled before `Launched` is set true -/
theorem fact_launch_call_order :
    Karp.Gen.Lifecycle.launchCallOrder =
      ["cache.Delete", "cache.Get", "launchNodeClaim", "cache.SetDefault", "PopulateNodeClaimDetails", "SetTrue"] := by decide

/-- in `launchNodeClaim`: one `Create`; each capacity-error class is followed by a `Delete`; `Launched` is never
    set true there -/
theorem fact_launchNodeClaim_call_order :
    Karp.Gen.Lifecycle.launchNodeClaimCallOrder =
      ["Create", "IsInsufficientCapacityError", "Delete", "IsNodeClassNotReadyError", "Delete",
       "SetUnknownWithReason", "SetUnknownWithReason"] := by decide

/-- in `Registration.Reconcile`: node lookup, sync, node `Patch`, only then `Registered = True` -/
theorem fact_registration_call_order :
    Karp.Gen.Lifecycle.registrationCallOrder =
      ["NodeForNodeClaim", "SetFalse", "syncNode", "syncNode", "Patch", "SetTrue"] := by decide

/-- in `Initialization.Reconcile`: Registered, node lookup, Ready, startup taints, ephemeral taints, resources
    (and DRA pools), the label `Patch`, only then `Initialized = True` -/
theorem fact_initialization_call_order :
    Karp.Gen.Lifecycle.initializationCallOrder =
      ["IsTrue", "NodeForNodeClaim", "GetCondition", "StartupTaintsRemoved", "KnownEphemeralTaintsRemoved",
       "RequestedResourcesRegistered", "draDriverPoolsPublished", "Patch", "SetTrue"] := by decide

/-- the only guard on a Node condition in `Initialization.Reconcile` holds the NodeClaim back unless the `Ready`
    condition's status IS `True` (so `Unknown`, `False` and a missing condition — status "" — all block): the
    model's `Node.ready` -/
theorem fact_ready_gate : Karp.Gen.Lifecycle.initConditionGates = [("Ready", "!=", "True")] := by decide

/-- in `Registration.Reconcile` taints are told apart by `MatchTaint` (key and effect; the model's `Taint.matches`):
    once to look for the unregistered taint, once inside the `Reject` that removes it; no whole-struct comparison
    (which would also compare value and `timeAdded`) -/
theorem fact_registration_taint_identity :
    Karp.Gen.Lifecycle.registrationTaintCalls = ["MatchTaint", "Reject", "MatchTaint"] := by decide

/-- the model's unregistered taint is the documented one -/
theorem fact_unregistered_taint : Karp.Lifecycle.unregistered = unregisteredTaint := unregistered_eq

/-- the code's table of known ephemeral taints is the documented one (keys and effects) -/
theorem fact_ephemeral_taints :
    Karp.Gen.Lifecycle.knownEphemeralTaints = ephemeralTaints.map (fun e => (e.key, e.effect)) ∧
    Karp.Gen.Lifecycle.knownEphemeralTaintKeyPrefixes = ephemeralPrefixes := ⟨ephemeral_table, ephemeral_prefixes⟩

/-- hence the code's `IsKnownEphemeralTaint` is the specification's `isEphemeral`, for every taint -/
theorem fact_ephemeral_predicate (t : Taint) : isKnownEphemeral t = isEphemeral t := isKnownEphemeral_eq t

/-- the launch cache entry (refreshed by every reconcile that uses it) outlives the liveness deadlines after which
    a NodeClaim that is not Launched / Registered is deleted: the TTL of the cache, which the model does not
    represent, cannot expire on a NodeClaim that is still being reconciled -/
theorem fact_cache_outlives_liveness :
    Karp.Gen.Lifecycle.launchTimeoutSecs ≤ Karp.Gen.Lifecycle.registrationTimeoutSecs ∧
    Karp.Gen.Lifecycle.registrationTimeoutSecs < Karp.Gen.Lifecycle.launchCacheTTLSecs := by decide

theorem fact_names :
    Karp.Gen.Lifecycle.terminationFinalizer = "karpenter.sh/termination" ∧
    Karp.Gen.Lifecycle.nodeRegisteredLabelKey = "karpenter.sh/registered" ∧
    Karp.Gen.Lifecycle.nodeInitializedLabelKey = "karpenter.sh/initialized" ∧
    Karp.Gen.Lifecycle.condLaunched = "Launched" ∧ Karp.Gen.Lifecycle.condRegistered = "Registered" ∧
    Karp.Gen.Lifecycle.condInitialized = "Initialized" ∧
    Karp.Gen.Lifecycle.unregisteredTaintKey = unregisteredTaint.key := by decide

/-! ## The invariant holds along every history -/

theorem inv_history (sp : Spec) (fin : Bool) (steps : List Step) : Inv (run sp (World.init fin) steps) :=
  inv_run sp steps (inv_init fin)

/-! ## 1. At most one successful provider `Create` -/

/-- **C14_create_once** — after any history (status writes failing anywhere, any cache lag, any provider
    outcomes) the provider has created at most one instance for the NodeClaim. -/
theorem C14_create_once (sp : Spec) (fin : Bool) (steps : List Step) :
    (run sp (World.init fin) steps).instances ≤ 1 :=
  (inv_history sp fin steps).once

/-- the instance counter is exactly the number of successful `Create` calls in the call log, and one reconcile
    asks the provider at most once (no invariant needed) -/
theorem C14_create_calls (sp : Spec) (w : World) (s : Step) :
    (creates (step sp w s).2.calls).length ≤ 1 ∧
    (step sp w s).1.instances = w.instances + Karp.Lifecycle.okCreates (step sp w s).2.calls := by
  cases s with
  | env e => simp [step, creates, Karp.Lifecycle.okCreates, (applyEnv_facts w e).2.1]
  | reconcile lag co f fin =>
    simp only [step]
    split; · simp [creates, Karp.Lifecycle.okCreates]
    split; · simp [creates, Karp.Lifecycle.okCreates, finalizeStep]
    exact reconcileLive_creates sp f co w _

/-- successful `Create` calls over a whole history -/
def totalOkCreates (sp : Spec) : World → List Step → Nat
  | _, [] => 0
  | w, s :: ss => Karp.Lifecycle.okCreates (step sp w s).2.calls + totalOkCreates sp (step sp w s).1 ss

theorem instances_run (sp : Spec) (steps : List Step) : ∀ w : World,
    (run sp w steps).instances = w.instances + totalOkCreates sp w steps := by
  induction steps with
  | nil => intro w; simp [run, totalOkCreates]
  | cons s ss ih =>
    intro w
    simp only [run, totalOkCreates]
    rw [ih, (C14_create_calls sp w s).2]; omega

/-- **C14_create_once_calls** — the same, stated on the call log alone: over any history the controller receives
    at most one successful answer from provider `Create`. -/
theorem C14_create_once_calls (sp : Spec) (fin : Bool) (steps : List Step) :
    totalOkCreates sp (World.init fin) steps ≤ 1 := by
  have h := C14_create_once sp fin steps
  rw [instances_run] at h
  simp [World.init] at h
  exact h

/-! ## 2. Never before the finalizer -/

/-- **C14_finalizer_first** — whenever a reconcile calls provider `Create` (whatever the answer), the API server's
    copy of the NodeClaim carries the termination finalizer: the copy the reconcile was handed already had it, or
    the reconcile's first call was the finalizer patch and it succeeded. -/
theorem C14_finalizer_first (sp : Spec) (fin : Bool) (steps : List Step) (s : Step) :
    let w := run sp (World.init fin) steps
    ∀ c ∈ (step sp w s).2.calls, c.site = .create →
      (step sp w s).1.claim.finalizer = true ∧ (step sp w s).1.finEver = true ∧
      ((step sp w s).2.view.finalizer = true ∨ (step sp w s).2.calls.head? = some ⟨.finPatch, .ok⟩) := by
  intro w c hc hsite
  have h : Inv w := inv_history sp fin steps
  cases s with
  | env e => simp [step] at hc
  | reconcile lag co f fo =>
    simp only [step] at hc ⊢
    split at hc; · simp at hc
    split at hc; · simp at hc
    rename_i h1 h2
    simp only [h1, h2]
    have hv : pickView w lag ∈ w.versions := (keptVersions_sublist w lag).subset (pickView_mem w lag)
    exact reconcileLive_finalizer sp f co h (pickView w lag) hv c hc hsite

/-! ## 3. Launched, Registered, Initialized: order and observable preconditions -/

/-- **C14_order** — in every copy of the NodeClaim that exists on the API server or in a lagging cache, at any
    point of any history: Initialized ⇒ Registered ⇒ Launched ⇒ the provider id is recorded and an instance was
    created. -/
theorem C14_order (sp : Spec) (fin : Bool) (steps : List Step) :
    ∀ v ∈ (run sp (World.init fin) steps).versions,
      (v.conds.i.status = .true_ → v.conds.r.status = .true_) ∧
      (v.conds.r.status = .true_ → v.conds.l.status = .true_) ∧
      (v.conds.l.status = .true_ → v.providerID = true ∧ 1 ≤ (run sp (World.init fin) steps).instances) := by
  intro v hv
  have h := inv_history sp fin steps
  have hk := h.vok v hv
  exact ⟨hk.ir, hk.rl, fun hl => ⟨hk.lp hl, h.linst v hv hl⟩⟩

/-- in the specification's own words: the persisted status is `ordered` after every history -/
theorem C14_order_spec (sp : Spec) (fin : Bool) (steps : List Step) :
    let w := run sp (World.init fin) steps
    ordered { prev := w.claim, created := w.instances, finEver := w.finEver } { claim := w.claim } = true := by
  intro w
  have h := C14_order sp fin steps w.claim (claim_mem_versions _)
  unfold ordered Karp.Spec.LifecycleOrder.okCreates Karp.Spec.LifecycleOrder.isTrue
  simp only [List.filter_nil, List.length_nil, Nat.add_zero]
  cases hp : w.claim.present <;> simp
  refine ⟨⟨?_, ?_⟩, ?_⟩
  · cases hi : w.claim.conds.i.status <;> simp
    exact h.1 hi
  · cases hr : w.claim.conds.r.status <;> simp
    exact h.2.1 hr
  · cases hl : w.claim.conds.l.status <;> simp
    exact h.2.2 hl

/-- **C14_registered_pre** — along any history, whenever Registered becomes true on the API server it is a
    reconcile that wrote it, and then exactly one Node carries the instance's provider id, it has the registered
    label and no unregistered taint, and it is synced (termination finalizer, owner reference, the NodeClaim's and
    the provider's labels, the NodeClaim's taints and startup taints unless `do-not-sync-taints`) — or the
    reconcile was handed a stale copy that already said Registered (cache lag re-asserting an old status).
    Hypothesis: the NodeClaim does not itself list the unregistered taint among its taints. -/
theorem C14_registered_pre (sp : Spec) (fin : Bool) (steps : List Step) (s : Step)
    (h1 : cleanTaints sp.taints) (h2 : cleanTaints sp.startup) :
    let w := run sp (World.init fin) steps
    (step sp w s).1.claim.conds.r.status = .true_ → w.claim.conds.r.status ≠ .true_ →
      (step sp w s).2.isRec = true ∧
      ((step sp w s).2.view.conds.r.status = .true_ ∨ registeredPre sp (step sp w s).1.nodes = true) :=
  (step_flips sp (inv_history sp fin steps) s h1 h2).1

/-- **C14_initialized_pre** — likewise for Initialized: exactly one Node, Ready, none of the NodeClaim's startup
    taints, no known ephemeral taint, the requested extended resource reported. -/
theorem C14_initialized_pre (sp : Spec) (fin : Bool) (steps : List Step) (s : Step)
    (h1 : cleanTaints sp.taints) (h2 : cleanTaints sp.startup) :
    let w := run sp (World.init fin) steps
    (step sp w s).1.claim.conds.i.status = .true_ → w.claim.conds.i.status ≠ .true_ →
      (step sp w s).2.isRec = true ∧
      ((step sp w s).2.view.conds.i.status = .true_ ∨ initializedPre sp (step sp w s).1.nodes = true) :=
  (step_flips sp (inv_history sp fin steps) s h1 h2).2

/-- with an up-to-date copy the stale-copy alternative is impossible: the precondition holds outright -/
theorem C14_registered_pre_fresh (sp : Spec) (fin : Bool) (steps : List Step) (s : Step)
    (h1 : cleanTaints sp.taints) (h2 : cleanTaints sp.startup) :
    let w := run sp (World.init fin) steps
    (step sp w s).2.view = w.claim →
    (step sp w s).1.claim.conds.r.status = .true_ → w.claim.conds.r.status ≠ .true_ →
      registeredPre sp (step sp w s).1.nodes = true := by
  intro w hfresh a b
  rcases (C14_registered_pre sp fin steps s h1 h2 a b).2 with h | h
  · rw [hfresh] at h; exact absurd h b
  · exact h

theorem C14_initialized_pre_fresh (sp : Spec) (fin : Bool) (steps : List Step) (s : Step)
    (h1 : cleanTaints sp.taints) (h2 : cleanTaints sp.startup) :
    let w := run sp (World.init fin) steps
    (step sp w s).2.view = w.claim →
    (step sp w s).1.claim.conds.i.status = .true_ → w.claim.conds.i.status ≠ .true_ →
      initializedPre sp (step sp w s).1.nodes = true := by
  intro w hfresh a b
  rcases (C14_initialized_pre sp fin steps s h1 h2 a b).2 with h | h
  · rw [hfresh] at h; exact absurd h b
  · exact h

/-- **C14_registered_taint_gone** — the unregistered taint is identified by key and effect: whatever value
    (`--register-with-taints=karpenter.sh/unregistered=true:NoExecute`) or `timeAdded` stamp it carried when the Node
    joined, when Registered becomes true (reconcile on the current copy) exactly one Node carries the provider id, it
    has the registered label, and NO taint with that key and effect is left on it. -/
theorem C14_registered_taint_gone (sp : Spec) (fin : Bool) (steps : List Step) (s : Step)
    (h1 : cleanTaints sp.taints) (h2 : cleanTaints sp.startup) :
    let w := run sp (World.init fin) steps
    (step sp w s).2.view = w.claim →
    (step sp w s).1.claim.conds.r.status = .true_ → w.claim.conds.r.status ≠ .true_ →
      ∃ n, (step sp w s).1.nodes = [n] ∧ n.regLabel = true ∧
        ∀ t ∈ n.taints, ¬(t.key = "karpenter.sh/unregistered" ∧ t.effect = "NoExecute") := by
  intro w hfresh a b
  exact registeredPre_elim (C14_registered_pre_fresh sp fin steps s h1 h2 hfresh a b)

/-- **C14_initialized_ready_true** — Ready is tri-state and may be missing: when Initialized becomes true (reconcile on
    the current copy) the single Node's Ready condition is there and says `True` — not `Unknown`, not `False`, not
    "never posted" —, no taint on it has the key and effect of one of the NodeClaim's startup taints (whatever its
    value / stamp), no taint on it is a known ephemeral one, and a requested extended resource is reported. -/
theorem C14_initialized_ready_true (sp : Spec) (fin : Bool) (steps : List Step) (s : Step)
    (h1 : cleanTaints sp.taints) (h2 : cleanTaints sp.startup) :
    let w := run sp (World.init fin) steps
    (step sp w s).2.view = w.claim →
    (step sp w s).1.claim.conds.i.status = .true_ → w.claim.conds.i.status ≠ .true_ →
      ∃ n, (step sp w s).1.nodes = [n] ∧ n.readyCond = .true_ ∧
        (∀ st ∈ sp.startup, ∀ t ∈ n.taints, ¬(t.key = st.key ∧ t.effect = st.effect)) ∧
        (∀ t ∈ n.taints, isEphemeral t = false) ∧ (sp.wantsRes = true → n.resOK = true) := by
  intro w hfresh a b
  exact initializedPre_elim (C14_initialized_pre_fresh sp fin steps s h1 h2 hfresh a b)

/-- **C14_gate_unregistered** — the write registration makes: no taint that `MatchTaint`es the unregistered taint
    survives `registerNode`, for every Node (any value, any `timeAdded` on its taints). -/
theorem C14_gate_unregistered (sp : Spec) (m : Claim) (n : Node) :
    ∀ t ∈ (registerNode sp m n).taints, t.matches Karp.Lifecycle.unregistered = false :=
  registerNode_unregistered_gone sp m n

/-- **C14_gate_ready** — the Ready gate of initialization: with a Ready condition that is anything but `True`
    (`Unknown`, `False`, absent) initialization writes nothing, labels nothing, and leaves Initialized Unknown with
    reason `NodeNotReady` — whatever else the Node looks like. -/
theorem C14_gate_ready (sp : Spec) (f : Faults) (c : Ctx) (n : Node)
    (hi : c.mem.conds.i.status = .unknown) (hr : c.mem.conds.r.status = .true_) (hp : c.mem.providerID = true)
    (hl : f.nodeList = false) (hn : c.w.nodes = [n]) (hrc : n.readyCond ≠ .true_) :
    (initialization sp f c).calls = c.calls ∧ (initialization sp f c).w = c.w ∧
    (initialization sp f c).mem.conds.i.status = .unknown ∧
    (initialization sp f c).mem.conds.i.reason = .nodeNotReady :=
  initialization_not_ready sp f c n hi hr hp hl hn hrc

/-- `MatchTaint` (the model's, and the specification's "same taint") does not see value or `timeAdded` -/
theorem C14_taint_identity (a b : Taint) (v v' s s' : String) :
    ({ a with value := v, stamp := s } : Taint).matches { b with value := v', stamp := s' } = a.matches b ∧
    a.matches b = sameTaint a b := ⟨rfl, rfl⟩

/-! ## The lifecycle moves forward -/

/-- **C14_forward** — along any history: a NodeClaim that is terminating or gone stays so, and a step that is
    not a reconcile on a stale copy (an environment event, or a reconcile handed the API server's current copy)
    never makes a true condition untrue. -/
theorem C14_forward (sp : Spec) (fin : Bool) (steps : List Step) (s : Step) :
    let w := run sp (World.init fin) steps
    Later w.claim (step sp w s).1.claim ∧
    (((step sp w s).2.isRec = false ∨ (step sp w s).2.view = w.claim) →
      (w.claim.conds.l.status = .true_ → (step sp w s).1.claim.conds.l.status = .true_) ∧
      (w.claim.conds.r.status = .true_ → (step sp w s).1.claim.conds.r.status = .true_) ∧
      (w.claim.conds.i.status = .true_ → (step sp w s).1.claim.conds.i.status = .true_)) := by
  intro w
  have h : Inv w := inv_history sp fin steps
  refine ⟨step_later sp w s, ?_⟩
  cases s with
  | env e =>
    intro _
    simp only [step]
    rw [(applyEnv_facts w e).2.2.2.1]
    exact ⟨id, id, id⟩
  | reconcile lag co f fo =>
    simp only [step]
    split
    · intro _; exact ⟨id, id, id⟩
    split
    · have : (finalizeStep w fo).claim.conds = w.claim.conds := by unfold finalizeStep; simp only []; split <;> rfl
      intro _
      simp only []
      rw [this]
      exact ⟨id, id, id⟩
    · simp only []
      intro hfresh
      have hfresh : pickView w lag = w.claim := by
        rcases hfresh with h' | h'
        · simp at h'
        · exact h'
      rw [hfresh]
      exact reconcileLive_forward sp f co h

/-- `Launched` is never undone, lag or not: an older copy that says Launched implies every newer one does -/
theorem C14_launched_monotone (sp : Spec) (fin : Bool) (steps : List Step) :
    LSorted (run sp (World.init fin) steps).versions :=
  (inv_history sp fin steps).sorted

/-! ## 4. Capacity errors delete the NodeClaim -/

/-- **C14_capacity_error** — along any history, when a reconcile reaches provider `Create` and the answer is
    `InsufficientCapacity` or `NodeClassNotReady`: the very next call is a `Delete` of the NodeClaim; no instance
    is counted; `Launched` does not become true; if the delete succeeds the NodeClaim is terminating or gone
    afterwards; if it fails (other than NotFound) the reconcile returns an error — so that it runs again — unless an
    API write of the same reconcile answered NotFound (the object no longer exists). -/
theorem C14_capacity_error (sp : Spec) (fin : Bool) (steps : List Step)
    (lag : Nat) (co : CreateOutcome) (f : Faults) (fo : FinalizeOut) (hco : co = .ice ∨ co = .ncnr) :
    let w := run sp (World.init fin) steps
    let p := step sp w (.reconcile lag co f fo)
    (⟨.create, co.toOutcome⟩ : Call) ∈ p.2.calls →
      capacityCalls p.2.calls = true ∧
      p.1.instances = w.instances ∧
      (p.1.claim.conds.l.status = .true_ → w.claim.conds.l.status = .true_) ∧
      ∃ d, (⟨.claimDelete, d⟩ : Call) ∈ p.2.calls ∧
        (d = .ok → p.1.claim.gone) ∧
        (d ≠ .ok → d ≠ .notFound → p.2.result = .err ∨ ∃ x ∈ p.2.calls, x.out = .notFound) := by
  intro w p
  show (⟨.create, co.toOutcome⟩ : Call) ∈ (step sp w (.reconcile lag co f fo)).2.calls →
    capacityCalls (step sp w (.reconcile lag co f fo)).2.calls = true ∧
    (step sp w (.reconcile lag co f fo)).1.instances = w.instances ∧
    ((step sp w (.reconcile lag co f fo)).1.claim.conds.l.status = .true_ → w.claim.conds.l.status = .true_) ∧
    ∃ d, (⟨.claimDelete, d⟩ : Call) ∈ (step sp w (.reconcile lag co f fo)).2.calls ∧
      (d = .ok → (step sp w (.reconcile lag co f fo)).1.claim.gone) ∧
      (d ≠ .ok → d ≠ .notFound → (step sp w (.reconcile lag co f fo)).2.result = .err ∨
        ∃ x ∈ (step sp w (.reconcile lag co f fo)).2.calls, x.out = .notFound)
  simp only [step]
  split; · intro hreach; simp at hreach
  split; · intro hreach; simp at hreach
  simp only []
  intro hreach
  exact reconcileLive_capacity sp f co hco w (pickView w lag) hreach

/-- **C14_terminating_never_launched** — a reconcile that is handed a terminating (or already removed) copy makes
    no provider call at all and creates nothing: once the delete after a capacity error (or any other delete) is
    visible to the controller, it never launches that NodeClaim.  (The deletion path `finalize` is C09's subject;
    that it contains no `Create` is checked against the real code on every deletion-path reconcile of the sweep.) -/
theorem C14_terminating_never_launched (sp : Spec) (w : World) (lag : Nat) (co : CreateOutcome) (f : Faults)
    (fo : FinalizeOut) (hv : (pickView w lag).deleting = true ∨ (pickView w lag).present = false) :
    (step sp w (.reconcile lag co f fo)).2.calls = [] ∧
    (step sp w (.reconcile lag co f fo)).1.instances = w.instances ∧
    (step sp w (.reconcile lag co f fo)).1.claim.conds = w.claim.conds := by
  simp only [step]
  split; · simp
  split
  · simp [finalizeStep]; split <;> rfl
  · rename_i h1 h2
    rcases hv with hv | hv
    · exact absurd hv h2
    · simp [hv] at h1

/-! ## 5. Deadlines: an overdue NodeClaim is deleted, whatever became of its NodePool -/

/-- the specification's deadlines are the code's -/
theorem fact_deadlines :
    Karp.Gen.Lifecycle.launchTimeoutSecs = launchDeadlineSecs ∧
    Karp.Gen.Lifecycle.registrationTimeoutSecs = registrationDeadlineSecs := by decide

/-- in `Liveness.Reconcile`, for each of the two deadlines: the NodePool bookkeeping, its error filtered through
    `IgnoreNotFound` (a NodePool that is gone does not count) and `IsConflict`, then the delete (whose NotFound is
    ignored as well) -/
theorem fact_liveness_call_order :
    Karp.Gen.Lifecycle.livenessCallOrder =
      ["updateNodePoolRegistrationHealth", "IgnoreNotFound", "IsConflict", "deleteNodeClaimForTimeout", "IgnoreNotFound",
       "updateNodePoolRegistrationHealth", "IgnoreNotFound", "IsConflict", "deleteNodeClaimForTimeout", "IgnoreNotFound"] := by decide

/-- `updateNodePoolRegistrationHealth` (liveness and registration) hands the error of the NodePool read to its caller as
    it is: no `fmt.Errorf` / `errors.New` / `multierr` on the way that could hide its NotFound status -/
theorem fact_pool_error_passed_on :
    Karp.Gen.Lifecycle.livenessPoolHealthErrorCalls = [] ∧ Karp.Gen.Lifecycle.registrationPoolHealthErrorCalls = [] := by decide

/-- `syncNode` opts a Node out of taint syncing only for the exact label value `"true"` -/
theorem fact_do_not_sync_gate :
    Karp.Gen.Lifecycle.doNotSyncComparisons = [("NodeDoNotSyncTaintsLabelKey", "!=", "true")] := by decide

/-- a NodePool that is gone (the read answers NotFound) lets the timeout proceed, exactly as a NodePool that is there
    or a NodeClaim that names none; only a conflict / another error holds it back -/
theorem C14_pool_verdicts :
    PoolGet.unlabelled.verdict = .proceed ∧ PoolGet.ok.verdict = .proceed ∧ (PoolGet.err .notFound).verdict = .proceed ∧
    (PoolGet.err .conflict).verdict = .requeue ∧ (PoolGet.err .other).verdict = .fail := ⟨rfl, rfl, rfl, rfl, rfl⟩

/-- past a deadline, as `Liveness.Reconcile` sees the in-memory NodeClaim -/
def Overdue (c : Ctx) : Prop :=
  c.mem.conds.r.status ≠ .true_ ∧
  ((c.mem.conds.l.status ≠ .true_ ∧ Karp.Gen.Lifecycle.launchTimeoutSecs ≤ c.w.now - c.mem.conds.l.ltt) ∨
   (c.mem.conds.l.status = .true_ ∧ Karp.Gen.Lifecycle.registrationTimeoutSecs ≤ c.w.now - c.mem.conds.r.ltt))

theorem liveness_overdue (f : Faults) (c : Ctx) (h : Overdue c) : liveness f c = timeoutDelete f c := by
  obtain ⟨hr, ⟨hl, hd⟩ | ⟨hl, hd⟩⟩ := h
  · have hn : ¬ (c.w.now - c.mem.conds.l.ltt < Karp.Gen.Lifecycle.launchTimeoutSecs) := by omega
    unfold liveness livenessLaunch
    simp [hr, hl, hn]
  · have hn : ¬ (c.w.now - c.mem.conds.r.ltt < Karp.Gen.Lifecycle.registrationTimeoutSecs) := by omega
    unfold liveness livenessLaunch
    simp [hr, hl, hn]

/-- **C14_timeout_deletes** — for ALL in-flight states of a reconcile and ALL outcome vectors: when liveness finds the
    NodeClaim past its launch or registration deadline and the NodePool read did not fail (no NodePool named, NodePool
    there, or NodePool GONE), the next API write is the delete of the NodeClaim — nothing is written in between — and
    if the API server accepts it the NodeClaim is terminating or gone. -/
theorem C14_timeout_deletes (f : Faults) (c : Ctx) (h : Overdue c) (hp : f.poolGet.verdict = .proceed) :
    (liveness f c).calls = c.calls ++ poolCalls f ++ [⟨.claimDelete, claimDeleteOutcome f c.w⟩] ∧
    (claimDeleteOutcome f c.w = .ok → (liveness f c).w.claim = c.w.claim.deleted) ∧
    (claimDeleteOutcome f c.w ≠ .ok → claimDeleteOutcome f c.w ≠ .notFound → (liveness f c).errs = true) := by
  rw [liveness_overdue f c h]
  have hv : (poolHealth f c).2 = .proceed := by unfold poolHealth; simp only [hp]
  unfold timeoutDelete
  simp only [hv, ne_eq, not_true_eq_false, if_false]
  refine ⟨?_, ?_, ?_⟩
  · split <;> simp
  · intro hok
    simp [hok, deleteClaim]
  · intro h1 h2
    simp [h1, h2]

/-- in particular for an orphaned NodeClaim (its NodePool was deleted): the delete is in the call log -/
theorem C14_timeout_deletes_orphan (f : Faults) (c : Ctx) (h : Overdue c) (hp : f.poolGet = .err .notFound) :
    (⟨.claimDelete, claimDeleteOutcome f c.w⟩ : Call) ∈ (liveness f c).calls := by
  rw [(C14_timeout_deletes f c h (by rw [hp]; rfl)).1]
  simp

/-- **C14_timeout_held_back** — the only thing that puts the delete off is a NodePool read that failed with something
    other than NotFound: then nothing is deleted or changed, and the reconcile comes back (an error, or a requeue). -/
theorem C14_timeout_held_back (f : Faults) (c : Ctx) (h : Overdue c) (hp : f.poolGet.verdict ≠ .proceed) :
    (liveness f c).w = c.w ∧ (liveness f c).calls = c.calls ++ poolCalls f ∧
    ((liveness f c).errs = true ∨ (liveness f c).results = c.results ++ [0]) := by
  rw [liveness_overdue f c h]
  have hv : (poolHealth f c).2 = f.poolGet.verdict := by unfold poolHealth; simp only []; split <;> simp_all
  unfold timeoutDelete
  simp only [hv, ne_eq, hp, not_false_eq_true, if_true]
  refine ⟨by simp, by simp, ?_⟩
  unfold poolHealth
  simp only []
  split
  · rename_i hx; exact absurd hx hp
  · right; simp
  · left; simp

/-! ## 6. The model meets the executable specification -/

/-- **C14_model_meets_spec** — the specification `historyOK` of `Karp/Spec/LifecycleOrder.lean` — the same Boolean
    function the harness evaluates on what the REAL controller did (create-once, finalizer-first, order, observable
    preconditions, forward, capacity errors delete, no launch when terminating) — holds of what the harness would
    record of the model, for every NodeClaim spec (not listing the unregistered taint itself), every history, every
    outcome vector and every cache lag. -/
theorem C14_model_meets_spec (sp : Spec) (fin : Bool) (steps : List Step)
    (h1 : cleanTaints sp.taints) (h2 : cleanTaints sp.startup) :
    historyOK sp { prev := (World.init fin).claim, finEver := fin } (modelHistory sp (World.init fin) steps) = true :=
  historyOK_model sp h1 h2 steps (inv_init fin)

/-! ## Non-vacuity: concrete histories that exercise the hypotheses and every clause -/

/-! ## `truncateMessage`: the provider's error text on its way into an event / the `LaunchFailed` message

The capacity-error path publishes an event built from the provider's text BEFORE it deletes the NodeClaim, and the
generic path puts the text into the `LaunchFailed` message: the function in between must answer for EVERY text
(in Lean: it is a total function), measuring and cutting in the same unit (bytes). -/

theorem fact_truncate_bytes :
    Karp.Gen.Lifecycle.truncateGuards = [("msg", "<", Karp.Gen.Lifecycle.truncateLimit)] ∧
    Karp.Gen.Lifecycle.truncateSlices = [("msg", 0, Karp.Gen.Lifecycle.truncateLimit)] := by decide

theorem C14_truncate_len (ws : List Nat) : truncateMessageBytes ws = truncatedLen (textBytes ws) := by
  unfold truncateMessageBytes truncateMessage truncatedLen
  split
  · simp
  · rename_i h
    have := cutBytes_exact ws Karp.Gen.Lifecycle.truncateLimit (by omega)
    simp only [] at this ⊢
    simp
    omega

theorem C14_truncate_bound (ws : List Nat) : truncateMessageBytes ws ≤ Karp.Gen.Lifecycle.truncateLimit + 3 := by
  rw [C14_truncate_len]; unfold truncatedLen; split <;> omega

theorem C14_truncate_short (ws : List Nat) (h : textBytes ws < Karp.Gen.Lifecycle.truncateLimit) :
    truncateMessage ws = (ws, 0, false) := by
  unfold truncateMessage; simp [h]

theorem C14_truncate_prefix (ws : List Nat) : (truncateMessage ws).1 <+: ws := by
  unfold truncateMessage
  split
  · simp
  · exact cutBytes_prefix ws _

example : truncateMessage (List.replicate 120 3) = (List.replicate 100 3, 0, true) := by decide
example : truncatedLen 360 = 303 ∧ truncatedLen 300 = 303 ∧ truncatedLen 299 = 299 := by decide
/-- a cut inside a character: two whole characters kept, one byte of the third left dangling -/
example : cutBytes 7 [3, 3, 3] = ([3, 3], 1) := by decide

section examples

/-- a NodeClaim with one startup taint, one taint, an extended resource request -/
def spec1 : Spec := { startup := [{ key := "example.com/startup", effect := "NoSchedule" }], taints := [{ key := "example.com/dedicated", effect := "NoSchedule" }], wantsRes := true }

def node1 : Node := { taints := [unregistered, { key := "node.kubernetes.io/not-ready", effect := "NoSchedule" }] }

def recon (lag : Nat := 0) (co : CreateOutcome := .ok) (f : Faults := {}) : Step := .reconcile lag co f {}

/-- launch with a failing status patch, retry on a lagging copy (cache hit), the node appears, becomes ready
    piece by piece -/
def happy : List Step := [
  recon 0 .ok { statusPatch := some .other },   -- instance created, status write fails
  recon 3,                                      -- retry on a lagging copy: the cache bridges
  .env (.nodeAppear node1), recon,
  .env (.setReady .true_), recon,
  .env (.rmTaint { key := "node.kubernetes.io/not-ready", effect := "NoSchedule" }), recon,
  .env (.rmTaint { key := "example.com/startup", effect := "NoSchedule" }), recon,
  .env (.setRes true), recon]

example : (run spec1 (World.init false) happy).instances = 1 := by decide
example : totalOkCreates spec1 (World.init false) happy = 1 := by decide
example : (run spec1 (World.init false) happy).claim.conds.i.status = .true_ := by decide
example : (run spec1 (World.init false) happy).cache = false := by decide
example : initializedPre spec1 (run spec1 (World.init false) happy).nodes = true := by decide
/-- Registered becomes true in the fourth step, under its precondition (which later stops holding: the startup
    taint is removed on purpose) -/
example : (run spec1 (World.init false) (happy.take 3)).claim.conds.r.status = .unknown ∧
    (run spec1 (World.init false) (happy.take 4)).claim.conds.r.status = .true_ ∧
    registeredPre spec1 (run spec1 (World.init false) (happy.take 4)).nodes = true ∧
    registeredPre spec1 (run spec1 (World.init false) happy).nodes = false := by decide
example : Karp.Lifecycle.unregistered ∉ spec1.taints ∧ Karp.Lifecycle.unregistered ∉ spec1.startup := by decide

/-- the recorded history of the model is not empty talk: the judge sees the Create, the delete, the flips -/
example : (modelHistory spec1 (World.init false) happy).length = 12 ∧
    ((modelHistory spec1 (World.init false) happy).map (fun o => o.creates.length)).sum = 1 ∧
    historyOK spec1 { prev := (World.init false).claim, finEver := false } (modelHistory spec1 (World.init false) happy) = true := by
  decide

/-- ... and the judge does reject: the same history with a second instance forged into the record -/
example : historyOK spec1 { prev := (World.init false).claim, finEver := false }
    ((modelHistory spec1 (World.init false) happy).map (fun o => { o with creates := [⟨true, true, true⟩] })) = false := by
  decide

/-- the first reconcile calls Create right after its own successful finalizer patch -/
example : (step spec1 (World.init false) (recon)).2.calls.head? = some ⟨.finPatch, .ok⟩ ∧
    (⟨.create, .ok⟩ : Call) ∈ (step spec1 (World.init false) (recon)).2.calls := by decide

/-- a capacity error: Create, Delete, terminating, and the next reconcile makes no call -/
example : (step spec1 (World.init false) (recon 0 .ice)).2.calls =
    [⟨.finPatch, .ok⟩, ⟨.create, .ice⟩, ⟨.claimDelete, .ok⟩, ⟨.metaPatch, .ok⟩, ⟨.statusPatch, .ok⟩] ∧
    (step spec1 (World.init false) (recon 0 .ice)).1.claim.deleting = true ∧
    (step spec1 (step spec1 (World.init false) (recon 0 .ice)).1 recon).2.calls = [] := by decide

/-- the failed finalizer patch stops the reconcile before Create -/
example : (step spec1 (World.init false) (recon 0 .ok { finPatch := some .conflict })).2.calls = [⟨.finPatch, .conflict⟩] ∧
    (step spec1 (World.init false) (recon 0 .ok { finPatch := some .conflict })).2.result = .requeue := by decide

/-- why `C14_forward` asks for an up-to-date copy: with a lagging cache the merge patch of a stale reconcile can
    take Registered back from True to False (a second Node with the same provider id has appeared meanwhile; a
    reconcile on the current copy would not even look).  `Launched` is immune
    (`C14_launched_monotone`), and so is the instance count. -/
def regress : List Step := [
  recon, .env (.nodeAppear node1), recon,             -- Launched, Registered
  .env (.nodeAppear node1),                           -- a second Node with the same provider id shows up
  recon 3]                                            -- handed the copy from before registration: "MultipleNodesFound"

example : (run spec1 (World.init false) (regress.take 3)).claim.conds.r.status = .true_ ∧
    (run spec1 (World.init false) regress).claim.conds.r.status = .false_ ∧
    (run spec1 (World.init false) regress).claim.conds.l.status = .true_ ∧
    (run spec1 (World.init false) regress).instances = 1 := by decide

/-- payload on taints, a Ready condition that is not there yet, then `Unknown`: the Node joins with
    `karpenter.sh/unregistered=true:NoExecute` stamped with a `timeAdded`, and a startup taint whose value differs
    from the NodeClaim's -/
def node2 : Node := { taints := [{ key := "karpenter.sh/unregistered", effect := "NoExecute", value := "true", stamp := "2" },
                                  { key := "example.com/startup", effect := "NoSchedule", value := "pending" }],
                      readyCond := .absent, resOK := true }

def payload : List Step := [
  recon, .env (.nodeAppear node2), recon,                 -- Launched; Registered: the taint goes, value and stamp notwithstanding
  .env (.rmTaint { key := "example.com/startup", effect := "NoSchedule" }), recon,   -- every other gate is open, Ready was never posted
  .env (.setReady .unknown), recon,                       -- ... nor does Unknown count
  .env (.setReady .true_), recon]

example : (run spec1 (World.init false) (payload.take 3)).claim.conds.r.status = .true_ ∧
    (run spec1 (World.init false) (payload.take 3)).nodes.map (·.taints.map (·.key)) =
      [["example.com/startup", "example.com/dedicated"]] ∧
    registeredPre spec1 (run spec1 (World.init false) (payload.take 3)).nodes = true := by decide
/-- the startup taint the Node already had keeps its own value (`Taints.Merge` matches by key and effect) and is what
    the condition message names -/
example : (run spec1 (World.init false) (payload.take 3)).claim.conds.i.reason = .nodeNotReady ∧
    ((run spec1 (World.init false) (payload.take 3)).nodes.map (·.taints.map (·.value))) = [["pending", ""]] := by decide
example : (run spec1 (World.init false) (payload.take 5)).claim.conds.i.status = .unknown ∧
    (run spec1 (World.init false) (payload.take 5)).claim.conds.i.reason = .nodeNotReady ∧
    (run spec1 (World.init false) (payload.take 7)).claim.conds.i.status = .unknown ∧
    (run spec1 (World.init false) (payload.take 7)).nodes.map (·.initLabel) = [false] ∧
    (run spec1 (World.init false) payload).claim.conds.i.status = .true_ ∧
    initializedPre spec1 (run spec1 (World.init false) payload).nodes = true := by decide
example : historyOK spec1 { prev := (World.init false).claim, finEver := false } (modelHistory spec1 (World.init false) payload) = true := by
  decide
/-- ... and the judge rejects a record in which the Node kept the valued taint although Registered went true, or was
    initialized on an `Unknown` Ready condition -/
example : historyOK spec1 { prev := (World.init false).claim, finEver := false }
    ((modelHistory spec1 (World.init false) (payload.take 3)).map (fun o => { o with nodes := o.nodes.map (fun n =>
      { n with taints := n.taints ++ [{ key := "karpenter.sh/unregistered", effect := "NoExecute", value := "true" }] }) })) = false := by
  decide
example : historyOK spec1 { prev := (World.init false).claim, finEver := false }
    ((modelHistory spec1 (World.init false) payload).map (fun o => { o with nodes := o.nodes.map (fun n =>
      { n with readyCond := .unknown }) })) = false := by
  decide

/-- a NodeClaim whose every launch attempt fails and whose NodePool is gone: at the launch deadline it is deleted -/
def orphan (pg : PoolGet) : List Step := [
  recon 0 .generic { poolGet := pg }, .env (.advance 299),
  recon 0 .generic { poolGet := pg }]

example : ((run spec1 (World.init false) (orphan (.err .notFound))).claim.deleting = true) ∧
    (step spec1 (run spec1 (World.init false) ((orphan (.err .notFound)).take 2)) (recon 0 .generic { poolGet := .err .notFound })).2.calls =
      [⟨.create, .generic⟩, ⟨.poolGet, .notFound⟩, ⟨.claimDelete, .ok⟩] := by decide
/-- a failed NodePool read holds it back, with an error -/
example : ((run spec1 (World.init false) (orphan (.err .other))).claim.deleting = false) ∧
    (step spec1 (run spec1 (World.init false) ((orphan (.err .other)).take 2)) (recon 0 .generic { poolGet := .err .other })).2.result = .err := by decide
/-- the judge: the model's record passes, the same record without the delete (what a controller that mistakes the
    missing NodePool for a failure leaves behind) does not -/
example : timeoutsOK 0 0 (modelHistory spec1 (World.init false) (orphan (.err .notFound))) = true := by decide
example : timeoutsOK 0 0 ((modelHistory spec1 (World.init false) (orphan (.err .notFound))).map
    (fun o => { o with calls := o.calls.filter (fun c => c.site != .claimDelete) })) = false := by decide
/-- `Overdue` is inhabited: five minutes after creation, never launched -/
example : Overdue { w := { now := 300 }, mem := {} } := by
  refine ⟨by decide, Or.inl ⟨by decide, by decide⟩⟩

end examples

end Karp.C14

