/- C11: property theorems (stub, not yet built) -/
namespace Karp.C11
end Karp.C11
