/-
C11 — Cluster state equals a fresh recomputation from the API.

Property theorems only (helper lemmas live in `Karp/Proofs/ClusterState*.lean`).
Model: `Karp/Model/ClusterState.lean` (state.Cluster, StateNode, NodePoolState, HostPortUsage, VolumeUsage and the
       three informer controllers; the recorded defects are switches `Fixes`, `Fixes.current` is read off the source).
Spec:  `Karp/Spec/ClusterAbs.lean` (from-scratch computation from the API objects + ghost marks).

Vocabulary: a history is a list of `Event`s — API changes (`setNode` …), reconcile deliveries (`recNode` … : the informer
controller of that kind reads the API as it is at that moment), and in-memory marks. `run fx {} {} h` runs the model of the
cache from the empty state (`fx` = which recorded defects are repaired), `apiRun {} h` is the API at the end, `ghostRun {} {} h`
the specification's ghost (marks, observed snapshot, set of keys changed since their last reconcile).
-/
import Karp.Proofs.ClusterStateClosed
import Karp.Proofs.ClusterStateUsage
import Karp.Model.ClusterStateExt
import Karp.Spec.ClusterAbsDs

namespace Karp.C11
open Karp.ClusterState Karp.Spec.ClusterAbs
open Karp.Gen.ClusterStateFacts

/-! ## Fact expectations over the regenerated tables -/

/-- the fields of `StateNode`; a new field has to be placed in every table below before this builds again -/
theorem fact_stateNode_fields :
    stateNodeFields = ["Node", "NodeClaim", "daemonSetRequests", "daemonSetLimits", "podRequests", "podLimits",
      "podDisruptionCosts", "hostPortUsage", "volumeUsage", "markedForDeletion", "nominatedUntil"] := by decide

/-- the aggregates derived from the pods bound to the node -/
def perPodFields : List String :=
  ["daemonSetRequests", "daemonSetLimits", "podRequests", "podLimits", "podDisruptionCosts", "hostPortUsage", "volumeUsage"]

/-- `updateForPod` writes exactly the per-pod aggregates … -/
theorem fact_updateForPod_fields : updateForPodFields.all perPodFields.contains ∧ perPodFields.all updateForPodFields.contains := by decide
/-- … and `cleanupForPod` removes the pod from every one of them -/
theorem fact_cleanup_covers_update : updateForPodFields.all cleanupForPodFields.contains := by decide

/-- `ShallowCopy` copies every field -/
theorem fact_shallowCopy_total : shallowCopyFields = stateNodeFields := by decide

/-- `newStateFromNode` takes the Node from its argument, carries NodeClaim / mark / nomination from the old state node and
    REBUILDS every per-pod aggregate (`podDisruptionCosts` is created lazily by `updateForPod`) -/
theorem fact_node_constructor :
    newStateFromNodeLit.lookup "Node" = some "arg" ∧
    newStateFromNodeFields = ["NodeClaim", "markedForDeletion", "nominatedUntil"] ∧
    perPodFields.all (fun f => newStateFromNodeLit.lookup f = some "fresh" || (f = "podDisruptionCosts" && newStateFromNodeLit.lookup f = none)) := by
  decide

/-- `newStateFromNodeClaim` takes the NodeClaim from its argument and carries every other field from the old state node —
    full strength would be `stateNodeFields.all (fun f => f = "NodeClaim" || newStateFromNodeClaimFields.contains f)`;
    at the pinned commit `podDisruptionCosts` is missing (known finding C11-disruption-cost-lost-on-claim-update), so the
    expectation allows exactly that one exception (it keeps holding once the repair is applied). -/
theorem fact_claim_constructor_partial :
    newStateFromNodeClaimLit.lookup "NodeClaim" = some "arg" ∧
    (stateNodeFields.filter (fun f => f ≠ "NodeClaim" && !newStateFromNodeClaimFields.contains f)).all (· = "podDisruptionCosts") := by
  decide

/-- the in-memory mark and the nomination survive both kinds of update -/
theorem fact_marks_carried :
    Cluster.carriedN "markedForDeletion" = true ∧ Cluster.carriedN "nominatedUntil" = true ∧ Cluster.carriedN "NodeClaim" = true ∧
    (∀ fx, Cluster.carriedC fx "markedForDeletion" = true) ∧ (∀ fx, Cluster.carriedC fx "nominatedUntil" = true) ∧
    (∀ fx, Cluster.carriedC fx "Node" = true) :=
  ⟨carriedN_marked, carriedN_nominated, carriedN_claim, carriedC_marked, carriedC_nominated, carriedC_node⟩

/-- call orders the model follows -/
theorem fact_call_orders :
    newStateFromNodeCalls = ["populateResourceRequests", "populateVolumeLimits", "cleanupNode", "updateNodePoolResources"] ∧
    newStateFromNodeClaimCalls = ["cleanupNodeClaim", "updateNodePoolResources"] ∧
    populateCalls = ["IsTerminal", "updateForPod", "cleanupOldBindings"] ∧
    volumeUsageDeleteCalls = ["Insert"] := by decide

/-- Whether a pod still counts against its node is decided by the SAME predicate at the two sites that account pods — the Pod
    path (`UpdatePod`: release on `IsTerminal`, account otherwise) and the Node path (`populateResourceRequests`: skip on
    `IsTerminal`) — and that predicate is the phase-only `podutils.IsTerminal`, which is what `PodObj.terminal` models: a pod
    with a deletionTimestamp that is still bound and Running (gracefully terminating) keeps counting on both paths. -/
theorem fact_pod_release_predicate :
    updatePodPredicates = ["IsTerminal"] ∧ populatePodPredicates = ["IsTerminal"] ∧
    updatePodCalls = ["updateNodeUsageFromPodCompletion", "updateNodeUsageFromPod"] := by decide

/-! ## Per-NodePool resource totals (every history, every delivery order, no precondition) -/

/-- **C11_poolResources_invariant** — after ANY history (any order of deliveries, duplicates, provider-id changes,
    deletions seen before updates; with or without the repairs), `NodePoolResourcesFor(p)` is exactly the sum, over the
    state nodes the cache currently holds, of what each contributes to pool `p` (its capacity plus one node, nothing when
    it is marked for deletion), and the cache never holds two state nodes under one provider id. -/
theorem C11_poolResources_invariant (fx : Fixes) (h : List Event) (c : Cluster) (api : Api)
    (hr : run fx {} {} h = .ok (c, api)) (p : String) :
    Map.getD c.poolRes p Res.zero = poolSum c.nodes p ∧ Map.NoDup c.nodes :=
  have := run_poolInv fx h {} c {} api poolInv_empty hr
  ⟨this.sum p, this.nodup⟩

/-! ## Well-formed histories -/

/-- The preconditions of the property:
    * `owned`: provider ids are unique — over the whole history a provider id belongs to one node name and one claim name
      (`w` names the owner), node names are non-empty, and whether a claim name belongs to this provider never changes;
    * `steps`: a Node version the cache ignores (no provider id / instance type yet) is never observed while an earlier
      tracked version of that name is still cached, and a NodeClaim observed with a provider id is never observed without
      one later (claim names are generated, never reused). Both are decidable on the history (`wRun`). -/
structure WellFormed (w : Owners) (h : List Event) : Prop where
  owned : ∀ e ∈ h, w.okEvent e
  steps : wRun {} {} h = true

/-- **C11_no_nil_dereference** — on a well-formed history the cache never dereferences a missing state node
    (`cleanupNode` / `cleanupNodeClaim`): the run completes. (With duplicate provider ids it can: see `C11_duplicate_ids_panic`.) -/
theorem C11_no_nil_dereference (fx : Fixes) (w : Owners) (h : List Event) (hwf : WellFormed w h) :
    ∃ c, run fx {} {} h = .ok (c, apiRun {} h) := by
  obtain ⟨c, _, hr, _⟩ := run_oinv fx w h {} {} {} {} (OC.Eqv.refl _) (oinv_empty w) (apiOK_empty w) hwf.owned hwf.steps
  exact ⟨c, hr⟩

/-- **C11_objects_converge** — for every well-formed history (any delivery order, duplicates, provider-id changes,
    deletions seen before updates), once every changed object has been reconciled (`dirty = []`) the cache holds, under
    every provider id, exactly what the from-scratch computation yields: the latest Node and the latest NodeClaim that
    carry this id (no state node if there is neither), with the in-memory deletion mark and nomination of the ghost.
    Holds with and without the repairs (`fx` arbitrary). -/
theorem C11_objects_converge (fx : Fixes) (w : Owners) (h : List Event) (hwf : WellFormed w h)
    (hq : (ghostRun {} {} h).dirty = []) :
    ∃ c, run fx {} {} h = .ok (c, apiRun {} h) ∧
      ∀ pid, (Map.get c.nodes pid).map SNode.objs = (absNodeAt (apiRun {} h) (ghostRun {} {} h) pid).map absObjs := by
  obtain ⟨c, o, hr, he, hi, ha⟩ := run_oinv fx w h {} {} {} {} (OC.Eqv.refl _) (oinv_empty w) (apiOK_empty w) hwf.owned hwf.steps
  refine ⟨c, hr, fun pid => ?_⟩
  rw [← get_proj, he.nodes pid]
  exact quiescent_objects hi ha (apiND_run h {} apiND_empty) hq pid

/-- **C11_claim_names_converge** — under the same hypotheses `NodeClaimExists` / `UnlaunchedNodeClaimExists` answer as the
    API does: a claim name is known iff a NodeClaim of this provider with that name exists, and it is "unlaunched" iff
    that claim has no provider id. -/
theorem C11_claim_names_converge (fx : Fixes) (w : Owners) (h : List Event) (hwf : WellFormed w h)
    (hq : (ghostRun {} {} h).dirty = []) :
    ∃ c, run fx {} {} h = .ok (c, apiRun {} h) ∧
      ∀ name, Map.has c.claimNameToPid name = absClaimExists (apiRun {} h) name ∧
              decide (Map.get c.claimNameToPid name = some "") = absClaimUnlaunched (apiRun {} h) name := by
  obtain ⟨c, o, hr, he, hi, ha⟩ := run_oinv fx w h {} {} {} {} (OC.Eqv.refl _) (oinv_empty w) (apiOK_empty w) hwf.owned hwf.steps
  refine ⟨c, hr, fun name => ?_⟩
  have hcn : c.claimNameToPid = o.cn := he.cn
  have hc := hi.cc name (by rw [hq]; simp)
  unfold ClaimCons at hc
  unfold absClaimExists absClaimUnlaunched
  rw [hcn, Map.has_eq]
  cases hg : Map.get (apiRun {} h).claims name with
  | none => rw [hg] at hc; dsimp only at hc ⊢; rw [hc]; simp
  | some cl =>
    rw [hg] at hc; dsimp only at hc ⊢
    by_cases hm : cl.managed = true
    · rw [if_pos hm] at hc
      rw [hc.1, hm]
      simp
    · rw [if_neg hm] at hc
      have : cl.managed = false := by
        cases hx : cl.managed with
        | true => exact absurd hx hm
        | false => rfl
      rw [hc, this]; simp

/-- **C11_node_reads_converge** — consequently everything the exported accessors derive from the objects agrees with the
    from-scratch node: `Labels()[nodepool]`, `Name()`, `Registered()`, `Initialized()`, `Capacity()`, `Deleted()`,
    `MarkedForDeletion()` and `Nominated()`. -/
theorem C11_node_reads_converge (fx : Fixes) (w : Owners) (h : List Event) (hwf : WellFormed w h)
    (hq : (ghostRun {} {} h).dirty = []) :
    ∃ c, run fx {} {} h = .ok (c, apiRun {} h) ∧
      ∀ pid s a, Map.get c.nodes pid = some s → absNodeAt (apiRun {} h) (ghostRun {} {} h) pid = some a →
        s.pool = a.pool ∧ s.name = a.name ∧ s.registered = a.registered ∧ s.initialized = a.initialized ∧
        s.capacity = a.capacity ∧ s.deleted = a.deleted ∧ s.markedForDeletion = a.markedForDeletion ∧ s.nominated = a.nominated := by
  obtain ⟨c, hr, hobjs⟩ := C11_objects_converge fx w h hwf hq
  refine ⟨c, hr, ?_⟩
  intro pid s a hs ha
  have := hobjs pid
  rw [hs, ha] at this
  simp only [Option.map_some, Option.some.injEq] at this
  have hr := snode_reads_abs s a this
  exact ⟨hr.1, hr.2.2.2.1, hr.2.2.2.2.1, hr.2.2.2.2.2.1, hr.2.2.1, hr.2.2.2.2.2.2.1, hr.2.1, congrArg Objs.nominated this⟩

/-- **C11_poolResources_converge** — and the per-NodePool resource totals (`NodePoolResourcesFor`) equal the from-scratch
    totals: Σ capacity (+ one node) over the state nodes of the pool that are not marked for deletion. -/
theorem C11_poolResources_converge (fx : Fixes) (w : Owners) (h : List Event) (hwf : WellFormed w h)
    (hq : (ghostRun {} {} h).dirty = []) :
    ∃ c, run fx {} {} h = .ok (c, apiRun {} h) ∧
      ∀ p, Map.getD c.poolRes p Res.zero = absPoolRes (apiRun {} h) (ghostRun {} {} h) p := by
  obtain ⟨c, hr, hobjs⟩ := C11_objects_converge fx w h hwf hq
  exact ⟨c, hr, fun p => quiescent_poolRes (run_poolInv fx h {} c {} _ poolInv_empty hr) hobjs p⟩

/-! ## Per-node aggregates (requests, limits, daemonset requests, disruption cost, host ports, volume usage) -/

/-- **C11_aggregates_track_pods** — after ANY sequence of `updateForPod` / `cleanupForPod` on a state node (any pods, any
    order, the same pod name re-added with other content any number of times; a pod name is either always a DaemonSet pod or
    never), the seven per-pod aggregates are exactly the images of ONE table of pods — the last update per pod name unless a
    cleanup followed (`Agg`): `podRequests[k]`/`podLimits[k]`/`hostPortUsage[k]`/`volumeUsage.podVolumes[k]` for every pod of the
    table, `daemonSetRequests/Limits[k]` for its DaemonSet pods, `podDisruptionCosts[k]` for its non-daemon pods with positive
    eviction cost, and nothing for any other key; `volumeUsage.volumes` contains every volume of the table.
    With the repaired `VolumeUsage.Add` it contains nothing else (`VolExact`); at the pinned commit it can
    (`C11_volume_union_stale_witness`), and is exact again after any `cleanupForPod`. -/
theorem C11_aggregates_track_pods (fx : Fixes) (dsOf : String → Bool) (ops : List PodOp)
    (hds : ∀ p, PodOp.upd p ∈ ops → dsOf p.name = p.ds) :
    Agg (ops.foldl (applyPodOp fx) SNode.new) (ops.foldl tablePodOp []) ∧ TableOK dsOf (ops.foldl tablePodOp []) ∧
    (fx.volRebuild = true → VolExact (ops.foldl (applyPodOp fx) SNode.new) (ops.foldl tablePodOp [])) :=
  podOps_agg fx dsOf ops SNode.new [] agg_new.1 ⟨Map.noDup_nil, by intro k p h; simp at h⟩ (fun _ => agg_new.2) hds

/-- **C11_usage_tracks_table** — component level (`c11.usage`): after ANY sequence of per-pod-key operations on the usage
    trackers of a state node (`Add` for a key, `DeletePod` of a key, deep copies; keys re-added with other content, deleted
    while untracked, in any order), what `HostPortUsage` reserves and `VolumeUsage` records per key is exactly the
    from-scratch reading `usageOf k ops` (the key's LAST add unless a delete came after it), the node-wide volume set
    contains every volume of those keys, and — with `VolumeUsage.Add` forgetting the key's previous volumes (`fx.volRebuild`,
    which `Fixes.current` reads off the source) — nothing else: no volume of a deleted pod, or of another pod's record, stays
    accounted. -/
theorem C11_usage_tracks_table (fx : Fixes) (dsOf : String → Bool) (ops : List UsageOp)
    (hds : ∀ p, UsageOp.add p ∈ ops → dsOf p.name = p.ds) :
    let s := ops.foldl (usageStep fx) SNode.new
    (∀ k, Map.get s.ports k = (usageOf k ops).map (·.ports)) ∧
    (∀ k, Map.get s.volPods k = (usageOf k ops).map (·.vols)) ∧
    (∀ v k p, usageOf k ops = some p → v ∈ p.vols → v ∈ s.volumes) ∧
    (fx.volRebuild = true → ∀ v, v ∈ s.volumes → ∃ k p, usageOf k ops = some p ∧ v ∈ p.vols) := by
  intro s
  have hget : ∀ k, Map.get ((ops.filterMap podOpOf).foldl tablePodOp []) k = usageOf k ops :=
    fun k => usage_table_get k ops [] none rfl
  have hds' : ∀ p, PodOp.upd p ∈ ops.filterMap podOpOf → dsOf p.name = p.ds := by
    intro p hp
    rw [List.mem_filterMap] at hp
    obtain ⟨o, ho, hop⟩ := hp
    cases o with
    | add q => simp [podOpOf] at hop; subst hop; exact hds _ ho
    | del k => simp [podOpOf] at hop
    | copy => simp [podOpOf] at hop
  obtain ⟨hagg, _, hex⟩ := podOps_agg fx dsOf (ops.filterMap podOpOf) SNode.new [] agg_new.1
    ⟨Map.noDup_nil, by intro k p h; simp at h⟩ (fun _ => agg_new.2) hds'
  have hs : s = (ops.filterMap podOpOf).foldl (applyPodOp fx) SNode.new := usage_fold_eq fx ops SNode.new
  rw [← hs] at hagg hex
  refine ⟨fun k => by rw [hagg.ports k, hget k], fun k => by rw [hagg.vols k, hget k], ?_, ?_⟩
  · intro v k p hk hv
    exact hagg.volSup v k p (by rw [hget k]; exact hk) hv
  · intro hb v hv
    obtain ⟨k, p, hk, hp⟩ := hex hb v hv
    exact ⟨k, p, by rw [← hget k]; exact hk, hp⟩

/-- non-vacuity: three pods with one volume of the same driver each, one is deleted, one re-added with another volume -/
example :
    usageVolumes [.add { name := "x1", node := "", terminal := false, req := {}, lim := {}, ds := false, cost := 0, ports := [], vols := [("csi-1", "a")], ver := 0 },
                  .add { name := "x2", node := "", terminal := false, req := {}, lim := {}, ds := false, cost := 0, ports := [], vols := [("csi-1", "b")], ver := 0 },
                  .add { name := "x3", node := "", terminal := false, req := {}, lim := {}, ds := false, cost := 0, ports := [], vols := [("csi-1", "c")], ver := 0 },
                  .del "x3", .copy,
                  .add { name := "x1", node := "", terminal := false, req := {}, lim := {}, ds := false, cost := 0, ports := [], vols := [("csi-1", "d")], ver := 0 }]
      = [("csi-1", "d"), ("csi-1", "b")] := by decide

/-- **C11_aggregate_sums** — hence `PodRequests()`, `PodLimits()`, `DaemonSetRequests()`, `DaemonSetLimits()` and
    `DisruptionCost() - 1` are the sums over that table (requests of all its pods; requests of its DaemonSet pods; positive
    eviction costs of its non-daemon pods). -/
theorem C11_aggregate_sums (s : SNode) (R : Map PodObj) (h : Agg s R) (hR : Map.NoDup R) :
    sumOver s.podReq (fun e => e.2) = sumOver R (fun e => e.2.req) ∧
    sumOver s.podLim (fun e => e.2) = sumOver R (fun e => e.2.lim) ∧
    sumOver s.dsReq (fun e => e.2) = sumOver R (fun e => if e.2.ds then e.2.req else Res.zero) ∧
    sumOver s.dsLim (fun e => e.2) = sumOver R (fun e => if e.2.ds then e.2.lim else Res.zero) ∧
    (s.costs.map (·.2)).foldr (· + ·) 0 = (R.map (fun e => if !e.2.ds && decide (e.2.cost > 0) then e.2.cost else 0)).foldr (· + ·) 0 :=
  agg_sums s R h hR

/-- **C11_node_reconcile_rebuilds** — whatever the cache held before, `UpdateNode` leaves under the node's provider id a state
    node whose table is EXACTLY the API's pods that are bound to this node and not terminal (so all its aggregates are the
    from-scratch values at that moment). -/
theorem C11_node_reconcile_rebuilds (fx : Fixes) (dsOf : String → Bool) (c c' : Cluster) (api : Api) (node : NodeObj)
    (hapi : PodsOK dsOf api) (hr : c.newStateFromNode fx api node = .ok c') :
    ∃ s R, Map.get c'.nodes node.pid = some s ∧ s.node = some node ∧ Agg s R ∧ TableOK dsOf R ∧
      (∀ k, Map.get R k = (Map.get api.pods k).filter (onNode node.name)) ∧ (fx.volRebuild = true → VolExact s R) :=
  newStateFromNode_rebuilds fx dsOf c c' api node hapi hr

/-- **C11_claim_update_keeps_aggregates_partial** — `newStateFromNodeClaim` keeps the table of the state node it replaces,
    PROVIDED the disruption costs are carried (`carriedC fx "podDisruptionCosts"`: the regenerated carry-over table or the
    repair). Full strength (no proviso) is false at the pinned commit: `C11_cost_lost_witness`. -/
theorem C11_claim_update_keeps_aggregates_partial (fx : Fixes) (claim : ClaimObj) (old : SNode) (R : Map PodObj) (h : Agg old R)
    (hc : Cluster.carriedC fx "podDisruptionCosts" = true) :
    Agg (Cluster.claimLiteral fx claim old) R ∧ (VolExact old R → VolExact (Cluster.claimLiteral fx claim old) R) :=
  agg_claimLiteral fx claim old R h hc

/-- **C11_pods_converge** — the full property for the per-node aggregates, for the code WITH the repairs of the recorded
    defects (`PodFix fx`: the NodeClaim update carries the disruption costs, a state node that loses its Node drops its pod
    aggregates, an unbound / re-bound-elsewhere pod forgets its old binding; `podFix_all : PodFix Fixes.all`):
    for every well-formed history (any delivery order, duplicates, provider-id changes, deletions seen before updates, pods
    recreated under the same name on another node or unbound), once every changed object has been reconciled, every state
    node reports exactly the from-scratch values: `PodRequests()`, `PodLimits()`, `DaemonSetRequests()`, `DaemonSetLimits()`
    = Σ over the non-terminal pods the API binds to its Node (of the DaemonSet ones), `DisruptionCost()` = 1 + Σ positive
    eviction costs of the non-daemon ones, the host ports reserved per pod, the CSI volume limits of the Node, and a volume
    union that contains every volume of those pods (that it contains nothing else needs the repaired `VolumeUsage.Add`:
    `C11_aggregates_track_pods`). A state node without Node reports nothing.
    At the pinned commit (no repair) the statement is FALSE: `C11_cost_lost_witness`, `C11_stale_pods_witness`. -/
theorem C11_pods_converge (fx : Fixes) (hf : PodFix fx) (w : Owners) (dsOf : String → Bool) (h : List Event)
    (hwf : WellFormed w h) (hpods : ∀ e ∈ h, podEventOK dsOf e) (hq : (ghostRun {} {} h).dirty = []) :
    ∃ c, run fx {} {} h = .ok (c, apiRun {} h) ∧
      ∀ pid s a, Map.get c.nodes pid = some s → absNodeAt (apiRun {} h) (ghostRun {} {} h) pid = some a →
        sumOver s.podReq (fun e => e.2) = a.requests ∧ sumOver s.podLim (fun e => e.2) = a.limits ∧
        sumOver s.dsReq (fun e => e.2) = a.dsRequests ∧ sumOver s.dsLim (fun e => e.2) = a.dsLimits ∧
        costUnit + (s.costs.map (·.2)).foldr (· + ·) 0 = a.cost ∧
        (∀ k, Map.get s.ports k = Map.get a.ports k) ∧ s.limits = a.volLimits ∧ (∀ x, x ∈ a.volumes → x ∈ s.volumes) := by
  obtain ⟨c, o, hr, he, hi, ha, hp, hpa⟩ := run_all fx hf w dsOf h {} {} {} {} (OC.Eqv.refl _) (oinv_empty w) (apiOK_empty w)
    (podInv_empty dsOf) ⟨Map.noDup_nil, by intro k p hg; simp at hg⟩ (fun e hm => ⟨hwf.owned e hm, hpods e hm⟩) hwf.steps
  refine ⟨c, hr, ?_⟩
  intro pid s a hs habs
  obtain ⟨R, hR⟩ := hp.good pid s hs
  rw [hq] at hR
  have hobjs : (Map.get c.nodes pid).map SNode.objs = (absNodeAt (apiRun {} h) (ghostRun {} {} h) pid).map absObjs := by
    rw [← get_proj, he.nodes pid]
    exact quiescent_objects hi ha (apiND_run h {} apiND_empty) hq pid
  rw [hs, habs] at hobjs
  simp only [Option.map_some, Option.some.injEq] at hobjs
  exact quiescent_pods hR hpa hobjs (absNodeAt_pods habs)

/-- **C11_volumes_converge** — with the repaired `VolumeUsage.Add` as well (`fx.volRebuild`), the volume union of every state
    node is EXACTLY the set of volumes of the non-terminal pods the API binds to its Node. -/
theorem C11_volumes_converge (fx : Fixes) (hf : PodFix fx) (hb : fx.volRebuild = true) (w : Owners) (dsOf : String → Bool)
    (h : List Event) (hwf : WellFormed w h) (hpods : ∀ e ∈ h, podEventOK dsOf e) (hq : (ghostRun {} {} h).dirty = []) :
    ∃ c, run fx {} {} h = .ok (c, apiRun {} h) ∧
      ∀ pid s a, Map.get c.nodes pid = some s → absNodeAt (apiRun {} h) (ghostRun {} {} h) pid = some a →
        ∀ x, x ∈ s.volumes ↔ x ∈ a.volumes := by
  obtain ⟨c, o, hr, he, hi, ha, hp, hpa⟩ := run_all fx hf w dsOf h {} {} {} {} (OC.Eqv.refl _) (oinv_empty w) (apiOK_empty w)
    (podInv_empty dsOf) ⟨Map.noDup_nil, by intro k p hg; simp at hg⟩ (fun e hm => ⟨hwf.owned e hm, hpods e hm⟩) hwf.steps
  have htight := allNodes_run (volTight_closed fx hb) hf volTight_nodeLiteral h {} c {} _ (by intro id s hs; simp at hs) hr
  refine ⟨c, hr, ?_⟩
  intro pid s a hs habs
  obtain ⟨R, hR⟩ := hp.good pid s hs
  rw [hq] at hR
  have hobjs : (Map.get c.nodes pid).map SNode.objs = (absNodeAt (apiRun {} h) (ghostRun {} {} h) pid).map absObjs := by
    rw [← get_proj, he.nodes pid]
    exact quiescent_objects hi ha (apiND_run h {} apiND_empty) hq pid
  rw [hs, habs] at hobjs
  simp only [Option.map_some, Option.some.injEq] at hobjs
  intro x
  exact ⟨quiescent_volumes_exact hR hpa (htight pid s hs) hobjs (absNodeAt_pods habs) x,
    (quiescent_pods hR hpa hobjs (absNodeAt_pods habs)).2.2.2.2.2.2.2 x⟩

/-! ## The hypotheses are decidable; the property in one statement -/

/-- **C11_wellFormed_decidable** — if the two checks the driver evaluates on a history say `true` (`wStatic`: unique provider
    ids, immutable claim labels, named nodes, always-or-never DaemonSet pods; `wRun`: the step-wise preconditions), the history
    is well-formed for the owners / DaemonSet assignment read off the history itself. -/
theorem C11_wellFormed_decidable (h : List Event) (hs : wStatic h = true) (hr : wRun {} {} h = true) :
    WellFormed (ownersOf h) h ∧ ∀ e ∈ h, podEventOK (dsOfHist h) e :=
  ⟨⟨(owners_of_wStatic h hs).1, hr⟩, (owners_of_wStatic h hs).2⟩

/-- **C11_converges_partial** — the property as far as it holds of the code AS IT IS (`fx` arbitrary, in particular
    `Fixes.current`): for every history that passes the decidable checks, once every changed object has been reconciled,
    the cache equals the from-scratch computation in: which state nodes exist and which Node / NodeClaim / deletion mark /
    nomination each holds, the known claim names, and the per-NodePool resource totals.
    Full strength adds the per-node pod aggregates — `C11_converges` (repaired code); false as it is (witnesses below). -/
theorem C11_converges_partial (fx : Fixes) (h : List Event) (hs : wStatic h = true) (hr : wRun {} {} h = true)
    (hq : (ghostRun {} {} h).dirty = []) :
    ∃ c, run fx {} {} h = .ok (c, apiRun {} h) ∧
      (∀ pid, (Map.get c.nodes pid).map SNode.objs = (absNodeAt (apiRun {} h) (ghostRun {} {} h) pid).map absObjs) ∧
      (∀ name, Map.has c.claimNameToPid name = absClaimExists (apiRun {} h) name ∧
               decide (Map.get c.claimNameToPid name = some "") = absClaimUnlaunched (apiRun {} h) name) ∧
      (∀ p, Map.getD c.poolRes p Res.zero = absPoolRes (apiRun {} h) (ghostRun {} {} h) p) := by
  have hwf := (C11_wellFormed_decidable h hs hr).1
  obtain ⟨c, hr1, h1⟩ := C11_objects_converge fx (ownersOf h) h hwf hq
  obtain ⟨c2, hr2, h2⟩ := C11_claim_names_converge fx (ownersOf h) h hwf hq
  obtain ⟨c3, hr3, h3⟩ := C11_poolResources_converge fx (ownersOf h) h hwf hq
  rw [hr1] at hr2 hr3
  simp only [Except.ok.injEq, Prod.mk.injEq, and_true] at hr2 hr3
  rw [← hr2] at h2
  rw [← hr3] at h3
  exact ⟨c, hr1, h1, h2, h3⟩

/-- **C11_converges** — the property, for the code with the proposed repairs (`Fixes.all`): for every history that passes the
    decidable checks — any order and duplication of reconcile deliveries, provider-id changes, deletions seen before
    updates, pods recreated under the same name on another node or unbound — once every changed object has been
    reconciled the cache equals the from-scratch computation in the objects, claim names, per-NodePool totals (as in
    `C11_converges_partial`) AND in every per-node aggregate: requests, limits, daemonset requests/limits, disruption cost,
    host ports, volume limits and the volume union (as sets). -/
theorem C11_converges (h : List Event) (hs : wStatic h = true) (hr : wRun {} {} h = true)
    (hq : (ghostRun {} {} h).dirty = []) :
    ∃ c, run Fixes.all {} {} h = .ok (c, apiRun {} h) ∧
      (∀ pid, (Map.get c.nodes pid).map SNode.objs = (absNodeAt (apiRun {} h) (ghostRun {} {} h) pid).map absObjs) ∧
      (∀ p, Map.getD c.poolRes p Res.zero = absPoolRes (apiRun {} h) (ghostRun {} {} h) p) ∧
      (∀ pid s a, Map.get c.nodes pid = some s → absNodeAt (apiRun {} h) (ghostRun {} {} h) pid = some a →
        sumOver s.podReq (fun e => e.2) = a.requests ∧ sumOver s.podLim (fun e => e.2) = a.limits ∧
        sumOver s.dsReq (fun e => e.2) = a.dsRequests ∧ sumOver s.dsLim (fun e => e.2) = a.dsLimits ∧
        costUnit + (s.costs.map (·.2)).foldr (· + ·) 0 = a.cost ∧
        (∀ k, Map.get s.ports k = Map.get a.ports k) ∧ s.limits = a.volLimits ∧ (∀ x, x ∈ s.volumes ↔ x ∈ a.volumes)) := by
  have hd := C11_wellFormed_decidable h hs hr
  obtain ⟨c, hr1, h1, _, h3⟩ := C11_converges_partial Fixes.all h hs hr hq
  obtain ⟨c4, hr4, h4⟩ := C11_pods_converge Fixes.all podFix_all (ownersOf h) (dsOfHist h) h hd.1 hd.2 hq
  obtain ⟨c5, hr5, h5⟩ := C11_volumes_converge Fixes.all podFix_all rfl (ownersOf h) (dsOfHist h) h hd.1 hd.2 hq
  rw [hr1] at hr4 hr5
  simp only [Except.ok.injEq, Prod.mk.injEq, and_true] at hr4 hr5
  rw [← hr4] at h4
  rw [← hr5] at h5
  refine ⟨c, hr1, h1, h3, ?_⟩
  intro pid s a hs habs
  have := h4 pid s a hs habs
  exact ⟨this.1, this.2.1, this.2.2.1, this.2.2.2.1, this.2.2.2.2.1, this.2.2.2.2.2.1, this.2.2.2.2.2.2.1, h5 pid s a hs habs⟩

/-! ## Non-vacuity and the recorded defects as machine-checked witnesses -/

def capA : Res := { cpu := 4000, mem := 8192, pods := 110 }
def node1 (ver : Nat) : NodeObj := { name := "n1", pid := "p1", pool := "a", reg := true, init := true, it := true, cap := capA, del := false, limits := [("csi-1", some 1)], ver := ver }
def claim1 (ver : Nat) : ClaimObj := { name := "c1", pid := "p1", pool := "a", cap := capA, del := false, term := false, managed := true, ver := ver }
def podX (node : String) (vols : List Vol) (ver : Nat) : PodObj :=
  { name := "x1", node := node, terminal := false, req := { cpu := 100, pods := 1 }, lim := { pods := 1 }, ds := false,
    cost := costUnit, ports := [], vols := vols, ver := ver }

instance (w : Owners) (e : Event) : Decidable (w.okEvent e) := by
  cases e <;> simp only [Owners.okEvent, Owners.okNode, Owners.okClaim] <;> infer_instance

def owners1 : Owners := { nodeOf := fun _ => "n1", claimOf := fun _ => "c1", managed := fun _ => true }

/-- a history with a provider-id change, an undelivered delete+recreate and a late claim: well-formed and quiescent -/
def hist1 : List Event :=
  [.setNode { node1 0 with pid := "", pool := "" }, .recNode "n1", .setPod (podX "n1" [] 2), .recPod "x1",
   .setNode (node1 4), .setClaim (claim1 5), .recClaim "c1", .recNode "n1", .mark "p1",
   .delNode "n1", .setNode (node1 10), .recNode "n1"]

example : WellFormed owners1 hist1 := ⟨by decide, by decide⟩
example : wStatic hist1 = true ∧ wRun {} {} hist1 = true := by decide
example : (ghostRun {} {} hist1).dirty = [] := by decide
example : (absNodeAt (apiRun {} hist1) (ghostRun {} {} hist1) "p1").map absObjs =
    some ⟨some (node1 10), some (claim1 5), true, false⟩ := by decide
-- marked for deletion: the pool total is empty; after `unmark` it is the node's capacity plus one node
example : absPoolRes (apiRun {} hist1) (ghostRun {} {} hist1) "a" = Res.zero := by decide
example : absPoolRes (apiRun {} (hist1 ++ [.unmark "p1"])) (ghostRun {} {} (hist1 ++ [.unmark "p1"])) "a" = { capA with nodes := 1 } := by decide

/-- (a) `newStateFromNodeClaim` loses the disruption costs: after a NodeClaim heartbeat the cost drops from 2 to 1 (in units
    of 2^-27) although nothing about the pods changed; with the repair it stays 2. (The model reads the carry-over table
    regenerated from the source; the first disjunct is the case that the source has been repaired.) -/
def histA : List Event :=
  [.setClaim (claim1 0), .setNode (node1 1), .setPod (podX "n1" [] 2), .recClaim "c1", .recNode "n1", .recPod "x1",
   .setClaim (claim1 6), .recClaim "c1"]

def costOf (r : M (Cluster × Api)) (pid : String) : Option Int :=
  match r with
  | .ok (c, _) => (Map.get c.nodes pid).map (fun s => costUnit + (s.costs.map (·.2)).foldr (· + ·) 0)
  | .error _ => none

theorem C11_cost_lost_witness :
    newStateFromNodeClaimFields.contains "podDisruptionCosts" = true ∨
    (costOf (run Fixes.none {} {} histA) "p1" = some costUnit ∧ costOf (run Fixes.all {} {} histA) "p1" = some (2 * costUnit)) := by
  decide

/-- (b) `VolumeUsage.Add` keeps the stale union: pod x1 with pvc-a, then x1 again (recreated under the same name) with pvc-b,
    limit 1: the union holds both volumes and `ExceedsLimits({})` reports an excess; the table (and a fresh computation)
    holds only pvc-b; the repaired `Add` agrees with the table. -/
def opsB : List PodOp := [.upd (podX "n1" [("csi-1", "default/pvc-a")] 0), .upd (podX "n1" [("csi-1", "default/pvc-b")] 1)]

theorem C11_volume_union_stale_witness :
    (opsB.foldl (applyPodOp Fixes.none) SNode.new).volumes = [("csi-1", "default/pvc-a"), ("csi-1", "default/pvc-b")] ∧
    volExceeds (opsB.foldl (applyPodOp Fixes.none) SNode.new).volumes [("csi-1", 1)] [] = true ∧
    (opsB.foldl (applyPodOp Fixes.all) SNode.new).volumes = [("csi-1", "default/pvc-b")] ∧
    volExceeds (opsB.foldl (applyPodOp Fixes.all) SNode.new).volumes [("csi-1", 1)] [] = false ∧
    ((opsB.foldl tablePodOp []).map (fun e => e.2.vols)) = [[("csi-1", "default/pvc-b")]] := by decide

/-- (d) + (e): pod usage that outlives its reason. `histD`: the Node is removed while its NodeClaim stays (termination): the
    claim-only state node keeps the pod's requests, and the pod's own deletion cannot clean them. `histE`: a pod is recreated
    under its name and is not bound yet: the node of the old incarnation keeps its requests. With the repairs both report
    what the from-scratch computation reports (nothing). -/
def histD : List Event :=
  [.setClaim (claim1 0), .setNode (node1 1), .setPod (podX "n1" [] 2), .recClaim "c1", .recNode "n1", .recPod "x1",
   .delNode "n1", .recNode "n1", .delPod "x1", .recPod "x1"]
def histE : List Event :=
  [.setNode (node1 0), .setPod (podX "n1" [] 1), .recNode "n1", .recPod "x1", .setPod { podX "" [] 4 with terminal := false }, .recPod "x1"]

def requestsOf (r : M (Cluster × Api)) (pid : String) : Option Res :=
  match r with
  | .ok (c, _) => (Map.get c.nodes pid).map (fun s => sumOver s.podReq (fun e => e.2))
  | .error _ => none

theorem C11_stale_pods_witness :
    requestsOf (run Fixes.none {} {} histD) "p1" = some { cpu := 100, pods := 1 } ∧
    requestsOf (run Fixes.all {} {} histD) "p1" = some Res.zero ∧
    (absNodeAt (apiRun {} histD) (ghostRun {} {} histD) "p1").map AbsNode.requests = some Res.zero ∧
    requestsOf (run Fixes.none {} {} histE) "p1" = some { cpu := 100, pods := 1 } ∧
    requestsOf (run Fixes.all {} {} histE) "p1" = some Res.zero ∧
    (absNodeAt (apiRun {} histE) (ghostRun {} {} histE) "p1").map AbsNode.requests = some Res.zero := by decide

-- both witnesses are well-formed, quiescent histories: the hypotheses of `C11_pods_converge` hold, only `PodFix` does not
example : WellFormed owners1 histD ∧ (ghostRun {} {} histD).dirty = [] ∧ WellFormed owners1 histE ∧ (ghostRun {} {} histE).dirty = [] :=
  ⟨⟨by decide, by decide⟩, by decide, ⟨by decide, by decide⟩, by decide⟩
example : PodFix Fixes.all := podFix_all
-- the converging run of `hist1` really has a pod on the node: requests are the pod's
example : requestsOf (run Fixes.all {} {} hist1) "p1" = some { cpu := 100, pods := 1 } := by decide

/-- (c) duplicate provider ids across two NodeClaims (excluded by `WellFormed.owned`): the second deletion dereferences the
    state node the first one removed. -/
def histC : List Event :=
  [.setClaim (claim1 0), .setClaim { claim1 1 with name := "c2" }, .recClaim "c1", .recClaim "c2",
   .delClaim "c1", .delClaim "c2", .recClaim "c1", .recClaim "c2"]

theorem C11_duplicate_ids_panic : (match run Fixes.none {} {} histC with | .error _ => true | .ok _ => false) = true := by decide


/-! ## Several provider ids in one call, failed volume lookups, the DaemonSet pod cache (`Model/ClusterStateExt.lean`) -/

/-- `updateForPod` performs its only fallible step (the volume lookup) before anything that computes or writes the pod's usage:
    only the pure `GetHostPorts` may precede it. A failed lookup therefore leaves the state node untouched. -/
theorem fact_volume_lookup_before_writes :
    updateForPodCalls.contains "GetVolumes" = true ∧
    (updateForPodCalls.takeWhile (fun c => c != "GetVolumes")).all (fun c => c == "GetHostPorts") = true := by decide

/-- nothing leaves the loops of `MarkForDeletion` / `UnmarkForDeletion` over the provider ids early -/
theorem fact_mark_loops_total : markForDeletionLoopExits = [] ∧ unmarkForDeletionLoopExits = [] := by decide

/-- `UpdateDaemonSet` decides what to cache from the listed pods alone (controller reference, creation time); it never reads
    the cached value back -/
theorem fact_daemonset_update_shape :
    updateDaemonSetCalls.contains "Load" = false ∧
    (updateDaemonSetCalls.contains "List" && updateDaemonSetCalls.contains "IsControlledBy" &&
     updateDaemonSetCalls.contains "After" && updateDaemonSetCalls.contains "Store") = true := by decide

/-- ONE call with several provider ids is the history of the single-id marks in argument order: every theorem over histories
    (convergence, pool totals, counts) covers multi-id calls. -/
theorem C11_markMany_is_history (fx : Fixes) (api : Api) (pids : List String) :
    ∀ c : Cluster, run fx c api (pids.map Event.mark) = .ok (c.markMany pids, api) := by
  induction pids with
  | nil => intro c; rfl
  | cons p ps ih =>
    intro c
    simp only [List.map_cons, run, Api.step, Cluster.step]
    exact ih (c.markForDeletion p)

theorem C11_unmarkMany_is_history (fx : Fixes) (api : Api) (pids : List String) :
    ∀ c : Cluster, run fx c api (pids.map Event.unmark) = .ok (c.unmarkMany pids, api) := by
  induction pids with
  | nil => intro c; rfl
  | cons p ps ih =>
    intro c
    simp only [List.map_cons, run, Api.step, Cluster.step]
    exact ih (c.unmarkForDeletion p)

/-- an id without state node is skipped and nothing else: it can be dropped from the argument list at any position -/
theorem C11_markMany_skips_untracked (c : Cluster) (pre post : List String) (pid : String)
    (h : (c.markMany pre).nodes.get pid = none) :
    c.markMany (pre ++ pid :: post) = c.markMany (pre ++ post) := by
  simp only [Cluster.markMany, List.foldl_append, List.foldl_cons]
  have : Cluster.markForDeletion (List.foldl Cluster.markForDeletion c pre) pid = List.foldl Cluster.markForDeletion c pre := by
    simp only [Cluster.markMany] at h
    simp [Cluster.markForDeletion, h]
  rw [this]

example : (({} : Cluster).markMany ["gone"]).nodes.get "gone" = none := by decide

/-- a Pod reconcile whose volume lookup fails changes nothing in the cache (the key is retried): histories with such
    deliveries reach exactly the states of the histories without them -/
theorem C11_failed_lookup_stutters (fx : Fixes) (c : Cluster) (api : Api) (name : String)
    (h : c.lookupFails api name = true) :
    c.recPodFaulty fx api name = .ok ((c, .none), true) := by
  simp [Cluster.recPodFaulty, h]

/-- … and when the lookup is not reached or succeeds it is the ordinary Pod reconcile -/
theorem C11_faulty_delivery_is_recPod (fx : Fixes) (c : Cluster) (api : Api) (name : String)
    (h : c.lookupFails api name = false) (r : Cluster × RecResult) (hr : c.step fx api (.recPod name) = .ok r) :
    c.recPodFaulty fx api name = .ok (r, false) := by
  simp [Cluster.recPodFaulty, h, hr]

open Karp.Spec.ClusterAbsDs in
/-- the DaemonSet cache as the code is: a DaemonSet that controls no pod any more keeps the pod cached earlier, which no
    from-scratch computation produces (witness replayed on the real code: corpus/c11.daemonsets/known-f-*) -/
theorem C11_daemonset_stale_entry_witness :
    let p : DPod := { name := "q1", uid := "u1", ver := 1, ct := 1, own := "ds-d1-1", cpu := 100, tol := 0 }
    let api1 : DsApi := { dss := [("d1", { name := "d1", uid := "ds-d1-1" })], pods := [("q1", p)] }
    let api2 : DsApi := { api1 with pods := [] }
    let cache : DsCache := DsCache.recDs false (DsCache.recDs false [] api1 api1.pods.vals "d1") api2 api2.pods.vals "d1"
    let fixed : DsCache := DsCache.recDs true (DsCache.recDs true [] api1 api1.pods.vals "d1") api2 api2.pods.vals "d1"
    dsFreshOk api2 "d1" (Map.get cache "d1") = false ∧ dsFreshOk api2 "d1" (Map.get fixed "d1") = true := by
  decide

end Karp.C11
