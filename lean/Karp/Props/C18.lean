/- C18: property theorems (stub, not yet built) -/
namespace Karp.C18
end Karp.C18
