/-
C18 — Scheduling simulations have no side effects.

Property theorems only (helper lemmas: `Karp/Proofs/EffectsLemmas.lean`).
Model: `Karp/Model/Effects.lean` (heap with deep copies; nominations and pod bookkeeping of a provisioning pass),
       `Karp/Model/EffectFacts.lean` (the hand-written allowlist over the write-effect facts regenerated from the source).
Spec:  `Karp/Spec/NoEffect.lean` (what may change, restated from the property text; evaluated by the driver on the
       digests of the real world before and after real simulations / passes).

A pure model cannot see aliasing.  The statement is therefore split the way the code is built:
  (1) a *semantic* part — if every reference field of a `StateNode` is treated by the deep copy, then a simulation whose
      writes are confined to what the copies reach (or to memory it allocates itself) leaves the observable world
      unchanged, for all worlds and all histories of simulations (accepted, rejected, timed out: any write list);
  (2) a *factual* part — decided over facts regenerated from the Go source on every run: the generated `DeepCopyInto`
      does treat every reference field; every write site reachable from `SimulateScheduling` / `Provisioner.Schedule` is
      admitted by the allowlist; no write method of the API client is reachable; the footprint of the admitted writes is
      within what the property allows.
The type-based region analysis behind (2) is in the trusted base; the dynamic digest search is the failing-input search.

Full statement and what is proved.  The property as stated needs, of the real code, that EVERY write reachable from a
simulation is confined (goes to a copy or to memory the simulation allocates): then `C18_simulations_unobservable`
applies to every history.  At the pinned commit that was false for two write sites, both on the pods handed to the
scheduler: `scheduling.newPodRequirements` sorts a pod's preferred node-affinity terms in place and
`DefaultTopologySpreadInjector.Inject` stamps cluster-default spread constraints onto the pod, and
`SimulateScheduling` passed the Candidates' own pod objects (shared by all simulations of a disruption decision).  That
defect was found by `c18.simulate` (corpus/c18.simulate/001, 002) and is repaired in /repo (`SimulateScheduling` deep-copies
the candidates' pods; known_findings.json `fixed`).  What remains in the allowlist's separate class `leak` is pinned by
`fact_sim_known_leaks`: writes to the scheduler's own copies (confined) and to the provisioner's cached CapacityBuffer
virtual pods — at the pinned commit NOT confined: the same two write sites reached the pod objects of the long-lived
`virtualpods.Cache`, which `Provisioner.GetPendingPods` handed to every simulation and provisioning pass uncopied.  Found by
reading the table, then exercised dynamically and confirmed on the real code (corpus/c18.simulate/007, 008,
c18.provision/003); repaired in /repo by fix f11624f42 (`GetPendingPods` deep-copies the cached pods; known_findings.json
`fixed`), under which the two rows disappear.  Everything else is confined: `fact_sim_writes_allowed`.
-/
import Karp.Proofs.EffectsLemmas
import Karp.Model.EffectFacts

namespace Karp.C18
open Karp.Effects Karp.EffectFacts
open Karp.Spec.NoEffect (NodeVal PodVal PlacedPod ExistingPlacement ClaimPlacement Outcome Live)
open Karp.Gen

/-! ## Fact expectations over the regenerated tables -/

/-- "no API object is written": no write method of the controller-runtime client is reachable from a simulation … -/
theorem fact_sim_no_api_writes : C18Effects.simClientWrites = [] := by decide

/-- … nor from `Provisioner.Schedule`; the first API write of a provisioning pass is the `Create` in
    `Provisioner.Create`, reached from `CreateNodeClaims` only -/
theorem fact_sched_no_api_writes :
    C18Effects.schedClientWrites = [] ∧
    C18Effects.createClientWrites = [("provisioning.Provisioner.Create", "client.Client.Create")] := by decide

/-- every write site reachable from `disruption.SimulateScheduling` is admitted by the allowlist -/
theorem fact_sim_writes_allowed : offending .sim = [] := by
  set_option maxRecDepth 8192 in decide

/-- every write site reachable from `Provisioner.Schedule` is admitted by the allowlist -/
theorem fact_sched_writes_allowed : offending .sched = [] := by
  set_option maxRecDepth 8192 in decide

/-- the live regions a simulation can reach: the pod bookkeeping `GetPendingPods` keeps for the pods it refuses to
    consider (it is the provisioner's own method) — and nothing else: no node usage, host ports, volumes, deletion
    marks or nominations -/
theorem fact_sim_footprint :
    footprintSyms .sim = [("cluster", C18Effects.S.«state.Cluster.podHealthyNodePoolScheduledTime»),
                          ("cluster", C18Effects.S.«state.Cluster.podToNodeClaim»),
                          ("cluster", C18Effects.S.«state.Cluster.podsSchedulableTimes»),
                          ("cluster", C18Effects.S.«state.Cluster.podsSchedulingAttempted»)] := by
  set_option maxRecDepth 8192 in decide

/-- the live regions `Provisioner.Schedule` can reach: nominations and pod bookkeeping -/
theorem fact_sched_footprint :
    footprintSyms .sched = [("node", C18Effects.S.«state.StateNode.nominatedUntil»),
                            ("cluster", C18Effects.S.«state.Cluster.podHealthyNodePoolScheduledTime»),
                            ("cluster", C18Effects.S.«state.Cluster.podToNodeClaim»),
                            ("cluster", C18Effects.S.«state.Cluster.podsSchedulableTimes»),
                            ("cluster", C18Effects.S.«state.Cluster.podsSchedulingAttempted»)] := by
  set_option maxRecDepth 8192 in decide

/-- the symbols of the footprints are what their names say (the generator numbers the symbols; this pins the numbers
    used above to the names) -/
theorem fact_footprint_symbols :
    [C18Effects.S.«state.StateNode.nominatedUntil», C18Effects.S.«state.Cluster.podHealthyNodePoolScheduledTime»,
     C18Effects.S.«state.Cluster.podToNodeClaim», C18Effects.S.«state.Cluster.podsSchedulableTimes»,
     C18Effects.S.«state.Cluster.podsSchedulingAttempted»].map C18Effects.name =
    ["state.StateNode.nominatedUntil", "state.Cluster.podHealthyNodePoolScheduledTime", "state.Cluster.podToNodeClaim",
     "state.Cluster.podsSchedulableTimes", "state.Cluster.podsSchedulingAttempted"] := by
  set_option maxRecDepth 8192 in decide

/-- the write-effect rows of the recorded findings C18-virtual-pods-preferences-sorted / C18-virtual-pods-default-spread-stamped
    (known_findings.json): the in-place sort in `scheduling.newPodRequirements` and the stamping in `Inject` reach, through
    root 2 `provisioner`, the pod objects of the provisioner's long-lived `virtualpods.Cache` (`GetPendingPods` appends
    what `Cache.GetAll` returns, uncopied) -/
def virtualPodLeaks : List (Nat × Nat × Nat) :=
  [(2, C18Effects.S.«provisioner», C18Effects.S.«scheduling.newPodRequirements»),
   (2, C18Effects.S.«provisioner», C18Effects.S.«provisioning/scheduling.DefaultTopologySpreadInjector.Inject»)]

/-- What the static analysis still sees after the repair of C18-sim-mutates-candidate-pods (`SimulateScheduling` now
    hands the scheduler deep copies of the candidates' pods, so the `candidates` rows are gone): the in-place sort of a
    pod's preferred node-affinity terms in `scheduling.newPodRequirements` and the stamping of default spread constraints
    in `Inject` reach the scheduler's own queue (root 0) and pods seen through library callbacks (roots 1, 3: the copies
    made through `lo.Map`) — confined — and, at the pinned commit, the cached virtual pods of the provisioner
    (`virtualPodLeaks`): NOT confined.  That part was first found by reading the table only; `c18.simulate` /
    `c18.simdecide` / `c18.provision` now exercise it with real CapacityBuffer caches and confirm it on the real code
    (corpus/c18.simulate/007, 008, corpus/c18.provision/003; observable consequence in
    harness/internal/c18/consequence_test.go).

    Full statement (what the property needs), proved: the confined rows are exactly these four and no write reaches the
    pod objects of the virtual-pod cache (since fix f11624f42 `GetPendingPods` hands out deep copies: the two rows of the
    former findings moved to root 1 `lo.Map`).  A new write to an object shared with the caller changes the list and
    breaks the theorem. -/
theorem fact_sim_known_leaks :
    (leakSyms .sim).filter (fun r => !virtualPodLeaks.contains r) =
      [(0, C18Effects.S.«provisioning/scheduling.Queue», C18Effects.S.«scheduling.newPodRequirements»),
       (3, C18Effects.S.«*k8s.io/api/core/v1.Pod», C18Effects.S.«scheduling.newPodRequirements»),
       (1, C18Effects.S.«github.com/samber/lo.Map», C18Effects.S.«scheduling.newPodRequirements»),
       (1, C18Effects.S.«github.com/samber/lo.Map», C18Effects.S.«provisioning/scheduling.DefaultTopologySpreadInjector.Inject»)] ∧
    (leakSyms .sim).filter (fun r => virtualPodLeaks.contains r) = [] := by
  set_option maxRecDepth 8192 in decide

/-- `C18_deepcopy_complete`: the generated deep copies start from the shallow `*out = *in` and treat every
    reference-holding field of `StateNode`, `HostPortUsage` and `VolumeUsage` -/
theorem fact_deepcopy_complete :
    C18Copy.stateNodeShallowFirst = true ∧
    C18Copy.stateNodeFields.all (fun f => !f.2.2 || C18Copy.stateNodeDeepCopied.any (fun p => p.1 == f.1)) = true ∧
    C18Copy.hostPortUsageShallowFirst = true ∧
    C18Copy.hostPortUsageFields.all (fun f => !f.2.2 || C18Copy.hostPortUsageDeepCopied.any (fun p => p.1 == f.1)) = true ∧
    C18Copy.volumeUsageShallowFirst = true ∧
    C18Copy.volumeUsageFields.all (fun f => !f.2.2 || C18Copy.volumeUsageDeepCopied.any (fun p => p.1 == f.1)) = true := by
  decide

/-- the aggregates the property names are fields of `StateNode` (node usage, host ports, volumes, deletion marks,
    nominations) -/
theorem fact_statenode_aggregates :
    ["podRequests", "podLimits", "daemonSetRequests", "daemonSetLimits", "hostPortUsage", "volumeUsage",
     "markedForDeletion", "nominatedUntil"].all (fun n => C18Copy.stateNodeFields.any (fun f => f.1 == n)) = true := by
  decide

/-- origin lemma "existing nodes are copies": both entry points take their nodes from `Cluster.DeepCopyNodes()`, which
    maps `DeepCopy` over the cluster's nodes, and hand (a filtered sub-slice of) exactly those to `NewScheduler` -/
theorem fact_existing_nodes_are_copies :
    C18Copy.simNodesSource = "cluster.DeepCopyNodes()" ∧
    C18Copy.simStateNodesSource = "lo.Filter(nodes.Active(), …)" ∧
    C18Copy.simNodesSourceArg = ["stateNodes"] ∧
    C18Copy.schedNodesSource = "p.cluster.DeepCopyNodes()" ∧
    C18Copy.schedNodesSourceArg = ["nodes.Active()"] ∧
    C18Copy.deepCopyNodesCalls.contains "n.DeepCopy" = true := by decide

/-- origin lemma "relaxation works on a copy": `Solve` hands `pod.DeepCopy()` to `trySchedule`, the only caller of
    `Preferences.Relax` -/
theorem fact_relaxation_on_copy :
    C18Copy.solveTryScheduleArgs = ["pod.DeepCopy()"] ∧ C18Copy.relaxCallers = ["trySchedule"] := by decide

/-- origin lemma "instance types are filtered into new slices before sorting": `filterInstanceTypesByRequirements`
    collects into a slice it allocates itself and returns that slice (or nil) -/
theorem fact_filter_returns_fresh_slice :
    C18Copy.filterRemainingInit = "cloudprovider.InstanceTypes{}" ∧ C18Copy.filterReturns = ["nil", "remaining"] := by
  decide

/-- origin lemma "the DRA allocator's counter budgets are copies": `computeTemplateTotals` builds the per-(NodeClaim,
    instance type) remaining shared-counter budget — which `AllocationTracker.commitTemplateCounters` lowers in place with
    every committed allocation — from the cloud provider's `ResourceSliceTemplate.SharedCounters`.  Every value it stores
    goes into a map the function made itself and is either such a map or a `Counter` literal whose fields are `DeepCopy()`
    results, and it returns a map it made: nothing of the provider's template is reachable from the budget that the
    simulation writes to (the region hypothesis of `C18_simulation_unobservable` for the provider's templates) -/
theorem fact_template_totals_are_copies :
    C18Copy.templateTotalsStores.isEmpty = false ∧
    C18Copy.templateTotalsStores.all (fun s => s.2 == "fresh-map" || s.2 == "deepcopy-literal") = true ∧
    C18Copy.templateTotalsStores.any (fun s => s.2 == "deepcopy-literal") = true ∧
    C18Copy.templateTotalsReturns = ["fresh-map"] := by decide

/-- the nomination window is `max(2·BatchMaxDuration, 10 s)` -/
theorem fact_nomination_window :
    C18Copy.nominationBatchMultiplier = 2 ∧ C18Copy.nominationFloorSeconds = 10 := by decide

/-- the specification's vocabulary is the code's: the bookkeeping fields it names are fields of `state.Cluster` -/
theorem fact_policy_fields_exist :
    Karp.Spec.NoEffect.bookkeepingFields.all (fun n => C18Copy.clusterFields.any (fun f => f.1 == n)) = true ∧
    C18Copy.stateNodeFields.any (fun f => f.1 == "nominatedUntil") = true := by decide

/-- the specification's field names are the names of the symbols the footprints consist of -/
theorem fact_spec_names_footprint :
    Karp.Spec.NoEffect.bookkeepingFields.map (fun f => "state.Cluster." ++ f) =
      ["state.Cluster.podAcks", "state.Cluster.podsSchedulingAttempted", "state.Cluster.podsSchedulableTimes",
       "state.Cluster.podHealthyNodePoolScheduledTime", "state.Cluster.podToNodeClaim"] := by decide

/-- **C18_static_footprint_within_policy** — what the admitted writes can reach is within what the property allows: a
    simulation reaches pod bookkeeping only (and only via `GetPendingPods`' refusal records), a provisioning pass reaches
    nominations and pod bookkeeping only.  (Stated over the symbols; `fact_footprint_symbols` and
    `fact_spec_names_footprint` give their names, which are the specification's `bookkeepingFields` / `nominatedUntil`.) -/
theorem C18_static_footprint_within_policy :
    (footprintSyms .sim).all (fun r => r.1 == "cluster" && anySym r.2 bookkeepingFieldSyms) = true ∧
    (footprintSyms .sched).all (fun r => (r.1 == "cluster" && anySym r.2 bookkeepingFieldSyms) ||
        (r.1 == "node" && isSym r.2 C18Effects.S.«state.StateNode.nominatedUntil»)) = true := by
  set_option maxRecDepth 8192 in decide

/-! ## Simulations leave the observable world unchanged (all worlds, all histories) -/

/-- **C18_simulation_unobservable** — one simulation.  For every world (any heap, any live nodes, any shared cells),
    every write list (an accepted, a rejected and a timed-out simulation differ only in the list), every deep copy that
    treats all reference fields of the nodes: if the writes are confined to what the copies reach or to memory allocated
    afterwards, the observation of the live nodes and of everything shared is exactly what it was, and the world stays
    well-formed (so the next simulation starts under the same hypotheses). -/
theorem C18_simulation_unobservable (t : String → Bool) (w : World) (ws : List (Addr × Int))
    (wf : w.WF) (hc : ∀ o ∈ w.nodes, Complete t o = true) (conf : Confined t w ws) :
    (simulate t w ws).obs = w.obs ∧ (simulate t w ws).WF := by
  have hcell := simulate_cell_lt t w ws hc conf
  have hnext := simulate_next_le t w ws
  have ⟨hn, hs⟩ := simulate_nodes t w ws
  refine ⟨?_, ?_, ?_⟩
  · simp only [World.obs, hn, hs]
    congr 1
    · apply List.map_congr_left
      intro o ho
      apply observe_congr
      intro a ha
      exact hcell a (wf.1 o ho a ha)
    · apply List.map_congr_left
      intro a ha
      exact hcell a (wf.2 a ha)
  · intro o ho a ha
    rw [hn] at ho
    have := wf.1 o ho a ha
    omega
  · intro a ha
    rw [hs] at ha
    have := wf.2 a ha
    omega

/-- **C18_simulations_unobservable** — arbitrarily many consecutive simulations: for every history of confined
    simulations the observable world at the end is the one at the start. -/
theorem C18_simulations_unobservable (t : String → Bool) (hist : List (List (Addr × Int))) :
    ∀ (w : World), w.WF → (∀ o ∈ w.nodes, Complete t o = true) → ConfinedAll t w hist →
      (simulateAll t w hist).obs = w.obs ∧ (simulateAll t w hist).WF := by
  induction hist with
  | nil => intro w wf _ _; exact ⟨rfl, wf⟩
  | cons ws rest ih =>
    intro w wf hc conf
    obtain ⟨c1, crest⟩ := conf
    have ⟨hobs, hwf⟩ := C18_simulation_unobservable t w ws wf hc c1
    have := ih (simulate t w ws) hwf (simulate_complete t w ws hc) crest
    simp only [simulateAll]
    exact ⟨this.1.trans hobs, this.2⟩

/-- **C18_copies_faithful** — the nodes a simulation schedules against show exactly what the live nodes show (the
    simulation decides on the real usage, ports, volumes, marks and nominations). -/
theorem C18_copies_faithful (t : String → Bool) (w : World) (wf : w.WF) (hc : ∀ o ∈ w.nodes, Complete t o = true) :
    (simCopies t w).map (observe (simHeap t w)) = w.nodes.map (observe w.heap) :=
  copyAll_observe t w.nodes w.heap wf.1 hc

/-- an object shaped like a `StateNode` (its reference fields are among the regenerated reference-holding fields) is
    completely treated by the regenerated `DeepCopyInto` -/
theorem C18_statenode_copy_complete (o : Obj) (h : IsStateNode o = true) : Complete stateNodeTreated o = true := by
  have hfact := fact_deepcopy_complete.2.1
  simp only [IsStateNode, List.all_eq_true, List.any_eq_true] at h
  simp only [Complete, List.all_eq_true]
  intro n hn
  obtain ⟨f, hf, hfn⟩ := h n hn
  simp only [Bool.and_eq_true, beq_iff_eq] at hfn
  have := (List.all_eq_true.mp hfact) f hf
  simp only [hfn.2, Bool.not_true, Bool.false_or] at this
  simp only [stateNodeTreated, ← hfn.1]
  exact this

/-- **C18_statenode_simulations_unobservable** — the history theorem instantiated with the deep copy the source has:
    for every cluster of `StateNode`-shaped objects and every history of confined simulations nothing observable
    changes. -/
theorem C18_statenode_simulations_unobservable (hist : List (List (Addr × Int))) (w : World) (wf : w.WF)
    (shape : ∀ o ∈ w.nodes, IsStateNode o = true) (conf : ConfinedAll stateNodeTreated w hist) :
    (simulateAll stateNodeTreated w hist).obs = w.obs :=
  (C18_simulations_unobservable stateNodeTreated hist w wf
    (fun o ho => C18_statenode_copy_complete o (shape o ho)) conf).1

/-! ### The hypothesis matters: a field the deep copy does not treat leaks

`DeepCopyInto` begins with `*out = *in`; a reference field it then fails to treat still points at the original's map.
A write through the copy — confined in the sense above — is then visible in the live state. -/

def leakWorld : World :=
  { heap := { cell := fun a => if a = 0 then 5 else 0, next := 1 }, nodes := [[("hostPortUsage", .ref 0)]], shared := [] }

/-- **C18_shallow_copy_leaks** — with an untreated reference field one write that is confined (it goes through the
    copy) changes what the live node shows -/
theorem C18_shallow_copy_leaks :
    Confined (fun _ => false) leakWorld [(0, 9)] ∧
    leakWorld.obs = ([[("hostPortUsage", 5)]], []) ∧
    (simulate (fun _ => false) leakWorld [(0, 9)]).obs = ([[("hostPortUsage", 9)]], []) := by
  refine ⟨?_, ?_, ?_⟩
  · intro x hx
    simp only [List.mem_singleton] at hx
    subst hx
    exact Or.inl ⟨[("hostPortUsage", .ref 0)], by simp [simCopies, leakWorld, copyAll, copyObj], by simp [refs]⟩
  · simp [World.obs, leakWorld, observe]
  · simp [World.obs, leakWorld, simulate, copyAll, copyObj, observe, Heap.writes, Heap.write]

/-! ## A provisioning pass changes only nominations and pod bookkeeping -/

/-- **C18_provision_frame** — for every live state, every outcome of a scheduling pass, every set of refused pods and
    every clock: the model of the pass (`Results.Record` + `MarkPodSchedulingDecisions`) satisfies the specification's
    frame: deletion marks are untouched; a nomination moves only on a node the pass placed a pod on, and then into the
    future; the time a pod was first seen is untouched; the first decision time is write-once; a pod the pass neither
    placed, failed nor refused keeps its bookkeeping. -/
theorem C18_provision_frame (now batch : Int) (healthy ignored : List String) (o : Outcome) (l : Live) :
    Karp.Spec.NoEffect.provisioningValuesOk now ignored o l (provisionPass now batch healthy ignored o l) = true := by
  have h1 := nodes_frame now (nominationWindow batch) (nominationWindow_pos batch) o l.nodes
  have h2 := pods_frame now healthy ignored o l.pods
  have hl1 : (nominate now (nominationWindow batch) o l.nodes).length = l.nodes.length := by simp [nominate]
  have hl2 : (markDecisions now healthy o (markIgnored now ignored l.pods)).length = l.pods.length := by
    simp [markDecisions, markIgnored, applyEdits_eq_map]
  simp only [Karp.Spec.NoEffect.provisioningValuesOk, provisionPass, hl1, hl2, beq_self_eq_true,
    h1, h2, Bool.and_self]

/-- **C18_simulation_values** — the values a simulation may move: none, except the refusal records of the pods
    `GetPendingPods` ignores (first decision time kept or set, nothing else kept) -/
theorem C18_simulation_values (now : Int) (ignored : List String) (l : Live) :
    Karp.Spec.NoEffect.simulationValuesOk now ignored l (simulationPass now ignored l) = true := by
  have h := sim_pods_frame now ignored l.pods
  have hl : (markIgnored now ignored l.pods).length = l.pods.length := by simp [markIgnored, applyEdits_eq_map]
  simp only [Karp.Spec.NoEffect.simulationValuesOk, simulationPass, hl, beq_self_eq_true, Bool.true_and, h]

/-- **C18_history_stable** — over every history of provisioning passes (any outcomes), failed passes and simulations, at
    any clock readings: the deletion marks, the set of nodes and pods, the time each pod was first seen, and every first
    decision time already taken are what they were at the start. -/
theorem C18_history_stable (steps : List Step) : ∀ l : Live, Stable l (runSteps l steps) := by
  induction steps with
  | nil => intro l; exact stable_refl l
  | cons s rest ih =>
    intro l
    simp only [runSteps, List.foldl_cons]
    exact stable_trans (step_stable s l) (ih (s.run l))

/-- a simulation never nominates: over every history of simulations the nominations are what they were -/
theorem C18_simulations_never_nominate (steps : List (Int × List String)) : ∀ l : Live,
    (runSteps l (steps.map (fun s => Step.simulation s.1 s.2))).nodes = l.nodes := by
  induction steps with
  | nil => intro l; rfl
  | cons s rest ih =>
    intro l
    simp only [List.map_cons, runSteps, List.foldl_cons]
    have := ih ((Step.simulation s.1 s.2).run l)
    simp only [runSteps] at this
    rw [this]
    rfl

/-! ## Non-vacuity: concrete worlds meet the hypotheses and exercise the definitions -/

/-- a two-node cluster whose nodes are shaped like `StateNode`s (usage maps, host ports, volumes behind references; the
    deletion mark inline) plus one shared cell (an instance type) -/
def demoWorld : World :=
  { heap := { cell := fun a => [10, 11, 12, 20, 21, 22, 99].getD a 0, next := 7 },
    nodes := [[("podRequests", .ref 0), ("hostPortUsage", .ref 1), ("volumeUsage", .ref 2), ("markedForDeletion", .scalar 0)],
              [("podRequests", .ref 3), ("hostPortUsage", .ref 4), ("volumeUsage", .ref 5), ("markedForDeletion", .scalar 1)]],
    shared := [6] }

example : demoWorld.WF := by
  constructor
  · intro o ho a ha
    simp only [demoWorld, List.mem_cons, List.mem_nil_iff, or_false] at ho
    rcases ho with rfl | rfl <;> simp [refs] at ha <;> rcases ha with rfl | rfl | rfl <;> decide
  · intro a ha; simp [demoWorld] at ha; subst ha; decide

example : ∀ o ∈ demoWorld.nodes, IsStateNode o = true := by decide

/-- the copies live at 7..12; a simulation that overwrites all of them and some scheduler-local cell is confined -/
example : Confined stateNodeTreated demoWorld [(7, 0), (8, 0), (12, 5), (40, 1)] := by
  intro x hx
  simp only [List.mem_cons, List.mem_nil_iff, or_false] at hx
  rcases hx with rfl | rfl | rfl | rfl
  · exact Or.inl ⟨_, List.mem_cons_self, by decide⟩
  · exact Or.inl ⟨_, List.mem_cons_self, by decide⟩
  · exact Or.inl ⟨_, List.mem_cons_of_mem _ List.mem_cons_self, by decide⟩
  · exact Or.inr (by decide)

example : (simulate stateNodeTreated demoWorld [(7, 0), (8, 0), (12, 5), (40, 1)]).obs =
    ([[("podRequests", 10), ("hostPortUsage", 11), ("volumeUsage", 12), ("markedForDeletion", 0)],
      [("podRequests", 20), ("hostPortUsage", 21), ("volumeUsage", 22), ("markedForDeletion", 1)]], [99]) := by decide

/-- a pass that places a pending pod on an existing managed node, opens a claim for another and fails a third -/
def demoLive : Live :=
  { nodes := [⟨"fake://n1", "n1", "nc-n1", 0, false⟩, ⟨"fake://n2", "n2", "", 0, true⟩],
    pods := [⟨"a", 5, 0, 0, 0, ""⟩, ⟨"b", 6, 7, 0, 0, ""⟩, ⟨"c", 0, 0, 0, 0, ""⟩, ⟨"d", 0, 3, 3, 3, "nc-old"⟩] }

def demoOutcome : Outcome :=
  { existing := [⟨"fake://n1", "nc-n1", "pool-0", [⟨"a", false⟩]⟩], claims := [⟨"pool-1", [⟨"b", false⟩]⟩], errors := ["c"] }

example : provisionPass 100 (10 * 1000000000) ["pool-0"] [] demoOutcome demoLive =
    { nodes := [⟨"fake://n1", "n1", "nc-n1", 100 + 20 * 1000000000, false⟩, ⟨"fake://n2", "n2", "", 0, true⟩],
      pods := [⟨"a", 5, 100, 100, 100, "nc-n1"⟩, ⟨"b", 6, 7, 100, 0, ""⟩, ⟨"c", 0, 100, 0, 0, ""⟩, ⟨"d", 0, 3, 3, 3, "nc-old"⟩] } := by
  decide

example : nominationWindow (1 * 1000000000) = 10 * 1000000000 ∧ nominationWindow (30 * 1000000000) = 60 * 1000000000 := by
  decide

end Karp.C18
