/- C04: property theorems (stub, not yet built) -/
namespace Karp.C04
end Karp.C04
