/-
C04 — New capacity is opened only when existing capacity cannot admit the pod.

Property theorems only (helper lemmas: `Karp/Proofs/ProvisionLemmas.lean`, `Karp/Proofs/Sched.lean`).
Model: `Karp/Model/Provision.lean` (StateNode view, `Scheduler.add`, Synced gate) over `Karp/Model/Sched.lean`
       (`ExistingNode.CanAdd/Add`, instance-type filter); `Karp/Model/PodAcct.lean` (which pods cluster state charges to a
       node across Pod / Node informer events; lemmas `Karp/Proofs/PodAcctLemmas.lean`, spec `Karp/Spec/Assigned.lean`,
       tied to the code by `c04.account` and, through whole passes, `c04.churn`).
Spec:  `Karp/Spec/NeedCapacity.lean` — evaluated by the driver on the commit traces of real passes and two-pass
       histories (ops `c04.history`, `c04.repass`, `c04.pass`, `c04.room`: nodes lacking well-known labels next to
       daemonsets selecting them, pods with multi-term volume topologies); the model itself is tied to the code by `c04.view`,
       `c04.synced`, the replay inside `c04.history`/`c04.pass`, and `c01.existing`.
-/
import Karp.Proofs.ProvisionLemmas
import Karp.Proofs.PodAcctLemmas

namespace Karp.C04
open Karp.Req Karp.Scn Karp.Sched Karp.Provision
open Karp.Gen.C04Flow

/-! ## Fact expectations over the regenerated source facts -/

/-- `Scheduler.add` tries existing nodes, then the NodeClaims of the pass, then a new NodeClaim — in this order -/
theorem fact_add_order : addCalls = ["addToExistingNode", "addToInflightNode", "addToNewNodeClaim"] := by decide
/-- and returns as soon as one of them succeeded (`err == nil` after each attempt) -/
theorem fact_add_returns : addConds.drop 2 = ["err == nil", "err == nil", "len(s.nodeClaimTemplates) == 0", "err == nil"] := by decide
/-- `trySchedule` relaxes only after a whole `add` (existing, in-flight AND new) failed -/
theorem fact_relax_after_add : tryScheduleCalls = ["add", "Relax"] := by decide
/-- `ExistingNode.CanAdd`: taints, volume limits, host ports, resources, requirements -/
theorem fact_existing_canAdd : existingCanAddCalls = ["ToleratesPod", "ExceedsLimits", "Conflicts", "Fits", "Compatible"] := by decide
theorem fact_existing_fits : existingCanAddConds.take 5 =
    ["err != nil", "err != nil", "err != nil", "!resources.Fits(podData.Requests, n.remainingResources)", "err != nil"] := by decide
/-- the loop over the pod's volume alternatives in `ExistingNode.CanAdd` SKIPS a failing alternative (it remembers the error
    and continues with the next one); the model's `existingCanAddV` is an `any` over the alternatives -/
theorem fact_volume_alternative_skipped : volumeAlternativeFailure = ["if err != nil", "lastErr = err", "continue"] := by decide
/-- `isDaemonPodCompatibleWithNode` checks the daemon pod's requirements against the node's labels with NO option (no
    undefined key is allowed, well-known or not): `dsCountedWith` -/
theorem fact_daemon_node_compatible : daemonNodeCompatibleArgs = ["scheduling.NewStrictPodRequirements(p)"] := by decide
/-- `MarkForDeletion` has no `return`: an id without state node is skipped, the loop goes on (`markStep`) -/
theorem fact_mark_no_early_return : markForDeletionReturns = [] ∧ unmarkForDeletionReturns = [] := by decide
/-- `VolumeUsage.ExceedsLimits` counts the union of the volumes in use and the pod's (`exceedsLimits`) -/
theorem fact_exceeds_limits_union : exceedsLimitsCalls = ["Union"] := by decide
/-- `resolveCustomLabelsFromRequirements` gives the NodeClaim a concrete label for EVERY user-defined requirement key that
    `Any()` yields a value for (not only for single-valued `In`) -/
theorem fact_custom_labels_resolved : resolveCustomLabelsConds =
    ["v1.WellKnownLabels.Has(key) || v1.RestrictedLabels.Has(key) || schedulingSimulationKeys.Has(key)", "value != \"\""] := by decide
/-- the existing nodes of a pass are built from `StateNode.Taints()` and the daemonsets compatible with the node -/
theorem fact_existing_nodes : existingNodeCalls = ["Taints", "getCompatibleDaemonPods", "NewExistingNode"] := by decide

/-- one provisioning round: batch, Synced gate, pass, create -/
theorem fact_reconcile_order : reconcileCalls = ["Wait", "Synced", "Schedule", "CreateNodeClaims"] := by decide
/-- the gate returns before the pass when the cluster is not synced -/
theorem fact_reconcile_gate : reconcileSyncedGate = "!p.cluster.Synced(ctx)" := by decide
/-- the pass schedules against `nodes.Active()`: nodes marked for deletion are not capacity -/
theorem fact_schedule_active : scheduleStateNodesArg = "nodes.Active()" := by decide
theorem fact_active_filter : activeReturns = ["lo.Filter(n, (func", "!node.MarkedForDeletion()"] := by decide
theorem fact_marked_for_deletion : stateNodeMarkedForDeletionReturns = ["in.markedForDeletion || in.Deleted()"] := by decide
/-- `Provisioner.Create` tells cluster state about the NodeClaim right after the API create … -/
theorem fact_create_order : createCalls = ["ExceededBy", "ToNodeClaim", "Create", "UpdateNodeClaim"] := by decide
/-- … and `UpdateNodeClaim` records the (still empty) provider id under the NodeClaim's name, unconditionally -/
theorem fact_update_records :
    updateNodeClaimRecords = ["c.nodeClaimNameToProviderID[nodeClaim.Name] = nodeClaim.Status.ProviderID"] ∧
    updateNodeClaimConds = ["nodeClaim.Status.ProviderID != \"\"", "ok"] := by decide
/-- `Synced` refuses on both paths (already synced / first sync) while some recorded provider id is empty -/
theorem fact_synced_conds : (syncedConds.drop 3) =
    ["c.hasSynced.Load()", "providerID == \"\"", "err != nil", "err != nil", "providerID == \"\"", "synced"] := by decide

/-- which representation the scheduler looks at, per lifecycle stage -/
theorem fact_view_taints : stateNodeTaintsConds =
    ["(!in.Registered() && in.Managed()) || in.Node == nil", "!in.Initialized() && in.Managed()",
     "scheduling.IsKnownEphemeralTaint(&taint)", "found"] ∧
    stateNodeTaintsReturns = ["lo.Reject(taints, (func", "true", "t.MatchTaint(&taint)", "true", "false", "taints"] := by decide
theorem fact_view_labels : stateNodeLabelsConds = ["in.Node == nil", "in.NodeClaim == nil", "!in.Registered()"] ∧
    stateNodeLabelsReturns = ["in.NodeClaim.Labels", "in.Node.Labels", "in.NodeClaim.Labels", "in.Node.Labels"] := by decide
theorem fact_view_allocatable :
    stateNodeAllocatableConds = ["!in.Initialized() && in.NodeClaim != nil", "in.Node != nil", "resources.IsZero(ret[resourceName])"] ∧
    stateNodeAllocatableReturns = ["ret", "in.NodeClaim.Status.Allocatable", "in.Node.Status.Allocatable"] := by decide
theorem fact_view_stage_labels :
    stateNodeRegisteredReturns = ["in.Node != nil && in.Node.Labels[v1.NodeRegisteredLabelKey] == \"true\"", "true"] ∧
    stateNodeInitializedReturns = ["in.Node != nil && in.Node.Labels[v1.NodeInitializedLabelKey] == \"true\"", "true"] ∧
    stateNodeManagedReturns = ["in.NodeClaim != nil"] ∧
    nodeRegisteredLabelKey = "karpenter.sh/registered" ∧ nodeInitializedLabelKey = "karpenter.sh/initialized" := by decide
/-- the taints a starting node is expected to carry: kubelet's not-ready / unreachable, the cloud controller's
    uninitialized taint and Karpenter's own unregistered taint (the property text: "known-ephemeral taints") -/
theorem fact_ephemeral_table :
    knownEphemeralTaints.map (fun t => (t.1, t.2.2)) =
      [("node.kubernetes.io/not-ready", "NoSchedule"), ("node.kubernetes.io/not-ready", "NoExecute"),
       ("node.kubernetes.io/unreachable", "NoSchedule"), ("node.cloudprovider.kubernetes.io/uninitialized", "NoSchedule"),
       ("karpenter.sh/unregistered", "NoExecute")] ∧
    knownEphemeralTaintKeyPrefixes = ["readiness.k8s.io/"] ∧ isKnownEphemeralTaintCalls = ["MatchTaint", "HasPrefix"] := by decide

/-- "what is already assigned there": `UpdatePod` releases a pod exactly when it is in a TERMINAL PHASE (not when it merely
    has a deletionTimestamp) and charges it otherwise; `DeletePod` releases it -/
theorem fact_update_pod : updatePodConds = ["podutils.IsTerminal(pod)"] ∧
    updatePodCalls = ["IsTerminal", "updateNodeUsageFromPodCompletion", "updateNodeUsageFromPod"] ∧
    deletePodCalls = ["updateNodeUsageFromPodCompletion"] := by decide
/-- every Node event REBUILDS the node's accounting from the pods the API lists for it, skipping exactly the pods in a
    terminal phase — the same test `UpdatePod` uses, so a Node event cannot resurrect what a Pod event released -/
theorem fact_rebuild : newStateFromNodeCalls = ["NewNode", "populateResourceRequests"] ∧
    populateResourceRequestsConds = ["err != nil", "podutils.IsTerminal(pod)", "err != nil"] ∧
    populateResourceRequestsCalls = ["List", "IsTerminal", "updateForPod", "cleanupOldBindings"] := by decide
theorem fact_pod_phase_tests :
    isTerminalReturns = ["pod.Status.Phase == corev1.PodFailed || pod.Status.Phase == corev1.PodSucceeded"] ∧
    isTerminatingReturns = ["pod.DeletionTimestamp != nil"] := by decide
/-- the binding bookkeeping the model `Karp.PodAcct` mirrors branch by branch -/
theorem fact_usage_from_pod :
    updateNodeUsageFromPodConds = ["pod.Spec.NodeName == \"\"", "!ok", "bindingKnown && oldNodeName != pod.Spec.NodeName", "err != nil"] ∧
    updateNodeUsageFromPodCalls = ["updateNodeUsageFromPodCompletion", "updateNodeUsageFromPodCompletion", "updateForPod", "cleanupOldBindings"] ∧
    podCompletionConds = ["!bindingKnown", "!ok"] ∧ podCompletionCalls = ["delete", "cleanupForPod"] ∧
    cleanupOldBindingsConds = ["bindingKnown", "oldNodeName == pod.Spec.NodeName", "ok"] := by decide
/-- releasing a pod on a node drops its host ports, volumes, requests, limits, daemonset requests / limits and cost together -/
theorem fact_cleanup_for_pod : cleanupForPodCalls = ["DeletePod", "DeletePod", "delete", "delete", "delete", "delete", "delete"] := by decide

/-! ## 1. The guard of OpenNew -/

/-- the guard: no existing node and no NodeClaim of the pass admits the pod in the current state -/
def Needed {κ : Type} (ops : ClaimOps κ) (s : Pass κ) (p : PodD) : Prop :=
  (∀ e ∈ s.existing, existingCanAdd e p = false) ∧ (∀ c ∈ s.claims, ops.canAdd c p = false)

/-- **C04_open_only_if_needed** — whatever the admission function of the pass's NodeClaims is: if `Scheduler.add` opens a
    new NodeClaim for a pod, then in the state of that moment EVERY existing node refuses the pod (`ExistingNode.CanAdd`)
    and EVERY NodeClaim opened earlier in the pass refuses it. -/
theorem C04_open_only_if_needed {κ : Type} (ops : ClaimOps κ) (s : Pass κ) (p : PodD)
    (h : addDecision ops s p = .openNew) : Needed ops s p := by
  unfold addDecision at h
  cases h1 : firstIdx (fun e => existingCanAdd e p) s.existing with
  | some i => rw [h1] at h; simp at h
  | none =>
    rw [h1] at h
    simp only at h
    cases h2 : firstIdx (fun c => ops.canAdd c p) s.claims with
    | some j => rw [h2] at h; simp at h
    | none => exact ⟨firstIdx_none _ _ h1, firstIdx_none _ _ h2⟩

/-- a pod goes to a NodeClaim of the pass only if every existing node refuses it; the chosen NodeClaim admits it -/
theorem C04_inflight_only_if_no_existing {κ : Type} (ops : ClaimOps κ) (s : Pass κ) (p : PodD) (j : Nat)
    (h : addDecision ops s p = .inflight j) :
    (∀ e ∈ s.existing, existingCanAdd e p = false) ∧ ∃ c, s.claims[j]? = some c ∧ ops.canAdd c p = true := by
  unfold addDecision at h
  cases h1 : firstIdx (fun e => existingCanAdd e p) s.existing with
  | some i => rw [h1] at h; simp at h
  | none =>
    rw [h1] at h
    simp only at h
    cases h2 : firstIdx (fun c => ops.canAdd c p) s.claims with
    | none => rw [h2] at h; simp only at h; split at h <;> cases h
    | some j' =>
      rw [h2] at h
      simp only [Decision.inflight.injEq] at h
      subst h
      exact ⟨firstIdx_none _ _ h1, firstIdx_some _ _ _ h2⟩

/-- and a pod placed on an existing node was admitted by that node -/
theorem C04_existing_enabled {κ : Type} (ops : ClaimOps κ) (s : Pass κ) (p : PodD) (i : Nat)
    (h : addDecision ops s p = .existing i) : ∃ e, s.existing[i]? = some e ∧ existingCanAdd e p = true := by
  unfold addDecision at h
  cases h1 : firstIdx (fun e => existingCanAdd e p) s.existing with
  | some i' =>
    rw [h1] at h
    simp only [Decision.existing.injEq] at h
    subst h
    exact firstIdx_some _ _ _ h1
  | none =>
    rw [h1] at h
    simp only at h
    cases h2 : firstIdx (fun c => ops.canAdd c p) s.claims with
    | some j => rw [h2] at h; cases h
    | none => rw [h2] at h; simp only at h; split at h <;> cases h

/-- **C04_pass_trace** — over a whole pass (any queue of pods, any start state, any NodeClaim admission function): every
    step that opens a NodeClaim satisfies the guard in the state the step was taken in. -/
theorem C04_pass_trace {κ : Type} (ops : ClaimOps κ) : ∀ (ps : List PodD) (s : Pass κ) (p : PodD) (d : Decision) (st : Pass κ),
    (p, d, st) ∈ runPass ops s ps → d = .openNew → Needed ops st p := by
  intro ps
  induction ps with
  | nil => intro s p d st h; simp [runPass] at h
  | cons q rest ih =>
    intro s p d st h hd
    simp only [runPass, List.mem_cons] at h
    cases h with
    | inl heq =>
      simp only [Prod.mk.injEq] at heq
      obtain ⟨h1, h2, h3⟩ := heq
      subst h1 h3
      rw [h2] at hd
      exact C04_open_only_if_needed ops _ _ hd
    | inr hmem => exact ih _ p d st hmem hd

/-- **C04_refusal_stable** — what a pass has put on a node can only make the node refuse more: a node that refuses a pod
    keeps refusing it after any further pod was added (this is why "no node could admit it at the moment the NodeClaim
    was opened" also covers the required terms the scheduler looked at earlier in the pass). -/
theorem C04_refusal_stable (n : ExNode) (q p : PodD) (hq : 0 ≤ q.cpu ∧ 0 ≤ q.mem)
    (h : existingCanAdd n p = false) : existingCanAdd (existingAdd n q) p = false := by
  cases hc : existingCanAdd (existingAdd n q) p with
  | false => rfl
  | true => rw [canAdd_of_canAdd_after n q p hq hc] at h; cases h

theorem C04_refusal_stable_many : ∀ (qs : List PodD) (n n' : ExNode) (p : PodD),
    (∀ q ∈ qs, 0 ≤ q.cpu ∧ 0 ≤ q.mem) → addAll n qs = some n' → existingCanAdd n p = false → existingCanAdd n' p = false := by
  intro qs
  induction qs with
  | nil => intro n n' p _ h hr; simp only [addAll, Option.some.injEq] at h; subst h; exact hr
  | cons q rest ih =>
    intro n n' p hnn h hr
    simp only [addAll] at h
    by_cases hc : existingCanAdd n q = true
    · simp only [hc, if_true] at h
      exact ih _ n' p (fun x hx => hnn x (by simp [hx])) h (C04_refusal_stable n q p (hnn q (by simp)) hr)
    · simp only [hc, Bool.false_eq_true, if_false] at h; cases h

/-! ## 1b. Room that hangs on volumes and on labels the node does not carry

`ExistingNode.CanAdd` with the pod's volume topology alternatives (`existingCanAddV`): the alternatives are OR-ed, so an
existing node is refused for its volumes only when EVERY alternative fails on it - whatever their order; the guard of
OpenNew carries over.  A daemonset whose node selector names a label the node lacks is not counted for the node
(`isDaemonPodCompatibleWithNode` allows no undefined key), so nothing is reserved for it there. -/


/-- without volumes `addDecisionV` is `Scheduler.add` as before -/
theorem C04_add_without_volumes {κ : Type} (ops : ClaimOps κ) (s : Pass κ) (p : PodD) :
    addDecisionV ops s p [] = addDecision ops s p := by
  have hf : (fun e => existingCanAddV e p []) = (fun e => existingCanAdd e p) := by
    funext e; simp [existingCanAddV]
  unfold addDecisionV addDecision
  rw [hf]

/-- **C04_volume_some_alternative** — a node admits a pod with volumes iff it admits the pod as such and SOME volume
    alternative is compatible with its labels (narrowed by the pod's requirements) -/
theorem C04_volume_some_alternative (n : ExNode) (p : PodD) (alts : List (List KExpr)) :
    existingCanAddV n p alts = true ↔
      existingCanAdd n p = true ∧ (alts = [] ∨ ∃ a ∈ alts, volAltOK n p a = true) := by
  simp [existingCanAddV, List.isEmpty_iff, List.any_eq_true]

/-- a refusal is never due to ONE failing alternative -/
theorem C04_volume_refused_only_if_every_alternative_fails (n : ExNode) (p : PodD) (alts : List (List KExpr))
    (h : existingCanAddV n p alts = false) :
    existingCanAdd n p = false ∨ (alts ≠ [] ∧ ∀ a ∈ alts, volAltOK n p a = false) := by
  cases hc : existingCanAdd n p with
  | false => exact Or.inl rfl
  | true =>
    right
    simp only [existingCanAddV, hc, Bool.true_and, Bool.or_eq_false_iff, List.isEmpty_eq_false_iff, List.any_eq_false] at h
    exact ⟨h.1, fun a ha => by simpa using h.2 a ha⟩

/-- **C04_volume_later_alternative_counts** — an alternative that holds on the node counts wherever it stands in the list -/
theorem C04_volume_later_alternative_counts (n : ExNode) (p : PodD) (pre post : List (List KExpr)) (a : List KExpr)
    (h : existingCanAdd n p = true) (ha : volAltOK n p a = true) :
    existingCanAddV n p (pre ++ a :: post) = true := by
  rw [C04_volume_some_alternative]
  exact ⟨h, Or.inr ⟨a, by simp, ha⟩⟩

/-- the verdict does not depend on the order of the alternatives -/
theorem C04_volume_order_irrelevant (n : ExNode) (p : PodD) (alts alts' : List (List KExpr)) (h : alts.Perm alts') :
    existingCanAddV n p alts = existingCanAddV n p alts' := by
  have hm : ∀ a, a ∈ alts ↔ a ∈ alts' := fun a => h.mem_iff
  have he : alts = [] ↔ alts' = [] := by
    constructor
    · intro e; subst e; exact List.Perm.eq_nil (h.symm) |> fun x => x
    · intro e; subst e; exact List.Perm.eq_nil h
  rw [Bool.eq_iff_iff, C04_volume_some_alternative, C04_volume_some_alternative]
  constructor
  · rintro ⟨h1, h2⟩
    refine ⟨h1, ?_⟩
    rcases h2 with h2 | ⟨a, ha, hv⟩
    · exact Or.inl (he.mp h2)
    · exact Or.inr ⟨a, (hm a).mp ha, hv⟩
  · rintro ⟨h1, h2⟩
    refine ⟨h1, ?_⟩
    rcases h2 with h2 | ⟨a, ha, hv⟩
    · exact Or.inl (he.mpr h2)
    · exact Or.inr ⟨a, (hm a).mpr ha, hv⟩

/-- **C04_open_only_if_needed_volumes** — the guard of OpenNew for a pod with volumes: every existing node refuses the pod
    as such or fails EVERY volume alternative, and every NodeClaim opened earlier refuses it -/
theorem C04_open_only_if_needed_volumes {κ : Type} (ops : ClaimOps κ) (s : Pass κ) (p : PodD) (alts : List (List KExpr))
    (h : addDecisionV ops s p alts = .openNew) :
    (∀ e ∈ s.existing, existingCanAdd e p = false ∨ (alts ≠ [] ∧ ∀ a ∈ alts, volAltOK e p a = false)) ∧
    (∀ c ∈ s.claims, ops.canAdd c p = false) := by
  unfold addDecisionV at h
  cases h1 : firstIdx (fun e => existingCanAddV e p alts) s.existing with
  | some i => rw [h1] at h; simp at h
  | none =>
    rw [h1] at h
    simp only at h
    cases h2 : firstIdx (fun c => ops.canAdd c p) s.claims with
    | some j => rw [h2] at h; simp at h
    | none =>
      exact ⟨fun e he => C04_volume_refused_only_if_every_alternative_fails e p alts (firstIdx_none _ _ h1 e he), firstIdx_none _ _ h2⟩

/-- what a pass adds to a node does not change which volume alternatives hold on it (labels are fixed) -/
theorem C04_volume_alternative_stable (n : ExNode) (q p : PodD) (a : List KExpr) : volAltOK (existingAdd n q) p a = volAltOK n p a := rfl


/-- **C04_daemon_needs_label_partial** — a daemonset whose node selector is a single `key = value` is NOT counted for a node
    whose labels lack the (normalised) key, whatever the taints and the PreferNoSchedule variant: nothing is reserved for it.
    FULL statement (every selector entry whose key the node lacks): false in the model as in the code for selectors that
    name the same normalised key twice with different values - their intersection is empty, which Karpenter reads as
    `DoesNotExist` and an absent label satisfies (the empty-set-read-as-absent behaviour recorded under C01/C12). -/
theorem C04_daemon_needs_label_partial (pns : Bool) (d : DaemonSet) (k v : String) (ls : Labels) (taints : List Taint)
    (hsel : d.nodeSelector = [(k, v)]) (habs : ls.lookup (normalizeKey k) = none) :
    dsCountedWith pns d ls taints = false := by
  have hk : (labelReqs ls).hasKey (normalizeKey k) = false := by
    unfold Reqs.hasKey labelReqs
    induction ls with
    | nil => rfl
    | cons kv rest ih =>
      obtain ⟨k', v'⟩ := kv
      simp only [List.lookup] at habs
      simp only [List.map, List.lookup]
      cases hkk : (normalizeKey k == k') with
      | true => rw [hkk] at habs; cases habs
      | false => rw [hkk] at habs; simp only; exact ih habs
  unfold dsCountedWith
  rw [hsel]
  simp [selectorExprs, podReqs, Reqs.add, Reqs.add1, newReq, Req.new, normalizeValue, Reqs.compatible, Reqs.set, hk,
    Req.absentOk, Req.operator, Req.len, card, List.eraseDups, pure, Except.pure]
  intro _ h
  have hl : (List.eraseDupsBy (fun x1 x2 => x1 == x2) [v]).length = 1 := by
    simp [List.eraseDupsBy, List.eraseDupsBy.loop]
  rw [hl] at h
  simp at h

/-! non-vacuity -/
def dsSpot : DaemonSet := { name := "spot-handler", cpu := 1500, mem := 128, nodeSelector := [("karpenter.sh/capacity-type", "spot")], tolerations := [], hostPorts := [] }
example : dsCountedWith true dsSpot [("kubernetes.io/hostname", "n1"), ("topology.kubernetes.io/zone", "z1")] [] = false := by decide
example : dsCountedWith true dsSpot [("kubernetes.io/hostname", "n1"), ("karpenter.sh/capacity-type", "spot")] [] = true := by decide
def exZ3 : ExNode := { labels := [("kubernetes.io/hostname", "n1"), ("topology.kubernetes.io/zone", "z3")], taints := [], remCPU := 1000, remMem := 4096, remPods := 10, ports := [] }
def podV : PodD := { cpu := 500, mem := 64, tolerations := [], ports := [], exprs := [] }
def zoneIn (z : String) : List KExpr := [{ key := "topology.kubernetes.io/zone", op := .in_, vals := [z] }]
example : existingCanAddV exZ3 podV [zoneIn "z1", zoneIn "z3"] = true ∧ existingCanAddV exZ3 podV [zoneIn "z1", zoneIn "z2"] = false ∧
    volAltOK exZ3 podV (zoneIn "z1") = false := by decide
example : (volumeAlts [[zoneIn "z1", zoneIn "z3"], [], [zoneIn "z3"]]).map (·.map (·.vals)) = [[["z3"], ["z3"]]] ∧
    (volumeAlts [[], []]).length = 0 := by decide

/-! ## 1c. CSI attach limits and the deletion mark

`VolumeUsage.ExceedsLimits` compares the UNION of the claims in use on the node with the pod's claims against the limit
(`exceedsLimits`): a pod that re-mounts what is attached already never exceeds it.  `Cluster.MarkForDeletion` handles every
provider id of the call (`markStep`): none of the state nodes it names is left in `Active()`. -/

/-- inserting claims that are already in the set leaves it unchanged -/
theorem C04_union_of_attached : ∀ (podVols used : List String), (∀ v ∈ podVols, v ∈ used) → volUnion used podVols = used := by
  intro podVols
  induction podVols with
  | nil => intro used _; rfl
  | cons v rest ih =>
    intro used h
    have hv : used.contains v = true := by simpa using h v (by simp)
    simp only [volUnion, List.foldl_cons, hv, if_true]
    exact ih used (fun x hx => h x (by simp [hx]))

/-- **C04_remount_never_exceeds** — a pod that only mounts claims already in use on the node never runs into the node's
    attach limit, as long as the node itself is within it. -/
theorem C04_remount_never_exceeds (l : Nat) (used podVols : List String)
    (hsub : ∀ v ∈ podVols, v ∈ used) (hin : used.length ≤ l) : exceedsLimits (some l) used podVols = false := by
  simp only [exceedsLimits, C04_union_of_attached podVols used hsub]
  simp; omega

theorem C04_no_limit_never_exceeds (used podVols : List String) : exceedsLimits none used podVols = false := rfl

example : exceedsLimits (some 2) ["default/a", "default/b"] ["default/a"] = false ∧
    exceedsLimits (some 2) ["default/a", "default/b"] ["default/a", "default/c"] = true ∧
    exceedsLimits (some 2) ["default/a"] ["default/c", "default/c"] = false := by decide

/-! ### the deletion mark -/

theorem C04_setMark_sets (s : MarkSt) (x : String) : ∀ n ∈ setMark true s x, n.id = x → n.marked = true := by
  intro n hn hid
  simp only [setMark, List.mem_map] at hn
  obtain ⟨m, _, hm⟩ := hn
  by_cases h : (m.id == x) = true
  · simp only [h, if_true] at hm; subst hm; rfl
  · simp only [h] at hm
    subst hm
    exact absurd (by simpa using hid) h

theorem C04_setMark_mono (s : MarkSt) (x id : String) (h : ∀ n ∈ s, n.id = id → n.marked = true) :
    ∀ n ∈ setMark true s x, n.id = id → n.marked = true := by
  intro n hn hid
  simp only [setMark, List.mem_map] at hn
  obtain ⟨m, hm, he⟩ := hn
  by_cases hx : (m.id == x) = true
  · simp only [hx, if_true] at he; subst he; rfl
  · simp only [hx] at he
    subst he
    exact h _ hm hid

theorem C04_foldMark_mono : ∀ (ids : List String) (s : MarkSt) (id : String), (∀ n ∈ s, n.id = id → n.marked = true) →
    ∀ n ∈ ids.foldl (setMark true) s, n.id = id → n.marked = true := by
  intro ids
  induction ids with
  | nil => intro s id h; exact h
  | cons x rest ih => intro s id h; exact ih _ id (C04_setMark_mono s x id h)

/-- **C04_mark_covers_every_id** — ONE `MarkForDeletion` call marks every state node it names, wherever the id stands in the
    list and whatever else the list holds (unknown ids, duplicates). -/
theorem C04_mark_covers_every_id : ∀ (ids : List String) (s : MarkSt) (id : String), id ∈ ids →
    ∀ n ∈ markStep s (.mark ids), n.id = id → n.marked = true := by
  intro ids
  induction ids with
  | nil => intro s id h; cases h
  | cons x rest ih =>
    intro s id h
    simp only [markStep, List.foldl_cons]
    rcases List.mem_cons.mp h with hx | hr
    · subst hx; exact C04_foldMark_mono rest _ id (C04_setMark_sets s id)
    · exact ih (setMark true s x) id hr

/-- … so none of them is counted as capacity by the next pass (`StateNodes.Active`) -/
theorem C04_marked_ids_not_active (ids : List String) (s : MarkSt) (id : String) (h : id ∈ ids) :
    id ∉ (markStep s (.mark ids)).active := by
  intro hin
  simp only [MarkSt.active, List.mem_map, List.mem_filter] at hin
  obtain ⟨n, ⟨hn, hm⟩, hid⟩ := hin
  have := C04_mark_covers_every_id ids s id h n hn hid
  simp [this] at hm

/-- the ids a call names that have no state node change nothing: the state nodes stay the same -/
theorem C04_mark_keeps_nodes (ids : List String) (s : MarkSt) : (markStep s (.mark ids)).map (·.id) = s.map (·.id) := by
  simp only [markStep]
  induction ids generalizing s with
  | nil => rfl
  | cons x rest ih =>
    simp only [List.foldl_cons]
    rw [ih]
    simp only [setMark, List.map_map]
    apply List.map_congr_left
    intro n _
    simp only [Function.comp]
    split <;> rfl

example : (([.seeNode "b", .mark ["a", "x", "b"]] : List MarkEv).foldl markStep []).deleting = ["b"] ∧
    (([.seeNode "a", .seeClaim "a", .seeNode "b", .mark ["a"], .delNode "a", .seeNode "a", .delNode "b"] : List MarkEv).foldl markStep []).deleting = ["a"] := by decide


/-! ## 2. The in-flight view: what the scheduler sees of a launched NodeClaim at each lifecycle stage -/

/-- **C04_view_hides_taints** — until the node is initialized, `StateNode.Taints()` shows the scheduler neither a startup
    taint of the NodeClaim nor a known ephemeral taint, whichever object (NodeClaim or Node) the taints are read from. -/
theorem C04_view_hides_taints (n : SNode) (c : ClaimObj) (hc : n.claim = some c) (hi : n.initialized = false) :
    ∀ t ∈ n.taints, knownEphemeral t = false ∧ c.startupTaints.any (fun st => matchTaint st t) = false := by
  intro t ht
  unfold SNode.taints at ht
  simp only [hc, hi, Bool.not_false, if_true] at ht
  have := (List.mem_filter.mp ht).2
  simpa [Bool.or_eq_false_iff] using this

/-- what may sit on the Node of NodeClaim `c` while it starts: the NodeClaim's own taints (registration copies them), its
    startup taints, and known ephemeral taints -/
def StartingTaints (c : ClaimObj) (ts : List Taint) : Prop :=
  ∀ t ∈ ts, t ∈ c.taints ∨ c.startupTaints.any (fun st => matchTaint st t) = true ∨ knownEphemeral t = true

/-- **C04_view_taints_tolerated** — a pod that tolerated the NodeClaim's taints when it was placed on the NodeClaim
    tolerates what `StateNode.Taints()` shows at EVERY stage (NodeClaim only, Node unregistered, registered, initialized),
    provided the Node carries nothing but the NodeClaim's taints, startup taints and known ephemeral taints while it
    starts, and only the NodeClaim's taints once it is initialized (initialization waits for the others to go). -/
theorem C04_view_taints_tolerated (n : SNode) (c : ClaimObj) (tols : List Toleration) (hc : n.claim = some c)
    (htol : toleratesAll tols c.taints = true)
    (hstart : ∀ nd, n.node = some nd → StartingTaints c nd.taints)
    (hinit : n.initialized = true → ∀ nd, n.node = some nd → ∀ t ∈ nd.taints, t ∈ c.taints) :
    toleratesAll tols n.taints = true := by
  unfold toleratesAll at *
  rw [List.all_eq_true] at *
  intro t ht
  unfold SNode.taints at ht
  simp only [hc] at ht
  cases hnode : n.node with
  | none =>
    simp only [hnode] at ht
    by_cases hi : n.initialized = true
    · simp only [hi, Bool.not_true, Bool.false_eq_true, if_false] at ht; exact htol t ht
    · simp only [hi, Bool.not_false, if_true] at ht; exact htol t (List.mem_filter.mp ht).1
  | some nd =>
    simp only [hnode] at ht
    by_cases hr : n.registered = true
    · simp only [hr, Bool.not_true, Bool.false_eq_true, if_false] at ht
      by_cases hi : n.initialized = true
      · simp only [hi, Bool.not_true, Bool.false_eq_true, if_false] at ht
        exact htol t (hinit hi nd hnode t ht)
      · simp only [hi, Bool.not_false, if_true] at ht
        obtain ⟨hmem, hf⟩ := List.mem_filter.mp ht
        rcases hstart nd hnode t hmem with h1 | h2 | h3
        · exact htol t h1
        · simp [h2] at hf
        · simp [h3] at hf
    · simp only [hr, Bool.not_false, if_true] at ht
      by_cases hi : n.initialized = true
      · simp only [hi, Bool.not_true, Bool.false_eq_true, if_false] at ht; exact htol t ht
      · simp only [hi, Bool.not_false, if_true] at ht; exact htol t (List.mem_filter.mp ht).1

/-- **C04_view_alloc** — the in-flight node counts with the allocatable of the instance type it was launched as (what the
    launch wrote into the NodeClaim's status) at EVERY stage, provided the Node reports, per resource, either nothing
    yet (zero) or that same quantity while it starts, and that same quantity once it is initialized. -/
theorem C04_view_alloc (n : SNode) (c : ClaimObj) (hc : n.claim = some c)
    (hstart : ∀ nd, n.node = some nd →
      (nd.alloc.cpu = 0 ∨ nd.alloc.cpu = c.alloc.cpu) ∧ (nd.alloc.mem = 0 ∨ nd.alloc.mem = c.alloc.mem) ∧
      (nd.alloc.pods = 0 ∨ nd.alloc.pods = c.alloc.pods))
    (hinit : n.initialized = true → ∀ nd, n.node = some nd → nd.alloc = c.alloc) :
    n.allocatable = c.alloc := by
  unfold SNode.allocatable
  simp only [hc]
  by_cases hi : n.initialized = true
  · simp only [hi, Bool.not_true, Bool.false_eq_true, if_false]
    cases hnode : n.node with
    | none =>
      -- an initialized managed node has a Node object
      unfold SNode.initialized SNode.managed at hi
      simp [hc, hnode] at hi
    | some nd => simp [hinit hi nd hnode]
  · simp only [hi, Bool.not_false, if_true]
    cases hnode : n.node with
    | none => rfl
    | some nd =>
      obtain ⟨h1, h2, h3⟩ := hstart nd hnode
      have e1 : orIfZero nd.alloc.cpu c.alloc.cpu = c.alloc.cpu := by
        unfold orIfZero; rcases h1 with h | h <;> simp [h]
      have e2 : orIfZero nd.alloc.mem c.alloc.mem = c.alloc.mem := by
        unfold orIfZero; rcases h2 with h | h <;> simp [h]
      have e3 : orIfZero nd.alloc.pods c.alloc.pods = c.alloc.pods := by
        unfold orIfZero; rcases h3 with h | h <;> simp [h]
      simp only [e1, e2, e3]

/-- **C04_view_labels** — on every key on which the registered Node agrees with its NodeClaim (registration copies the
    NodeClaim's labels onto the Node), the scheduler reads the NodeClaim's label at every stage. -/
theorem C04_view_labels (n : SNode) (c : ClaimObj) (k : String) (hc : n.claim = some c)
    (hsync : n.registered = true → ∀ nd, n.node = some nd → nd.labels.lookup k = c.labels.lookup k) :
    n.labels.lookup k = c.labels.lookup k := by
  unfold SNode.labels
  simp only [hc]
  cases hnode : n.node with
  | none => rfl
  | some nd =>
    simp only
    by_cases hr : n.registered = true
    · simp only [hr, Bool.not_true, Bool.false_eq_true, if_false]; exact hsync hr nd hnode
    · simp only [hr, Bool.not_false, if_true]

/-! ## 3. Re-admission -/

/-- Full statement (what the property's consequence clause demands), for every launch the provider may choose and every
    lifecycle stage:

      pods `ps` were accepted by NodeClaim `c` in pass 1 and `c` was launched as a permitted instance type
      → at each stage, re-running the pass places every pod of `ps` on capacity that already exists (no new NodeClaim).

    As stated this is violated by the code: the second pass re-packs all pending pods first-fit over the nodes in name
    order, so pods of another NodeClaim can take the room (known finding `C04-repass-reshuffle`, replayed by the corpus
    witness of `c04.repass`).  Proved below is the per-node core, with the hypotheses the proof forces — each is one of the
    "evaluated differently for the in-flight node" cases of the property text and is probed on the real code by
    `c04.history` / `c04.view`:

    **C04_inflight_readmits_partial** — let `n` be the StateNode of a launched NodeClaim `c` at ANY lifecycle stage and
    `ps` the pods pass 1 placed on it: every pod tolerated `c`'s taints, is compatible with the labels of the launch, the
    pods' host ports were free in this order, and their summed requests plus the daemon overhead `g` reserved for the
    launched instance type fit its allocatable (`C01_filter_sound` gives exactly this for every instance type that
    survives the NodeClaim's filter).  If (H1) the daemonset reservation `d` the scheduler computes for the node does not
    exceed `g`, (H2) the Node carries only the NodeClaim's taints, startup taints and known ephemeral taints while it
    starts and only the NodeClaim's taints once initialized, (H3) the Node reports per resource zero or the launched
    allocatable while it starts and the launched allocatable once initialized, (H4) the registered Node agrees with the
    NodeClaim on the labels the pods constrain — then the node, as the scheduler sees it, accepts ALL pods of `ps` one
    after the other: no pod of `ps` needs new capacity as long as the node only holds pods of `ps`. -/
theorem C04_inflight_readmits_partial (n : SNode) (c : ClaimObj) (ps : List PodD)
    (dCPU dMem dPods gCPU gMem gPods : Int) (hc : n.claim = some c)
    (htol : ∀ p ∈ ps, toleratesAll p.tolerations c.taints = true)
    (hlab : ∀ p ∈ ps, (labelReqs c.labels).compatible (podReqs p.exprs) [] = true)
    (hports : portsChain [] ps = true)
    (hnn : ∀ p ∈ ps, 0 ≤ p.cpu ∧ 0 ≤ p.mem)
    (hfit : sumCPU ps + gCPU ≤ c.alloc.cpu ∧ sumMem ps + gMem ≤ c.alloc.mem ∧ (ps.length : Int) + gPods ≤ c.alloc.pods)
    (H1 : dCPU ≤ gCPU ∧ dMem ≤ gMem ∧ dPods ≤ gPods)
    (H2 : (∀ nd, n.node = some nd → StartingTaints c nd.taints) ∧
          (n.initialized = true → ∀ nd, n.node = some nd → ∀ t ∈ nd.taints, t ∈ c.taints))
    (H3 : (∀ nd, n.node = some nd →
            (nd.alloc.cpu = 0 ∨ nd.alloc.cpu = c.alloc.cpu) ∧ (nd.alloc.mem = 0 ∨ nd.alloc.mem = c.alloc.mem) ∧
            (nd.alloc.pods = 0 ∨ nd.alloc.pods = c.alloc.pods)) ∧
          (n.initialized = true → ∀ nd, n.node = some nd → nd.alloc = c.alloc))
    (H4 : ∀ p ∈ ps, ∀ kv ∈ podReqs p.exprs, n.registered = true → ∀ nd, n.node = some nd → nd.labels.lookup kv.1 = c.labels.lookup kv.1) :
    ∃ n', addAll (n.asExisting dCPU dMem dPods) ps = some n' := by
  have halloc := C04_view_alloc n c hc H3.1 H3.2
  apply addAll_succeeds
  · intro p hp
    simp only [SNode.asExisting]
    exact C04_view_taints_tolerated n c p.tolerations hc (htol p hp) H2.1 H2.2
  · intro p hp
    simp only [SNode.asExisting]
    rw [compatible_labels_congr n.labels c.labels (podReqs p.exprs)
      (fun kv hkv => C04_view_labels n c kv.1 hc (H4 p hp kv hkv))]
    exact hlab p hp
  · simpa [SNode.asExisting] using hports
  · exact hnn
  · simp only [SNode.asExisting, halloc]; omega
  · simp only [SNode.asExisting, halloc]; omega
  · simp only [SNode.asExisting, halloc]; omega

/-! ## 4. No pass while a created NodeClaim is unlaunched; deleting nodes are not capacity -/

/-- **C04_synced_gate** — whenever `Cluster.Synced` answers true, no NodeClaim known to cluster state has an empty
    provider id. -/
theorem C04_synced_gate (s : Sync) (h : s.synced.1 = true) : ∀ kv ∈ s.claims, kv.2 ≠ "" := by
  have hnu : noneUnlaunched s.claims = true := by
    unfold Sync.synced at h
    by_cases hs : s.hasSynced = true
    · simpa [hs] using h
    · simp only [hs, Bool.false_eq_true, if_false] at h
      by_cases hn : noneUnlaunched s.claims = true
      · exact hn
      · simp [hn] at h
  intro kv hkv
  have := List.all_eq_true.mp hnu kv hkv
  simpa using this

/-- what `Provisioner.Create` does to cluster state (`fact_create_order`, `fact_update_records`) leaves it unlaunched -/
theorem C04_create_blocks (st : Sync × List Sync) (name : String) : Unlaunched name (step st (.create name)).1 := by
  simp [Unlaunched, step, Sync.updateNodeClaim, lookup_setKV]

/-- **C04_no_pass_while_unlaunched** — over ALL histories: once cluster state has recorded a NodeClaim without provider id
    (which `Provisioner.Create` does before it returns), no sequence of events that neither launches nor deletes that
    NodeClaim — other NodeClaims created, launched, deleted, nodes appearing, any number of `Provisioner.Reconcile` rounds —
    contains a scheduling pass. -/
theorem C04_no_pass_while_unlaunched (name : String) : ∀ (evs : List Ev) (st : Sync × List Sync),
    Unlaunched name st.1 → (∀ e ∈ evs, touches name e = false) →
    (run st evs).2 = st.2 ∧ Unlaunched name (run st evs).1 := by
  intro evs
  induction evs with
  | nil => intro st h _; exact ⟨rfl, h⟩
  | cons e rest ih =>
    intro st h hev
    obtain ⟨h1, h2⟩ := step_keeps_unlaunched name st e h (hev e (by simp))
    have := ih (step st e) h1 (fun x hx => hev x (by simp [hx]))
    simp only [run, List.foldl_cons] at *
    exact ⟨by rw [this.1, h2], this.2⟩

/-- **C04_passes_only_when_synced** — every pass of every history ran in a state without unlaunched NodeClaims. -/
theorem C04_passes_only_when_synced : ∀ (evs : List Ev) (st : Sync × List Sync),
    (∀ s ∈ st.2, noneUnlaunched s.claims = true) → ∀ s ∈ (run st evs).2, noneUnlaunched s.claims = true := by
  intro evs
  induction evs with
  | nil => intro st h; exact h
  | cons e rest ih =>
    intro st h
    simp only [run, List.foldl_cons]
    apply ih
    cases e with
    | reconcile =>
      simp only [step]
      cases hsy : st.1.synced with
      | mk ok s' =>
        simp only
        by_cases hok : ok = true
        · simp only [hok, if_true]
          intro s hs
          rcases List.mem_append.mp hs with h1 | h1
          · exact h s h1
          · simp only [List.mem_singleton] at h1
            subst h1
            -- the state after a successful check has the same NodeClaim table as before
            have hcl : s.claims = st.1.claims := by
              unfold Sync.synced at hsy
              by_cases hs' : st.1.hasSynced = true
              · simp only [hs', if_true, Prod.mk.injEq] at hsy; rw [← hsy.2]
              · simp only [hs', Bool.false_eq_true, if_false] at hsy
                split at hsy
                · simp only [Prod.mk.injEq] at hsy; rw [← hsy.2]
                · simp only [Prod.mk.injEq] at hsy
                  rw [← hsy.2]; split <;> rfl
            rw [hcl]
            have hg := C04_synced_gate st.1 (by rw [hsy]; exact hok)
            unfold noneUnlaunched
            rw [List.all_eq_true]
            intro kv hkv
            simpa using hg kv hkv
        · simp only [hok, Bool.false_eq_true, if_false]; exact h
    | create n => exact h
    | launch n pid => exact h
    | delete n => exact h
    | nodeSeen n => exact h

/-- **C04_deleting_excluded** — `StateNodes.Active()` keeps no node that is marked for deletion, whose NodeClaim is being
    deleted / terminated, or (unmanaged) whose Node is being deleted. -/
theorem C04_deleting_excluded (ns : List SNode) :
    (∀ n ∈ active ns, n.markedForDeletion = false) ∧
    (∀ n ∈ ns, n.marked = true → n ∉ active ns) ∧
    (∀ n ∈ ns, ∀ c, n.claim = some c → c.deleting = true → n ∉ active ns) := by
  refine ⟨?_, ?_, ?_⟩
  · intro n hn
    have := (List.mem_filter.mp hn).2
    simpa using this
  · intro n _ hm hn
    have := (List.mem_filter.mp hn).2
    simp [SNode.markedForDeletion, hm] at this
  · intro n _ c hc hd hn
    have := (List.mem_filter.mp hn).2
    simp [SNode.markedForDeletion, hc, hd] at this

/-! ## The recorded findings: the literal consequence clause / the Kubernetes reading of OR-ed terms fail for the code as it is -/

def wNode (name : String) (cpu : Int) : ExNode :=
  { labels := [("kubernetes.io/hostname", name)], taints := [], remCPU := cpu, remMem := 16000, remPods := 10, ports := [] }
def wPod (cpu : Int) : PodD := { cpu := cpu, mem := 128, tolerations := [], ports := [], exprs := [] }
/-- NodeClaims of the pass: a cpu counter over the largest (4-cpu) instance type -/
def wOps : ClaimOps Int :=
  { canAdd := fun used p => decide (used + p.cpu ≤ 4000), add := fun used p => used + p.cpu, openFor := fun p => if p.cpu ≤ 4000 then some 0 else none }

/-- `C04-repass-reshuffle` (corpus/c04.repass/reshuffle.json, replayed on the real provisioner every run): pass 1 packs
    2+2 cpu on one NodeClaim and 1.5+1.5 cpu on another; the second is launched as the permitted 3-cpu type and its node
    sorts first.  Pass 2, first-fit in node order, opens a NodeClaim for the last pod — although each node re-admits
    exactly the pods pass 1 had placed on its NodeClaim. -/
theorem C04_repass_reshuffle_witness :
    (runPass wOps { existing := [], claims := [] } [wPod 2000, wPod 2000, wPod 1500, wPod 1500]).map (·.2.1) =
      [.openNew, .inflight 0, .openNew, .inflight 1] ∧
    (runPass wOps { existing := [wNode "a" 3000, wNode "b" 4000], claims := [] } [wPod 2000, wPod 2000, wPod 1500, wPod 1500]).map (·.2.1) =
      [.existing 0, .existing 1, .existing 1, .openNew] ∧
    (addAll (wNode "a" 3000) [wPod 1500, wPod 1500]).isSome = true ∧ (addAll (wNode "b" 4000) [wPod 2000, wPod 2000]).isSome = true := by decide

/-- `C04-or-term-order` (corpus/c04.pass/or-term.json): the pod's requirements are built from the FIRST required term only
    (`updateCachedPodData`); a node in z2 refuses a pod that requires "zone z1 OR zone z2" until relaxation drops the first
    term — which `trySchedule` does only after a NEW NodeClaim could not be opened either (`fact_relax_after_add`). -/
def wTwoTerms : PodSpecM :=
  { cpu := 500, mem := 128, tolerations := [], ports := [], sel := [],
    aff := { required := [[{ key := "topology.kubernetes.io/zone", op := .in_, vals := ["z1"] }], [{ key := "topology.kubernetes.io/zone", op := .in_, vals := ["z2"] }]], preferred := [] } }
def wNodeZ2 : ExNode :=
  { labels := [("topology.kubernetes.io/zone", "z2"), ("kubernetes.io/hostname", "n1")], taints := [], remCPU := 4000, remMem := 16000, remPods := 10, ports := [] }
theorem C04_or_term_witness :
    existingCanAdd wNodeZ2 (podDOf false wTwoTerms) = false ∧
    (relaxStep wTwoTerms.aff).isSome = true ∧
    existingCanAdd wNodeZ2 (podDOf false { wTwoTerms with aff := ((relaxStep wTwoTerms.aff).getD wTwoTerms.aff) }) = true := by decide

/-! ## Non-vacuity -/

def tStartup : Taint := { key := "startup", value := "", effect := "NoSchedule" }
def tDedicated : Taint := { key := "dedicated", value := "x", effect := "NoSchedule" }
def tNotReady : Taint := { key := "node.kubernetes.io/not-ready", value := "", effect := "NoSchedule" }
def tUnregistered : Taint := { key := "karpenter.sh/unregistered", value := "", effect := "NoExecute" }

def claimA : ClaimObj :=
  { name := "pool-a-1", labels := [("karpenter.sh/nodepool", "pool-a"), ("topology.kubernetes.io/zone", "z1")],
    taints := [tDedicated], startupTaints := [tStartup], alloc := { cpu := 4000, mem := 8192, pods := 10 }, deleting := false }

/-- the Node as the kubelet registers it: startup + not-ready + unregistered taints, cpu not reported yet -/
def nodeStarting : NodeObj :=
  { name := "pool-a-1", labels := [("karpenter.sh/nodepool", "pool-a"), ("topology.kubernetes.io/zone", "z1"), ("karpenter.sh/registered", "true")],
    taints := [tDedicated, tStartup, tNotReady, tUnregistered], alloc := { cpu := 0, mem := 8192, pods := 10 } }

def snRegistered : SNode := { node := some nodeStarting, claim := some claimA, marked := false, nodeDeleting := false }

def podA : PodD :=
  { cpu := 1500, mem := 1024, tolerations := [{ key := "dedicated", operator := "Exists", value := "", effect := "" }], ports := [],
    exprs := [{ key := "topology.kubernetes.io/zone", op := .in_, vals := ["z1"] }] }

example : snRegistered.registered = true ∧ snRegistered.initialized = false := by decide
example : snRegistered.taints = [tDedicated] := by decide
example : snRegistered.allocatable = claimA.alloc := by decide
/-- the re-admission theorem applies to a concrete registered, not yet initialized node with two pods … -/
example : ∃ n', addAll (snRegistered.asExisting 500 128 1) [podA, podA] = some n' := by
  refine C04_inflight_readmits_partial snRegistered claimA [podA, podA] 500 128 1 500 128 1 rfl
    (by decide) (by decide) (by decide) (by decide) (by decide) (by decide) ⟨?_, ?_⟩ ⟨?_, ?_⟩ ?_
  · intro nd h; cases h; intro t ht
    simp only [nodeStarting, List.mem_cons, List.not_mem_nil, or_false] at ht
    rcases ht with rfl | rfl | rfl | rfl
    · exact Or.inl (by decide)
    · exact Or.inr (Or.inl (by decide))
    · exact Or.inr (Or.inr (by decide))
    · exact Or.inr (Or.inr (by decide))
  · intro h; exact absurd h (by decide)
  · intro nd h; cases h; exact ⟨Or.inl rfl, Or.inr rfl, Or.inr rfl⟩
  · intro h; exact absurd h (by decide)
  · intro p hp kv hkv _ nd h
    cases h
    simp only [List.mem_cons, List.not_mem_nil, or_false, or_self] at hp
    subst hp
    have : kv = ("topology.kubernetes.io/zone", ({ key := "topology.kubernetes.io/zone", complement := false, values := ["z1"] } : Req)) := by
      have hk : podReqs podA.exprs = [("topology.kubernetes.io/zone", ({ key := "topology.kubernetes.io/zone", complement := false, values := ["z1"] } : Req))] := by decide
      rw [hk] at hkv; simpa using hkv
    subst this
    decide
/-- … and computes: both pods are accepted, a third one is refused (3 × 1500 + 500 > 4000) -/
example : (addAll (snRegistered.asExisting 500 128 1) [podA, podA]).isSome = true ∧
          addAll (snRegistered.asExisting 500 128 1) [podA, podA, podA] = none := by decide
/-- H3 is needed: a Node that reports LESS than the launched allocatable makes the in-flight node refuse its own pods -/
example : addAll (({ snRegistered with node := some { nodeStarting with alloc := { cpu := 2000, mem := 8192, pods := 10 } } } : SNode).asExisting 500 128 1)
    [podA, podA] = none := by decide
/-- H2 is needed: a lasting taint the NodeClaim does not have (here: on an initialized node) keeps the pod off -/
def nodeInitTainted : NodeObj :=
  { nodeStarting with labels := nodeStarting.labels ++ [("karpenter.sh/initialized", "true")], taints := [tDedicated, tStartup], alloc := claimA.alloc }
example : addAll (({ snRegistered with node := some nodeInitTainted } : SNode).asExisting 500 128 1) [podA] = none := by decide

/-- the guard theorem on a concrete pass: one existing node with 1000m left, pods of 800m each; NodeClaims of the pass
    modelled by a cpu counter with capacity 2000m -/
def opsDemo : ClaimOps Int :=
  { canAdd := fun used p => decide (used + p.cpu ≤ 2000), add := fun used p => used + p.cpu, openFor := fun p => if p.cpu ≤ 2000 then some 0 else none }
def exDemo : ExNode := { labels := [("kubernetes.io/hostname", "n1")], taints := [], remCPU := 1000, remMem := 4096, remPods := 10, ports := [] }
def podDemo : PodD := { cpu := 800, mem := 64, tolerations := [], ports := [], exprs := [] }
example : (runPass opsDemo { existing := [exDemo], claims := [] } [podDemo, podDemo, podDemo, podDemo, podDemo]).map (·.2.1) =
    [.existing 0, .openNew, .inflight 0, .openNew, .inflight 1] := by decide

/-- the gate on a concrete history: create a, reconcile (blocked), create b, launch a, reconcile (blocked by b),
    launch b, reconcile (runs) -/
def sync0 : Sync := { hasSynced := true, claims := [], nodes := [], apiClaims := [], apiNodes := [] }
example : ((run (sync0, []) [.create "a", .reconcile, .create "b", .launch "a" "i-1", .reconcile, .launch "b" "i-2", .reconcile]).2).length = 1 := by decide
example : Unlaunched "a" (run (sync0, []) [.create "a", .reconcile, .create "b", .launch "b" "i-2", .reconcile]).1 ∧
    (run (sync0, []) [.create "a", .reconcile, .create "b", .launch "b" "i-2", .reconcile]).2 = [] :=
  ⟨(C04_no_pass_while_unlaunched "a" [.reconcile, .create "b", .launch "b" "i-2", .reconcile] (step (sync0, []) (.create "a"))
      (C04_create_blocks _ "a") (by decide)).2,
   (C04_no_pass_while_unlaunched "a" [.reconcile, .create "b", .launch "b" "i-2", .reconcile] (step (sync0, []) (.create "a"))
      (C04_create_blocks _ "a") (by decide)).1⟩

/-- deleting nodes -/
example : (active [snRegistered, { snRegistered with marked := true }, { snRegistered with claim := some { claimA with deleting := true } }]).length = 1 := by decide

/-! ## 7. What is already assigned to a node

`Karp.PodAcct` models `Cluster.UpdatePod / DeletePod / UpdateNode / DeleteNode` with the binding bookkeeping; the theorems
quantify over ALL histories of API changes (pods created, bound, finished, failed, terminating, removed, re-created under
the same name on another node; nodes created and removed) and informer deliveries, in every interleaving. -/

section Accounting
open Karp.Spec.Assigned
variable {κ ν : Type} [DecidableEq κ] [DecidableEq ν]

/-- **C04_accounting_exact** — after any history, for every pod whose latest API change has been delivered (successfully:
    not answered with "node not found, retry"), every node cluster state tracks is charged for the pod EXACTLY when the
    pod is assigned to it by the independent reading `Karp.Spec.Assigned.assigned` (the object exists, is bound to the node
    and is not in a terminal phase).  So what `ExistingNode` subtracts from the allocatable is what is really assigned
    there — no pod that is over keeps room, none that still runs is forgotten — regardless of the order in which Pod and
    Node events arrived. -/
theorem C04_accounting_exact (evs : List (PodAcct.Ev κ ν)) (k : κ) (n : ν) :
    (PodAcct.run PodAcct.St.init evs).dirty k = false → (PodAcct.run PodAcct.St.init evs).tracked n = true →
    ((PodAcct.run PodAcct.St.init evs).acct n k = true ↔ assigned (PodAcct.run PodAcct.St.init evs).apiPod n k = true) :=
  fun hd ht => (PodAcct.inv_run _ PodAcct.inv_init evs).exact k hd n ht

/-- **C04_finished_pod_released** — a pod that reached a terminal phase and whose Pod event has been delivered is charged
    to no tracked node, whatever Node events (each of which rebuilds the node from the API) came before or after -/
theorem C04_finished_pod_released (evs : List (PodAcct.Ev κ ν)) (k : κ) (n : ν) (r : PodRec ν)
    (hr : (PodAcct.run PodAcct.St.init evs).apiPod k = some r) (hterm : r.terminal = true)
    (hd : (PodAcct.run PodAcct.St.init evs).dirty k = false) (ht : (PodAcct.run PodAcct.St.init evs).tracked n = true) :
    (PodAcct.run PodAcct.St.init evs).acct n k = false := by
  have h := C04_accounting_exact evs k n hd ht
  have ha : assigned (PodAcct.run PodAcct.St.init evs).apiPod n k = false := by simp [assigned, hr, hterm]
  cases hc : (PodAcct.run PodAcct.St.init evs).acct n k with
  | false => rfl
  | true => rw [h.mp hc] at ha; exact absurd ha (by decide)

/-- **C04_terminating_pod_kept** — a pod that only has a deletionTimestamp (its containers still run) stays charged to its
    tracked node: room is not handed out twice -/
theorem C04_terminating_pod_kept (evs : List (PodAcct.Ev κ ν)) (k : κ) (n : ν) (r : PodRec ν)
    (hr : (PodAcct.run PodAcct.St.init evs).apiPod k = some r) (hn : r.node = some n) (hterm : r.terminal = false)
    (hd : (PodAcct.run PodAcct.St.init evs).dirty k = false) (ht : (PodAcct.run PodAcct.St.init evs).tracked n = true) :
    (PodAcct.run PodAcct.St.init evs).acct n k = true :=
  (C04_accounting_exact evs k n hd ht).mpr (by simp [assigned, hr, hn, hterm])

/-- **C04_charged_once** — at every moment of every history a pod is charged to at most one node, the one its recorded
    binding names (so following the binding releases everything) -/
theorem C04_charged_once (evs : List (PodAcct.Ev κ ν)) (k : κ) (n n' : ν)
    (h1 : (PodAcct.run PodAcct.St.init evs).acct n k = true) (h2 : (PodAcct.run PodAcct.St.init evs).acct n' k = true) : n = n' := by
  have i := PodAcct.inv_run _ (PodAcct.inv_init (κ := κ) (ν := ν)) evs
  exact Option.some.inj ((i.acct_binding n k h1).1.symm.trans (i.acct_binding n' k h2).1)

/-- **C04_untracked_uncharged** — at every moment of every history, a node whose Node object cluster state does not hold
    (never seen, or deleted: for a managed node only the NodeClaim half of its StateNode is left) is charged for nothing -/
theorem C04_untracked_uncharged (evs : List (PodAcct.Ev κ ν)) (k : κ) (n : ν)
    (ht : (PodAcct.run PodAcct.St.init evs).tracked n = false) : (PodAcct.run PodAcct.St.init evs).acct n k = false := by
  have i := PodAcct.inv_run _ (PodAcct.inv_init (κ := κ) (ν := ν)) evs
  cases hc : (PodAcct.run PodAcct.St.init evs).acct n k with
  | false => rfl
  | true => rw [(i.acct_binding n k hc).2] at ht; exact absurd ht (by decide)

end Accounting

/-- non-vacuity (pods and nodes numbered): node 0 is tracked, pod 7 runs there, finishes, its event is delivered, then two
    Node events arrive — the hypotheses of `C04_finished_pod_released` hold and the pod had been charged before it finished -/
def acctHistory : List (PodAcct.Ev Nat Nat) :=
  [.nodeSet 0, .seeNode 0, .podSet 7 { node := some 0, terminal := false, terminating := false }, .seePod 7,
   .podSet 7 { node := some 0, terminal := true, terminating := false }, .seePod 7, .seeNode 0, .seeNode 0]
example : (PodAcct.run PodAcct.St.init (acctHistory.take 4)).acct 0 7 = true := by decide
example : (PodAcct.run PodAcct.St.init acctHistory).dirty 7 = false ∧ (PodAcct.run PodAcct.St.init acctHistory).tracked 0 = true ∧
    (PodAcct.run PodAcct.St.init acctHistory).acct 0 7 = false := by decide
/-- the skip test of the rebuild matters: were it "has a deletionTimestamp" instead of "is in a terminal phase", the same
    history would leave the finished pod charged to the node after the Node event (and `C04_accounting_exact` would fail) -/
example : (PodAcct.runBy (fun r => r.terminating) PodAcct.St.init acctHistory).acct 0 7 = true := by decide
/-- a terminating pod stays charged across Node events; a pod delivered before its node is tracked stays dirty -/
example : (PodAcct.run PodAcct.St.init [.nodeSet 0, .seeNode 0, .podSet 7 { node := some 0, terminal := false, terminating := true }, .seePod 7, .seeNode 0]).acct 0 7 = true := by decide
example : (PodAcct.run PodAcct.St.init [.podSet 7 { node := some (0 : Nat), terminal := false, terminating := false }, .seePod (7 : Nat)]).dirty 7 = true := by decide
/-- a pod name re-used on another node: the old node is released when the new binding is seen -/
example : let s := PodAcct.run PodAcct.St.init [.nodeSet 0, .seeNode 0, .nodeSet 1, .seeNode 1,
      .podSet 7 { node := some 0, terminal := false, terminating := false }, .seePod 7, .podGone 7,
      .podSet 7 { node := some 1, terminal := false, terminating := false }, .seePod 7]
    s.acct 0 7 = false ∧ s.acct 1 7 = true := by decide

end Karp.C04
