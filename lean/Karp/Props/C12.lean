/- C12: property theorems (stub, not yet built) -/
namespace Karp.C12
end Karp.C12
