/-
C12 — Label-requirement algebra agrees with set semantics.

Property theorems only; lemmas are in `Karp/Proofs/ReqLemmas.lean` and `Karp/Proofs/AtoiUniverse.lean`.
Model: `Karp/Model/Req.lean` (Requirement / Requirements).  Spec: `Karp/Spec/K8sSelector.lean`.
All theorems quantify over every requirement / operand / value (no size bounds); values are arbitrary
strings, integers are parsed exactly as `strconv.Atoi` does.
-/
import Karp.Proofs.ReqLemmas

namespace Karp.C12
open Karp.Req Karp.Spec.K8s

/-! ## Fact expectations over the regenerated label tables -/

/-- the documented alias normalisation (`NormalizedLabels`): beta zone/region/arch/os/instance-type labels -/
theorem fact_normalized_labels :
    Karp.Gen.Labels.normalizedLabels =
      [("beta.kubernetes.io/arch", "kubernetes.io/arch"),
       ("beta.kubernetes.io/instance-type", "node.kubernetes.io/instance-type"),
       ("beta.kubernetes.io/os", "kubernetes.io/os"),
       ("failure-domain.beta.kubernetes.io/region", "topology.kubernetes.io/region"),
       ("failure-domain.beta.kubernetes.io/zone", "topology.kubernetes.io/zone")] := by decide

/-- no value normalisation is registered in core (the model's `normalizeValue` is the identity) -/
theorem fact_no_value_normalization : Karp.Gen.Labels.normalizedLabelValues = [] := by decide

/-- every alias maps onto a well-known label, and no alias target is itself an alias (normalisation is idempotent) -/
theorem fact_normalized_targets_well_known :
    Karp.Gen.Labels.normalizedLabels.all (fun p =>
      Karp.Gen.Labels.wellKnownLabels.contains p.2 && (Karp.Gen.Labels.normalizedLabels.lookup p.2).isNone) = true := by decide

theorem fact_supported_operators :
    Karp.Gen.Labels.supportedNodeSelectorOps = ["DoesNotExist", "Exists", "Gt", "Gte", "In", "Lt", "Lte", "NotIn"] := by decide

/-! ## Constructors -/

/-- **C12_new** — a requirement built from any validated node-selector operator admits exactly the label
    values Kubernetes admits (`Gt MaxInt` / `Lt MinInt` match nothing; non-integer and out-of-range values
    never satisfy a bound). -/
theorem C12_new (key : String) (op : Op) (mv : Option Int) (vals : List Val) (r : Req) (v : Val)
    (hvalid : validOperands op vals = true) (h : Req.new key op mv vals = .ok r) :
    r.has v = k8sMatch op vals (some v) :=
  has_new key op mv vals r v hvalid h

/-- constructors normalise alias keys through the generated table -/
theorem C12_normalize (key : String) (op : Op) (mv : Option Int) (vals : List Val) (r : Req)
    (h : Req.new key op mv vals = .ok r) : r.key = normalizeKey key := by
  cases op <;> simp only [Req.new] at h
  case in_ | notIn | exists_ | doesNotExist | other =>
    all_goals (simp only [pure, Except.pure, Except.ok.injEq] at h; subst h; rfl)
  all_goals
    cases vals with
    | nil => simp at h
    | cons n rest =>
      simp only [List.map_cons] at h
      first
        | (simp only [pure, Except.pure, Except.ok.injEq] at h; subst h; rfl)
        | (split at h <;> simp only [pure, Except.pure, Except.ok.injEq] at h <;> subst h <;> rfl)

/-- the constructor yields a well-formed requirement, whatever the operands -/
theorem C12_new_wf (key : String) (op : Op) (mv : Option Int) (vals : List Val) (r : Req)
    (h : Req.new key op mv vals = .ok r) : r.WF := wf_new key op mv vals r h

/-! ## Intersection -/

/-- **C12_inter** — the intersection admits exactly the values both operands admit (all requirement pairs). -/
theorem C12_inter (r q : Req) (v : Val) : (r.inter q).has v = (r.has v && q.has v) := has_inter r q v

/-- `minValues` of an intersection is the larger of the two floors -/
theorem C12_inter_minValues (r q : Req) : (r.inter q).minValues = maxOpt r.minValues q.minValues :=
  minValues_inter r q

theorem C12_inter_wf (r q : Req) (hr : r.WF) (hq : q.WF) : (r.inter q).WF := wf_inter r q hr hq

/-- commutative, associative, idempotent with respect to the admitted sets -/
theorem C12_inter_comm (r q : Req) (v : Val) : (r.inter q).has v = (q.inter r).has v := by
  rw [has_inter, has_inter, Bool.and_comm]

theorem C12_inter_assoc (a b c : Req) (v : Val) :
    ((a.inter b).inter c).has v = (a.inter (b.inter c)).has v := by
  simp only [has_inter, Bool.and_assoc]

theorem C12_inter_idem (r : Req) (v : Val) : (r.inter r).has v = r.has v := by
  rw [has_inter, Bool.and_self]

/-! ## Overlap -/

/-- **C12_overlap** — the quick overlap test holds exactly when some value is admitted by both
    requirements, i.e. exactly when the intersection admits a value. -/
theorem C12_overlap (r q : Req) (hr : r.boundsInRange) (hq : q.boundsInRange) :
    r.hasIntersection q = true ↔ ∃ v, (r.inter q).has v = true := by
  rw [hasIntersection_iff r q hr hq]
  constructor
  · rintro ⟨v, h1, h2⟩; exact ⟨v, by rw [has_inter, h1, h2]; rfl⟩
  · rintro ⟨v, h⟩
    rw [has_inter, Bool.and_eq_true] at h
    exact ⟨v, h.1, h.2⟩

theorem C12_overlap_comm (r q : Req) (hr : r.boundsInRange) (hq : q.boundsInRange) :
    r.hasIntersection q = q.hasIntersection r := by
  rw [Bool.eq_iff_iff, hasIntersection_iff r q hr hq, hasIntersection_iff q r hq hr]
  constructor <;> (rintro ⟨v, h1, h2⟩; exact ⟨v, h2, h1⟩)

/-! ## Compatibility -/

/-- **C12_compatible** — `A.Compatible(B, allowUndefined U)` succeeds exactly when, key by key of `B`, some
    (possibly absent) label value that the node side `A` may end up with is accepted by `B`'s requirement:
    a defined key contributes the values its requirement admits (or absence, if its operator is
    `NotIn`/`DoesNotExist`); an undefined key may take any value when it is in `U` (well-known labels)
    and stays absent otherwise. -/
theorem C12_compatible (A B : Reqs) (U : List String)
    (hA : ∀ k a, A.lookup k = some a → a.boundsInRange) (hB : ∀ p ∈ B, p.2.WF) :
    A.compatible B U = true ↔
      ∀ p ∈ B, ∃ x : Option Val, nodeAllows A U p.1 x = true ∧ p.2.admits x = true :=
  compatible_iff A B U hA hB

/-! ## Non-vacuity -/

def exA : Req := { key := "k", complement := true, values := ["5"], gte := some 3 }      -- NotIn [5] ∩ Gt 2
def exB : Req := { key := "k", complement := false, values := ["4", "5", "x"] }           -- In [4,5,x]

example : (Req.new "k" .gt none ["2"]).toOption = some { key := "k", complement := true, values := [], gte := some 3 } := by decide
example : (Req.new "failure-domain.beta.kubernetes.io/zone" .in_ none ["z"]
    |>.toOption) = some { key := "topology.kubernetes.io/zone", complement := false, values := ["z"] } := by decide
example : exA.WF ∧ exB.WF :=
  ⟨⟨⟨by intro g h; simp [exA] at h; subst h; decide, by intro g h; simp [exA] at h⟩, rfl, by simp [exA]⟩,
   ⟨⟨by intro g h; simp [exB] at h, by intro g h; simp [exB] at h⟩, rfl, fun _ => ⟨rfl, rfl⟩⟩⟩
example : (exA.inter exB).values = ["4"] ∧ exA.hasIntersection exB = true ∧ (exA.inter exB).has "4" = true := by decide
example : Reqs.compatible [("k", exB)] [("k", exA)] [] = true ∧ Reqs.compatible [] [("j", exB)] [] = false := by decide

end Karp.C12
