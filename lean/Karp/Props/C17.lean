/- C17: property theorems (stub, not yet built) -/
namespace Karp.C17
end Karp.C17
