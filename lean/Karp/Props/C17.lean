/-
C17 — Scarce capacity is never over-committed in a scheduling pass.

Property theorems only (helper lemmas: `Karp/Proofs/ReservationLemmas.lean`, `Karp/Proofs/DraTrackerLemmas.lean`,
`Karp/Proofs/DraBudgetLemmas.lean`, `Karp/Proofs/DraCapacityLemmas.lean`).
Models: `Karp/Model/Reservation.lean` (ReservationManager, the NodeClaim reservation protocol, FinalizeScheduling, the
reserved-offering branch of addToNewNodeClaim / trySchedule), `Karp/Model/DraTracker.lean` (AllocationTracker),
`Karp/Model/DraBudget.lean` (the shared-counter budget: InitRemainingCounters / commitCounters / releaseCounters),
`Karp/Model/DraCapacity.lean` (consumable capacity: what a share of a multi-allocatable device consumes, the guard).
Spec:   `Karp/Spec/Reserved.lean` (holder ledger; end state of a pass), evaluated on the real code by the driver.
-/
import Karp.Proofs.ReservationLemmas
import Karp.Proofs.DraTrackerLemmas
import Karp.Proofs.DraBudgetLemmas
import Karp.Proofs.DraCapacityLemmas
import Karp.Proofs.ReservedLedgerLemmas
import Karp.Spec.Reserved
import Karp.Model.VolumeAlternatives

namespace Karp.C17
open Karp.Reservation Karp.Req

/-! ## Fact expectations over the regenerated facts -/

/-- the two modes are distinct constants; the model's `strictMode` is the generated one -/
theorem fact_modes : Karp.Gen.C17Facts.reservedOfferingModeFallback = 0 ∧ Karp.Gen.C17Facts.reservedOfferingModeStrict = 1 := by decide

/-- `NodeClaim.Add` reserves the new set before it releases what is no longer compatible (so a reservation the claim
    keeps is never handed to somebody else in between), and commits the DRA allocation before it releases pruned types -/
theorem fact_add_order :
    Karp.Gen.C17Facts.nodeClaimAddCalls = ["Reserve", "releaseReservedOfferings", "Commit", "ReleaseInstanceType"] := by decide

/-- `offeringsToReserve` (called from `CanAdd`, possibly concurrently) only *asks* the manager; it never mutates it -/
theorem fact_canAdd_readonly :
    Karp.Gen.C17Facts.offeringsToReserveCalls = ["CanReserve", "NewReservedOfferingError", "NewReservedOfferingError"] := by decide

/-- `trySchedule` tests for the reserved-offering error before it relaxes the pod -/
theorem fact_trySchedule_order : Karp.Gen.C17Facts.tryScheduleCalls = ["add", "IsReservedOfferingError", "Relax"] := by decide

/-- `addToNewNodeClaim` inspects every template error for the reserved-offering class before any `Add` -/
theorem fact_addToNew_order : Karp.Gen.C17Facts.addToNewNodeClaimReservedCalls = ["CanAdd", "IsReservedOfferingError", "Add"] := by decide

/-- `trySchedule` returns the reserved-offering error as it is (no relaxation, no retry) -/
theorem fact_trySchedule_reserved :
    Karp.Gen.C17Facts.tryScheduleReservedCond = "IsReservedOfferingError(err)" ∧
    Karp.Gen.C17Facts.tryScheduleReservedBody = ["return err"] := by decide

/-- `addToNewNodeClaim` on a reserved-offering error of template `i`: under the mutex, unless an earlier template already
    decided (`i >= idx`), any success published so far is discarded, `i` becomes the deciding index, and the search stops -/
theorem fact_addToNew_reserved :
    Karp.Gen.C17Facts.addToNewReservedCond = "IsReservedOfferingError(err)" ∧
    Karp.Gen.C17Facts.addToNewReservedBody =
      ["mu.Lock()", "defer mu.Unlock()", "if i >= idx { return false }", "newNodeClaim = nil", "updatedRequirements = nil",
       "updatedInstanceTypes = nil", "offeringsToReserve = nil", "allocationResult = nil", "idx = i", "return false"] := by decide

/-- the two strict-mode guards of `offeringsToReserve` are the model's -/
theorem fact_strict_guards :
    Karp.Gen.C17Facts.strictBlockCond = "n.reservedOfferingMode == ReservedOfferingModeStrict" ∧
    Karp.Gen.C17Facts.strictBlockBody =
      ["if hasCompatibleOffering && len(reservedOfferings) == 0", "if len(n.reservedOfferings) != 0 && len(reservedOfferings) == 0"] := by decide

/-- provisioning passes run in strict mode -/
theorem fact_provisioner_strict : Karp.Gen.C17Facts.provisionerScheduleStrict = true := by decide

/-- `FinalizeScheduling`: capacity type is assigned (`NewRequirement`), the reservation ids are `Add`ed -/
theorem fact_finalize_calls :
    Karp.Gen.C17Facts.finalizeCalls = ["NewRequirement", "Add", "NewRequirement", "addDaemonRequests"] := by decide

/-! ## The reservation manager -/

/-- **C17_new_capacity** — `NewReservationManager` knows exactly the reservation ids some reserved offering names and
    starts each at the *least* capacity any of them reports (all catalogs, any order, any duplication across pools). -/
theorem C17_new_capacity (offerings : List (Id × Int)) (id : Id) :
    ((RM.new offerings).known id = true ↔ ∃ o ∈ offerings, o.1 = id) ∧
    ((RM.new offerings).known id = true →
      (∃ o ∈ offerings, o.1 = id ∧ o.2 = (RM.new offerings).remaining id) ∧
      (∀ o ∈ offerings, o.1 = id → (RM.new offerings).remaining id ≤ o.2)) :=
  new_min offerings id

/-- **C17_reserve_inv** — for every catalog and EVERY sequence of manager operations (guarded or not, any hostnames,
    any ids, duplicates, unknown ids) that has not hit one of the two panics: per reservation id
    `remaining + |holders| = initial capacity`, `remaining ≥ 0`, and no hostname is recorded twice. -/
theorem C17_reserve_inv (offerings : List (Id × Int)) (hcap : ∀ o ∈ offerings, 0 ≤ o.2) (ops : List Reservation.Op) (rm : RM)
    (hrun : runState (RM.new offerings) ops = some rm) :
    Ledger (fun id => (RM.new offerings).remaining id) rm :=
  ledger_runState _ ops _ rm (ledger_new offerings hcap) hrun

/-- **C17_never_overcommitted** — hence the number of hostnames holding a reservation never exceeds its capacity. -/
theorem C17_never_overcommitted (offerings : List (Id × Int)) (hcap : ∀ o ∈ offerings, 0 ≤ o.2) (ops : List Reservation.Op) (rm : RM)
    (hrun : runState (RM.new offerings) ops = some rm) (id : Id) :
    (rm.holders id : Int) ≤ (RM.new offerings).remaining id := by
  have L := C17_reserve_inv offerings hcap ops rm hrun
  have h1 := L.sum id
  have h2 := L.nonneg id
  omega

/-- **C17_capacity_is_least** — the manager's initial capacity of every reservation is the specification's
    `capOf` (least capacity over the offerings naming it). -/
theorem C17_capacity_is_least (offerings : List (Id × Int)) (id : Id) :
    Karp.Spec.Reserved.capOf offerings id = (RM.new offerings).capacity.lookup id :=
  capOf_eq offerings id

/-- **C17_rm_observations** (refinement, all catalogs, all histories) — everything an observer sees of the manager —
    every `CanReserve` / `HasReservation` / `RemainingCapacity` answer, every grant, and where a panic ends the
    history — equals what the holder ledger prescribes, in which nothing is counted incrementally: free slots are always
    `capacity − |holders|` and a slot is handed out only while that is positive. -/
theorem C17_rm_observations (offerings : List (Id × Int)) (hcap : ∀ o ∈ offerings, 0 ≤ o.2) (ops : List Reservation.Op) :
    (runOps (RM.new offerings) ops).2 = Karp.Spec.ReservedLedger.specObs offerings [] ops :=
  sim_obs offerings ops _ _ (sim_init offerings hcap)

/-! ## The NodeClaim protocol: any pass, seen from the manager -/

/-- **C17_pass_inv** — take any catalog, either mode, the gate on or off, and ANY sequence of `CanAdd`/`Add` rounds (any
    claims — in-flight or freshly opened —, any compatible-offering lists drawn from the catalog's reservations; this
    covers every reserve/release sequence real bin-packing can produce).  Then
    * neither panic branch of the manager is reachable,
    * per reservation: `remaining + #claims whose reservedOfferings name it = capacity`, `remaining ≥ 0`,
    * what the manager records for a hostname is exactly that claim's `reservedOfferings`,
    * hostnames are unique. -/
theorem C17_pass_inv (offerings : List (Id × Int)) (hcap : ∀ o ∈ offerings, 0 ≤ o.2) (gate : Bool) (mode : Nat)
    (rs : List Round) (hk : ∀ r ∈ rs, ∀ id ∈ r.compat, id ∈ offerings.map (·.1)) :
    ∃ st, rounds gate mode (St.init offerings) rs = .ok st ∧
      Proto (offerings.map (·.1)) (fun id => (RM.new offerings).remaining id) st :=
  rounds_preserves _ _ gate mode rs _ (proto_init offerings hcap) hk

/-- **C17_holders_le_capacity** — in every state a pass can reach, the NodeClaims holding a reservation number at most
    its capacity. -/
theorem C17_holders_le_capacity (offerings : List (Id × Int)) (hcap : ∀ o ∈ offerings, 0 ≤ o.2) (gate : Bool) (mode : Nat)
    (rs : List Round) (hk : ∀ r ∈ rs, ∀ id ∈ r.compat, id ∈ offerings.map (·.1)) (st : St)
    (hrun : rounds gate mode (St.init offerings) rs = .ok st) (id : Id) :
    (holdersOf st.claims id : Int) ≤ (RM.new offerings).remaining id := by
  obtain ⟨st', hr, P⟩ := C17_pass_inv offerings hcap gate mode rs hk
  rw [hrun] at hr
  cases hr
  have h1 := P.sum id
  have h2 := P.nonneg id
  omega

/-- **C17_claim_holds_exactly** — … and each claim of the pass holds, in the manager's books, exactly the ids of its
    own `reservedOfferings` (so nothing leaks when requirements narrowing releases a reservation). -/
theorem C17_claim_holds_exactly (offerings : List (Id × Int)) (hcap : ∀ o ∈ offerings, 0 ≤ o.2) (gate : Bool) (mode : Nat)
    (rs : List Round) (hk : ∀ r ∈ rs, ∀ id ∈ r.compat, id ∈ offerings.map (·.1)) (st : St)
    (hrun : rounds gate mode (St.init offerings) rs = .ok st) :
    ∀ c ∈ st.claims, ∀ id, st.rm.has c.host id = c.reserved.contains id := by
  obtain ⟨st', hr, P⟩ := C17_pass_inv offerings hcap gate mode rs hk
  rw [hrun] at hr
  cases hr
  intro c hc id
  rw [P.held c.host id, claimOf_mem _ P.hosts c hc]

/-! ## Finalization: pinned to exactly the held reservations -/

/-- **C17_pinned** — after `FinalizeScheduling` a claim with reservations admits capacity type `reserved` only, and
    admits a reservation id iff it is one of the held ids (and the requirements it had before admitted it — which they do
    for every held id, see `C17_pinned_exact`). -/
theorem C17_pinned (ridKey : String) (hne : ridKey ≠ capacityTypeKey) (R : Reqs) (c : Claim) (hc : c.reserved ≠ []) :
    (∀ v, ((finalize ridKey R c).get capacityTypeKey).has v = (v == reservedValue)) ∧
    (∀ v, ((finalize ridKey R c).get ridKey).has v = (c.reserved.contains v && (R.get ridKey).has v)) := by
  have he : c.reserved.isEmpty = false := by
    cases hr : c.reserved with
    | nil => exact absurd hr hc
    | cons _ _ => rfl
  unfold finalize
  simp only [he, Bool.false_eq_true, if_false]
  constructor
  · intro v
    rw [get_add1_ne _ _ _ (by simpa [inReq] using (fun e : capacityTypeKey = ridKey => hne e.symm)), get_set_eq, has_inReq]
    simp
    rfl
  · intro v
    have := has_add1 (R.set capacityTypeKey (inReq capacityTypeKey [reservedValue])) (inReq ridKey c.reserved) v
    simp only [inReq] at this ⊢
    rw [this]
    have hg := get_set_ne R capacityTypeKey ridKey (inReq capacityTypeKey [reservedValue]) hne
    simp only [inReq] at hg
    rw [hg]
    simp [Req.has, withinBounds]

/-- **C17_pinned_exact** — when every held id was admitted by the claim's requirements (it is: the offering was
    compatible when it was reserved), the finalized claim admits exactly the held reservation ids. -/
theorem C17_pinned_exact (ridKey : String) (hne : ridKey ≠ capacityTypeKey) (R : Reqs) (c : Claim) (hc : c.reserved ≠ [])
    (hadm : ∀ id ∈ c.reserved, (R.get ridKey).has id = true) (v : Val) :
    ((finalize ridKey R c).get ridKey).has v = c.reserved.contains v := by
  rw [(C17_pinned ridKey hne R c hc).2 v]
  by_cases hv : c.reserved.contains v = true
  · rw [hv, hadm v (List.contains_iff_mem.mp hv)]; rfl
  · have : c.reserved.contains v = false := by simpa using hv
    rw [this]; rfl

/-- **C17_unpinned** — a claim without reservations is left untouched. -/
theorem C17_unpinned (ridKey : String) (R : Reqs) (c : Claim) (hc : c.reserved = []) : finalize ridKey R c = R := by
  unfold finalize; simp [hc]

/-! ## Strict mode: deferred, never a silent fallback -/

/-- **C17_strict_defers** — strict mode, gate on: compatible reserved offerings exist, the claim holds none of them and
    every one is exhausted ⇒ `CanAdd` returns the reserved-offering error (for every manager state in which the ids are
    known). -/
theorem C17_strict_defers (rm : RM) (c : Claim) (compat : List Id) (hne : compat ≠ [])
    (hk : ∀ id ∈ compat, rm.known id = true)
    (hex : ∀ id ∈ compat, rm.has c.host id = false ∧ rm.remaining id = 0) :
    offeringsToReserve true strictMode rm c compat = .ok none := by
  rw [offeringsToReserve_known true strictMode rm c compat hk]
  have hres : reservable rm c.host compat = [] := by
    apply List.filter_eq_nil_iff.mpr
    intro id hid
    obtain ⟨h1, h2⟩ := hex id hid
    simp [h1, h2]
  have hce : compat.isEmpty = false := by
    cases hcp : compat with
    | nil => exact absurd hcp hne
    | cons _ _ => rfl
  simp [hres, hce]

/-- **C17_strict_no_silent_fallback** — strict mode, gate on: whenever `CanAdd` succeeds although compatible reserved
    offerings exist (or the claim already held reservations), at least one reservation is taken: a pod is never added
    to a claim that silently falls back to non-reserved capacity. -/
theorem C17_strict_no_silent_fallback (rm : RM) (c : Claim) (compat : List Id) (ids : List Id)
    (hk : ∀ id ∈ compat, rm.known id = true)
    (hres : offeringsToReserve true strictMode rm c compat = .ok (some ids))
    (hne : compat ≠ [] ∨ c.reserved ≠ []) : ids ≠ [] := by
  rw [offeringsToReserve_known true strictMode rm c compat hk] at hres
  simp only [Bool.not_true, Bool.false_eq_true, if_false, BEq.rfl, Bool.true_and] at hres
  intro hids
  split at hres
  · cases hres
  · rename_i hcond
    injection hres with hres
    injection hres with hres
    rw [hids] at hres
    apply hcond
    rw [hres]
    rcases hne with h | h
    · have : compat.isEmpty = false := by
        cases hcp : compat with
        | nil => exact absurd hcp h
        | cons _ _ => rfl
      simp [this]
    · have : c.reserved.isEmpty = false := by
        cases hcp : c.reserved with
        | nil => exact absurd hcp h
        | cons _ _ => rfl
      simp [this]

/-- **C17_fallback_never_defers** — in fallback mode (disruption simulations) `CanAdd` never reports the reserved-offering
    error. -/
theorem C17_fallback_never_defers (gate : Bool) (rm : RM) (c : Claim) (compat : List Id)
    (hk : ∀ id ∈ compat, rm.known id = true) :
    offeringsToReserve gate fallbackMode rm c compat ≠ .ok none := by
  rw [offeringsToReserve_known gate fallbackMode rm c compat hk]
  have : (fallbackMode == strictMode) = false := by decide
  cases gate <;> simp [this]

/-- **C17_strict_no_lower_pool** — `addToNewNodeClaim`: a claim is opened from template `i` only if every template
    before it (greater weight) *plainly* failed; a reserved-offering error at an earlier template stops the search
    (no fallback to a lower-weight NodePool) and the pod's error is of the reserved-offering class. -/
theorem C17_strict_no_lower_pool (outs : List TOut) :
    (∀ i, pickTemplate outs 0 = some i → outs[i]? = some TOut.ok ∧ ∀ j : Nat, j < i → outs[j]? = some TOut.fail) ∧
    (∀ j : Nat, outs[j]? = some TOut.reservedError → (∀ k : Nat, k < j → outs[k]? = some TOut.fail) →
      pickTemplate outs 0 = none ∧ newClaimDeferred outs = true) := by
  have gen : ∀ (outs : List TOut) (b : Nat),
      (∀ i, pickTemplate outs b = some i → b ≤ i ∧ outs[i - b]? = some TOut.ok ∧ ∀ j : Nat, j < i - b → outs[j]? = some TOut.fail) ∧
      (∀ j : Nat, outs[j]? = some TOut.reservedError → (∀ k : Nat, k < j → outs[k]? = some TOut.fail) → pickTemplate outs b = none) := by
    intro outs
    induction outs with
    | nil => intro b; exact ⟨by simp [pickTemplate], by simp⟩
    | cons o os ih =>
      intro b
      cases o with
      | ok =>
        refine ⟨?_, ?_⟩
        · intro i hi
          simp only [pickTemplate, Option.some.injEq] at hi
          subst hi
          simp
        · intro j hj hall
          cases j with
          | zero => simp at hj
          | succ j => have := hall 0 (by omega); simp at this
      | reservedError =>
        refine ⟨by simp [pickTemplate], ?_⟩
        intro j _ _; rfl
      | fail =>
        obtain ⟨ih1, ih2⟩ := ih (b + 1)
        refine ⟨?_, ?_⟩
        · intro i hi
          simp only [pickTemplate] at hi
          obtain ⟨hb, hok, hfail⟩ := ih1 i hi
          have hib : i - b = (i - (b + 1)) + 1 := by omega
          refine ⟨by omega, ?_, ?_⟩
          · rw [hib, List.getElem?_cons_succ]; exact hok
          · intro j hj
            cases j with
            | zero => rfl
            | succ j => rw [List.getElem?_cons_succ]; exact hfail j (by omega)
        · intro j hj hall
          cases j with
          | zero => simp at hj
          | succ j =>
            simp only [pickTemplate]
            rw [List.getElem?_cons_succ] at hj
            apply ih2 j hj
            intro k hk
            have := hall (k + 1) (by omega)
            rwa [List.getElem?_cons_succ] at this
  refine ⟨?_, ?_⟩
  · intro i hi
    obtain ⟨_, h2, h3⟩ := (gen outs 0).1 i hi
    exact ⟨by simpa using h2, fun j hj => h3 j (by simpa using hj)⟩
  · intro j hj hall
    have hnone := (gen outs 0).2 j hj hall
    refine ⟨hnone, ?_⟩
    unfold newClaimDeferred
    rw [hnone]
    have : TOut.reservedError ∈ outs := List.mem_of_getElem? hj
    simp [this]

/-- **C17_strict_no_relax** — `trySchedule`: if the attempt after `k` relaxations reports the reserved-offering error
    (all earlier attempts failing otherwise), the pod is deferred at once: exactly `k` relaxations were performed and no
    later attempt is made, whatever it would have returned. -/
theorem C17_strict_no_relax (k : Nat) (later : List (Option Bool)) :
    trySchedule (List.replicate k (some false) ++ some true :: later) 0 = (false, k, true) := by
  have gen : ∀ (k n : Nat), trySchedule (List.replicate k (some false) ++ some true :: later) n = (false, n + k, true) := by
    intro k
    induction k with
    | zero => intro n; simp [trySchedule]
    | succ k ih =>
      intro n
      rw [List.replicate_succ, List.cons_append, trySchedule]
      have : (List.replicate k (some false) ++ some true :: later).isEmpty = false := by
        cases k <;> simp [List.replicate_succ]
      rw [this]
      simp only [Bool.false_eq_true, if_false]
      rw [ih (n + 1)]
      congr 2
      omega
  simpa using gen k 0

/-! ## Non-vacuity -/

/-- a catalog: reservation r-0 with one slot (seen twice, once with a stale capacity 2), r-1 with one slot -/
def demoOfferings : List (Id × Int) := [("r-0", 2), ("r-1", 1), ("r-0", 1)]

/-- claim h1 takes r-0 and r-1; claim h2 finds both exhausted (strict ⇒ deferred); h1 narrows to r-1 (r-0 is released);
    now h2 gets r-0 -/
def demoRounds : List Round :=
  [{ host := "h1", compat := ["r-0", "r-1"] }, { host := "h2", compat := ["r-0", "r-1"] },
   { host := "h1", compat := ["r-1"] }, { host := "h2", compat := ["r-0", "r-1"] }]

example : (RM.new demoOfferings).remaining "r-0" = 1 ∧ (RM.new demoOfferings).remaining "r-1" = 1 := by decide

example : (rounds true strictMode (St.init demoOfferings) demoRounds).toOption.map (fun st => st.claims)
    = some [{ host := "h2", reserved := ["r-0"] }, { host := "h1", reserved := ["r-1"] }] := by decide

example : (round true strictMode ((rounds true strictMode (St.init demoOfferings) (demoRounds.take 1)).toOption.getD (St.init []))
    { host := "h2", compat := ["r-0", "r-1"] }).toOption.map (·.2) = some false := by decide

/-- the same contention in fallback mode: h2 is added and holds nothing -/
example : (rounds true fallbackMode (St.init demoOfferings) (demoRounds.take 2)).toOption.map (fun st => st.claims)
    = some [{ host := "h2", reserved := [] }, { host := "h1", reserved := ["r-0", "r-1"] }] := by decide

example : Karp.Spec.ReservedLedger.specObs demoOfferings []
    [.guarded "h1" ["r-0", "r-1"], .canReserve "h2" "r-0", .release "h1" ["r-0"], .canReserve "h2" "r-0", .remaining "r-1", .canReserve "h2" "r-9"]
    = [.granted ["r-0", "r-1"], .bool false, .unit, .bool true, .int 0, .panic .nonExistent] := by decide

/-- an unguarded `Reserve` of an exhausted reservation is refused (the panic), it does not over-commit -/
example : (runOps (RM.new demoOfferings) [.reserve "h1" ["r-1"], .reserve "h2" ["r-1"]]).2 = [.unit, .panic .overReserve] := by decide

example : pickTemplate [.fail, .reservedError, .ok] 0 = none ∧ newClaimDeferred [.fail, .reservedError, .ok] = true := by decide
example : pickTemplate [.fail, .ok, .reservedError] 0 = some 1 := by decide

/-- finalization of a claim holding r-0 and r-1 whose requirements allowed on-demand and reserved -/
example :
    let R : Reqs := [(capacityTypeKey, inReq capacityTypeKey ["on-demand", "reserved"])]
    let F := finalize "karpenter.sh/reservation-id" R { host := "h1", reserved := ["r-0", "r-1"] }
    (F.get capacityTypeKey).values = ["reserved"] ∧ ((F.get "karpenter.sh/reservation-id").has "r-1" = true) ∧
      ((F.get "karpenter.sh/reservation-id").has "r-2" = false) ∧ ((F.get capacityTypeKey).has "on-demand" = false) := by decide

/-! ## Dynamic resource allocation: the allocation tracker (exclusive devices)

Full statement of the property for DRA: *no exclusive device is assigned to two claims and no shared device's capacity or
counters are over-consumed, for all ResourceSlice / ResourceClaim populations.*  Proved here is the part that lives in
`allocationtracker.go` (`_partial`): for the tracker model, whenever every committed allocation chose only devices for
which `IsAllocated` was false (what `Allocator.Allocate` is expected to do — its backtracking search is NOT modelled),
no in-cluster device is held by two NodeClaims, no holding is recorded twice, the two indices mirror each other, nothing
already allocated on the API server is handed out again, and none of the four panics is reachable.  Consumable capacity
and shared counters of multi-allocatable devices are not covered. -/

section DRA
open Karp.DraTracker

/-- `NodeClaim.Add` gives back the device holdings of the instance types that were simulated but pruned, keyed by its own
    hostname (a leak here never double-allocates, so no run-time check sees it: pinned as a source fact) -/
theorem fact_pruned_release :
    Karp.Gen.C17Facts.prunedReleaseCond = "len(pruned) > 0" ∧
    Karp.Gen.C17Facts.prunedReleaseBody = ["allocator.ReleaseInstanceType(ctx, unique.Make(n.hostname), pruned...)"] := by decide

theorem fact_dra_delegation :
    Karp.Gen.C17Facts.allocatorReleaseCalls = ["ReleaseInstanceTypes"] ∧ Karp.Gen.C17Facts.allocationCommitCalls = ["Commit"] := by decide

/-- **C17_dra_exclusive_partial** — every sequence of guarded commits and instance-type releases (any NodeClaims, any
    instance types, any devices — in-cluster or template —, any pre-allocated set) runs without panic and ends in a
    consistent tracker. -/
theorem C17_dra_exclusive_partial (prealloc : List String) (ops : List DraTracker.Op) (hd : disciplined ops = true) :
    ∃ t, DraTracker.run (Tracker.new prealloc) ops = .ok t ∧ Inv t :=
  run_ok ops _ (inv_new prealloc) hd

/-- **C17_dra_one_owner** — spelled out: in every such state an in-cluster device has at most one owning NodeClaim, is
    recorded at most once per (NodeClaim, instance type), and is not one of the devices allocated in the cluster. -/
theorem C17_dra_one_owner (prealloc : List String) (ops : List DraTracker.Op) (hd : disciplined ops = true) (t : Tracker)
    (hrun : DraTracker.run (Tracker.new prealloc) ops = .ok t) :
    (∀ d n1 i1 n2 i2, (d, n1, i1) ∈ t.inflight → (d, n2, i2) ∈ t.inflight → n1 = n2) ∧
    t.inflight.Nodup ∧ t.template.Nodup ∧ (∀ d n i, (d, n, i) ∈ t.inflight → d ∉ t.prealloc) := by
  obtain ⟨t', hr, I⟩ := C17_dra_exclusive_partial prealloc ops hd
  rw [hrun] at hr
  cases hr
  exact ⟨I.owner, I.nodupI, I.nodupT, I.pre⟩

/-- **C17_dra_isAllocated** — on a consistent tracker `IsAllocated` is false for an in-cluster device exactly when it is
    not allocated in the cluster, no OTHER NodeClaim holds it, and this NodeClaim does not hold it for this instance type. -/
theorem C17_dra_isAllocated (t : Tracker) (I : Inv t) (d : Dev) (nc : NC) (it : IT) (hd : d.template = false) :
    t.isAllocated d nc it = false ↔
      (d.name ∉ t.prealloc ∧ (∀ n i, (d.name, n, i) ∈ t.inflight → n = nc) ∧ (d.name, nc, it) ∉ t.inflight) :=
  ⟨free_cluster t I d nc it hd, fun ⟨h1, h2, h3⟩ => cluster_free_of t d nc it hd h1 h2 h3⟩

/-- **C17_dra_refuses** — a commit that ignores the discipline is refused (panic) rather than recorded: a device held by
    another NodeClaim, or a holding that already exists. -/
theorem C17_dra_refuses (t : Tracker) (I : Inv t) (nc : NC) (it : IT) (d : Dev) (hd : d.template = false) :
    (∀ n' i', (d.name, n', i') ∈ t.inflight → n' ≠ nc → t.commit1 nc it d = .error .otherNodeClaim) ∧
    ((d.name, nc, it) ∈ t.inflight → t.commit1 nc it d = .error .dupInstanceType) :=
  ⟨fun n' i' h hne => commit1_refuses_other t I nc n' it i' d hd h hne, commit1_refuses_dup t I nc it d hd⟩

def gpu0 : Dev := { name := "gpu-0", template := false }
def gpu1 : Dev := { name := "gpu-1", template := false }

/-- nc-a takes gpu-0 for both of its instance types; nc-b is granted only gpu-1; after nc-a releases both types nc-b gets gpu-0 -/
def demoDra : List DraTracker.Op :=
  [.guarded "nc-a" [("it-x", [gpu0]), ("it-y", [gpu0])], .guarded "nc-b" [("it-x", [gpu0, gpu1])],
   .release "nc-a" ["it-x"], .guarded "nc-b" [("it-x", [gpu0])], .release "nc-a" ["it-y"], .guarded "nc-b" [("it-x", [gpu0])]]

example : disciplined demoDra = true := by decide
example : (DraTracker.run (Tracker.new []) (demoDra.take 2)).toOption.map (·.inflight)
    = some [("gpu-1", "nc-b", "it-x"), ("gpu-0", "nc-a", "it-y"), ("gpu-0", "nc-a", "it-x")] := by decide
example : (DraTracker.run (Tracker.new []) (demoDra.take 4)).toOption.map (·.inflight)
    = some [("gpu-1", "nc-b", "it-x"), ("gpu-0", "nc-a", "it-y")] := by decide
example : (DraTracker.run (Tracker.new []) demoDra).toOption.map (·.inflight)
    = some [("gpu-0", "nc-b", "it-x"), ("gpu-1", "nc-b", "it-x")] := by decide
example : (match DraTracker.run (Tracker.new []) [.guarded "nc-a" [("it-x", [gpu0])], .commit "nc-b" [("it-x", [gpu0])]] with
    | .error p => some p | .ok _ => none) = some .otherNodeClaim := by decide

end DRA

/-! ## Dynamic resource allocation: shared counters (partitionable devices)

Full statement: *no shared device's counters are over-consumed, for all ResourceSlice / ResourceClaim populations.*
Proved here is the part that lives in the tracker's accounting (`partitionable_devices.go`), for one counter of one
pool: the budget starts at the counter minus the consumption of EVERY device of the pool that is allocated in the
cluster — whether or not the device's slice targets the empty requirements the pools are gathered with at allocator
construction (node-local slices and slices selected by custom labels do not) —, it equals `initial − Σ over NodeClaims
of the max over their instance types` along every sequence of commits and releases, and when every commit passed the
guard `checkCounters` it never goes negative; hence what is in use in the cluster plus the worst case of what the pass
hands out never exceeds the counter.  The search that produces the allocations is NOT modelled (`_partial`); its
outputs are judged on the real code by `Karp.Spec.DraExclusive.countersOK` (ops c17.alloc, c17.drapass). -/

section Counters
open Karp.DraBudget

/-- the budgets are initialised at allocator construction from the pools gathered there, and `InitRemainingCounters`
    deducts the devices allocated in the cluster (exclusively, or with consumed capacity) from BOTH device lists of a pool -/
theorem fact_counter_init :
    Karp.Gen.C17Facts.newAllocatorCounterCalls = ["GatherPools", "InitRemainingCounters"] ∧
    Karp.Gen.C17Facts.initCountersRanges = ["pool.Devices", "pool.NonTargetingDevices"] ∧
    Karp.Gen.C17Facts.initCountersGuards =
      ["!at.PreallocatedDevices.Has(D[i].ID) && !lo.HasKey(at.PreallocatedConsumedCapacity, D[i].ID)",
       "!at.PreallocatedDevices.Has(D[i].ID) && !lo.HasKey(at.PreallocatedConsumedCapacity, D[i].ID)"] := by decide

/-- every `Commit` books counters and capacity, every `ReleaseInstanceTypes` gives them back, and the search tests a
    device's capacity / exclusivity / counter budget before it books the device as allocating -/
theorem fact_counter_booking :
    Karp.Gen.C17Facts.trackerCommitBudgetCalls = ["commitCounters", "commitCapacity"] ∧
    Karp.Gen.C17Facts.trackerReleaseBudgetCalls = ["releaseCounters", "releaseCapacity"] ∧
    Karp.Gen.C17Facts.tryDeviceCounterCalls =
      ["checkCapacity", "IsAllocated", "checkCounters", "deductAllocatingCapacity", "deductAllocatingCounters"] := by decide

/-- **C17_counters_init** — `InitRemainingCounters` leaves the counter minus what every device of the pool that is
    already allocated in the cluster consumes, targeting or not. -/
theorem C17_counters_init (pre : List String) (p : Pool) :
    initRemaining pre p = p.total - preConsumed pre (p.devices ++ p.nonTargeting) := by
  simp only [initRemaining, Karp.Gen.C17Facts.initCountersRanges, List.foldl_cons, List.foldl_nil, Pool.field]
  rw [preConsumed_append]
  simp only [deduct_eq]
  simp
  omega

/-- **C17_counters_accounting** — for every sequence of guarded commits and instance-type releases (any NodeClaims, any
    instance types, any consumption) the remaining budget is exactly the initial one minus the worst case of what is
    committed, and it is never negative. -/
theorem C17_counters_accounting (init : Int) (h0 : 0 ≤ init) (ops : List DraBudget.Op)
    (hg : guarded (St.init init) ops = true) :
    (DraBudget.run (St.init init) ops).remaining = init - worst (DraBudget.run (St.init init) ops).stored ∧
    0 ≤ (DraBudget.run (St.init init) ops).remaining := by
  have I := run_inv init ops _ (inv_init init h0) hg
  exact ⟨by have := I.sum; omega, I.rem⟩

/-- **C17_counters_never_overconsumed_partial** — a pool whose partitions in use in the cluster fit its counter: after
    every such sequence, what is in use in the cluster plus the worst case (Σ over NodeClaims of the max over their
    instance types) of what the pass committed stays within the counter. -/
theorem C17_counters_never_overconsumed_partial (pre : List String) (p : Pool)
    (hc : preConsumed pre (p.devices ++ p.nonTargeting) ≤ p.total) (ops : List DraBudget.Op)
    (hg : guarded (St.init (initRemaining pre p)) ops = true) :
    preConsumed pre (p.devices ++ p.nonTargeting) + worst (DraBudget.run (St.init (initRemaining pre p)) ops).stored ≤ p.total := by
  have hi := C17_counters_init pre p
  have h0 : 0 ≤ initRemaining pre p := by omega
  obtain ⟨h1, h2⟩ := C17_counters_accounting (initRemaining pre p) h0 ops hg
  omega

/-- a node-local partitionable device: counter 40, three partitions of 20; at allocator construction its slices do not
    target the empty requirements, so all three are `NonTargetingDevices`; two of them are in use in the cluster -/
def demoGpu : Pool := { total := 40, devices := [], nonTargeting := [("mig-0", 20), ("mig-1", 20), ("mig-2", 20)] }

example : initRemaining ["mig-0", "mig-1"] demoGpu = 0 ∧ initRemaining ["mig-0"] demoGpu = 20 := by decide
/-- with the budget exhausted the guard lets no further partition through … -/
example : guarded (St.init (initRemaining ["mig-0", "mig-1"] demoGpu)) [.commit "node-a" [("it-x", 20)]] = false := by decide
/-- … with one partition in use exactly one more fits; a second NodeClaim is refused until the first releases -/
example : guarded (St.init (initRemaining ["mig-0"] demoGpu))
    [.commit "nc-a" [("it-x", 20), ("it-y", 20)], .release "nc-a" ["it-x"], .release "nc-a" ["it-y"], .commit "nc-b" [("it-x", 20)]] = true ∧
    guarded (St.init (initRemaining ["mig-0"] demoGpu)) [.commit "nc-a" [("it-x", 20), ("it-y", 20)], .commit "nc-b" [("it-x", 20)]] = false ∧
    (DraBudget.run (St.init (initRemaining ["mig-0"] demoGpu)) [.commit "nc-a" [("it-x", 20), ("it-y", 20)], .release "nc-a" ["it-x"]]).remaining = 0 ∧
    (DraBudget.run (St.init (initRemaining ["mig-0"] demoGpu)) [.commit "nc-a" [("it-x", 20), ("it-y", 20)], .release "nc-a" ["it-x", "it-y"]]).remaining = 20 := by decide
/-- the deduction of the non-targeting devices is necessary: a budget initialised from `pool.Devices` alone (40 here)
    lets a third partition through, 60 units of a counter of 40 -/
example : guarded (St.init (deduct ["mig-0", "mig-1"] demoGpu.total demoGpu.devices)) [.commit "node-a" [("it-x", 20)]] = true ∧
    preConsumed ["mig-0", "mig-1"] (demoGpu.devices ++ demoGpu.nonTargeting) +
      worst (DraBudget.run (St.init (deduct ["mig-0", "mig-1"] demoGpu.total demoGpu.devices)) [.commit "node-a" [("it-x", 20)]]).stored = 60 := by decide

end Counters

/-! ## DRA: consumable capacity of multi-allocatable devices

What an allocation consumes of a multi-allocatable device is fixed by resource.k8s.io/v1: EVERY capacity dimension of the
device is consumed — a dimension the request has no entry for at `requestPolicy.default`, without a default in full; a
requested amount is rounded up by the policy; an amount the policy rejects makes the device unusable for the request.
`Karp.DraCapacity` models `consumable_capacity.go` as it is; `Karp.Spec.DraExclusive.SDim.consumption` states the rules
independently.  Full statement (NOT proved — the allocator's search is not modelled): "for every population of slices
and claims the shares `Allocate` publishes, summed per device and dimension (worst case over the instance types of a
NodeClaim, summed over NodeClaims, plus what is consumed in the cluster), stay within the capacity".  Proved: the
consumption computed by the code equals the rules for every API-valid policy and every request; every sequence of shares
admitted by the guard stays within the capacity.  The published shares are judged on the real code by
`Karp.Spec.DraExclusive.capacityOK` / `shareOK` (ops c17.alloc, c17.drapass). -/

section Capacity
open Karp.DraCapacity Karp.Spec.DraExclusive

/-- the guard `checkCapacity`: it accepts without booking anything only for a device that is not multi-allocatable or has
    no capacity dimension at all; otherwise the request must name existing dimensions only, the consumption must be
    computable, and what is in use plus the consumption must not exceed the capacity -/
theorem fact_capacity_guard :
    Karp.Gen.C17Facts.checkCapacityReturns =
      [("!device.AllowMultipleAllocations", "return nil, true"),
       ("requestsContainNonExistCapacity(rd.CapacityRequests, device.Capacity)", "return nil, false"),
       ("err != nil", "return nil, false"),
       ("consumed == nil", "return nil, true"),
       ("used.Cmp(total) > 0", "return nil, false"),
       ("", "return consumed, true")] ∧
    Karp.Gen.C17Facts.checkCapacityCalls = ["requestsContainNonExistCapacity", "computeConsumedCapacity"] := by decide

/-- `computeConsumedCapacity` computes a consumption for every dimension of the DEVICE (no dimension is skipped), returns
    nothing only for a device without dimensions, and fails on a policy violation; an absent entry is filled in by
    `fillEmptyRequest` (default, else the whole capacity) before anything else is looked at -/
theorem fact_capacity_every_dimension :
    Karp.Gen.C17Facts.computeConsumedRanges = ["deviceCapacity"] ∧
    Karp.Gen.C17Facts.computeConsumedGuards = [""] ∧
    Karp.Gen.C17Facts.computeConsumedReturns.map (·.1) = ["len(deviceCapacity) == 0", "violatesPolicy(c, cap.RequestPolicy)", ""] ∧
    Karp.Gen.C17Facts.calculateConsumedReturns =
      [("requestedVal == nil", "return fillEmptyRequest(capacity)"),
       ("capacity.RequestPolicy == nil", "return requestedVal.DeepCopy()"),
       ("capacity.RequestPolicy.ValidRange != nil && capacity.RequestPolicy.ValidRange.Min != nil", "return roundUpRange(requestedVal, capacity.RequestPolicy.ValidRange)"),
       ("capacity.RequestPolicy.ValidValues != nil", "return roundUpValidValues(requestedVal, capacity.RequestPolicy.ValidValues)"),
       ("", "return requestedVal.DeepCopy()")] ∧
    Karp.Gen.C17Facts.fillEmptyRequestReturns =
      [("capacity.RequestPolicy != nil && capacity.RequestPolicy.Default != nil", "return capacity.RequestPolicy.Default.DeepCopy()"),
       ("", "return capacity.Value.DeepCopy()")] := by decide

/-- for every API-valid request policy and EVERY request (with or without an entry for the dimension) the code computes
    exactly the consumption the Kubernetes rules give, and fails exactly where the rules say the device cannot be used -/
theorem C17_capacity_consumption (d : SDim) (h : ValidDim d) (req : Option Int) :
    consumedDim req (Dim.ofFields d.cap d.default d.values d.range) = d.consumption req :=
  consumedDim_refines d h req

/-- a request without an entry for a dimension is never free: it consumes the default, without a default the whole
    capacity -/
theorem C17_capacity_implicit_share (d : SDim) (h : ValidDim d) :
    consumedDim none (Dim.ofFields d.cap d.default d.values d.range) = some (d.default.getD d.cap) :=
  consumedDim_refines d h none

/-- a consumption the code computes is never less than what was asked for -/
theorem C17_capacity_at_least_requested (d : SDim) (h : ValidDim d) (r c : Int)
    (hc : consumedDim (some r) (Dim.ofFields d.cap d.default d.values d.range) = some c) : r ≤ c := by
  rw [consumedDim_refines d h] at hc
  obtain ⟨dim, cap, pre, default, values, range⟩ := d
  exact consumption_ge dim cap pre default values range h.sorted (fun mn mx s hr => h.stepPos mn mx s hr) r c hc

/-- (partial: the guard only, one device dimension; the search that offers the shares is not modelled) whatever shares
    are offered to the guard of `checkCapacity`, in whatever order and however much is in use already, what is booked
    never exceeds the capacity -/
theorem C17_capacity_never_overconsumed_partial (total used : Int) (h : used ≤ total) (shares : List Int) :
    admitAll total used shares ≤ total :=
  admitAll_le total shares used h

/-- the device of the demonstration: 10 units, default 4, valid range from 1 — API-valid -/
def demoNic : SDim := { dim := "bandwidth", cap := 10, pre := 0, default := some 4, range := some (1, none, none) }

theorem demoNic_valid : ValidDim demoNic where
  oneOf := Or.inl rfl
  sorted := by simp [demoNic]
  needsDefault := fun _ => ⟨4, rfl⟩
  defaultValid := by intro dv _ hv; exact absurd rfl hv
  stepPos := by intro mn mx s hr; simp [demoNic] at hr
  defaultMax := by intro mn m st dv hr; simp [demoNic] at hr

/-- two claims without a capacity request consume 4 each; a third share of 4 no longer fits: 8 of 10 are booked -/
example : consumedDim none (Dim.ofFields demoNic.cap demoNic.default demoNic.values demoNic.range) = some 4 ∧
    admitAll 10 0 [4, 4, 4] = 8 := by decide
/-- were a request without an entry free of charge, the three claims would all be admitted: 12 of 10 -/
example : admitAll 10 0 [0, 0, 4] = 4 ∧ (4 : Int) + 4 + 4 > 10 := by decide
/-- rounding: validValues [2, 4, 8]: a request of 3 consumes 4, a request of 9 cannot be served; range min 2 step 2 max 6:
    a request of 3 consumes 4, a request of 7 would be rounded to 8 > max and cannot be served -/
example : consumedDim (some 3) (Dim.ofFields 8 (some 2) [2, 4, 8] none) = some 4 ∧
    consumedDim (some 9) (Dim.ofFields 8 (some 2) [2, 4, 8] none) = none ∧
    consumedDim (some 3) (Dim.ofFields 8 (some 2) [] (some (2, some 6, some 2))) = some 4 ∧
    consumedDim (some 7) (Dim.ofFields 8 (some 2) [] (some (2, some 6, some 2))) = none := by decide

end Capacity

/-! ### The loop of `NodeClaim.CanAdd` over the pod's volume topology alternatives

Full statement wanted by the property (strict mode: compatible reserved capacity exists but is exhausted ⇒ the pod is
deferred, i.e. the caller must SEE the reserved-offering error):

    theorem C17_alternatives_keep_reserved_error (alts) (h : .reserved ∈ alts) (hno : .ok ∉ alts) : canAdd alts = .reserved

The code at the pinned commit (`canAdd`) violated it (corpus/c17.pass/015): the error of the LAST alternative was returned,
so a plain failure of a later alternative shadowed the reserved-offering error of an earlier one and the pod fell through
to a lower-weight NodePool.  Found by `c17.pass` and repaired in /repo by fix 4e92d1703 (known_findings.json `fixed`); the
code is now `canAddFixed`.  Proved: for the old loop the negation on a concrete witness and the partial statement (last
alternative decisive; every pod with ONE alternative keeps the error); for the code as it is now the full statement,
`C17_alternatives_keep_reserved_error_fixed`. -/
section Alternatives
open Karp.VolumeAlternatives Karp.FirstSuccess

theorem canAddFrom_no_ok (last : Outcome) (alts : List Outcome) (hno : Outcome.ok ∉ alts) :
    canAddFrom last alts = (alts.getLast?).getD last := by
  induction alts generalizing last with
  | nil => rfl
  | cons e rest ih =>
    have he : e ≠ .ok := fun h => hno (by simp [h])
    have hr : Outcome.ok ∉ rest := fun h => hno (by simp [h])
    cases e with
    | ok => exact absurd rfl he
    | fail =>
      simp only [canAddFrom]; rw [ih _ hr]
      cases rest with
      | nil => simp
      | cons h t =>
        rw [List.getLast?_cons_cons]
        cases hl : (h :: t).getLast? with
        | none => simp at hl
        | some v => rfl
    | reserved =>
      simp only [canAddFrom]; rw [ih _ hr]
      cases rest with
      | nil => simp
      | cons h t =>
        rw [List.getLast?_cons_cons]
        cases hl : (h :: t).getLast? with
        | none => simp at hl
        | some v => rfl

/-- negation witness: first alternative reserved-offering error, second a plain failure ⇒ the caller sees a plain failure -/
theorem C17_alternatives_shadow_reserved_error :
    canAdd [.reserved, .fail] = .fail ∧ Outcome.reserved ∈ [Outcome.reserved, Outcome.fail] ∧ Outcome.ok ∉ [Outcome.reserved, Outcome.fail] := by
  decide

/-- partial: when no alternative succeeds the LAST alternative's error is what the caller sees -/
theorem C17_alternatives_keep_reserved_error_partial (alts : List Outcome) (hno : Outcome.ok ∉ alts)
    (hlast : alts.getLast? = some .reserved) : canAdd alts = .reserved := by
  unfold canAdd
  rw [canAddFrom_no_ok _ _ hno, hlast]; rfl

/-- a pod with a single alternative (no volume requirements, or one topology term per volume) keeps the error -/
theorem C17_single_alternative_keeps_reserved_error (e : Outcome) : canAdd [e] = e := by
  cases e <;> rfl

/-- a success is never turned into a deferral and vice versa: the loop answers ok iff some alternative succeeds -/
theorem C17_alternatives_ok_iff (alts : List Outcome) : canAdd alts = .ok ↔ Outcome.ok ∈ alts := by
  unfold canAdd
  suffices h : ∀ last, last ≠ .ok → (canAddFrom last alts = .ok ↔ Outcome.ok ∈ alts) from h .fail (by decide)
  induction alts with
  | nil => intro last hl; simp [canAddFrom, hl]
  | cons e rest ih =>
    intro last hl
    cases e with
    | ok => simp [canAddFrom]
    | fail => simp only [canAddFrom]; rw [ih .fail (by decide)]; simp
    | reserved => simp only [canAddFrom]; rw [ih .reserved (by decide)]; simp

theorem canAddFromFixed_reserved (alts : List Outcome) (hno : Outcome.ok ∉ alts) :
    canAddFromFixed .reserved alts = .reserved := by
  induction alts with
  | nil => rfl
  | cons e rest ih =>
    have he : e ≠ .ok := fun h => hno (by simp [h])
    have hr : Outcome.ok ∉ rest := fun h => hno (by simp [h])
    cases e with
    | ok => exact absurd rfl he
    | fail => simpa [canAddFromFixed] using ih hr
    | reserved => simpa [canAddFromFixed] using ih hr

/-- the full statement holds for the proposed repair -/
theorem C17_alternatives_keep_reserved_error_fixed (alts : List Outcome) (h : Outcome.reserved ∈ alts) (hno : Outcome.ok ∉ alts) :
    canAddFixed alts = .reserved := by
  unfold canAddFixed
  suffices hs : ∀ last, canAddFromFixed last alts = .reserved from hs .fail
  induction alts with
  | nil => simp at h
  | cons e rest ih =>
    intro last
    have he : e ≠ .ok := fun h' => hno (by simp [h'])
    have hr : Outcome.ok ∉ rest := fun h' => hno (by simp [h'])
    cases e with
    | ok => exact absurd rfl he
    | reserved =>
      simp only [canAddFromFixed]
      have : (if last == Outcome.reserved then Outcome.reserved else Outcome.reserved) = .reserved := by split <;> rfl
      rw [this]; exact canAddFromFixed_reserved rest hr
    | fail =>
      have hin : Outcome.reserved ∈ rest := by simpa using h
      simp only [canAddFromFixed]
      exact ih hin hr _

example : canAdd [.fail, .reserved] = .reserved ∧ canAdd [.reserved, .ok] = .ok ∧ canAddFixed [.reserved, .fail] = .reserved := by decide

end Alternatives

end Karp.C17
