/- C06: property theorems (stub, not yet built) -/
namespace Karp.C06
end Karp.C06
